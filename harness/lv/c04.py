"""C04 — every concrete execution of a method is a path in its control-flow graph.

Real code: ControlFlowAnalysis (src/lian/basics/control_flow.py) from $LIAN_REPO as it is now.
Lean side (lvdrv): model "cfg" (the analysis, variant live|pinned) and "cfgcheck" (the certified
monitor `cfgCheck` + the skeleton interpreter `runCtl`).

Tie (a), direct:  structured program -> GIR tree -> GIRProcessing.flatten -> DataModel -> read_block
   -> ControlFlowAnalysis(stub loader).analyze(); the flattened rows are converted back to the
   structured form (rows_to_struct, also used by tie (b)); compared: sorted (src,dst,kind) lists of
   real code and model; cfgCheck and the Python run enumeration are applied to the REAL edges.
Tie (b), frontends: generated programs rendered as Python / JavaScript / Java source, one packed
   `lian run` per language; GIR read from frontend/gir.bundle*, CFG from semantic_p1/cfg.bundle*;
   the same comparison on the real rows of every method.
Independent oracle: `enum_runs` — a Python interpreter of the control skeleton enumerating runs
   (every branch both ways, every loop 0/1/2 times, every case, raise at every step of a try body)
   and checking path inclusion, entry and exit on the real edges.  It shares no code with Lean.
"""
import glob, hashlib, itertools, json, math, os, random, shutil, subprocess, sys, time
import common
from common import drv_batch, drv_ok

PROP = "C04"
LOOP_OPS = ("while_stmt", "forin_stmt", "for_value_stmt")
CLASS_OPS = ("class_decl", "record_decl", "interface_decl", "struct_decl")
KIND_NAMES = ["EMPTY", "IF_TRUE", "IF_FALSE", "LOOP_TRUE", "LOOP_FALSE", "LOOP_BACK", "CONTINUE", "RETURN",
              "CATCH_TRUE", "CATCH_FALSE", "CATCH_FINALLY"]
BLOCK_KEYS = {"simple": [], "decl": [], "brk": [], "cont": [], "ret": [],
              "if": ["thn", "els"], "while": ["pre", "body", "els"], "do": ["body", "pre"],
              "for": ["init", "pre", "upd", "body"], "class": ["sinit", "init", "methods", "nested"],
              "try": ["body", "els", "fin"], "switch": []}

# ------------------------------------------------------------------------------------------------
# structured programs ("shapes": the JSON form of Lean's S without ids) -> GIR trees
# ------------------------------------------------------------------------------------------------

SIMPLE_OPS = [
    lambda: {"assign_stmt": {"target": "x", "operand": "1"}},
    lambda: {"call_stmt": {"target": "%vv1", "name": "g", "positional_args": "['x']"}},
    lambda: {"variable_decl": {"name": "x"}},
    lambda: {"yield_stmt": {"target": "x"}},
    lambda: {"field_write": {"receiver_object": "o", "field": "f", "source": "x"}},
    lambda: {"assert_stmt": {"condition": "x"}},
]


def shape_to_gir(block, rng=None, lang_style=None):
    """list of shape statements -> list of GIR statement dicts (what a frontend hands to flatten)."""
    out = []
    for s in block:
        k = s["k"]
        sub = lambda name: shape_to_gir(s.get(name) or [], rng, lang_style)
        def put(d, key, blk, always=False):
            # an absent block and an empty list flatten to the same row; exercise both spellings
            if blk or always or (rng is not None and rng.random() < 0.3):
                d[key] = blk
        if k == "simple":
            if "sop" in s:
                out.append(SIMPLE_OPS[s["sop"]]())
            else:
                out.append((rng.choice(SIMPLE_OPS) if rng else SIMPLE_OPS[0])())
        elif k == "brk":
            out.append({"break_stmt": {"name": ""}})
        elif k == "cont":
            out.append({"continue_stmt": {"name": ""}})
        elif k == "ret":
            out.append({"return_stmt": {"name": "x"}})
        elif k == "decl":
            if "mbody" in s or "mparams" in s:
                # a nested method that is itself checked (name "nm"): own parameter block / init / body
                out.append(method_tree(s.get("mbody") or [], {"n": s.get("mparams", 1), "pextra": s.get("pextra", False),
                                                              "minit": s.get("minit", False)}, "nm", rng))
            else:
                out.append({"method_decl": {"name": "inner", "parameters": [{"parameter_decl": {"name": "a"}}],
                                            "body": [{"return_stmt": {"name": "a"}}]}})
        elif k == "if":
            d = {"condition": "c"}
            put(d, "then_body", sub("thn")); put(d, "else_body", sub("els"))
            out.append({"if_stmt": d})
        elif k == "while":
            pre, body, els = sub("pre"), sub("body"), sub("els")
            op = s.get("op", "while_stmt")
            if op == "while_stmt":
                d = {"condition": ("True" if (rng is None or rng.random() < 0.5) else "true") if s.get("ct") else "c"}
                put(d, "condition_prebody", pre)
            else:
                d = {"name": "i", "receiver": "xs"}
            put(d, "body", body); put(d, "else_body", els)
            out.append({op: d})
        elif k == "do":
            d = {}
            put(d, "body", sub("body")); put(d, "condition_prebody", sub("pre"))
            d["condition"] = "true" if s.get("ct") else "c"
            out.append({"dowhile_stmt": d})
        elif k == "for":
            d = {}
            put(d, "init_body", sub("init"))
            d["condition"] = "true" if s.get("ct") else "c"
            put(d, "condition_prebody", sub("pre")); put(d, "update_body", sub("upd")); put(d, "body", sub("body"))
            out.append({"for_stmt": d})
        elif k == "class":
            d = {"name": "K"}
            if s.get("flds"):
                d["fields"] = [{"variable_decl": {"name": "q"}}]
            put(d, "static_init", sub("sinit")); put(d, "init", sub("init"))
            put(d, "methods", sub("methods")); put(d, "nested", sub("nested"))
            out.append({s.get("op", "class_decl"): d})
        elif k == "try":
            d = {}
            put(d, "body", sub("body"))
            clauses = [{"catch_clause": (lambda b: {"exception": "E", "body": b} if b else {"exception": "E"})(
                shape_to_gir(c.get("body") or [], rng, lang_style))} for c in s.get("catches") or []]
            put(d, "catch_body", clauses)
            put(d, "else_body", sub("els")); put(d, "final_body", sub("fin"))
            out.append({"try_stmt": d})
        elif k == "switch":
            cases = []
            for c in s.get("cases") or []:
                b = shape_to_gir(c.get("body") or [], rng, lang_style)
                if c.get("dflt"):
                    cases.append({"default_stmt": {"body": b} if b else {}})
                else:
                    cases.append({"case_stmt": {"condition": "1", "body": b} if b else {"condition": "1"}})
            d = {"condition": "x"}
            put(d, "body", cases)
            out.append({"switch_stmt": d})
        else:
            raise ValueError("unknown shape kind " + k)
    return out


def np_spec(np):
    """parameter spec: an int, or {"n":…, "pextra": default-value statement in the parameter block,
    "minit": the method_decl carries an init block}"""
    if isinstance(np, dict):
        return int(np.get("n", 0)), bool(np.get("pextra")), bool(np.get("minit"))
    return int(np), False, False


def method_tree(shape_body, nparams, name, rng=None):
    n, pextra, minit = np_spec(nparams)
    d = {"name": name}
    if n:
        ps = []
        for i in range(n):
            if pextra and i == n - 1:
                # default value computed by a statement that sits in the parameter block
                ps.append({"assign_stmt": {"target": "%dv0", "operand": "1"}})
                ps.append({"parameter_decl": {"name": f"p{i}", "default_value": "%dv0"}})
            else:
                ps.append({"parameter_decl": {"name": f"p{i}"}})
        d["parameters"] = ps
    if minit:
        d["init"] = [{"assign_stmt": {"target": "p0", "operand": "1"}}]
    d["body"] = shape_to_gir(shape_body, rng)
    return {"method_decl": d}


# ------------------------------------------------------------------------------------------------
# flattened rows (real GIR) -> structured form with ids
# ------------------------------------------------------------------------------------------------

class OutOfModel(Exception):
    pass


def _isna(v):
    return v is None or (isinstance(v, float) and math.isnan(v)) or v == ""


def _blk(v):
    return None if _isna(v) else int(v)


def parse_rows(rows):
    """rows: list of dicts (operation, stmt_id, parent_stmt_id, attrs).  Returns (children, by_id):
    children[block_id] = list of statement rows directly inside that block, in order;
    children[0] = top-level rows."""
    children = {0: []}
    stack = [0]
    for r in rows:
        op = r["operation"]
        if op == "block_start":
            bid = int(r["stmt_id"])
            children[bid] = []
            stack.append(bid)
        elif op == "block_end":
            if stack[-1] != int(r["stmt_id"]):
                raise OutOfModel("block nesting mismatch")
            stack.pop()
        else:
            children[stack[-1]].append(r)
    return children


def child_blocks(rows_index, sid):
    """ids of the blocks whose block_start row has parent_stmt_id == sid (in layout order)."""
    return rows_index.get(sid, [])


def rows_to_struct(block_rows, children, blocks_of, lang="gir"):
    """Statement rows of one block -> list of structured statements (JSON form of S)."""
    out = []
    for r in block_rows:
        op = r["operation"]
        sid = int(r["stmt_id"])
        have = list(blocks_of.get(sid, []))

        def take(attr):
            b = _blk(r.get(attr))
            if b is None:
                return []
            if b not in children:
                raise OutOfModel(f"{op}.{attr} names a block that is not in the method")
            if b not in have:
                raise OutOfModel(f"{op}.{attr} block is not laid out under the statement")
            have.remove(b)
            if not children[b]:
                raise OutOfModel(f"{op}.{attr} is an empty but present block")
            return rows_to_struct(children[b], children, blocks_of, lang)

        def done(stmt):
            if have:
                raise OutOfModel(f"{op} carries a block the CFG handler does not read")
            out.append(stmt)

        if op == "if_stmt":
            done({"k": "if", "id": sid, "thn": take("then_body"), "els": take("else_body")})
        elif op in LOOP_OPS:
            cond = r.get("condition")
            ct = (not _isna(cond)) and cond in ("true", "True")
            done({"k": "while", "id": sid, "ct": bool(ct), "pre": take("condition_prebody"), "body": take("body"),
                  "els": take("else_body")})
        elif op == "dowhile_stmt":
            cond = r.get("condition")
            ct = (not _isna(cond)) and cond in ("true", "True")
            done({"k": "do", "id": sid, "ct": bool(ct), "body": take("body"), "pre": take("condition_prebody")})
        elif op == "for_stmt":
            cond = r.get("condition")
            ct = (not _isna(cond)) and cond in ("true", "True")
            st = {"k": "for", "id": sid, "ct": bool(ct), "init": take("init_body"), "pre": take("condition_prebody"),
                  "upd": take("update_body"), "body": take("body")}
            done(st)
        elif op == "break_stmt":
            done({"k": "brk", "id": sid})
        elif op == "continue_stmt":
            done({"k": "cont", "id": sid})
        elif op == "return_stmt":
            done({"k": "ret", "id": sid})
        elif op == "method_decl":
            # one node; parameters/init/body are skipped by boundary_of_multi_blocks
            for a in ("parameters", "init", "body"):
                b = _blk(r.get(a))
                if b is not None and b in have:
                    have.remove(b)
            if not blocks_of.get(sid):
                raise OutOfModel("nested method_decl without any block")
            done({"k": "decl", "id": sid})
        elif op in CLASS_OPS:
            flds = False
            b = _blk(r.get("fields"))
            if b is not None:
                if b not in have:
                    raise OutOfModel("class fields block not laid out under the statement")
                have.remove(b)
                flds = True
            done({"k": "class", "id": sid, "flds": flds, "sinit": take("static_init"), "init": take("init"),
                  "methods": take("methods"), "nested": take("nested")})
        elif op == "try_stmt":
            body = take("body")
            catches = []
            cb = _blk(r.get("catch_body"))
            if cb is not None:
                if cb not in have:
                    raise OutOfModel("catch_body not laid out under the try_stmt")
                have.remove(cb)
                if not children[cb]:
                    raise OutOfModel("empty but present catch_body")
                for c in children[cb]:
                    if c["operation"] != "catch_clause":
                        raise OutOfModel("catch_body contains a " + c["operation"])
                    cid = int(c["stmt_id"])
                    chave = list(blocks_of.get(cid, []))
                    bb = _blk(c.get("body"))
                    cbody = []
                    if bb is not None:
                        if bb not in chave:
                            raise OutOfModel("catch_clause body layout")
                        chave.remove(bb)
                        cbody = rows_to_struct(children[bb], children, blocks_of, lang)
                    if chave:
                        raise OutOfModel("catch_clause carries an unread block")
                    catches.append({"id": cid, "body": cbody})
            done({"k": "try", "id": sid, "body": body, "catches": catches, "els": take("else_body"),
                  "fin": take("final_body")})
        elif op == "switch_stmt":
            cases = []
            sb = _blk(r.get("body"))
            if sb is not None:
                if sb not in have:
                    raise OutOfModel("switch body layout")
                have.remove(sb)
                if not children[sb]:
                    raise OutOfModel("empty but present switch body")
                for c in children[sb]:
                    if c["operation"] not in ("case_stmt", "default_stmt"):
                        raise OutOfModel("switch body contains a " + c["operation"])
                    cid = int(c["stmt_id"])
                    chave = list(blocks_of.get(cid, []))
                    bb = _blk(c.get("body"))
                    cbody = []
                    if bb is not None:
                        if bb not in chave:
                            raise OutOfModel("case body layout")
                        chave.remove(bb)
                        cbody = rows_to_struct(children[bb], children, blocks_of, lang)
                    if chave:
                        raise OutOfModel("case_stmt carries an unread block")
                    cases.append({"id": cid, "dflt": c["operation"] == "default_stmt", "body": cbody})
            done({"k": "switch", "id": sid, "ft": lang != "python", "cases": cases})
        elif op in ("yield", "goto_stmt", "label_stmt", "catch_clause", "case_stmt", "default_stmt"):
            raise OutOfModel("operation " + op + " is outside the model")
        else:
            if have:
                raise OutOfModel(f"unhandled operation {op} carries blocks (their markers become CFG nodes)")
            out.append({"k": "simple", "id": sid})
    return out


def index_blocks(rows):
    """blocks_of[stmt_id] = ids of the blocks laid out under that statement, in row order."""
    blocks_of = {}
    for r in rows:
        if r["operation"] == "block_start":
            blocks_of.setdefault(int(r["parent_stmt_id"]), []).append(int(r["stmt_id"]))
    return blocks_of


def methods_of_rows(rows, lang="gir"):
    """Every method_decl of a flattened unit -> (method_id, name, params_struct, body_struct | OutOfModel text)."""
    children = parse_rows(rows)
    blocks_of = index_blocks(rows)
    res = []
    for r in rows:
        if r["operation"] != "method_decl":
            continue
        mid = int(r["stmt_id"])
        try:
            pb, bb = _blk(r.get("parameters")), _blk(r.get("body"))
            params = rows_to_struct(children.get(pb, []), children, blocks_of, lang) if pb is not None else []
            body = rows_to_struct(children.get(bb, []), children, blocks_of, lang) if bb is not None else []
            if list(all_kinds(params)) and any(k != "simple" for k in all_kinds(params)):
                # the model treats the parameter block like any block; keep the claim narrow anyway
                pass
            res.append((mid, r.get("name"), params, body, None))
        except OutOfModel as e:
            res.append((mid, r.get("name"), None, None, str(e)))
    return res


def walk(block):
    """all statements of a structured block, depth first (clauses and cases are not statements)."""
    for s in block:
        yield s
        for key in BLOCK_KEYS[s["k"]]:
            yield from walk(s.get(key) or [])
        for c in s.get("catches") or []:
            yield from walk(c.get("body") or [])
        for c in s.get("cases") or []:
            yield from walk(c.get("body") or [])


def all_kinds(block):
    for s in walk(block):
        yield s["k"]


def strip_ids(block):
    out = []
    for s in block:
        t = {"k": s["k"]}
        for key in ("ct", "flds", "ft"):
            if key in s:
                t[key] = s[key]
        for key in BLOCK_KEYS[s["k"]]:
            t[key] = strip_ids(s.get(key) or [])
        if s["k"] == "try":
            t["catches"] = [{"body": strip_ids(c.get("body") or [])} for c in s.get("catches") or []]
        if s["k"] == "switch":
            t["cases"] = [{"dflt": bool(c.get("dflt")), "body": strip_ids(c.get("body") or [])}
                          for c in s.get("cases") or []]
        out.append(t)
    return out


def norm_shape(block):
    """shape as the converter would see it (defaults filled in) — to compare with strip_ids."""
    out = []
    for s in block:
        k = s["k"]
        t = {"k": k}
        if k in ("while", "do", "for"):
            t["ct"] = bool(s.get("ct"))
        if k == "class":
            t["flds"] = bool(s.get("flds"))
        if k == "switch":
            t["ft"] = True
        for key in BLOCK_KEYS[k]:
            t[key] = norm_shape(s.get(key) or [])
        if k == "try":
            t["catches"] = [{"body": norm_shape(c.get("body") or [])} for c in s.get("catches") or []]
        if k == "switch":
            t["cases"] = [{"dflt": bool(c.get("dflt")), "body": norm_shape(c.get("body") or [])}
                          for c in s.get("cases") or []]
        out.append(t)
    return out


# ------------------------------------------------------------------------------------------------
# real code, direct route
# ------------------------------------------------------------------------------------------------

class StubLoader:
    def __init__(self):
        self.saved = {}

    def get_method_cfg(self, method_id):
        return None

    def save_method_cfg(self, method_id, cfg):
        self.saved[method_id] = cfg


def real_cfgs_of_tree(tree, first_id=10):
    """GIR tree (list of top-level method_decl dicts) -> (rows, {method_id: sorted edge list | 'exception:Name'})."""
    from lian.lang.lang_analysis import GIRProcessing
    from lian.util.data_model import DataModel
    from lian.util.gir_block import GIRBlockViewer
    from lian.basics.control_flow import ControlFlowAnalysis
    from lian.events.default_event_handlers.basic import add_main_func
    from lian.events.handler_template import EventData
    _, rows = GIRProcessing(first_id).flatten(tree)
    ev = EventData("python", 0, rows)
    add_main_func(ev)                      # no top-level statements here: leaves the rows as they are
    if getattr(ev, "out_data", None):
        rows = ev.out_data
    dm = DataModel(rows)
    out = {}
    for r in rows:
        if r["operation"] == "method_decl" and (r["parent_stmt_id"] == 0 or r.get("name") == "nm"):
            mid = r["stmt_id"]
            decl = dm.query_index_column_value_first("stmt_id", mid)
            params = dm.read_block(decl.parameters) if not _isna(r.get("parameters")) else None
            body = dm.read_block(decl.body)
            stub = StubLoader()
            try:
                g = ControlFlowAnalysis(stub, mid, GIRBlockViewer(params), GIRBlockViewer(body)).analyze()
                if stub.saved.get(mid) is not g:
                    raise RuntimeError("analyze() did not save the graph it returned")
                out[mid] = sorted([int(u), int(v), int(d["weight"])] for u, v, d in g.edges(data=True))
            except (IndexError, TypeError, AttributeError, KeyError, ValueError) as e:
                out[mid] = "exception:" + type(e).__name__
    return rows, out


def live_kinds():
    from lian.config.constants import CONTROL_FLOW_KIND
    return [int(getattr(CONTROL_FLOW_KIND, n)) for n in KIND_NAMES]


def fingerprints():
    import inspect
    from lian.basics import control_flow
    from lian import common_structs
    from lian.util import gir_block
    fp = {}
    for name, obj in (("ControlFlowAnalysis", control_flow.ControlFlowAnalysis),
                      ("BasicGraph._add_one_edge", common_structs.BasicGraph._add_one_edge),
                      ("BasicGraph.add_edge", common_structs.BasicGraph.add_edge),
                      ("ControlFlowGraph.add_edge", common_structs.ControlFlowGraph.add_edge),
                      ("GIRBlockViewer", gir_block.GIRBlockViewer)):
        fp[name] = hashlib.sha256(inspect.getsource(obj).encode()).hexdigest()[:16]
    return fp


# ------------------------------------------------------------------------------------------------
# independent oracle: enumerate skeleton runs in Python and check them against an edge set
# ------------------------------------------------------------------------------------------------

class Stop(Exception):
    """the run is cut (loop bound reached on an endless loop)"""


class Decisions:
    """Binary decision source driven by a prefix; records how many decisions were taken so that the
    caller can enumerate all decision vectors depth first."""

    def __init__(self, prefix):
        self.prefix = prefix
        self.taken = []            # (value, forced)

    def bit(self, forced=None):
        i = len(self.taken)
        if forced is not None:
            v = forced
        elif i < len(self.prefix):
            v = self.prefix[i]
        else:
            v = False
        self.taken.append((v, forced is not None))
        return v


class Interp:
    """Control-skeleton interpreter (the same reading as Spec/Ctl.lean, written independently):
    outcome in normal/brk/cont/ret/raise.  Every loop activation iterates at most `bound` times."""

    def __init__(self, dec, bound=2):
        self.d = dec
        self.trace = []
        self.bound = bound

    def tick(self, sid, rz):
        self.trace.append(sid)
        if rz and self.d.bit():
            return "raise"
        return "normal"

    def block(self, blk, rz):
        for s in blk:
            o = self.stmt(s, rz)
            if o != "normal":
                return o
        return "normal"

    def loop_test(self, ct, iters):
        """does the loop go round (again)?"""
        if ct:
            if iters >= self.bound:
                raise Stop()
            return True
        return self.d.bit(forced=False if iters >= self.bound else None)

    def stmt(self, s, rz):
        k, sid = s["k"], s["id"]
        if k in ("simple", "decl"):
            return self.tick(sid, rz)
        if k == "brk":
            self.trace.append(sid); return "brk"
        if k == "cont":
            self.trace.append(sid); return "cont"
        if k == "ret":
            self.trace.append(sid); return "ret"
        if k == "if":
            o = self.tick(sid, rz)
            if o != "normal":
                return o
            return self.block(s["thn"] if self.d.bit() else s["els"], rz)
        if k == "while":
            iters = 0
            while True:
                o = self.block(s["pre"], rz)
                if o != "normal":
                    return o
                o = self.tick(sid, rz)
                if o != "normal":
                    return o
                if not self.loop_test(s["ct"], iters):
                    return self.block(s["els"], rz)
                iters += 1
                o = self.block(s["body"], rz)
                if o == "brk":
                    return "normal"
                if o not in ("normal", "cont"):
                    return o
        if k == "do":
            iters = 0
            while True:
                o = self.block(s["body"], rz)
                if o == "brk":
                    return "normal"
                if o not in ("normal", "cont"):
                    return o
                o = self.block(s["pre"], rz)
                if o != "normal":
                    return o
                o = self.tick(sid, rz)
                if o != "normal":
                    return o
                iters += 1
                if not self.loop_test(s["ct"], iters - 1):
                    return "normal"
        if k == "for":
            o = self.block(s["init"], rz)
            if o != "normal":
                return o
            iters = 0
            while True:
                o = self.block(s["pre"], rz)
                if o != "normal":
                    return o
                o = self.tick(sid, rz)
                if o != "normal":
                    return o
                if not self.loop_test(s["ct"], iters):
                    return "normal"
                iters += 1
                o = self.block(s["body"], rz)
                if o == "brk":
                    return "normal"
                if o not in ("normal", "cont"):
                    return o
                o = self.block(s["upd"], rz)
                if o != "normal":
                    return o
        if k == "class":
            o = self.tick(sid, rz)
            for key in ("sinit", "init", "methods", "nested"):
                if o != "normal":
                    return o
                o = self.block(s[key], rz)
            return o
        if k == "try":
            self.trace.append(sid)
            has_c = bool(s["catches"])
            o = self.block(s["body"], rz or has_c)
            if o == "normal":
                o = self.block(s["els"], rz)
            elif o == "raise" and has_c:
                chosen = s["catches"][-1]
                for c in s["catches"][:-1]:
                    if self.d.bit():
                        chosen = c
                        break
                self.trace.append(chosen["id"])
                o = self.block(chosen["body"], rz)
            else:
                return o
            if o != "normal":
                return o
            return self.block(s["fin"], rz)
        if k == "switch":
            o = self.tick(sid, rz)
            if o != "normal":
                return o
            cases = s["cases"]
            start = None
            for i, c in enumerate(cases):
                if not c["dflt"] and self.d.bit():
                    start = i
                    break
            if start is None:
                for i, c in enumerate(cases):
                    if c["dflt"]:
                        start = i
                        break
            if start is None:
                return "normal"
            self.trace.append(cases[start]["id"])
            i = start
            while i < len(cases):
                o = self.block(cases[i]["body"], rz)
                if o == "brk":
                    return "normal"
                if o != "normal":
                    return o
                if not (s["ft"] or not cases[i]["body"]):
                    return "normal"
                i += 1
            return "normal"
        raise ValueError(k)


def enum_runs(params, body, max_runs=4000, bound=2, rng=None):
    """yield (trace, outcome, bits) for decision vectors in depth-first order (capped)."""
    stack = [[]]
    n = 0
    while stack and n < max_runs:
        prefix = stack.pop()
        d = Decisions(prefix)
        it = Interp(d, bound)
        try:
            o = it.block(params, False)
            if o == "normal":
                o = it.block(body, False)
        except Stop:
            o = "stop"
        n += 1
        yield it.trace, o, [v for v, _ in d.taken]
        # children: flip each free decision after the prefix (taken with default False) to True
        ext = []
        for i in range(len(prefix), len(d.taken)):
            v, forced = d.taken[i]
            if not forced:
                ext.append([x for x, _ in d.taken[:i]] + [True])
        if rng is not None:
            rng.shuffle(ext)
        stack.extend(reversed(ext))


def oracle_check(params, body, edges, max_runs=4000, rng=None):
    """Returns (violations, nruns, exhausted): violations is a list of
    ('edge', a, b) | ('entry', x) | ('exit', x) | ('node', x) found on enumerated runs."""
    E = set((a, b) for a, b in edges)
    indeg = {}
    for a, b in E:
        indeg[b] = indeg.get(b, 0) + 1
    viol = set()
    nruns = 0
    gen = enum_runs(params, body, max_runs=max_runs, rng=rng)
    for trace, out, _ in gen:
        nruns += 1
        if not trace:
            continue
        if indeg.get(trace[0], 0) != 0:
            viol.add(("entry", trace[0]))
        for a, b in zip(trace, trace[1:]):
            if a != b and (a, b) not in E:
                viol.add(("edge", a, b))
        if out in ("normal", "ret") and (trace[-1], -1) not in E:
            viol.add(("edge", trace[-1], -1))
    own = set(s["id"] for s in walk(params)) | set(s["id"] for s in walk(body)) | {-1}
    for s in list(walk(params)) + list(walk(body)):
        for c in (s.get("catches") or []) + (s.get("cases") or []):
            own.add(c["id"])
    for a, b in E:
        for x in (a, b):
            if x not in own:
                viol.add(("node", x))
    return sorted(viol), nruns, nruns < max_runs


# ------------------------------------------------------------------------------------------------
# known findings: narrow matchers over (structured method, violation)
# ------------------------------------------------------------------------------------------------

def ticking_ids(block, stop_at_handled_try=True):
    """ids of the steps of a block that can raise into the handlers of the try whose body this is:
    every tick at any depth, not inside the body of a nested try that has clauses of its own."""
    ids = set()
    for s in block:
        k = s["k"]
        if k in ("simple", "decl", "if", "while", "do", "for", "class", "switch"):
            ids.add(s["id"])
        for key in BLOCK_KEYS[k]:
            if k == "try" and key == "body" and s["catches"]:
                continue
            ids |= ticking_ids(s.get(key) or [])
        for c in s.get("catches") or []:
            ids |= ticking_ids(c.get("body") or [])
        for c in s.get("cases") or []:
            ids |= ticking_ids(c.get("body") or [])
    return ids


def free_breaks(block):
    """break statements of a block that the block's own loops/switches do not bind, as
    analyze_block collects them (nothing after a break/continue/return of the same block is
    visited; the else_body of a while belongs to the enclosing construct)."""
    res = set()
    for s in block:
        k = s["k"]
        if k == "brk":
            res.add(s["id"])
        if k in ("brk", "cont", "ret"):
            break
        if k == "if":
            res |= free_breaks(s["thn"]) | free_breaks(s["els"])
        elif k == "while":
            res |= free_breaks(s["pre"]) | free_breaks(s["els"])
        elif k == "do":
            pass
        elif k == "for":
            res |= free_breaks(s["init"]) | free_breaks(s["pre"])
        elif k == "class":
            for key in ("sinit", "init", "methods", "nested"):
                res |= free_breaks(s[key])
        elif k == "try":
            res |= free_breaks(s["body"]) | free_breaks(s["els"]) | free_breaks(s["fin"])
            for c in s["catches"]:
                res |= free_breaks(c["body"])
    return res


def last_ids(block, parents=frozenset()):
    """the ids of `previous` after analyze_block(block, parents) in the repaired code: the
    statements the CFG builder treats as normal-completion frontier of the block."""
    cur = set(parents)
    for s in block:
        k, sid = s["k"], s["id"]
        if k in ("simple", "decl"):
            cur = {sid}
        elif k in ("brk", "cont", "ret"):
            return set()
        elif k == "if":
            cur = last_ids(s["thn"], {sid}) | last_ids(s["els"], {sid})
        elif k == "while":
            exits = free_breaks(s["body"]) | (set() if s["ct"] else {sid})
            if s["els"]:
                exits = (exits - {sid}) | last_ids(s["els"], {sid})
            cur = exits
        elif k in ("do", "for"):
            cur = free_breaks(s["body"]) | (set() if s["ct"] else {sid})
        elif k == "class":
            cur = {sid}
            for key in ("sinit", "init", "methods", "nested"):
                cur = last_ids(s[key], cur)
        elif k == "try":
            fb = last_ids(s["body"], {sid})
            cl = set()
            for c in s["catches"]:
                cl |= last_ids(c["body"], {c["id"]})
            el = last_ids(s["els"], fb) if s["els"] else fb
            cur = last_ids(s["fin"], cl | el) if s["fin"] else (cl | el)
        elif k == "switch":
            prev = set()
            brks = set()
            for c in s["cases"]:
                prev = last_ids(c["body"], prev | {c["id"]})
                brks |= free_breaks(c["body"])
            if not any(c["dflt"] for c in s["cases"]):
                prev = prev | {sid}
            cur = prev | brks
        if not cur and k not in ("simple", "decl"):
            # nothing falls through: a block-less compound statement stops the block here
            blocks = [s.get(key) for key in BLOCK_KEYS[k]] + [s.get("catches"), s.get("cases")]
            if not any(blocks) and not s.get("flds"):
                return set()
    return cur


def match_known(params, body, v, lang):
    """-> finding id or None.  v is ('edge', a, b) | ('entry', x) | ...  Each matcher names one shape."""
    stmts = list(walk(params)) + list(walk(body))
    if v[0] == "edge":
        _, a, b = v
        for s in stmts:
            # C04/try-midbody-raise: a raises inside the body of try s (not on its normal-completion
            # frontier), b is one of s's catch clauses
            if s["k"] == "try" and s["catches"] and b in [c["id"] for c in s["catches"]]:
                inside = ticking_ids(s["body"])
                lasts = last_ids(s["body"], {s["id"]})
                if a in inside and a not in lasts:
                    return "C04/try-midbody-raise"
            # C04/python-match-case-exit: Python `match`: a ends a non-last case body, b follows the match
            if s["k"] == "switch" and not s["ft"] and lang == "python":
                for c in s["cases"][:-1]:
                    l = last_ids(c["body"]) if c["body"] else set()
                    if a in l:
                        if b not in [x["id"] for cc in s["cases"] for x in walk(cc["body"])] and \
                                b not in [cc["id"] for cc in s["cases"]]:
                            return "C04/python-match-case-exit"
    if v[0] == "entry":
        x = v[1]
        # C04/entry-is-loop-head: a method without parameters whose first step is the head of a loop
        if not params and body:
            s = body[0]
            heads = set()
            if s["k"] == "while":
                heads = {first_id(s["pre"]) or s["id"]}
            elif s["k"] == "for" and not s["init"]:
                heads = {first_id(s["pre"]) or s["id"]}
            elif s["k"] == "do":
                heads = {first_id(s["body"]) or first_id(s["pre"]) or s["id"]}
            if x in heads:
                return "C04/entry-is-loop-head"
    return None


def first_id(block):
    """id of the first step of a non-empty block whose first statement starts with itself, else None."""
    if not block:
        return None
    s = block[0]
    if s["k"] == "while":
        return first_id(s["pre"]) or s["id"]
    if s["k"] == "for":
        return first_id(s["init"]) or first_id(s["pre"]) or s["id"]
    if s["k"] == "do":
        return first_id(s["body"]) or first_id(s["pre"]) or s["id"]
    return s["id"]


# ------------------------------------------------------------------------------------------------
# generators
# ------------------------------------------------------------------------------------------------

class Ctx0:
    """what a generated statement may contain at this point"""
    __slots__ = ("brk", "cont", "ret", "rz", "depth")

    def __init__(self, brk=False, cont=False, ret=True, rz=False, depth=0):
        self.brk, self.cont, self.ret, self.rz, self.depth = brk, cont, ret, rz, depth

    def sub(self, **kw):
        c = Ctx0(self.brk, self.cont, self.ret, self.rz, self.depth + 1)
        for k, v in kw.items():
            setattr(c, k, v)
        return c


SIMPLE = {"k": "simple"}


def splits(n, parts):
    """all tuples of `parts` non-negative ints summing to n"""
    if parts == 1:
        yield (n,)
        return
    for i in range(n + 1):
        for rest in splits(n - i, parts - 1):
            yield (i,) + rest


_memo = {}


def gen_blocks(n, c, maxdepth):
    """all blocks (lists of shape statements) of total size exactly n."""
    key = (n, c.brk, c.cont, c.ret, c.rz, c.depth, maxdepth)
    if key in _memo:
        return _memo[key]
    res = []
    if n == 0:
        res.append([])
    else:
        for k in range(1, n + 1):
            heads = gen_stmts(k, c, maxdepth)
            if not heads:
                continue
            tails = gen_blocks(n - k, c, maxdepth)
            for h in heads:
                for t in tails:
                    res.append([h] + t)
    _memo[key] = res
    return res


def opt_simple(m):
    return [SIMPLE] * m


def gen_stmts(k, c, maxdepth):
    """all single statements of size exactly k."""
    res = []
    if k == 1:
        res.append(SIMPLE)
        res.append({"k": "decl"})
        if c.brk:
            res.append({"k": "brk"})
        if c.cont:
            res.append({"k": "cont"})
        if c.ret:
            res.append({"k": "ret"})
    if c.depth >= maxdepth:
        return res
    m = k - 1
    inner = c.sub()
    loop = c.sub(brk=True, cont=True)
    # if
    for a, b in splits(m, 2):
        for t in gen_blocks(a, inner, maxdepth):
            for e in gen_blocks(b, inner, maxdepth):
                res.append({"k": "if", "thn": t, "els": e})
    # while: (pre 0/1) + body + els ; ct only without pre
    for pre in (0, 1):
        if m - pre < 0:
            continue
        for a, b in splits(m - pre, 2):
            if pre and b:
                continue
            for body in gen_blocks(a, loop, maxdepth):
                for els in gen_blocks(b, inner, maxdepth):
                    res.append({"k": "while", "ct": False, "pre": opt_simple(pre), "body": body, "els": els})
                    if not pre:
                        res.append({"k": "while", "ct": True, "pre": [], "body": body, "els": els})
    # dowhile
    for pre in (0, 1):
        if m - pre < 0:
            continue
        for body in gen_blocks(m - pre, loop, maxdepth):
            res.append({"k": "do", "ct": False, "body": body, "pre": opt_simple(pre)})
    # for
    for i, p, u in itertools.product((0, 1), repeat=3):
        if m - i - p - u < 0:
            continue
        for body in gen_blocks(m - i - p - u, loop, maxdepth):
            res.append({"k": "for", "ct": False, "init": opt_simple(i), "pre": opt_simple(p), "upd": opt_simple(u),
                        "body": body})
    # class with m method declarations
    res.append({"k": "class", "flds": False, "sinit": [], "init": [], "methods": [{"k": "decl"}] * m, "nested": []})
    if m == 0:
        res.append({"k": "class", "flds": True, "sinit": [], "init": [], "methods": [], "nested": []})
    # switch: cases of (1 + body) each, default last or absent
    for ncase in (0, 1, 2, 3):
        if m - ncase < 0 or (ncase == 0 and m != 0):
            continue
        sw = c.sub(brk=True)
        for sizes in splits(m - ncase, ncase) if ncase else [()]:
            bodies = [gen_blocks(sz, sw, maxdepth) for sz in sizes]
            for combo in itertools.product(*bodies):
                for dflt in ((False, True) if ncase else (False,)):
                    cases = [{"dflt": dflt and j == ncase - 1, "body": b} for j, b in enumerate(combo)]
                    res.append({"k": "switch", "cases": cases})
    # try: body (>=1) + clauses (1+body each) + els + fin ; needs a clause or a finally
    for ncl in (0, 1, 2):
        if m - ncl < 1:
            continue
        for parts in splits(m - ncl, 3 + ncl):
            bsz, esz, fsz = parts[0], parts[1], parts[2]
            csz = parts[3:]
            if bsz == 0 or (ncl == 0 and fsz == 0) or (ncl == 0 and esz) or (ncl == 0 and fsz and c.rz):
                continue
            guard = dict(brk=False, cont=False, ret=False) if fsz else {}
            cb = c.sub(rz=c.rz or ncl > 0, **guard)
            ci = c.sub(**guard)
            for body in gen_blocks(bsz, cb, maxdepth):
                for els in gen_blocks(esz, ci, maxdepth):
                    for fin in gen_blocks(fsz, inner, maxdepth):
                        for cbs in itertools.product(*[gen_blocks(sz, ci, maxdepth) for sz in csz]):
                            res.append({"k": "try", "body": body, "catches": [{"body": b} for b in cbs],
                                        "els": els, "fin": fin})
    return res


def degenerate_shapes():
    """degenerate method shapes, enumerated completely: 0/1/3 parameters (optionally with a
    default-value statement in the parameter block and/or an init block on the method_decl) x
    {empty body, only declarations, a single return, one simple statement, one compound statement
    with empty blocks}, at top level and as methods nested in a method / in a class."""
    V = {"k": "simple", "sop": 2}                         # variable_decl
    emptyc = lambda: {"k": "class", "flds": False, "sinit": [], "init": [], "methods": [], "nested": []}
    bodies = [
        [], [V], [V, V], [{"k": "ret"}], [dict(SIMPLE, sop=0)], [V, {"k": "ret"}],
        [{"k": "if", "thn": [], "els": []}],
        [{"k": "while", "ct": False, "pre": [], "body": [], "els": []}],
        [{"k": "while", "ct": True, "pre": [], "body": [], "els": []}],
        [{"k": "while", "ct": False, "pre": [dict(SIMPLE, sop=0)], "body": [], "els": []}],
        [{"k": "do", "ct": False, "body": [], "pre": []}],
        [{"k": "for", "ct": False, "init": [], "pre": [], "upd": [], "body": []}],
        [{"k": "for", "ct": False, "init": [dict(SIMPLE, sop=0)], "pre": [dict(SIMPLE, sop=0)], "upd": [dict(SIMPLE, sop=0)], "body": []}],
        [{"k": "switch", "cases": []}],
        [{"k": "switch", "cases": [{"dflt": False, "body": []}, {"dflt": True, "body": []}]}],
        [emptyc()], [dict(emptyc(), flds=True)],
        [{"k": "try", "body": [dict(SIMPLE, sop=0)], "catches": [{"body": []}], "els": [], "fin": []}],
        [{"k": "decl"}],
    ]
    nps = [0, 1, 3, {"n": 1, "pextra": True}, {"n": 3, "pextra": True}, {"n": 0, "minit": True},
           {"n": 1, "minit": True}, {"n": 3, "pextra": True, "minit": True}]
    for b in bodies:
        for np in nps:
            yield b, np
    for b in bodies:
        for m, pe, mi in ((0, False, False), (1, False, False), (3, False, False), (1, True, False), (3, True, True)):
            inner = {"k": "decl", "mparams": m, "mbody": b, "pextra": pe, "minit": mi}
            outers = [([inner], 0), ([inner], 1), ([V, inner, {"k": "ret"}], 0),
                      ([dict(emptyc(), flds=True, methods=[{"k": "decl"}, inner])], 0),
                      ([{"k": "if", "thn": [inner], "els": []}], 0),
                      ([{"k": "decl", "mparams": 1, "mbody": [inner]}], 0)]
            for ob, onp in outers:
                yield ob, onp


def exhaustive_shapes(maxsize, maxdepth):
    _memo.clear()
    for n in range(0, maxsize + 1):
        for b in gen_blocks(n, Ctx0(), maxdepth):
            yield b


def random_block(rng, budget, c, maxdepth=4):
    """random block using about `budget` statements"""
    out = []
    while budget > 0:
        s, used = random_stmt(rng, budget, c, maxdepth)
        out.append(s)
        budget -= used
        if s["k"] in ("brk", "cont", "ret") and rng.random() < 0.8:
            break
    return out


def random_stmt(rng, budget, c, maxdepth):
    kinds = ["simple"] * 4 + ["decl"]
    if c.brk:
        kinds += ["brk"] * 2
    if c.cont:
        kinds += ["cont"] * 2
    if c.ret:
        kinds += ["ret"]
    if budget >= 2 and c.depth < maxdepth:
        kinds += ["if"] * 4 + ["while"] * 3 + ["do", "for", "for", "try", "try", "switch", "switch", "class"]
    elif c.depth < maxdepth:
        kinds += ["if", "while", "for", "switch"]       # empty-bodied compounds
    k = rng.choice(kinds)
    if k in ("simple", "decl", "brk", "cont", "ret"):
        return {"k": k}, 1
    b = budget - 1
    inner = c.sub()
    loop = c.sub(brk=True, cont=True)
    def part(frac_hi=1.0):
        return rng.randint(0, max(0, int(b * frac_hi)))
    if k == "if":
        a = part()
        thn = random_block(rng, a, inner, maxdepth)
        els = random_block(rng, b - a, inner, maxdepth) if rng.random() < 0.6 else []
        s = {"k": "if", "thn": thn, "els": els}
    elif k == "while":
        ct = rng.random() < 0.15
        pre = [SIMPLE] * rng.randint(1, 2) if (not ct and rng.random() < 0.35) else []
        a = part()
        body = random_block(rng, a, loop, maxdepth)
        els = random_block(rng, b - a, inner, maxdepth) if (not pre and rng.random() < 0.3) else []
        op = "while_stmt" if (pre or ct or els or rng.random() < 0.5) else rng.choice(["forin_stmt", "for_value_stmt"])
        s = {"k": "while", "ct": ct, "pre": pre, "body": body, "els": els, "op": op}
    elif k == "do":
        pre = [SIMPLE] * rng.randint(1, 2) if rng.random() < 0.35 else []
        s = {"k": "do", "ct": rng.random() < 0.1, "body": random_block(rng, b, loop, maxdepth), "pre": pre}
    elif k == "for":
        s = {"k": "for", "ct": rng.random() < 0.1,
             "init": [SIMPLE] * rng.randint(0, 2), "pre": [SIMPLE] * rng.randint(0, 1),
             "upd": [SIMPLE] * rng.randint(0, 2), "body": random_block(rng, b, loop, maxdepth)}
        if s["ct"]:
            s["pre"] = []
    elif k == "class":
        s = {"k": "class", "flds": rng.random() < 0.5, "op": rng.choice(CLASS_OPS) if rng.random() < 0.2 else "class_decl",
             "sinit": [SIMPLE] * rng.randint(0, 1) if rng.random() < 0.2 else [],
             "init": [SIMPLE] * rng.randint(0, 1) if rng.random() < 0.2 else [],
             "methods": [{"k": "decl"}] * rng.randint(0, 2),
             "nested": ([{"k": "class", "flds": False, "sinit": [], "init": [], "methods": [{"k": "decl"}], "nested": []}]
                        if rng.random() < 0.15 else [])}
    elif k == "switch":
        sw = c.sub(brk=True)
        n = rng.randint(0, 4)
        cases = []
        d = rng.randrange(n) if (n and rng.random() < 0.6) else -1
        if d >= 0 and rng.random() < 0.7:
            d = n - 1
        for i in range(n):
            body = random_block(rng, rng.randint(0, max(0, b // max(1, n))), sw, maxdepth)
            if body and body[-1]["k"] not in ("brk", "cont", "ret") and rng.random() < 0.6:
                body = body + [{"k": "brk"}]
            cases.append({"dflt": i == d, "body": body})
        s = {"k": "switch", "cases": cases}
    else:  # try
        ncl = rng.choice([0, 1, 1, 1, 2, 3])
        if ncl == 0 and c.rz:
            ncl = 1
        fin = True if ncl == 0 else rng.random() < 0.35
        guard = dict(brk=False, cont=False, ret=False) if fin else {}
        cb = c.sub(rz=c.rz or ncl > 0, **guard)
        ci = c.sub(**guard)
        body = random_block(rng, max(1, part(0.6)), cb, maxdepth) or [SIMPLE]
        catches = [{"body": random_block(rng, rng.randint(0, 2), ci, maxdepth)} for _ in range(ncl)]
        els = random_block(rng, rng.randint(1, 2), ci, maxdepth) if (ncl and rng.random() < 0.3) else []
        s = {"k": "try", "body": body, "catches": catches, "els": els,
             "fin": random_block(rng, rng.randint(1, 2), inner, maxdepth) if fin else []}
    return s, max(1, size_of([s]))


def size_of(block):
    n = 0
    for s in block:
        n += 1
        if s["k"] == "decl" and "mbody" in s:
            n += 1 + size_of(s["mbody"]) + s.get("mparams", 1)
        for key in BLOCK_KEYS[s["k"]]:
            n += size_of(s.get(key) or [])
        for c in (s.get("catches") or []) + (s.get("cases") or []):
            n += 1 + size_of(c.get("body") or [])
    return n


# ------------------------------------------------------------------------------------------------
# the comparison of one batch of methods: real vs model, monitor and oracle on the real edges
# ------------------------------------------------------------------------------------------------

def evaluate(cases, kinds, rng, max_runs, stats):
    """cases: list of dict(params, body, real, lang, origin).  `real` is the sorted [src,dst,kind] list or
    'exception:Name'.  Fills in per case: model, diff (bool), viol (list of violations on the real
    output, each with 'known' = finding id or None).  Returns nothing; mutates the dicts."""
    reqs = []
    for c in cases:
        reqs.append({"m": "cfg", "variant": "live", "params": c["params"], "body": c["body"], "kinds": kinds})
        edges = [] if isinstance(c["real"], str) else [[e[0], e[1]] for e in c["real"]]
        reqs.append({"m": "cfgcheck", "params": c["params"], "body": c["body"], "edges": edges})
    outs = drv_ok(drv_batch(reqs)) if reqs else []
    for i, c in enumerate(cases):
        mo, ck = outs[2 * i], outs[2 * i + 1]
        c["model"] = sorted(mo["edges"]) if "edges" in mo else "exception:" + mo["exc"]
        c["diff"] = c["model"] != c["real"]
        c["wf"] = ck["wf"]
        c["f0"] = ck.get("f0", False)
        viol = []
        if isinstance(c["real"], str):
            viol.append(("crash", c["real"]))
            c["monitor"] = None
        else:
            c["monitor"] = ck["ok"]
            for a, b in ck["missing"]:
                viol.append(("edge", a, b))
            for x in ck["bad_entries"]:
                viol.append(("entry", x))
            for x in ck["foreign"]:
                viol.append(("node", x))
            edges = [(e[0], e[1]) for e in c["real"]]
            ov, nruns, exhausted = oracle_check(c["params"], c["body"], edges, max_runs=max_runs, rng=rng)
            stats["oracle_runs"] += nruns
            stats["oracle_exhaustive"] += 1 if exhausted else 0
            mon = set(viol)
            # the bounded enumeration can only find what the (complete) local check finds
            extra = [v for v in ov if v not in mon]
            if extra:
                c["oracle_beyond_monitor"] = extra
                viol.extend(extra)
            c["oracle_found"] = len(ov)
            c["monitor_only"] = len([v for v in mon if v not in set(ov)])
        viol = sorted(set(viol), key=lambda v: json.dumps(v))
        c["viol"] = [{"v": list(v), "known": match_known(c["params"], c["body"], v, c.get("lang", "gir"))
                      if c["wf"] else None} for v in viol]


def lean_runs_agree(cases, rng, per_case=3):
    """cross-check of the two statements of the skeleton semantics: Python `Interp` vs Lean `runCtl`
    on sampled decision vectors.  Returns list of disagreements."""
    reqs, meta = [], []
    for c in cases:
        runs = list(itertools.islice(enum_runs(c["params"], c["body"], max_runs=40, rng=rng), 40))
        for trace, out, bits in rng.sample(runs, min(per_case, len(runs))):
            reqs.append({"m": "cfgcheck", "op": "run", "params": c["params"], "body": c["body"],
                         "fuel": 400, "oracle": bits})
            meta.append((c, trace, out, bits))
    outs = drv_ok(drv_batch(reqs)) if reqs else []
    bad = []
    for (c, trace, out, bits), o in zip(meta, outs):
        if out == "stop":
            ok = o["trace"][:len(trace)] == trace
        else:
            ok = o["trace"] == trace and o["out"] == out
        if not ok:
            bad.append({"params": c["params"], "body": c["body"], "bits": bits, "python": [trace, out], "lean": o})
    return bad, len(reqs)


def direct_cases(shapes_with_params, rng, chunk=400, toplevel_ratio=0.0):
    """run the REAL code on generated shapes (direct route) and convert the real rows back.  One case
    per top-level method, plus one per nested method "nm" (it carries the enclosing shape, so that
    shrinking and replay work on the whole tree)."""
    cases = []
    for i in range(0, len(shapes_with_params), chunk):
        part = shapes_with_params[i:i + chunk]
        tree = [method_tree(b, np, f"f{j}", rng) for j, (b, np) in enumerate(part)]
        rows, cfgs = real_cfgs_of_tree(tree)
        top_ids = [r["stmt_id"] for r in rows if r["operation"] == "method_decl" and r["parent_stmt_id"] == 0]
        if len(top_ids) != len(part):
            raise RuntimeError("direct route lost a method")
        top_index = {mid: j for j, mid in enumerate(top_ids)}
        cur = -1
        for (mid, name, p, b, err) in methods_of_rows(rows):
            if mid in top_index:
                cur = top_index[mid]
            if mid not in cfgs:
                continue
            shape, np = part[cur]
            if err is not None:
                raise RuntimeError("generated shape is outside the converter's model: " + err)
            if mid in top_index:
                if strip_ids(b) != norm_shape(shape):
                    raise RuntimeError("rows_to_struct does not invert shape_to_gir/flatten: " + json.dumps(shape))
                n, pextra, _ = np_spec(np)
                if len(p) != n + (1 if pextra and n else 0):
                    raise RuntimeError("parameter block lost a statement: " + json.dumps(np))
            cases.append({"params": p, "body": b, "real": cfgs[mid], "lang": "gir", "origin": "direct",
                          "shape": shape, "nparams": np, "nested": mid not in top_index, "outer": i + cur})
    return cases


def _direct_worker(args):
    part, seed, offset = args
    common.use_repo()
    cases = direct_cases(part, random.Random(seed))
    for c in cases:
        c["outer"] += offset
    return cases


def direct_cases_parallel(shapes_with_params, rng, procs):
    if procs <= 1 or len(shapes_with_params) < 2000:
        return direct_cases(shapes_with_params, rng)
    import multiprocessing as mp
    n = len(shapes_with_params)
    step = max(400, (n + procs * 4 - 1) // (procs * 4))
    step = (step + 399) // 400 * 400
    jobs = [(shapes_with_params[i:i + step], rng.getrandbits(32), i) for i in range(0, n, step)]
    with mp.get_context("fork").Pool(procs) as pool:
        parts = pool.map(_direct_worker, jobs)
    return [c for p in parts for c in p]


# ------------------------------------------------------------------------------------------------
# shrinking (structural delta debugging on shapes) and the single-method check used by it
# ------------------------------------------------------------------------------------------------

def shape_variants(block):
    """smaller neighbours of a block of shape statements"""
    for i, s in enumerate(block):
        yield block[:i] + block[i + 1:]                                   # delete statement
        subs = [s.get(k) or [] for k in BLOCK_KEYS[s["k"]]]
        subs += [c.get("body") or [] for c in (s.get("catches") or []) + (s.get("cases") or [])]
        for b in subs:
            if b:
                yield block[:i] + b + block[i + 1:]                       # replace by one of its blocks
        for key in BLOCK_KEYS[s["k"]]:
            b = s.get(key) or []
            for v in shape_variants(b):
                t = dict(s); t[key] = v
                yield block[:i] + [t] + block[i + 1:]
        for lst in ("catches", "cases"):
            cl = s.get(lst) or []
            for j, c in enumerate(cl):
                t = dict(s); t[lst] = cl[:j] + cl[j + 1:]
                yield block[:i] + [t] + block[i + 1:]
                for v in shape_variants(c.get("body") or []):
                    cc = dict(c); cc["body"] = v
                    t = dict(s); t[lst] = cl[:j] + [cc] + cl[j + 1:]
                    yield block[:i] + [t] + block[i + 1:]
        if s["k"] == "decl" and ("mbody" in s or "mparams" in s):
            for v in shape_variants(s.get("mbody") or []):
                t = dict(s); t["mbody"] = v
                yield block[:i] + [t] + block[i + 1:]
            if s.get("mparams", 1) > 0:
                t = dict(s); t["mparams"] = 1 if s.get("mparams", 1) > 1 else 0; t.setdefault("mbody", [])
                yield block[:i] + [t] + block[i + 1:]
            for flag in ("pextra", "minit"):
                if s.get(flag):
                    t = dict(s); t[flag] = False
                    yield block[:i] + [t] + block[i + 1:]
        if s.get("ct"):
            t = dict(s); t["ct"] = False
            yield block[:i] + [t] + block[i + 1:]
        if s.get("op") not in (None, "while_stmt", "class_decl"):
            t = dict(s); t.pop("op")
            yield block[:i] + [t] + block[i + 1:]


def shape_ok(block, c=None):
    """is the shape inside the generator's well-formedness (bound break/continue, no abrupt exit
    through finally …)?  Decided by Lean's wfCtl in check_shape; this is only a cheap pre-filter."""
    return True


def check_shape(shape, nparams, kinds, max_runs=3000, lang="gir"):
    """one generated method tree through the direct route: the evaluated cases of its top-level
    method (first) and of its nested methods."""
    rng = random.Random(0)
    cases = direct_cases([(shape, nparams)], None)
    stats = {"oracle_runs": 0, "oracle_exhaustive": 0}
    evaluate(cases, kinds, rng, max_runs, stats)
    return cases


def unknown_violations(case):
    return [v["v"] for v in case["viol"] if v["known"] is None]


def any_unknown(cases):
    return any(unknown_violations(c) for c in cases)


def np_variants(np):
    n, pextra, minit = np_spec(np)
    if minit:
        yield {"n": n, "pextra": pextra, "minit": False}
    if pextra:
        yield {"n": n, "pextra": False, "minit": minit}
    if n > 1:
        yield {"n": 1, "pextra": pextra, "minit": minit}
    if n > 0:
        yield {"n": 0, "pextra": False, "minit": minit}


def shrink_shape(shape, nparams, kinds, pred, budget=400):
    """greedy: keep a smaller neighbour while pred(cases) holds (cases evaluated on the real code)."""
    cur = shape
    cur_np = nparams
    steps = 0
    changed = True
    while changed and steps < budget:
        changed = False
        cands = [(c, cur_np) for c in shape_variants(cur)]
        cands.sort(key=lambda t: size_of(t[0]))
        cands += [(cur, v) for v in np_variants(cur_np)]
        for cand, cnp in cands:
            steps += 1
            if steps > budget:
                break
            try:
                cs = check_shape(cand, cnp, kinds, max_runs=1500)
            except Exception:
                continue
            if all(c["wf"] for c in cs) and pred(cs):
                cur, cur_np = cand, cnp
                changed = True
                break
    n, pextra, minit = np_spec(cur_np)
    return cur, (n if not (pextra or minit) else {"n": n, "pextra": pextra, "minit": minit})


# ------------------------------------------------------------------------------------------------
# tie (b): the same kind of programs through the real frontends (one packed lian run per language)
# ------------------------------------------------------------------------------------------------

def render_python(block, ind, in_switch=False):
    pad = "    " * ind
    out = []
    def body(b, sw=False):
        r = render_python(b, ind + 1, sw)
        return r if r else [pad + "    pass"]
    for s in block:
        k = s["k"]
        if k == "simple":
            out.append(pad + ("x = x + 1" if s.get("v") else "x = 1"))
        elif k == "decl":
            out += [pad + "def inner(a):", pad + "    return a"]
        elif k == "brk":
            out.append(pad + ("pass" if in_switch else "break"))
        elif k == "cont":
            out.append(pad + "continue")
        elif k == "ret":
            out.append(pad + "return x")
        elif k == "if":
            out.append(pad + "if c:"); out += body(s["thn"], in_switch)
            if s["els"]:
                out.append(pad + "else:"); out += body(s["els"], in_switch)
        elif k in ("while", "do", "for"):
            if k == "while" and s.get("op", "while_stmt") != "while_stmt":
                out.append(pad + "for i in xs:")
            else:
                out.append(pad + ("while True:" if s.get("ct") else "while c:"))
            out += body(s["body"])
            if k == "while" and s.get("els") and s.get("op", "while_stmt") == "while_stmt":
                out.append(pad + "else:"); out += body(s["els"], in_switch)
        elif k == "class":
            out.append(pad + "class K:")
            n = len(s.get("methods") or [])
            if s.get("flds"):
                out.append(pad + "    q = 1")
            for j in range(n):
                out += [pad + f"    def m{j}(self):", pad + "        return 1"]
            if not n and not s.get("flds"):
                out.append(pad + "    pass")
        elif k == "try":
            out.append(pad + "try:"); out += body(s["body"], in_switch)
            for j, c in enumerate(s["catches"]):
                out.append(pad + f"except E{j}:"); out += body(c["body"], in_switch)
            if s["els"] and s["catches"]:
                out.append(pad + "else:"); out += body(s["els"], in_switch)
            if s["fin"] or not s["catches"]:
                out.append(pad + "finally:"); out += body(s["fin"], in_switch)
        elif k == "switch":
            cases = [c for c in s["cases"] if not c["dflt"]] + [c for c in s["cases"] if c["dflt"]][:1]
            if not cases:
                out.append(pad + "pass")
                continue
            out.append(pad + "match x:")
            for j, c in enumerate(cases):
                out.append(pad + ("    case _:" if c["dflt"] else f"    case {j}:"))
                r = render_python(c["body"], ind + 2, True)
                out += r if r else [pad + "        pass"]
    return out


def render_clike(block, ind, lang, in_switch=False):
    """JavaScript / TypeScript / Java / C / PHP.  Constructs a frontend lowers with attribute names the
    CFG builder does not read (C02's open vocabulary findings: TypeScript try_body, PHP catch_stmt)
    are rendered as their blocks in sequence, so that the rest of the method is still checked."""
    java, c, php, ts = lang == "java", lang == "c", lang == "php", lang == "typescript"
    v = (lambda n: "$" + n) if php else (lambda n: n)
    pad = "  " * ind
    out = []
    def body(b, sw=in_switch):
        return render_clike(b, ind + 1, lang, sw)
    def cond(s):
        if s.get("ct"):
            return "1" if c else "true"
        if s.get("pre") or java or c:
            return f"{v('i')} < {v('n')}"
        return v("c")
    for s in block:
        k = s["k"]
        if k == "simple":
            out.append(pad + (f"{v('x')} = {v('x')} + 1;" if s.get("v") else f"{v('x')} = 1;"))
        elif k == "decl":
            if java:
                out.append(pad + "class L { int m(int a) { return a; } }")
            elif c:
                out.append(pad + "int d;")
            elif php:
                out.append(pad + "function inner($a) { return $a; }")
            elif ts:
                out.append(pad + "function inner(a: number) { return a; }")
            else:
                out.append(pad + "function inner(a) { return a; }")
        elif k == "brk":
            out.append(pad + "break;")
        elif k == "cont":
            out.append(pad + "continue;")
        elif k == "ret":
            out.append(pad + f"return {v('x')};")
        elif k == "if":
            out.append(pad + (f"if ({v('c')} > 0) {{" if (java or c) else f"if ({v('c')}) {{")); out += body(s["thn"])
            if s["els"]:
                out.append(pad + "} else {"); out += body(s["els"])
            out.append(pad + "}")
        elif k == "while":
            op = s.get("op", "while_stmt")
            if op != "while_stmt" and java:
                out.append(pad + "for (int v : xs) {")
            elif op != "while_stmt" and php:
                out.append(pad + "foreach ($xs as $v) {")
            elif op == "forin_stmt" and not c:
                out.append(pad + "for (var k in xs) {")
            elif op == "for_value_stmt" and not c:
                out.append(pad + "for (var v of xs) {")
            else:
                out.append(pad + f"while ({cond(s)}) {{")
            out += body(s["body"], False); out.append(pad + "}")
        elif k == "do":
            out.append(pad + "do {"); out += body(s["body"], False); out.append(pad + f"}} while ({cond(s)});")
        elif k == "for":
            init = ("int i = 0" if (java or c) else f"{v('i')} = 0") if s["init"] else ""
            cc = "" if s.get("ct") else (f"{v('i')} < {v('n')}" if (s["pre"] or java or c) else v("c"))
            upd = f"{v('i')}++" if s["upd"] else ""
            out.append(pad + f"for ({init}; {cc}; {upd}) {{"); out += body(s["body"], False); out.append(pad + "}")
        elif k == "class":
            n = len(s.get("methods") or [])
            if c:
                out.append(pad + "int k;")
            elif php:
                ms = " ".join(f"function m{j}() {{ return 1; }}" for j in range(n))
                out.append(pad + f"class K {{ {'public static $q = 1; ' if s.get('flds') else ''}{ms} }}")
            else:
                ms = " ".join((f"int m{j}() {{ return 1; }}" if java else f"m{j}() {{ return 1; }}") for j in range(n))
                fl = ("static int q = 1; " if java else "static q = 1; ") if s.get("flds") else ""
                out.append(pad + f"class K {{ {fl}{ms} }}")
        elif k == "try":
            if c or php or ts:
                out.append(pad + "{"); out += body(s["body"]); out.append(pad + "}")
                for cl in s["catches"]:
                    out.append(pad + f"if ({v('c')}) {{"); out += body(cl["body"]); out.append(pad + "}")
                out += render_clike(s["els"], ind, lang, in_switch) + render_clike(s["fin"], ind, lang, in_switch)
            else:
                out.append(pad + "try {"); out += body(s["body"])
                cl = s["catches"] if java else s["catches"][:1]
                for j, cc in enumerate(cl):
                    out.append(pad + (f"}} catch (E{j} e) {{" if java else "} catch (e) {")); out += body(cc["body"])
                if s["fin"] or not cl:
                    out.append(pad + "} finally {"); out += body(s["fin"])
                out.append(pad + "}")
        elif k == "switch":
            out.append(pad + f"switch ({v('x')}) {{")
            for j, cs in enumerate(s["cases"]):
                out.append(pad + ("  default:" if cs["dflt"] else f"  case {j}:"))
                out += render_clike(cs["body"], ind + 2, lang, True)
            out.append(pad + "}")
    return out


def render_go(block, ind, in_switch=False):
    """Go: no dowhile/try/class; switch is rendered as an if-chain (go_parser's switch_body attribute
    is one of C02's open vocabulary findings and is not read by the CFG builder)."""
    pad = "\t" * ind
    out = []
    def body(b, sw=in_switch):
        return render_go(b, ind + 1, sw)
    for s in block:
        k = s["k"]
        if k == "simple":
            out.append(pad + ("x = x + 1" if s.get("v") else "x = 1"))
        elif k in ("decl", "class"):
            out.append(pad + "var d int")
        elif k == "brk":
            out.append(pad + ("x = 2" if in_switch else "break"))
        elif k == "cont":
            out.append(pad + "continue")
        elif k == "ret":
            out.append(pad + "return x")
        elif k == "if":
            out.append(pad + "if c > 0 {"); out += body(s["thn"])
            if s["els"]:
                out.append(pad + "} else {"); out += body(s["els"])
            out.append(pad + "}")
        elif k in ("while", "do"):
            op = s.get("op", "while_stmt")
            if k == "while" and op != "while_stmt":
                out.append(pad + "for _, v := range xs {")
            elif s.get("ct"):
                out.append(pad + "for {")
            else:
                out.append(pad + "for i < n {")
            out += body(s["body"], False); out.append(pad + "}")
        elif k == "for":
            init = "i := 0" if s["init"] else ""
            cc = "" if s.get("ct") else "i < n"
            upd = "i++" if s["upd"] else ""
            out.append(pad + f"for {init}; {cc}; {upd} {{"); out += body(s["body"], False); out.append(pad + "}")
        elif k == "try":
            out += render_go(s["body"], ind, in_switch)
            for cl in s["catches"]:
                out.append(pad + "if c > 1 {"); out += body(cl["body"]); out.append(pad + "}")
            out += render_go(s["els"], ind, in_switch) + render_go(s["fin"], ind, in_switch)
        elif k == "switch":
            for j, cs in enumerate(s["cases"]):
                out.append(pad + f"if x == {j} {{"); out += render_go(cs["body"], ind + 1, True); out.append(pad + "}")
    return out


# degenerate methods written by hand per language: 0/1/3 parameters, empty body, only declarations,
# single return, one compound statement with empty blocks, default-value parameters, methods in classes
# and nested functions
DEGENERATE = {
    "python": """
def dg_r0():
    return 1
def dg_r1(a):
    return a
def dg_r3(a, b, c):
    return a
def dg_d1(a, b=g(1)):
    return b
def dg_decl(a):
    global q
def dg_pass3(a, b, c):
    pass
def dg_c1(a):
    if a:
        pass
class DgK:
    def m0(self):
        pass
    def m1(self, x, y=h(2)):
        def inner0():
            pass
        def inner1(z, w=3):
            return z
        return x
""",
    "javascript": """
function dg_e0() {}
function dg_e1(a) {}
function dg_e3(a, b, c) {}
function dg_d1(a, b = g(1)) {}
function dg_d3(a, b = g(1), c = 2) { var x; }
function dg_decl(a) { var x; let y; }
function dg_r1(a) { return a; }
function dg_c1(a) { if (a) {} }
function dg_c2(a, b, c) { while (a) {} }
function dg_c3(a) { for (;;) {} }
function dg_c4(a) { switch (a) {} }
class DgK { m0() {} m1(a) {} m3(a, b = 2, c = g(3)) { function inner0() {} function inner1(z) {} return a; } }
function dg_outer(a) { function in0() {} function in1(b) {} function in3(b, c, d = 1) { return b; } }
""",
    "typescript": """
function dg_e0() {}
function dg_e1(a: number) {}
function dg_e3(a: number, b: string, c: number) {}
function dg_d1(a: number, b: number = g(1)) {}
function dg_decl(a: number) { let x; var y; }
function dg_r1(a: number) { return a; }
function dg_c1(a: number) { if (a) {} }
function dg_c2(a: number, b: number, c: number) { while (a) {} }
class DgK { m0() {} m1(a: number) {} m3(a: number, b = 2, c: number = g(3)) { return a; } }
function dg_outer(a: number) { function in0() {} function in1(b: number) {} }
""",
    "java": """
class DgK {
  void e0() {}
  void e1(int a) {}
  void e3(int a, int b, int c) {}
  int r1(int a) { return a; }
  void decl1(int a) { int x; }
  void decl3(int a, int b, int c) { int x; int y; }
  void c1(int a) { if (a > 0) {} }
  void c2(int a) { while (a > 0) {} }
  void c3(int a, int b, int c) { for (;;) {} }
  void c4(int a) { switch (a) {} }
  DgK(int a) {}
  class In { void m0() {} void m1(int a) {} class In2 { void m(int a, int b, int c) {} } }
  void outer(int a) { class Loc { void m0() {} void m1(int b) {} } }
}
interface DgI { void i0(); void i1(int a); }
""",
    "go": """
func dg_e0() {}
func dg_e1(a int) {}
func dg_e3(a int, b int, c int) {}
func dg_r1(a int) int { return a }
func dg_decl(a int) { var x int }
func dg_c1(a int) { if a > 0 {} }
func dg_c2(a int, b int, c int) { for a > 0 {} }
func dg_c3(a int) { for {} }
func (k DgK) m0() {}
func (k DgK) m1(a int) {}
func dg_outer(a int) { f := func(b int) {}; g := func() {}; f(1); g() }
""",
    "c": """
void dg_e0() {}
void dg_e1(int a) {}
void dg_e3(int a, int b, int c) {}
int dg_r1(int a) { return a; }
void dg_decl(int a) { int x; }
void dg_decl3(int a, int b, int c) { int x; int y; }
void dg_c1(int a) { if (a > 0) {} }
void dg_c2(int a) { while (a > 0) {} }
void dg_c3(int a, int b, int c) { for (;;) {} }
void dg_c4(int a) { switch (a) {} }
void dg_c5(int a) { do {} while (a > 0); }
""",
    "php": """
function dg_e0() {}
function dg_e1($a) {}
function dg_e3($a, $b, $c) {}
function dg_d1($a, $b = 2) {}
function dg_d3($a, $b = 2, $c = array(1)) {}
function dg_r1($a) { return $a; }
function dg_decl($a) { global $q; }
function dg_c1($a) { if ($a) {} }
function dg_c2($a, $b, $c) { while ($a) {} }
function dg_c4($a) { switch ($a) {} }
class DgK { function m0() {} function m1($a) {} function m3($a, $b = 2, $c = 3) { return $a; } }
function dg_outer($a) { function dg_in0() {} function dg_in1($b) {} }
""",
}


def render_file(lang, shapes):
    lines = []
    sig = lambda np, f: ", ".join(f(j) for j in range(np_spec(np)[0]))
    if lang == "python":
        for i, (b, np) in enumerate(shapes):
            lines.append(f"def f{i}({sig(np, lambda j: 'p%d' % j)}):")
            r = render_python(b, 1)
            lines += r if r else ["    pass"]
            lines.append("")
    elif lang in ("javascript", "typescript"):
        for i, (b, np) in enumerate(shapes):
            lines.append(f"function f{i}({sig(np, (lambda j: 'p%d: number' % j) if lang == 'typescript' else (lambda j: 'p%d' % j))}) {{")
            lines += render_clike(b, 1, lang)
            lines.append("}")
    elif lang == "java":
        lines.append("class T {")
        for i, (b, np) in enumerate(shapes):
            lines.append(f"  int f{i}({sig(np, lambda j: 'int p%d' % j)}) {{")
            lines += render_clike(b, 2, lang)
            lines.append("  }")
        lines.append("}")
    elif lang == "c":
        for i, (b, np) in enumerate(shapes):
            lines.append(f"int f{i}({sig(np, lambda j: 'int p%d' % j)}) {{")
            lines += render_clike(b, 1, lang)
            lines.append("}")
    elif lang == "php":
        lines.append("<?php")
        for i, (b, np) in enumerate(shapes):
            lines.append(f"function f{i}({sig(np, lambda j: '$p%d' % j)}) {{")
            lines += render_clike(b, 1, lang)
            lines.append("}")
    elif lang == "go":
        lines.append("package main")
        for i, (b, np) in enumerate(shapes):
            lines.append(f"func f{i}({sig(np, lambda j: 'p%d int' % j)}) int {{")
            lines += render_go(b, 1)
            lines.append("}")
    return "\n".join(lines) + "\n" + DEGENERATE.get(lang, "")


EXT = {"python": "py", "javascript": "js", "java": "java", "go": "go", "typescript": "ts", "c": "c", "php": "php"}


def start_lian(langs, shapes_by_lang, scratch, extra_files=()):
    """write one packed file per language and start ONE `lian run` over all of them (plus corpus
    files); returns (Popen, workspace, {lang: source path})."""
    srcs = {}
    for lang in langs:
        src = os.path.join(scratch, f"gen_{lang}." + EXT[lang])
        with open(src, "w") as f:
            f.write(render_file(lang, shapes_by_lang[lang]))
        srcs[lang] = src
    ws = os.path.join(scratch, "ws")
    env = dict(os.environ, PYTHONPATH=os.path.join(common.REPO, "src"), PYTHONHASHSEED="0")
    cmd = ["/venv/bin/python", os.path.join(common.REPO, "src", "lian", "main.py"), "run", "-l", ",".join(langs),
           "-w", ws, "-f", "-q"] + list(srcs.values()) + list(extra_files)
    log = open(os.path.join(scratch, "log.txt"), "w")
    return subprocess.Popen(cmd, stdout=log, stderr=subprocess.STDOUT, env=env, cwd=scratch), ws, srcs


def read_bundle(pattern):
    import pandas as pd
    files = sorted(glob.glob(pattern))
    files = [f for f in files if not f.endswith(".indexing")]
    if not files:
        return None
    return pd.concat([pd.read_feather(f) for f in files], ignore_index=True)


def to_int_cell(v):
    if v is None:
        return None
    if isinstance(v, float):
        if math.isnan(v):
            return None
        if v != int(v):
            raise ValueError("non-integral float in an id column")
        return int(v)
    return v


def frontend_cases(lang, ws):
    """real GIR rows + real CFG of a finished lian run -> cases (one per method of every unit).
    `lang` is only the fallback: the language of each unit is read from frontend/module_symbols."""
    import pandas as pd
    gir = read_bundle(os.path.join(ws, "lian_workspace", "frontend", "gir.bundle*"))
    cfg = read_bundle(os.path.join(ws, "lian_workspace", "semantic_p1", "cfg.bundle*"))
    if gir is None:
        raise RuntimeError("no gir bundle")
    unit_lang, unit_path = {}, {}
    ms_file = os.path.join(ws, "lian_workspace", "frontend", "module_symbols")
    if os.path.exists(ms_file):
        ms = pd.read_feather(ms_file)
        for uid, l, pth in zip(ms.unit_id, ms.lang, ms.unit_path):
            if isinstance(l, str) and l:
                unit_lang[to_int_cell(uid)] = l
                unit_path[to_int_cell(uid)] = os.path.basename(str(pth))
    edges = {}
    if cfg is not None:
        for m, a, b, k in zip(cfg.method_id, cfg.src_stmt_id, cfg.dst_stmt_id, cfg.control_flow_type):
            edges.setdefault(int(m), []).append([int(a), int(b), int(k)])
    by_unit = {}
    for r in gir.to_dict(orient="records"):
        row = {k: to_int_cell(v) for k, v in r.items()}
        by_unit.setdefault(row.get("unit_id"), []).append(row)
    cases, skipped, nrows = [], [], 0
    for uid, rows in by_unit.items():
        ul = unit_lang.get(uid, lang)
        nrows += len(rows)
        for mid, name, p, b, err in methods_of_rows(rows, ul):
            if err is not None:
                skipped.append((mid, name, ul + ": " + err))
                continue
            cases.append({"params": p, "body": b, "real": sorted(edges.get(mid, [])), "lang": ul,
                          "origin": "frontend:" + ul, "method": name, "method_id": mid,
                          "unit": unit_path.get(uid)})
    return cases, skipped, nrows


# ------------------------------------------------------------------------------------------------
# run / replay
# ------------------------------------------------------------------------------------------------

SIZES = {
    # exhaustive size, sample of the next size, random large programs, oracle cap (small / large),
    # generated functions per language and file, packed lian runs (each over all languages)
    "quick": dict(exh=3, sample=3000, rand=700, cap_small=4000, cap_large=250, ffuncs=40, ffiles=1, procs=8),
    "thorough": dict(exh=4, sample=30000, rand=20000, cap_small=6000, cap_large=600, ffuncs=120, ffiles=4, procs=14),
}
LANGS = ("python", "javascript", "java", "go", "typescript", "c", "php")


def load_corpus():
    d = os.path.join(common.VERIF, "corpus", PROP)
    direct, sources = [], []
    if os.path.isdir(d):
        for f in sorted(os.listdir(d)):
            path = os.path.join(d, f)
            if f.endswith(".json"):
                j = json.load(open(path))
                if j.get("kind") == "direct":
                    direct.append((f, j))
            else:
                for lang, ext in EXT.items():
                    if f.endswith("." + ext):
                        sources.append((lang, path))
    return direct, sources


def frontend_shapes(rng, n):
    out = []
    for _ in range(n):
        b = random_block(rng, rng.randint(3, 16), Ctx0(), maxdepth=3)
        for s in walk(b):
            if s["k"] == "simple" and rng.random() < 0.3:
                s["v"] = 1
        out.append((b, rng.randint(0, 3)))
    return out


def describe(case):
    d = {k: case.get(k) for k in ("origin", "lang", "method", "params", "body", "real", "model", "shape", "nparams")
         if case.get(k) is not None}
    d["violations"] = case.get("viol")
    return d


def run(ctx):
    common.use_repo()
    proofs_ok = ctx.proofs()
    sz = SIZES[ctx.tier]
    rng = ctx.rng
    kinds = live_kinds()
    fps = fingerprints()
    stored = {}
    fpfile = os.path.join(common.VERIF, "fingerprints.json")
    if os.path.exists(fpfile):
        stored = json.load(open(fpfile)).get(PROP, {})
    widened = bool(stored) and stored != fps
    scratch = os.path.join(common.SCRATCH_ROOT, f"lv-{os.getpid()}")
    os.makedirs(scratch, exist_ok=True)
    try:
        _run(ctx, proofs_ok, sz, rng, kinds, fps, widened, scratch)
    finally:
        shutil.rmtree(scratch, ignore_errors=True)


def _run(ctx, proofs_ok, sz, rng, kinds, fps, widened, scratch):
    t0 = time.time()
    corpus_direct, corpus_sources = load_corpus()

    # ---- tie (b): one packed lian run per language (and per file); at most `max_lian` at a time,
    # started now and as slots free up, collected after tie (a)
    workers = max(1, min(os.cpu_count() or 1, int(os.environ.get("LV_WORKERS", "8")), sz["procs"]))
    max_lian = max(1, workers // 2)
    pool_procs = max(1, workers - max_lian)
    pending = []
    for fi in range(sz["ffiles"]):
        d = os.path.join(scratch, f"front{fi}")
        os.makedirs(d, exist_ok=True)
        shapes_by_lang = {lang: frontend_shapes(random.Random(rng.getrandbits(64)), sz["ffuncs"]) for lang in LANGS}
        # the corpus source files ride along with the first run
        files = [pth for l, pth in corpus_sources] if fi == 0 else []
        pending.append((d, shapes_by_lang, files))
    procs = []

    def pump():
        running = sum(1 for x in procs if x[1].poll() is None)
        while pending and running < max_lian:
            d, shapes_by_lang, files = pending.pop(0)
            p, ws, srcs = start_lian(LANGS, shapes_by_lang, d, files)
            procs.append(["all", p, ws, srcs, d])
            running += 1

    pump()

    # ---- tie (a): direct route, streamed in chunks (real code in a process pool, then model/monitor/oracle)
    mult = 3 if widened else 1
    agg = Agg(rng)
    direct_cases([([], 0), ([SIMPLE], 1)], None)                       # imports lian before forking

    def stream():
        for _, j in corpus_direct:
            yield ("corpus", j["shape"], j.get("nparams", 0), sz["cap_small"])
        for b, np in degenerate_shapes():
            yield ("degenerate", b, np, sz["cap_small"])
        for b in exhaustive_shapes(sz["exh"], 3):
            yield ("exhaustive", b, 0, sz["cap_small"])
        # the parameter block matters for entry and exit: all small bodies again with 1 and 3 parameters
        for np in (1, 3, {"n": 1, "pextra": True}):
            for b in exhaustive_shapes(sz["exh"] - 1, 3):
                yield ("exhaustive", b, np, sz["cap_small"])
        _memo.clear()
        nxt = gen_blocks(sz["exh"] + 1, Ctx0(), 3)
        for b in rng.sample(nxt, min(len(nxt), sz["sample"] * mult)):
            yield ("sample", b, rng.choice([0, 1, 1, 3]), sz["cap_small"])
        del nxt
        _memo.clear()
        for _ in range(sz["rand"] * mult):
            yield ("random", random_block(rng, rng.randint(1, 40), Ctx0()),
                   rng.choice([0, 1, 2, 3, {"n": 2, "pextra": True}, {"n": 1, "minit": True}]), sz["cap_large"])

    counts = {"corpus": 0, "degenerate": 0, "exhaustive": 0, "sample": 0, "random": 0}
    chunk = []
    t_real = 0.0

    def flush():
        nonlocal t_real
        if not chunk:
            return
        t1 = time.time()
        cases = direct_cases_parallel([(b, np) for _, b, np, _ in chunk], rng, pool_procs)
        t_real += time.time() - t1
        for c in cases:
            origin, _, _, cap = chunk[c["outer"]]
            c["origin"] = origin
            c["cap"] = cap
        for cap in sorted(set(c["cap"] for c in cases)):
            evaluate([c for c in cases if c["cap"] == cap], kinds, rng, cap, agg.stats)
        agg.add(cases)
        chunk.clear()
        pump()

    for item in stream():
        counts[item[0]] += 1
        chunk.append(item)
        if len(chunk) >= 12000:
            flush()
    flush()
    n_corpus, n_exh, n_sample = counts["corpus"], counts["exhaustive"], counts["sample"]
    t_direct = time.time() - t0
    n_direct = agg.n

    # ---- collect tie (b)
    fcases, fskipped, frontend_errors, frows = [], [], [], 0
    pump()
    deadline = time.time() + 2400
    while pending and time.time() < deadline:
        time.sleep(0.5)
        pump()
    for lang, p, ws, srcs, d in procs:
        try:
            rc = p.wait(timeout=max(5, deadline - time.time()))
        except subprocess.TimeoutExpired:
            p.kill()
            rc = -9
        if rc != 0 or not glob.glob(os.path.join(ws, "lian_workspace", "semantic_p1", "cfg.bundle*")):
            logs = glob.glob(os.path.join(d, "log*.txt"))
            tail = open(logs[0]).read()[-1500:] if logs else ""
            frontend_errors.append({"lang": ",".join(LANGS), "rc": rc, "log_tail": tail,
                                    "sources": {l: open(f).read() for l, f in srcs.items() if os.path.exists(f)}})
            continue
        cs, sk, nrows = frontend_cases("python", ws)
        by_base = {os.path.basename(f): f for f in list(srcs.values()) + [pth for _, pth in corpus_sources]}
        for c in cs:
            c["source_file"] = by_base.get(c.get("unit"))
        fcases += cs
        fskipped += [s_ for s_ in sk]
        frows += nrows
    evaluate(fcases, kinds, rng, sz["cap_large"], agg.stats)
    sources = {}
    for c in fcases:
        f = c.get("source_file")
        if f and f not in sources and os.path.exists(f):
            sources[f] = open(f).read()
    agg.add(fcases)
    stats = agg.stats

    # ---- the two statements of the skeleton semantics agree (Python Interp vs Lean runCtl)
    sem_bad, sem_n = lean_runs_agree(agg.reservoir, rng)

    # ---- coverage
    ctx.cov["evaluations"] = agg.n
    ctx.cov["distinct_nontrivial"] = len(agg.distinct)
    ctx.cov["exhaustive"] = True
    ctx.cov["rule"] = (
        f"direct route: corpus ({n_corpus}) + {counts['degenerate']} degenerate method shapes (0/1/3 parameters, default-value statement in "
        f"the parameter block, init block; empty / declaration-only / single-return / empty-compound bodies; at top level, nested in a "
        f"method, in a class; exhaustive) + ALL structured methods of size<={sz['exh']} without parameters and of size<={sz['exh'] - 1} with "
        f"1 and 3 parameters (nesting<=3) over simple/if/"
        f"while(+prebody,+else,+literal-true)/dowhile/for/break/continue/return/try(0-2 clauses,else,finally)/switch(0-3 cases,"
        f"default)/nested method/class ({n_exh}, exhaustive) + {n_sample} sampled of size {sz['exh'] + 1} + "
        f"{counts['random']} random methods of 1-40 statements with 0-3 parameters; frontends: {sz['ffuncs']}x{sz['ffiles']} generated "
        f"functions per language ({', '.join(LANGS)}) plus hand-written degenerate methods (empty bodies, default parameters, methods in "
        f"classes / nested) in packed lian runs over all languages, every method of every unit checked on its REAL GIR rows; "
        "per method: real edge list == model edge list, cfgCheck on the real edges, Python run enumeration (branches both "
        "ways, loops 0/1/2 times, every case, raise at every step of a try body) on the real edges. "
        "non-trivial = distinct structured method (ids stripped) with a compound statement and a non-empty real CFG")
    ctx.cov["samples"] = [describe(c) for c in agg.samples[:3]]
    if fcases:
        ctx.cov["samples"].append(describe(fcases[len(fcases) // 2]))
    ctx.cov.update({
        "construct_histogram": agg.kinds_hist,
        "methods_direct": n_direct, "methods_frontend": len(fcases), "frontend_rows": frows,
        "frontend_methods_outside_model": len(fskipped),
        "frontend_outside_model_reasons": sorted(set(s[-1] for s in fskipped))[:12],
        "frontend_methods_by_language": {l: sum(1 for c in fcases if c["lang"] == l) for l in LANGS},
        "oracle_runs": stats["oracle_runs"], "oracle_enumeration_complete_for": stats["oracle_exhaustive"],
        "semantics_crosscheck": {"runs": sem_n, "disagreements": len(sem_bad)},
        "correspondence": {"compared": agg.n, "differences": agg.n_diff},
        "real_exceptions": agg.n_crash,
        "fragment": {"inside_F0_of_C04_sound_partial": agg.n_f0, "outside": agg.n - agg.n_f0},
        "not_wf": agg.n_notwf, "frontend_methods_outside_wfCtl": agg.n_frontend_notwf,
        "known_finding_violations": agg.known_hist,
        "workers": workers,
        "fingerprints": fps, "widened_by_fingerprint": widened,
        "timing_s": {"direct_real": round(t_real, 1), "direct_total": round(t_direct, 1), "total": round(time.time() - t0, 1)},
    })
    ctx.assumptions += [
        "the control-skeleton semantics of Spec/Ctl.lean is the meaning of 'B executes immediately after A' (definition, trusted)",
        "exceptions are modelled only as raise-at-a-step inside the body of a try that has catch clauses; finally-on-abrupt-exit is excluded by wfCtl",
        "rows_to_struct (Python) reads the real GIR rows into the structured form; methods it cannot represent are counted, not checked",
    ]

    # ---- verdicts
    for fid in sorted(agg.known_hist):
        ctx.known(fid, finding_line(ctx, fid))
    failing, not_wf, diffs = agg.failing, agg.not_wf, agg.diffs
    if failing:
        c = failing[0]
        rp = {"what": "the real CFG misses an edge / entry / exit that a control-skeleton run of the method needs "
                      "(cfgCheck on the real edges, confirmed shape not covered by a known finding)",
              "failing_methods_in_run": agg.n_failing}
        if c.get("shape") is not None:
            small, np_ = shrink_shape(c["shape"], c["nparams"], kinds, any_unknown)
            ks = check_shape(small, np_, kinds)
            k = ([x for x in ks if unknown_violations(x)] or ks)[0]
            rp.update({"kind": "direct", "shape": small, "nparams": np_, "case": describe(k)})
        else:
            rp.update({"kind": "frontend", "lang": c["lang"], "method": c.get("method"),
                       "source": sources.get(c.get("source_file"), c.get("source_file")), "case": describe(c)})
        ctx.violation(rp)
    elif frontend_errors:
        e = frontend_errors[0]
        ctx.violation({"what": "lian run failed on the generated/corpus files (the semantic phase aborted before writing a CFG)",
                       "kind": "frontend-crash", "lang": e["lang"], "sources": e["sources"], "log_tail": e["log_tail"]})
    elif diffs or sem_bad or not_wf or not proofs_ok:
        c = diffs[0] if diffs else None
        ctx.violation({
            "what": "proof obligation or correspondence broken; the monitor and the run enumeration found no "
                    "failing method in this run's batch",
            "broken_theorems": ctx.audit["failures"],
            "correspondence": {"model": "LianVerif.Cfg.cfg Q.live", "differences": agg.n_diff,
                               "first": describe(c) if c else None},
            "semantics_crosscheck": sem_bad[:2],
            "generated_outside_wfCtl": describe(not_wf[0]) if not_wf else None}, no_input=True)


class Agg:
    """running aggregation over evaluated cases (the cases themselves are not kept)"""

    def __init__(self, rng):
        self.rng = rng
        self.stats = {"oracle_runs": 0, "oracle_exhaustive": 0}
        self.n = self.n_diff = self.n_notwf = self.n_failing = self.n_crash = self.n_frontend_notwf = self.n_f0 = 0
        self.distinct = set()
        self.kinds_hist = {}
        self.known_hist = {}
        self.failing, self.diffs, self.not_wf = [], [], []
        self.reservoir, self.samples = [], []

    def add(self, cases):
        for c in cases:
            self.n += 1
            ks = list(all_kinds(c["params"])) + list(all_kinds(c["body"]))
            for k in ks:
                self.kinds_hist[k] = self.kinds_hist.get(k, 0) + 1
            if c.get("f0"):
                self.n_f0 += 1
            if isinstance(c["real"], str):
                self.n_crash += 1
            elif c["real"] and any(k != "simple" for k in ks):
                blob = json.dumps([strip_ids(c["params"]), strip_ids(c["body"])])
                self.distinct.add(hashlib.blake2b(blob.encode(), digest_size=8).digest())
            if c["diff"]:
                self.n_diff += 1
                if len(self.diffs) < 10:
                    self.diffs.append(c)
            if c["wf"]:
                for v in c["viol"]:
                    if v["known"]:
                        self.known_hist[v["known"]] = self.known_hist.get(v["known"], 0) + 1
                if unknown_violations(c):
                    self.n_failing += 1
                    if len(self.failing) < 10:
                        self.failing.append(c)
            if not c["wf"]:
                if c.get("origin", "").startswith("frontend"):
                    # real-world shape outside the adequacy conditions of the skeleton semantics
                    # (e.g. return inside try/finally): counted, not judged
                    self.n_frontend_notwf += 1
                    continue
                self.n_notwf += 1
                if len(self.not_wf) < 5:
                    self.not_wf.append(c)
            # reservoir sample for the semantics cross-check; a few evidence samples
            if len(self.reservoir) < 600:
                self.reservoir.append(c)
            else:
                r = self.rng.randrange(self.n)
                if r < 600:
                    self.reservoir[r] = c
            if c.get("origin") in ("exhaustive", "random", "sample") and len(self.samples) < 3 and \
                    (self.n % 1500 == 7 or c.get("origin") == "random" and not any(x.get("origin") == "random" for x in self.samples)):
                self.samples.append(c)


def finding_line(ctx, fid):
    for f in ctx.findings:
        if f["id"] == fid:
            return f["line"]
    return fid


def replay(rp):
    common.use_repo()
    kinds = live_kinds()
    if rp.get("kind") == "direct":
        cs = check_shape(rp["shape"], rp.get("nparams", 0), kinds)
        print(json.dumps([{"real": c["real"], "violations": c["viol"], "nested": c.get("nested")} for c in cs]))
        return 1 if any_unknown(cs) else 0
    if rp.get("kind") in ("frontend", "frontend-crash"):
        scratch = os.path.join(common.SCRATCH_ROOT, f"lv-{os.getpid()}")
        os.makedirs(scratch, exist_ok=True)
        try:
            sources = rp.get("sources") or {rp["lang"]: rp["source"]}
            files = []
            for lang, text in sources.items():
                src = os.path.join(scratch, "replay_" + lang + "." + EXT[lang])
                open(src, "w").write(text)
                files.append(src)
            ws = os.path.join(scratch, "ws")
            env = dict(os.environ, PYTHONPATH=os.path.join(common.REPO, "src"), PYTHONHASHSEED="0")
            p = subprocess.run(["/venv/bin/python", os.path.join(common.REPO, "src", "lian", "main.py"), "run", "-l",
                                ",".join(sources), "-w", ws, "-f", "-q"] + files, capture_output=True, text=True,
                               env=env, cwd=scratch)
            if p.returncode != 0 or not glob.glob(os.path.join(ws, "lian_workspace", "semantic_p1", "cfg.bundle*")):
                print(json.dumps({"lian_failed": (p.stdout + p.stderr)[-800:]}))
                return 1
            cases, _, _ = frontend_cases(next(iter(sources)), ws)
            stats = {"oracle_runs": 0, "oracle_exhaustive": 0}
            evaluate(cases, kinds, random.Random(0), 2000, stats)
            bad = [(c.get("method"), unknown_violations(c)) for c in cases if c["wf"] and unknown_violations(c)]
            print(json.dumps({"failing_methods": bad[:5]}))
            return 1 if bad else 0
        finally:
            shutil.rmtree(scratch, ignore_errors=True)
    print("replay file names no failing input (proof/correspondence break): re-run ./check C04 quick")
    return 1
