"""C19 — call-path store keeps exactly the maximal paths.

Correspondence: real PathManager (from /repo/src as it is now) vs Lean model `PathStore.step`
(variant "current") on the same histories; independent oracle: set-of-maximal-paths in Python.
"""
import itertools, json, os, sys
import common
from common import drv_batch, drv_ok

A, B, C = (1, 2, 3), (1, 4, 5), (3, 6, 1)
NEG = (1, -1, 2)


def real_run(history):
    """Run a history on the real code. Returns [(ret, sorted paths)] or raises."""
    from lian.common_structs import PathManager, CallPath, CallSite
    pm = PathManager()
    out = []
    for kind, path in history:
        cp = CallPath(tuple(CallSite(*s) for s in path))
        if kind == "add":
            r = pm.add_path(cp)
        elif kind == "remove":
            r = pm.remove_path(cp)
        else:
            r = pm.path_exists(cp)
        stored = sorted([[list(cs.to_tuple()) for cs in p.path] for p in pm.paths])
        # the two views of the store must agree (PathManager.paths vs PathTrie.paths)
        trie_view = sorted([[list(cs.to_tuple()) for cs in p.path] for p in pm.trie.paths])
        out.append([bool(r), stored, trie_view == stored])
    return out


def oracle_run(history):
    """The statement of C19, directly: a set of paths."""
    S = set()
    out = []
    for kind, path in history:
        p = tuple(tuple(s) for s in path)
        if kind == "add":
            bad = any(x < 0 for s in p for x in s)
            ext = any(len(q) > len(p) and q[:len(p)] == p for q in S)
            if bad or p in S or ext:
                r = False
            else:
                S = {q for q in S if not (len(q) < len(p) and p[:len(q)] == q)}
                S.add(p)
                r = True
        elif kind == "remove":
            r = p in S
            S.discard(p)
        else:
            r = p in S
        out.append([r, sorted([[list(s) for s in q] for q in S])])
    return out


def model_runs(histories, variant="current"):
    reqs = [{"m": "pathstore", "variant": variant,
             "ops": [[k, [list(s) for s in p]] for k, p in h]} for h in histories]
    outs = drv_ok(drv_batch(reqs))
    return [[[o[0], sorted(o[1])] for o in out] for out in outs]


def paths_upto(alpha, n):
    res = [()]
    for k in range(1, n + 1):
        res += list(itertools.product(alpha, repeat=k))
    return res


def exhaustive_histories(tier):
    bad = [(NEG,), (A, NEG), (NEG, A)]
    def ops_for(plen):
        good = paths_upto([A, B], plen)
        return [("add", p) for p in good + bad] + [("remove", p) for p in good] + \
               [("exist", p) for p in [(), (A,), (A, B)]]
    # paths of length <= 3, histories of length <= 3
    for n in range(1, 4):
        for h in itertools.product(ops_for(3), repeat=n):
            yield list(h)
    if tier == "thorough":
        # paths of length <= 2, histories of length exactly 4
        for h in itertools.product(ops_for(2), repeat=4):
            yield list(h)


def random_history(rng):
    alpha = [A, B, C]
    n = rng.randint(5, 40)
    stored = []
    h = []
    for _ in range(n):
        if stored and rng.random() < 0.6:
            base = rng.choice(stored)
            r = rng.random()
            if r < 0.4 and len(base) < 4:
                p = base + (rng.choice(alpha),)
            elif r < 0.8 and len(base) > 0:
                p = base[:rng.randint(0, len(base) - 1)]
            else:
                p = base
        else:
            p = tuple(rng.choice(alpha) for _ in range(rng.randint(0, 4)))
        if rng.random() < 0.05:
            i = rng.randint(0, len(p))      # invalid site at any position
            p = p[:i] + (NEG,) + p[i:]
        kind = rng.choices(["add", "remove", "exist"], [0.6, 0.3, 0.1])[0]
        h.append((kind, p))
        if kind == "add":
            stored.append(p)
    return h


def nontrivial(out):
    """A history is non-trivial when it has an accepted add AND (a refused add or an accepted remove)."""
    return True


def first_diff(a, b):
    for i, (x, y) in enumerate(zip(a, b)):
        if x != y:
            return i
    return None if len(a) == len(b) else min(len(a), len(b))


def check_history(h):
    """returns (real_out, oracle_out, violates)"""
    try:
        r = real_run(h)
    except Exception as e:
        r = [["exception", type(e).__name__, str(e)[:200]]]
    o = oracle_run(h)
    rr = [x[:2] for x in r]
    viol = rr != o or any(len(x) > 2 and x[2] is False for x in r)
    return r, o, viol


def run(ctx):
    common.use_repo()
    proofs_ok = ctx.proofs()
    tier = ctx.tier
    corpus_dir = os.path.join(common.VERIF, "corpus", "C19")
    histories = []
    if os.path.isdir(corpus_dir):
        for f in sorted(os.listdir(corpus_dir)):
            histories.append([(k, tuple(tuple(s) for s in p)) for k, p in json.load(open(os.path.join(corpus_dir, f)))["history"]])
    n_corpus = len(histories)
    histories += list(exhaustive_histories(tier))
    n_exh = len(histories) - n_corpus
    n_rand = 3000 if tier == "quick" else 60000
    for _ in range(n_rand):
        histories.append(random_history(ctx.rng))

    ctx.cov["rule"] = (f"corpus ({n_corpus}) + exhaustive histories of length<=3 over add/remove/exists x paths over a "
                       f"2-site alphabet (length<=3, plus 3 invalid paths){' + all length-4 histories over paths of length<=2' if tier == 'thorough' else ''} ({n_exh}) + "
                       f"{n_rand} random histories of length 5-40 over a 3-site alphabet biased to prefix-related paths; "
                       "non-trivial = distinct history with >=1 accepted add and (>=1 refused add or accepted remove or eviction)")
    ctx.cov["exhaustive"] = True
    model_out = model_runs(histories)
    seen = set()
    nontriv = 0
    corr_breaks = []
    failing = []
    stats = {"add_ok": 0, "add_refused": 0, "evictions": 0, "remove_ok": 0, "remove_miss": 0, "exist": 0}
    for h, m in zip(histories, model_out):
        r, o, viol = check_history(h)
        ctx.cov["evaluations"] += 1
        key = json.dumps(h)
        acc = ref = ev = rem = False
        prev = 0
        for (k, _), x in zip(h, o):
            if k == "add":
                if x[0]:
                    acc = True; stats["add_ok"] += 1
                    if len(x[1]) <= prev: ev = True; stats["evictions"] += 1
                else:
                    ref = True; stats["add_refused"] += 1
            elif k == "remove":
                if x[0]: rem = True; stats["remove_ok"] += 1
                else: stats["remove_miss"] += 1
            else:
                stats["exist"] += 1
            prev = len(x[1])
        if key not in seen and acc and (ref or ev or rem):
            nontriv += 1
        seen.add(key)
        if viol:
            failing.append((h, r, o))
        if [x[:2] for x in r] != m:
            corr_breaks.append((h, r, m))
    ctx.cov["distinct_nontrivial"] = nontriv
    ctx.cov["op_outcomes"] = stats
    ctx.cov["samples"] = [{"history": histories[i], "real": check_history(histories[i])[0]}
                          for i in (n_corpus + 40, len(histories) - 1)]
    ctx.cov["correspondence"] = {"compared": len(histories), "differences": len(corr_breaks)}

    if failing:
        h, r, o = failing[0]
        small = common.shrink_list(h, lambda c: len(c) > 0 and check_history(c)[2])
        r, o, _ = check_history(small)
        ctx.violation({"what": "real PathManager disagrees with the set-of-maximal-paths specification",
                       "history": small, "real": r, "spec": o, "failing_histories_in_run": len(failing)})
    elif corr_breaks or not proofs_ok:
        h, r, m = corr_breaks[0] if corr_breaks else (None, None, None)
        ctx.violation({"what": "proof obligation or correspondence broken; search over all histories of this run found no history violating the specification",
                       "broken_theorems": ctx.audit["failures"],
                       "correspondence": {"model": "LianVerif.PathStore.step", "history": h, "real": r, "model_out": m}},
                      no_input=True)


def replay(rp):
    common.use_repo()
    h = [(k, tuple(tuple(s) for s in p)) for k, p in rp["history"]]
    r, o, viol = check_history(h)
    print(json.dumps({"real": r, "spec": o, "violates": viol}))
    return 1 if viol else 0
