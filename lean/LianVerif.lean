import LianVerif.Model.PathStore
import LianVerif.Spec.MaxPaths
import LianVerif.Proofs.PathStore
import LianVerif.Properties.C19
import LianVerif.Model.Determinism
import LianVerif.Proofs.Determinism
import LianVerif.Properties.C14
