import LianVerif.Model.PathStore
import LianVerif.Spec.MaxPaths
import LianVerif.Proofs.PathStore
import LianVerif.Properties.C19
import LianVerif.Model.EntryPoints
import LianVerif.Spec.EntrySelect
import LianVerif.Proofs.EntryPoints
import LianVerif.Properties.C20
