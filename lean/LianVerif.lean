import LianVerif.Model.PathStore
import LianVerif.Spec.MaxPaths
import LianVerif.Proofs.PathStore
import LianVerif.Properties.C19
