import LianVerif.Model.PathStore
import LianVerif.Spec.MaxPaths
import LianVerif.Proofs.PathStore
import LianVerif.Properties.C19
import LianVerif.Model.Events
import LianVerif.Spec.Events
import LianVerif.Proofs.Events
import LianVerif.Properties.C17
