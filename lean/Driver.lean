/-
lvdrv — line-protocol driver.  One JSON request per input line, one JSON reply per output line.
Request: {"m": "<model>", …model-specific fields…}.  Reply: {"ok": <value>} or {"err": "<message>"}.
The handlers call the same definitions the theorems in LianVerif/Properties are about.
-/
import LianVerif.Drv.PathStore
import LianVerif.Drv.Fold
import LianVerif.Drv.Aref

open Lean LianVerif.Drv

def dispatch (j : Json) : Except String Json := do
  let m ← getStr (← field j "m")
  match m with
  | "pathstore" => LianVerif.Drv.PathStore.handle j
  | "fold" => LianVerif.Drv.Fold.handle j
  | "aref" => LianVerif.Drv.Aref.handle j
  | _ => throw s!"unknown model {m}"

partial def loop (hin hout : IO.FS.Stream) : IO Unit := do
  let line ← hin.getLine
  if line.isEmpty then return ()
  let reply : Json :=
    match Json.parse line with
    | .error e => Json.mkObj [("err", Json.str s!"parse: {e}")]
    | .ok j =>
      match dispatch j with
      | .ok v => Json.mkObj [("ok", v)]
      | .error e => Json.mkObj [("err", Json.str e)]
  hout.putStrLn reply.compress
  loop hin hout

def main : IO Unit := do
  let hin ← IO.getStdin
  let hout ← IO.getStdout
  loop hin hout
  hout.flush
