/-
lvdrv — line-protocol driver.  One JSON request per input line, one JSON reply per output line.
Request: {"m": "<model>", …model-specific fields…}.  Reply: {"ok": <value>} or {"err": "<message>"}.
The handlers call the same definitions the theorems in LianVerif/Properties are about.
-/
import LianVerif.Drv.PathStore
import LianVerif.Drv.Lru
import LianVerif.Drv.Loader
import LianVerif.Drv.MapLoader
import LianVerif.Drv.Cfg
import LianVerif.Drv.Determinism
import LianVerif.Drv.ReachDef
import LianVerif.Drv.Events
import LianVerif.Drv.Scope
import LianVerif.Drv.Hoist
import LianVerif.Drv.Termination
import LianVerif.Drv.Flatten
import LianVerif.Drv.WfCheck
import LianVerif.Drv.Table
import LianVerif.Drv.BlockView
import LianVerif.Drv.Workspace
import LianVerif.Drv.EntryPoints
import LianVerif.Drv.GirExec
import LianVerif.Drv.LowerPy
import LianVerif.Drv.Frames
import LianVerif.Drv.Sched
import LianVerif.Drv.Taint
import LianVerif.Drv.Fold
import LianVerif.Drv.Aref
import LianVerif.Drv.PyImportPre
import LianVerif.Drv.Meta
import LianVerif.Drv.Core
import LianVerif.Drv.Vocabulary
import LianVerif.Drv.LowerCore

open Lean LianVerif.Drv

def dispatch (j : Json) : Except String Json := do
  let m ← getStr (← field j "m")
  match m with
  | "pathstore" => LianVerif.Drv.PathStore.handle j
  | "lru" => LianVerif.Drv.Lru.handle j
  | "loader" => LianVerif.Drv.Loader.handle j
  | "maploader" => LianVerif.Drv.MapLoader.handle j
  | "cfg" => LianVerif.Drv.Cfg.handleCfg j
  | "cfgcheck" => LianVerif.Drv.Cfg.handleCheck j
  | "determinism" => LianVerif.Drv.Determinism.handle j
  | "worklist" | "reachdef" => LianVerif.Drv.ReachDef.handle j
  | "events" => LianVerif.Drv.Events.handle j
  | "scopes" => LianVerif.Drv.Scope.handleScopes j
  | "resolver" => LianVerif.Drv.Scope.handleResolver j
  | "hoist" => LianVerif.Drv.Hoist.handle j
  | "termination" => LianVerif.Drv.Termination.handle j
  | "flatten" => LianVerif.Drv.Flatten.handle j
  | "wfcheck" => LianVerif.Drv.WfCheck.handle j
  | "table" => LianVerif.Drv.Table.handle j
  | "tablealias" => LianVerif.Drv.Table.handleAlias j
  | "blockview" => LianVerif.Drv.BlockView.handle j
  | "blockworld" => LianVerif.Drv.BlockWorld.handle j
  | "workspace" => LianVerif.Drv.Workspace.handle j
  | "entrypoints" => LianVerif.Drv.EntryPoints.handle j
  | "girexec" => LianVerif.Drv.GirExec.handle j
  | "lowerpy" => LianVerif.Drv.LowerPy.handleLower j
  | "evalpy" => LianVerif.Drv.LowerPy.handleEval j
  | "modelexec" => LianVerif.Drv.LowerPy.handleModelExec j
  | "frames" => LianVerif.Drv.Frames.handle j
  | "sched" => LianVerif.Drv.Sched.handle j
  | "taint" => LianVerif.Drv.Taint.handle j
  | "taintrules" => LianVerif.Drv.Taint.handleRules j
  | "fold" => LianVerif.Drv.Fold.handle j
  | "aref" => LianVerif.Drv.Aref.handle j
  | "pyimportpre" => LianVerif.Drv.PyImportPre.handle j
  | "meta" => LianVerif.Drv.Meta.handle j
  | "evalcore" => LianVerif.Drv.Core.handleEval j
  | "vocab" => LianVerif.Drv.Vocabulary.handle j
  | "lowercore" => LianVerif.Drv.LowerCore.handleLower j
  | "coreexec" => LianVerif.Drv.LowerCore.handleModelExec j
  | _ => throw s!"unknown model {m}"

partial def loop (hin hout : IO.FS.Stream) : IO Unit := do
  let line ← hin.getLine
  if line.isEmpty then return ()
  let reply : Json :=
    match Json.parse line with
    | .error e => Json.mkObj [("err", Json.str s!"parse: {e}")]
    | .ok j =>
      match dispatch j with
      | .ok v => Json.mkObj [("ok", v)]
      | .error e => Json.mkObj [("err", Json.str e)]
  hout.putStrLn reply.compress
  loop hin hout

def main : IO Unit := do
  let hin ← IO.getStdin
  let hout ← IO.getStdout
  loop hin hout
  hout.flush
