/-
C05 — Names are bound to the declaration selected by the language's lexical scoping.

Only property theorems, non-vacuity examples and negative witnesses live here.
Models: LianVerif/Model/Scope.lean   (`scopeTable` = code in /repo now, `scopeTable0` = pinned commit)
        LianVerif/Model/Resolver.lean (`resolveDecl`, `bind`)
        LianVerif/Model/Hoist.lean    (`hoist` = code in /repo now, `hoist0` = pinned commit)
Spec:   LianVerif/Spec/Lexical.lean   (`lexDecl`: walk up the scope tree)
-/
import LianVerif.Proofs.Resolver
import LianVerif.Proofs.Scope
import LianVerif.Model.Hoist

namespace LianVerif.C05
open LianVerif.Scopes LianVerif.Resolver LianVerif.Lexical

variable {ν : Type} [DecidableEq ν]

/-! ## 1. The resolver selects the innermost enclosing declaration -/

/-- **C05 (language-independent core), table form.**
Let the visible-scope entry of the current scope `cur` hold exactly the path from `cur` to the unit
root (`hv`), let ids strictly decrease along that path (`hdesc`, a consequence of `IdOrder`), and let
no implicit root block outside the path declare `n` (`himp`).  Then the set-intersection + maximum
computation of `resolve_symbol_source_decl` returns exactly what lexical scoping prescribes: the last
declaration of `n` in the innermost scope on the path that declares `n`, and nothing when no scope on
the path declares it. -/
theorem C05_resolver_innermost_core (recs : List ScopeRec) (S : Summary ν) (cur : Int) (n : ν)
    (hcur : 0 ≤ cur) (v : List Int)
    (hv : S.avail.get cur.toNat = some v ∧ ∀ x, x ∈ v ↔ x ∈ chain recs cur)
    (hdesc : (chain recs cur).Pairwise (fun a b => a > b))
    (himp : ∀ b ∈ S.implicit, (declScopes S.decls n).contains b = true → b ∈ chain recs cur) :
    resolveDecl S cur n = lexDecl recs S.decls cur n := by
  have hne : (cur == -1) = false := by
    rw [beq_eq_false_iff_ne]; intro h; rw [h] at hcur; exact absurd hcur (by decide)
  unfold resolveDecl lexDecl
  rw [hne]
  simp only [Bool.false_eq_true, if_false]
  have hT : ∀ x, x ∈ targets S cur n ↔
      (x ∈ chain recs cur ∧ (fun s => (declScopes S.decls n).contains s) x = true) := by
    intro x
    rw [mem_targets, hv.1]
    simp only [Option.getD_some]
    constructor
    · rintro ⟨h | ⟨_, h⟩, hp⟩
      · exact ⟨himp x h hp, hp⟩
      · exact ⟨(hv.2 x).1 h, hp⟩
    · rintro ⟨h, hp⟩
      exact ⟨Or.inr ⟨hcur, (hv.2 x).2 h⟩, hp⟩
  rw [maxInt_eq_find hdesc hT]
  cases List.find? (fun s => (declScopes S.decls n).contains s) (chain recs cur) <;> rfl

/-- **C05 ("never a sibling or inner scope").**  Whatever the tables contain: a declaration returned
by the resolver carries the requested name and lives in a scope that is visible from `cur` — a member
of the visible-scope entry of `cur` or one of the unit's implicit root blocks.  (No ordering
hypothesis is needed for this half.) -/
theorem C05_resolved_scope_is_visible (S : Summary ν) (cur : Int) (n : ν) (d : Decl ν)
    (h : resolveDecl S cur n = some d) :
    d ∈ S.decls ∧ d.name = n ∧
      (d.scope ∈ S.implicit ∨ (0 ≤ cur ∧ d.scope ∈ (S.avail.get cur.toNat).getD [])) := by
  unfold resolveDecl at h
  split at h
  · simp at h
  · cases hm : maxInt (targets S cur n) with
    | none => rw [hm] at h; simp at h
    | some m =>
      rw [hm] at h
      simp only at h
      obtain ⟨hd, hsc, hn⟩ := symbolInfo_some h
      obtain ⟨hmT, _⟩ := maxInt_some hm
      have := (mem_targets.1 hmT).1
      rw [← hsc] at this
      exact ⟨hd, hn, this⟩

/-- with a visible-scope entry equal to the path to the root, "visible" means ancestor-or-self (or
an implicit root block): the declaration is never one of a sibling or inner scope. -/
theorem C05_never_sibling_or_inner (recs : List ScopeRec) (S : Summary ν) (cur : Int) (n : ν)
    (d : Decl ν) (v : List Int)
    (hv : S.avail.get cur.toNat = some v ∧ ∀ x, x ∈ v ↔ x ∈ chain recs cur)
    (h : resolveDecl S cur n = some d) :
    d.scope ∈ chain recs cur ∨ d.scope ∈ S.implicit := by
  obtain ⟨_, _, hvis⟩ := C05_resolved_scope_is_visible S cur n d h
  rcases hvis with h1 | ⟨_, h2⟩
  · exact Or.inr h1
  · rw [hv.1] at h2
    exact Or.inl ((hv.2 _).1 h2)

/-- **C05 ("reported unresolved iff no declaration is visible").** -/
theorem C05_unresolved_iff (S : Summary ν) (cur : Int) (n : ν) (hcur : cur ≠ -1) :
    resolveDecl S cur n = none ↔
      ∀ x, (x ∈ S.implicit ∨ (0 ≤ cur ∧ x ∈ (S.avail.get cur.toNat).getD [])) →
        (declScopes S.decls n).contains x = false := by
  have hne : (cur == -1) = false := by rw [beq_eq_false_iff_ne]; exact hcur
  unfold resolveDecl
  rw [hne]
  simp only [Bool.false_eq_true, if_false]
  constructor
  · intro h x hx
    cases hm : maxInt (targets S cur n) with
    | none =>
      have hnil := maxInt_eq_none.1 hm
      rw [Bool.eq_false_iff]
      intro hp
      have : x ∈ targets S cur n := mem_targets.2 ⟨hx, hp⟩
      rw [hnil] at this; simp at this
    | some m =>
      rw [hm] at h
      simp only at h
      obtain ⟨hmT, _⟩ := maxInt_some hm
      obtain ⟨d, hd⟩ := symbolInfo_isSome (mem_targets.1 hmT).2
      rw [hd] at h; simp at h
  · intro h
    cases hm : maxInt (targets S cur n) with
    | none => rfl
    | some m =>
      obtain ⟨hmT, _⟩ := maxInt_some hm
      obtain ⟨hvis, hp⟩ := mem_targets.1 hmT
      rw [h m hvis] at hp
      exact absurd hp (by simp)

/-! ## 2. The tables built by `summarize_symbol_decls` satisfy the hypotheses above -/

/-- **the closure computes ancestor paths.**  If the scope space satisfies `IdOrder` (ascending ids,
every scope's parent is the root or a scope with a smaller id — checked by the driver on every real
unit), the worklist closure terminates within the model's fuel and the visible-scope entry of the
root and of every scope is exactly the path to the root. -/
theorem C05_closure_is_ancestor_path (recs : List ScopeRec) (h : idOrder recs = true) :
    (closure (availInit recs)).2 = true ∧
    ∀ cur : Int, (cur = 0 ∨ isScopeStmt recs cur = true) →
      ∃ v, (closure (availInit recs)).1.get cur.toNat = some v ∧ ∀ x, x ∈ v ↔ x ∈ chain recs cur :=
  closure_spec (wf_of_idOrder h)

/-- ids strictly decrease along every path to the root. -/
theorem C05_path_ids_decrease (recs : List ScopeRec) (h : idOrder recs = true) (cur : Int)
    (hcur : cur = 0 ∨ isScopeStmt recs cur = true) :
    (chain recs cur).Pairwise (fun a b => a > b) :=
  chain_desc' (wf_of_idOrder h) hcur

/-- **C05 (language-independent core), model form.**  For the summary that the model of
`summarize_symbol_decls` builds from any scope space satisfying `IdOrder`, for every current scope
(the unit root or a scope) and every name that no implicit root block outside the path declares:
the resolver returns the declaration lexical scoping selects. -/
theorem C05_resolver_innermost (recs : List ScopeRec) (ds : List (Decl ν)) (cur : Int) (n : ν)
    (hid : idOrder recs = true) (hcur : cur = 0 ∨ isScopeStmt recs cur = true)
    (himp : ∀ b ∈ implicitRoots recs, (declScopes ds n).contains b = true → b ∈ chain recs cur) :
    resolveDecl (summaryOf ds recs) cur n = lexDecl recs ds cur n := by
  have w := wf_of_idOrder hid
  obtain ⟨v, hv, hvm⟩ := (closure_spec w).2 cur hcur
  have h0 : 0 ≤ cur := by
    rcases hcur with h | h
    · omega
    · obtain ⟨r, hr, hk, hst⟩ := isScopeStmt_iff.1 h
      have := (w.par r hr hk).1
      omega
  exact C05_resolver_innermost_core recs (summaryOf ds recs) cur n h0 v ⟨hv, hvm⟩
    (chain_desc' w hcur) himp

/-- the same through the certified monitor: whenever the driver's checks `idOrder` and `availOk`
accept a (real) scope space and visible-scope table, the resolver on these tables is lexical. -/
theorem C05_resolver_innermost_monitored (recs : List ScopeRec) (S : Summary ν) (cur : Int) (n : ν)
    (hid : idOrder recs = true) (hav : availOk recs S.avail = true)
    (hcur : cur = 0 ∨ isScopeStmt recs cur = true)
    (himp : ∀ b ∈ S.implicit, (declScopes S.decls n).contains b = true → b ∈ chain recs cur) :
    resolveDecl S cur n = lexDecl recs S.decls cur n := by
  have w := wf_of_idOrder hid
  obtain ⟨v, hv, hvm⟩ := availOk_sound hav cur hcur
  have h0 : 0 ≤ cur := by
    rcases hcur with h | h
    · omega
    · obtain ⟨r, hr, hk, hst⟩ := isScopeStmt_iff.1 h
      have := (w.par r hr hk).1
      omega
  exact C05_resolver_innermost_core recs S cur n h0 v ⟨hv, hvm⟩ (chain_desc' w hcur) himp

/-! ## 3. Renaming -/

section Alpha
variable {μ : Type} [DecidableEq μ]

/-- **C05 (renaming, all identifiers).**  The whole per-unit pipeline — `discover_scopes`,
`correct_scopes`, `summarize_symbol_decls`, resolver, def-use rule — commutes with every injective
renaming `σ` of identifiers that commutes with "last dotted segment": the occurrence `σ n` in the
renamed unit is bound to the same declaration statement, in the same scope, under the renamed name. -/
theorem C05_alpha (σ : ν → μ) (hinj : Function.Injective σ)
    (lastSeg : ν → Option ν) (lastSeg' : μ → Option μ) (hseg : ∀ a, lastSeg' (σ a) = (lastSeg a).map σ)
    (t : OpTable) (rows : List (Row ν)) (stmt : Nat) (n : ν) (mode : Mode) :
    bindRows lastSeg' t (rows.map (Row.map σ)) stmt (σ n) mode =
      (bindRows lastSeg t rows stmt n mode).map (Decl.map σ) := by
  unfold bindRows
  simp only [shapes_map σ rows, decls_map σ lastSeg lastSeg' hseg]
  exact bind_map σ hinj (summaryOf _ _) _ stmt n mode

/-- the scope structure does not depend on identifiers at all. -/
theorem C05_scope_structure_name_independent (σ : ν → μ) (t : OpTable) (rows : List (Row ν)) :
    scopeTable t ((rows.map (Row.map σ)).map Row.shape) = scopeTable t (rows.map Row.shape) := by
  rw [shapes_map σ rows]

end Alpha

/-- `S` with the declaration made by statement `d0` renamed to `n'`. -/
def renameIn (S : Summary ν) (d0 : Nat) (n' : ν) : Summary ν :=
  { S with decls := renameDecl S.decls d0 n' }

theorem declScopes_eq (ds : List (Decl ν)) (n : ν) :
    declScopes ds n = (ds.filter (fun d => (fun _ : Decl ν => true) d && d.name == n)).map (·.scope) := by
  simp [declScopes]

theorem symbolInfo_eq (ds : List (Decl ν)) (sc : Int) (n : ν) :
    symbolInfo ds sc n = (ds.filter (fun d => (fun d : Decl ν => d.scope == sc) d && d.name == n)).getLast? := rfl

theorem maxInt_const {T : List Int} {c : Int} (hall : ∀ x ∈ T, x = c) (hc : c ∈ T) : maxInt T = some c := by
  obtain ⟨m, hm⟩ := maxInt_isSome_of_mem hc
  rw [hm, hall m (maxInt_some hm).1]

theorem getLast?_const {α : Type} {l : List α} {c : α} (hall : ∀ x ∈ l, x = c) (hc : c ∈ l) :
    l.getLast? = some c := by
  cases h : l.getLast? with
  | none => rw [List.getLast?_eq_none_iff] at h; rw [h] at hc; simp at hc
  | some x => rw [hall x (List.mem_of_getLast? h)]

/-- **C05 (renaming one declaration) — the occurrences bound to it.**  Rename the declaration made
by statement `d0` from `n` to a fresh name `n'`.  Every occurrence of `n` that was bound to that
declaration is, once renamed to `n'` as well, still bound to it. -/
theorem C05_alpha_single_bound (S : Summary ν) (d0 : Nat) (n n' : ν) (cur : Int) (dd : Decl ν)
    (hfresh : ∀ d ∈ S.decls, d.name ≠ n')
    (huniq : ∀ d ∈ S.decls, d.stmt = d0 → d = dd)
    (h : resolveDecl S cur n = some dd) (hdd : dd.stmt = d0) :
    resolveDecl (renameIn S d0 n') cur n' = some { dd with name := n' } := by
  obtain ⟨hmem, _, hvis⟩ := C05_resolved_scope_is_visible S cur n dd h
  have hcur : (cur == -1) = false := by
    cases hc : (cur == -1) with
    | false => rfl
    | true => unfold resolveDecl at h; rw [hc] at h; simp at h
  -- scopes declaring n' after the renaming: exactly dd.scope
  have hD : ∀ x, (declScopes (renameDecl S.decls d0 n') n').contains x = true ↔ x = dd.scope := by
    intro x
    rw [declScopes_eq, filter_rename_new S.decls d0 n' hfresh _ (fun _ => rfl), List.contains_iff_mem]
    simp only [List.mem_map, List.mem_filter, Bool.true_and, beq_iff_eq]
    constructor
    · rintro ⟨d', ⟨d, ⟨hd, hst⟩, rfl⟩, rfl⟩
      rw [huniq d hd hst]
    · rintro rfl
      exact ⟨{ dd with name := n' }, ⟨dd, ⟨hmem, hdd⟩, rfl⟩, rfl⟩
  have hT : ∀ x ∈ targets (renameIn S d0 n') cur n', x = dd.scope := by
    intro x hx
    exact (hD x).1 (mem_targets.1 hx).2
  have hTm : dd.scope ∈ targets (renameIn S d0 n') cur n' :=
    mem_targets.2 ⟨hvis, (hD dd.scope).2 rfl⟩
  unfold resolveDecl
  rw [hcur]
  simp only [Bool.false_eq_true, if_false]
  rw [maxInt_const hT hTm]
  show symbolInfo (renameDecl S.decls d0 n') dd.scope n' = _
  rw [symbolInfo_eq, filter_rename_new S.decls d0 n' hfresh _ (fun _ => rfl), List.getLast?_map]
  have hall : ∀ d ∈ S.decls.filter (fun d => (fun d : Decl ν => d.scope == dd.scope) d && d.stmt == d0), d = dd := by
    intro d hd
    rw [List.mem_filter] at hd
    have := hd.2
    simp only [Bool.and_eq_true, beq_iff_eq] at this
    exact huniq d hd.1 this.2
  have hin : dd ∈ S.decls.filter (fun d => (fun d : Decl ν => d.scope == dd.scope) d && d.stmt == d0) := by
    rw [List.mem_filter]
    exact ⟨hmem, by simp [hdd]⟩
  rw [getLast?_const hall hin]
  rfl

/-- **C05 (renaming one declaration) — the occurrences of the old name NOT bound to it** keep their
binding (they are not renamed). -/
theorem C05_alpha_single_unbound (S : Summary ν) (d0 : Nat) (n n' : ν) (cur : Int) (hne : n ≠ n')
    (h : ∀ dd, resolveDecl S cur n = some dd → dd.stmt ≠ d0) :
    resolveDecl (renameIn S d0 n') cur n = resolveDecl S cur n := by
  by_cases hcur : (cur == -1) = true
  · unfold resolveDecl; rw [if_pos hcur, if_pos hcur]
  -- after the renaming the scopes declaring `n` are a subset of those before
  have hDsub : ∀ x, (declScopes (renameDecl S.decls d0 n') n).contains x = true →
      (declScopes S.decls n).contains x = true := by
    intro x hx
    rw [declScopes_eq, filter_rename_old S.decls d0 n n' hne, List.contains_iff_mem] at hx
    rw [declScopes_eq, List.contains_iff_mem]
    obtain ⟨d, hd, rfl⟩ := List.mem_map.1 hx
    exact List.mem_map.2 ⟨d, (List.mem_filter.1 hd).1, rfl⟩
  have hTsub : ∀ x ∈ targets (renameIn S d0 n') cur n, x ∈ targets S cur n := by
    intro x hx
    obtain ⟨hv, hp⟩ := mem_targets.1 hx
    exact mem_targets.2 ⟨hv, hDsub x hp⟩
  unfold resolveDecl
  rw [if_neg hcur, if_neg hcur]
  cases hm : maxInt (targets S cur n) with
  | none =>
    have hnil := maxInt_eq_none.1 hm
    have : targets (renameIn S d0 n') cur n = [] := by
      cases hT' : targets (renameIn S d0 n') cur n with
      | nil => rfl
      | cons a as =>
        have := hTsub a (by rw [hT']; exact List.mem_cons_self)
        rw [hnil] at this; simp at this
    rw [this]; rfl
  | some M =>
    simp only
    obtain ⟨hMT, _⟩ := maxInt_some hm
    obtain ⟨hMvis, hMp⟩ := mem_targets.1 hMT
    obtain ⟨r, hr⟩ := symbolInfo_isSome hMp
    have hres : resolveDecl S cur n = some r := by
      unfold resolveDecl; rw [if_neg hcur, hm]; exact hr
    have hrst : r.stmt ≠ d0 := h r hres
    obtain ⟨hrmem, hrsc, hrname⟩ := symbolInfo_some hr
    -- M still declares n after the renaming (through r)
    have hMD' : (declScopes (renameDecl S.decls d0 n') n).contains M = true := by
      rw [declScopes_eq, filter_rename_old S.decls d0 n n' hne, List.contains_iff_mem]
      refine List.mem_map.2 ⟨r, ?_, hrsc⟩
      rw [List.mem_filter, List.mem_filter]
      refine ⟨⟨hrmem, by simp [hrname]⟩, by simpa using hrst⟩
    have hMT' : M ∈ targets (renameIn S d0 n') cur n := mem_targets.2 ⟨hMvis, hMD'⟩
    rw [maxInt_of_subset hm hMT' hTsub]
    simp only
    show symbolInfo (renameDecl S.decls d0 n') M n = symbolInfo S.decls M n
    rw [hr, symbolInfo_eq, filter_rename_old S.decls d0 n n' hne]
    exact getLast?_filter_of_last (by rw [← symbolInfo_eq]; exact hr) (by simpa using hrst)

/-- **C05 (renaming one declaration) — all other names** are unaffected. -/
theorem C05_alpha_single_other (S : Summary ν) (d0 : Nat) (n n' m : ν) (cur : Int)
    (hold : ∀ d ∈ S.decls, d.stmt = d0 → d.name = n) (hmn : m ≠ n) (hmn' : m ≠ n') :
    resolveDecl (renameIn S d0 n') cur m = resolveDecl S cur m := by
  have hD : declScopes (renameDecl S.decls d0 n') m = declScopes S.decls m := by
    rw [declScopes_eq, declScopes_eq, filter_rename_other S.decls d0 n n' m hold hmn hmn']
  have hS : ∀ sc, symbolInfo (renameDecl S.decls d0 n') sc m = symbolInfo S.decls sc m := by
    intro sc
    rw [symbolInfo_eq, symbolInfo_eq, filter_rename_other S.decls d0 n n' m hold hmn hmn']
  unfold resolveDecl targets renameIn
  simp only [hD, hS]

/-! ## 4. Concrete witnesses

Rows are the GIR rows lian emits for the quoted programs (ids shifted so that the unit starts at 1;
the harness replays the same programs on the real code from `corpus/C05/`).
Row = ⟨op, id, parent, name, alias, fields, methods, nested, parameters, init_body, body⟩. -/

/-- `x = 1` / `class A:` / `    x = 2` / `    def f(self):` / `        return x` -/
def w1Rows : List (Row String) := [
  ⟨"variable_decl", 1, 0, some "x", none, none, none, none, none, none, none⟩,
  ⟨"class_decl", 3, 0, some "A", none, some 11, some 4, none, none, none, none⟩,
  ⟨"block_start", 4, 3, none, none, none, none, none, none, none, none⟩,
  ⟨"method_decl", 5, 4, some "%class_sinit", none, none, none, none, none, none, some 6⟩,
  ⟨"block_start", 6, 5, none, none, none, none, none, none, none, none⟩,
  ⟨"field_write", 7, 6, none, none, none, none, none, none, none, none⟩,
  ⟨"block_end", 6, 5, none, none, none, none, none, none, none, none⟩,
  ⟨"method_decl", 8, 4, some "f", none, none, none, none, none, none, some 9⟩,
  ⟨"block_start", 9, 8, none, none, none, none, none, none, none, none⟩,
  ⟨"return_stmt", 10, 9, some "x", none, none, none, none, none, none, none⟩,
  ⟨"block_end", 9, 8, none, none, none, none, none, none, none, none⟩,
  ⟨"block_end", 4, 3, none, none, none, none, none, none, none, none⟩,
  ⟨"block_start", 11, 3, none, none, none, none, none, none, none, none⟩,
  ⟨"variable_decl", 12, 11, some "x", none, none, none, none, none, none, none⟩,
  ⟨"block_end", 11, 3, none, none, none, none, none, none, none, none⟩,
  ⟨"method_decl", 13, 0, some "%unit_init", none, none, none, none, none, none, some 14⟩,
  ⟨"block_start", 14, 13, none, none, none, none, none, none, none, none⟩,
  ⟨"assign_stmt", 2, 14, none, none, none, none, none, none, none, none⟩,
  ⟨"block_end", 14, 13, none, none, none, none, none, none, none, none⟩]

/-- `if (c) {` / `  let x = 5;` / `}` / `function k() {` / `  return x;` / `}` -/
def w2Rows : List (Row String) := [
  ⟨"method_decl", 5, 0, some "k", none, none, none, none, none, none, some 6⟩,
  ⟨"block_start", 6, 5, none, none, none, none, none, none, none, none⟩,
  ⟨"return_stmt", 7, 6, some "x", none, none, none, none, none, none, none⟩,
  ⟨"block_end", 6, 5, none, none, none, none, none, none, none, none⟩,
  ⟨"method_decl", 8, 0, some "%unit_init", none, none, none, none, none, none, some 9⟩,
  ⟨"block_start", 9, 8, none, none, none, none, none, none, none, none⟩,
  ⟨"if_stmt", 1, 9, none, none, none, none, none, none, none, none⟩,
  ⟨"block_start", 2, 1, none, none, none, none, none, none, none, none⟩,
  ⟨"variable_decl", 3, 2, some "x", none, none, none, none, none, none, none⟩,
  ⟨"assign_stmt", 4, 2, none, none, none, none, none, none, none, none⟩,
  ⟨"block_end", 2, 1, none, none, none, none, none, none, none, none⟩,
  ⟨"block_end", 9, 8, none, none, none, none, none, none, none, none⟩]

/-- `x = 1` / `def g():` / `    x = 2` / `    def h():` / `        global x` / `        return x` -/
def w3Rows : List (Row String) := [
  ⟨"variable_decl", 1, 0, some "x", none, none, none, none, none, none, none⟩,
  ⟨"method_decl", 3, 0, some "g", none, none, none, none, none, none, some 4⟩,
  ⟨"block_start", 4, 3, none, none, none, none, none, none, none, none⟩,
  ⟨"variable_decl", 5, 4, some "x", none, none, none, none, none, none, none⟩,
  ⟨"assign_stmt", 6, 4, none, none, none, none, none, none, none, none⟩,
  ⟨"method_decl", 7, 4, some "h", none, none, none, none, none, none, some 8⟩,
  ⟨"block_start", 8, 7, none, none, none, none, none, none, none, none⟩,
  ⟨"global_stmt", 9, 8, some "x", none, none, none, none, none, none, none⟩,
  ⟨"return_stmt", 10, 8, some "x", none, none, none, none, none, none, none⟩,
  ⟨"block_end", 8, 7, none, none, none, none, none, none, none, none⟩,
  ⟨"block_end", 4, 3, none, none, none, none, none, none, none, none⟩,
  ⟨"method_decl", 11, 0, some "%unit_init", none, none, none, none, none, none, some 12⟩,
  ⟨"block_start", 12, 11, none, none, none, none, none, none, none, none⟩,
  ⟨"assign_stmt", 2, 12, none, none, none, none, none, none, none, none⟩,
  ⟨"block_end", 12, 11, none, none, none, none, none, none, none, none⟩]

/-- `class A:` / ` class B:` / `  def m(self):` / `   loc = 1` / `   class C:` / `    def k(self):` /
`     return loc` -/
def w4Rows : List (Row String) := [
  ⟨"class_decl", 1, 0, some "A", none, none, none, some 2, none, none, none⟩,
  ⟨"block_start", 2, 1, none, none, none, none, none, none, none, none⟩,
  ⟨"class_decl", 3, 2, some "B", none, none, some 4, none, none, none, none⟩,
  ⟨"block_start", 4, 3, none, none, none, none, none, none, none, none⟩,
  ⟨"method_decl", 5, 4, some "m", none, none, none, none, some 6, none, some 8⟩,
  ⟨"block_start", 6, 5, none, none, none, none, none, none, none, none⟩,
  ⟨"parameter_decl", 7, 6, some "self", none, none, none, none, none, none, none⟩,
  ⟨"block_end", 6, 5, none, none, none, none, none, none, none, none⟩,
  ⟨"block_start", 8, 5, none, none, none, none, none, none, none, none⟩,
  ⟨"variable_decl", 9, 8, some "loc", none, none, none, none, none, none, none⟩,
  ⟨"assign_stmt", 10, 8, none, none, none, none, none, none, none, none⟩,
  ⟨"class_decl", 11, 8, some "C", none, none, some 12, none, none, none, none⟩,
  ⟨"block_start", 12, 11, none, none, none, none, none, none, none, none⟩,
  ⟨"method_decl", 13, 12, some "k", none, none, none, none, some 14, none, some 16⟩,
  ⟨"block_start", 14, 13, none, none, none, none, none, none, none, none⟩,
  ⟨"parameter_decl", 15, 14, some "self", none, none, none, none, none, none, none⟩,
  ⟨"block_end", 14, 13, none, none, none, none, none, none, none, none⟩,
  ⟨"block_start", 16, 13, none, none, none, none, none, none, none, none⟩,
  ⟨"return_stmt", 17, 16, some "loc", none, none, none, none, none, none, none⟩,
  ⟨"block_end", 16, 13, none, none, none, none, none, none, none, none⟩,
  ⟨"block_end", 12, 11, none, none, none, none, none, none, none, none⟩,
  ⟨"block_end", 8, 5, none, none, none, none, none, none, none, none⟩,
  ⟨"block_end", 4, 3, none, none, none, none, none, none, none, none⟩,
  ⟨"block_end", 2, 1, none, none, none, none, none, none, none, none⟩]

/-- `function f(c) {` / `  if (c) {` / `    var v = 1;` / `  }` / `  return v;` / `}` — rows emitted at
the PINNED commit (the declaration of `v` sits inside the if-block). -/
def w5RowsPinned : List (Row String) := [
  ⟨"method_decl", 1, 0, some "f", none, none, none, none, some 2, none, some 4⟩,
  ⟨"block_start", 2, 1, none, none, none, none, none, none, none, none⟩,
  ⟨"parameter_decl", 3, 2, some "c", none, none, none, none, none, none, none⟩,
  ⟨"block_end", 2, 1, none, none, none, none, none, none, none, none⟩,
  ⟨"block_start", 4, 1, none, none, none, none, none, none, none, none⟩,
  ⟨"if_stmt", 5, 4, none, none, none, none, none, none, none, none⟩,
  ⟨"block_start", 6, 5, none, none, none, none, none, none, none, none⟩,
  ⟨"variable_decl", 7, 6, some "v", none, none, none, none, none, none, none⟩,
  ⟨"assign_stmt", 8, 6, none, none, none, none, none, none, none, none⟩,
  ⟨"block_end", 6, 5, none, none, none, none, none, none, none, none⟩,
  ⟨"return_stmt", 9, 4, some "v", none, none, none, none, none, none, none⟩,
  ⟨"block_end", 4, 1, none, none, none, none, none, none, none, none⟩]

/-- the same program, rows emitted by the code as it is now. -/
def w5Rows : List (Row String) := [
  ⟨"method_decl", 1, 0, some "f", none, none, none, none, some 2, none, some 4⟩,
  ⟨"block_start", 2, 1, none, none, none, none, none, none, none, none⟩,
  ⟨"parameter_decl", 3, 2, some "c", none, none, none, none, none, none, none⟩,
  ⟨"block_end", 2, 1, none, none, none, none, none, none, none, none⟩,
  ⟨"block_start", 4, 1, none, none, none, none, none, none, none, none⟩,
  ⟨"variable_decl", 5, 4, some "v", none, none, none, none, none, none, none⟩,
  ⟨"if_stmt", 6, 4, none, none, none, none, none, none, none, none⟩,
  ⟨"block_start", 7, 6, none, none, none, none, none, none, none, none⟩,
  ⟨"assign_stmt", 8, 7, none, none, none, none, none, none, none, none⟩,
  ⟨"block_end", 7, 6, none, none, none, none, none, none, none, none⟩,
  ⟨"return_stmt", 9, 4, some "v", none, none, none, none, none, none, none⟩,
  ⟨"block_end", 4, 1, none, none, none, none, none, none, none, none⟩]

/-- `def f(p):` / `    try:` / `        q = p` / `    except Exception:` / `        r = 1` /
`    return r` — rows emitted at the PINNED commit (`r` is declared inside the handler block). -/
def w6RowsPinned : List (Row String) := [
  ⟨"method_decl", 1, 0, some "f", none, none, none, none, some 2, none, some 4⟩,
  ⟨"block_start", 2, 1, none, none, none, none, none, none, none, none⟩,
  ⟨"parameter_decl", 3, 2, some "p", none, none, none, none, none, none, none⟩,
  ⟨"block_end", 2, 1, none, none, none, none, none, none, none, none⟩,
  ⟨"block_start", 4, 1, none, none, none, none, none, none, none, none⟩,
  ⟨"variable_decl", 5, 4, some "q", none, none, none, none, none, none, none⟩,
  ⟨"try_stmt", 6, 4, none, none, none, none, none, none, none, some 7⟩,
  ⟨"block_start", 7, 6, none, none, none, none, none, none, none, none⟩,
  ⟨"assign_stmt", 8, 7, none, none, none, none, none, none, none, none⟩,
  ⟨"block_end", 7, 6, none, none, none, none, none, none, none, none⟩,
  ⟨"block_start", 9, 6, none, none, none, none, none, none, none, none⟩,
  ⟨"catch_clause", 10, 9, none, none, none, none, none, none, none, some 11⟩,
  ⟨"block_start", 11, 10, none, none, none, none, none, none, none, none⟩,
  ⟨"variable_decl", 12, 11, some "r", none, none, none, none, none, none, none⟩,
  ⟨"assign_stmt", 13, 11, none, none, none, none, none, none, none, none⟩,
  ⟨"block_end", 11, 10, none, none, none, none, none, none, none, none⟩,
  ⟨"block_end", 9, 6, none, none, none, none, none, none, none, none⟩,
  ⟨"return_stmt", 14, 4, some "r", none, none, none, none, none, none, none⟩,
  ⟨"block_end", 4, 1, none, none, none, none, none, none, none, none⟩]

/-- the same program, rows emitted by the code as it is now. -/
def w6Rows : List (Row String) := [
  ⟨"method_decl", 1, 0, some "f", none, none, none, none, some 2, none, some 4⟩,
  ⟨"block_start", 2, 1, none, none, none, none, none, none, none, none⟩,
  ⟨"parameter_decl", 3, 2, some "p", none, none, none, none, none, none, none⟩,
  ⟨"block_end", 2, 1, none, none, none, none, none, none, none, none⟩,
  ⟨"block_start", 4, 1, none, none, none, none, none, none, none, none⟩,
  ⟨"variable_decl", 5, 4, some "r", none, none, none, none, none, none, none⟩,
  ⟨"variable_decl", 6, 4, some "q", none, none, none, none, none, none, none⟩,
  ⟨"try_stmt", 7, 4, none, none, none, none, none, none, none, some 8⟩,
  ⟨"block_start", 8, 7, none, none, none, none, none, none, none, none⟩,
  ⟨"assign_stmt", 9, 8, none, none, none, none, none, none, none, none⟩,
  ⟨"block_end", 8, 7, none, none, none, none, none, none, none, none⟩,
  ⟨"block_start", 10, 7, none, none, none, none, none, none, none, none⟩,
  ⟨"catch_clause", 11, 10, none, none, none, none, none, none, none, some 12⟩,
  ⟨"block_start", 12, 11, none, none, none, none, none, none, none, none⟩,
  ⟨"assign_stmt", 13, 12, none, none, none, none, none, none, none, none⟩,
  ⟨"block_end", 12, 11, none, none, none, none, none, none, none, none⟩,
  ⟨"block_end", 10, 7, none, none, none, none, none, none, none, none⟩,
  ⟨"return_stmt", 14, 4, some "r", none, none, none, none, none, none, none⟩,
  ⟨"block_end", 4, 1, none, none, none, none, none, none, none, none⟩]

/-- scope table, declarations and current scope of a witness unit. -/
def tableOf (rows : List (Row String)) : DState := scopeTable defaultOps (rows.map Row.shape)
def declsOf (rows : List (Row String)) : List (Decl String) := decls lastSegStr rows (tableOf rows).recs

/-! ### Non-vacuity of the main theorems: a unit that satisfies every hypothesis and resolves. -/

example : idOrder (tableOf w3Rows).recs = true ∧
    isScopeStmt (tableOf w3Rows).recs (stmtScope (tableOf w3Rows) 10) = true ∧
    implicitRoots (tableOf w3Rows).recs = [12] ∧
    (declScopes (declsOf w3Rows) "x").contains 12 = false ∧
    resolveDecl (summaryOf (declsOf w3Rows) (tableOf w3Rows).recs) (stmtScope (tableOf w3Rows) 10) "x"
      = some ⟨"x", 4, 5, false⟩ ∧
    lexDecl (tableOf w3Rows).recs (declsOf w3Rows) (stmtScope (tableOf w3Rows) 10) "x"
      = some ⟨"x", 4, 5, false⟩ ∧
    chain (tableOf w3Rows).recs (stmtScope (tableOf w3Rows) 10) = [8, 7, 4, 3, 0] := by decide +kernel

/-- renaming `x ↦ xx`, `g ↦ gg`, … (here: appending a character is modelled on `Nat` names by `+ 1`). -/
example : Function.Injective (fun n : Nat => n + 1) := fun a b h => by simpa using h

example :
    resolveDecl (renameIn (summaryOf (declsOf w3Rows) (tableOf w3Rows).recs) 5 "fresh")
      (stmtScope (tableOf w3Rows) 10) "fresh" = some ⟨"fresh", 4, 5, false⟩ ∧
    resolveDecl (renameIn (summaryOf (declsOf w3Rows) (tableOf w3Rows).recs) 5 "fresh")
      (stmtScope (tableOf w3Rows) 2) "x" = some ⟨"x", 0, 1, false⟩ := by decide +kernel

/-! ### Open findings: the code as it is now violates C05 on these inputs (live model). -/

/-- **class scope visible from methods (Python).**  In `x = 1; class A: x = 2; def f(self): return x`
the `x` read in `f` is bound to the class field (statement 12, scope = class 3) although Python
skips class scopes for code inside a method: skipping scope 3, lexical scoping selects the module
variable (statement 1).  Witness of known finding C05/py-class-scope-visible-from-nested-scopes. -/
theorem C05_py_class_scope_leak :
    bindRows lastSegStr defaultOps w1Rows 10 "x" .use = some ⟨"x", 3, 12, false⟩ ∧
    (tableOf w1Rows).recs.contains ⟨3, 0, 0, .class_⟩ = true ∧
    lexDeclSkip [3] (tableOf w1Rows).recs (declsOf w1Rows) (stmtScope (tableOf w1Rows) 10) "x"
      = some ⟨"x", 0, 1, false⟩ := by decide +kernel

/-- **implicit root blocks (JavaScript).**  In `if (c) { let x = 5 }  function k() { return x }` the
block of the top-level `if` has scope 0 (the statements moved into `%unit_init` are memoised to the
unit root before `%unit_init` becomes a scope), so it is an implicit root block and its block-scoped
`x` is visible in every function of the unit; lexical scoping leaves `x` in `k` unresolved.  This is
the case excluded by hypothesis `himp` of `C05_resolver_innermost`.
Witness of known finding C05/js-toplevel-block-declarations-leak. -/
theorem C05_js_toplevel_block_leak :
    bindRows lastSegStr defaultOps w2Rows 7 "x" .use = some ⟨"x", 2, 3, false⟩ ∧
    implicitRoots (tableOf w2Rows).recs = [2, 9] ∧
    lexDecl (tableOf w2Rows).recs (declsOf w2Rows) (stmtScope (tableOf w2Rows) 7) "x" = none := by
  decide +kernel

/-- **`global` declaration ignored by the uses (Python).**  In `x = 1; def g(): x = 2; def h():
global x; return x` the `global_stmt` itself resolves to the module variable (statement 1) but the
`x` returned by `h` is bound to `g`'s local (statement 5).
Witness of known finding C05/py-global-decl-ignored-by-uses. -/
theorem C05_py_global_decl_ignored :
    bindRows lastSegStr defaultOps w3Rows 9 "x" .global = some ⟨"x", 0, 1, false⟩ ∧
    bindRows lastSegStr defaultOps w3Rows 10 "x" .use = some ⟨"x", 4, 5, false⟩ := by decide +kernel

/-! ### Repaired findings: frozen models of the pinned commit violate C05, the live models do not. -/

/-- **class defined in a method of a nested class (pinned `correct_scopes`).**  `loc` read in `C.k`
is unresolved at the pinned commit (class `C`, statement 11, is re-homed to the outer class `A`, so
its scope path skips method `m`); the code as it is now binds it to `m`'s local (statement 9). -/
theorem C05_unfixed_counterexample_nested_class :
    bindRows0 lastSegStr defaultOps w4Rows 17 "loc" .use = none ∧
    (scopeTable0 defaultOps (w4Rows.map Row.shape)).recs.contains ⟨11, 1, 8, .class_⟩ = true ∧
    bindRows lastSegStr defaultOps w4Rows 17 "loc" .use = some ⟨"loc", 8, 9, false⟩ ∧
    (tableOf w4Rows).recs.contains ⟨11, 8, 8, .class_⟩ = true := by decide +kernel

/-- `function f(c) { if (c) { var v = 1 } return v }` as the JavaScript frontend emits it
(tags: 1 method, 2 parameter c, 3 if, 4 `variable_decl v [var]`, 5 assignment, 6 return). -/
def wVar : List (Hoist.Stmt String) := [
  .mk "method_decl" (some "f") [] [
    ("parameters", [.mk "parameter_decl" (some "c") [] [] 2]),
    ("body", [
      .mk "if_stmt" none [] [("then_body", [
          .mk "variable_decl" (some "v") ["var"] [] 4,
          .mk "assign_stmt" none [] [] 5])] 3,
      .mk "return_stmt" (some "v") [] [] 6])] 1]

/-- **JavaScript `var` in a nested block (pinned `adjust_variable_decls`).**  The frozen model leaves
the declaration (tag 4) inside the if-block; the live model moves it to the top of the function body.
On the rows the two versions emit, `return v` is unresolved at the pinned commit and bound to the
declaration now. -/
theorem C05_unfixed_counterexample_js_var_block :
    Hoist.lin 50 (Hoist.hoist (Hoist.Cfg.pinned false) 50 wVar) = [1, -1, 2, -2, -1, 3, -1, 4, 5, -2, 6, -2] ∧
    Hoist.lin 50 (Hoist.hoist (Hoist.Cfg.current false) 50 wVar) = [1, -1, 2, -2, -1, 4, 3, -1, 5, -2, 6, -2] ∧
    bindRows lastSegStr defaultOps w5RowsPinned 9 "v" .use = none ∧
    bindRows lastSegStr defaultOps w5Rows 9 "v" .use = some ⟨"v", 4, 5, false⟩ := by decide +kernel

/-- `def f(p):` `try: q = p` `except Exception: r = 1` `return r` as the Python frontend emits it
(tags: 3 try, 4 decl q, 6 catch_clause, 7 `variable_decl r`, 9 return). -/
def wExc : List (Hoist.Stmt String) := [
  .mk "method_decl" (some "f") [] [
    ("parameters", [.mk "parameter_decl" (some "p") [] [] 2]),
    ("body", [
      .mk "try_stmt" none [] [
        ("body", [.mk "variable_decl" (some "q") [] [] 4, .mk "assign_stmt" none [] [] 5]),
        ("catch_body", [.mk "catch_clause" none [] [("body", [
            .mk "variable_decl" (some "r") [] [] 7, .mk "assign_stmt" none [] [] 8])] 6])] 3,
      .mk "return_stmt" (some "r") [] [] 9])] 1]

/-- **variable first assigned in an `except` clause (pinned `adjust_variable_decls`).**  The frozen
model never enters the `catch_clause`: the declaration of `r` (tag 7) stays in the handler block; the
live model hoists it to the top of the function body.  On the emitted rows, `return r` is unresolved
at the pinned commit and bound now. -/
theorem C05_unfixed_counterexample_py_except_assign :
    Hoist.lin 50 (Hoist.hoist (Hoist.Cfg.pinned true) 50 wExc)
      = [1, -1, 2, -2, -1, 4, 3, -1, 5, -2, -1, 6, -1, 7, 8, -2, -2, 9, -2] ∧
    Hoist.lin 50 (Hoist.hoist (Hoist.Cfg.current true) 50 wExc)
      = [1, -1, 2, -2, -1, 7, 4, 3, -1, 5, -2, -1, 6, -1, 8, -2, -2, 9, -2] ∧
    bindRows lastSegStr defaultOps w6RowsPinned 14 "r" .use = none ∧
    bindRows lastSegStr defaultOps w6Rows 14 "r" .use = some ⟨"r", 4, 5, false⟩ := by decide +kernel

/-- `def f(c, a):` / `    def g():` / `        nonlocal c, a` / `        a = 1` / `        c = 2` /
`        return a + c` / `    return g` — rows emitted at the PINNED commit: only `c` got a
`nonlocal_stmt`, `a` kept a local `variable_decl` (statement 8) in `g`. -/
def w7RowsPinned : List (Row String) := [
  ⟨"method_decl", 1, 0, some "f", none, none, none, none, some 2, none, some 5⟩,
  ⟨"block_start", 2, 1, none, none, none, none, none, none, none, none⟩,
  ⟨"parameter_decl", 3, 2, some "c", none, none, none, none, none, none, none⟩,
  ⟨"parameter_decl", 4, 2, some "a", none, none, none, none, none, none, none⟩,
  ⟨"block_end", 2, 1, none, none, none, none, none, none, none, none⟩,
  ⟨"block_start", 5, 1, none, none, none, none, none, none, none, none⟩,
  ⟨"method_decl", 6, 5, some "g", none, none, none, none, none, none, some 7⟩,
  ⟨"block_start", 7, 6, none, none, none, none, none, none, none, none⟩,
  ⟨"variable_decl", 8, 7, some "a", none, none, none, none, none, none, none⟩,
  ⟨"nonlocal_stmt", 9, 7, some "c", none, none, none, none, none, none, none⟩,
  ⟨"assign_stmt", 10, 7, none, none, none, none, none, none, none, none⟩,
  ⟨"assign_stmt", 11, 7, none, none, none, none, none, none, none, none⟩,
  ⟨"assign_stmt", 12, 7, none, none, none, none, none, none, none, none⟩,
  ⟨"return_stmt", 13, 7, some "%vv1", none, none, none, none, none, none, none⟩,
  ⟨"block_end", 7, 6, none, none, none, none, none, none, none, none⟩,
  ⟨"return_stmt", 14, 5, some "g", none, none, none, none, none, none, none⟩,
  ⟨"block_end", 5, 1, none, none, none, none, none, none, none, none⟩]

/-- the same program, rows emitted by the code as it is now. -/
def w7Rows : List (Row String) := [
  ⟨"method_decl", 1, 0, some "f", none, none, none, none, some 2, none, some 5⟩,
  ⟨"block_start", 2, 1, none, none, none, none, none, none, none, none⟩,
  ⟨"parameter_decl", 3, 2, some "c", none, none, none, none, none, none, none⟩,
  ⟨"parameter_decl", 4, 2, some "a", none, none, none, none, none, none, none⟩,
  ⟨"block_end", 2, 1, none, none, none, none, none, none, none, none⟩,
  ⟨"block_start", 5, 1, none, none, none, none, none, none, none, none⟩,
  ⟨"method_decl", 6, 5, some "g", none, none, none, none, none, none, some 7⟩,
  ⟨"block_start", 7, 6, none, none, none, none, none, none, none, none⟩,
  ⟨"nonlocal_stmt", 8, 7, some "c", none, none, none, none, none, none, none⟩,
  ⟨"nonlocal_stmt", 9, 7, some "a", none, none, none, none, none, none, none⟩,
  ⟨"assign_stmt", 10, 7, none, none, none, none, none, none, none, none⟩,
  ⟨"assign_stmt", 11, 7, none, none, none, none, none, none, none, none⟩,
  ⟨"assign_stmt", 12, 7, none, none, none, none, none, none, none, none⟩,
  ⟨"return_stmt", 13, 7, some "%vv1", none, none, none, none, none, none, none⟩,
  ⟨"block_end", 7, 6, none, none, none, none, none, none, none, none⟩,
  ⟨"return_stmt", 14, 5, some "g", none, none, none, none, none, none, none⟩,
  ⟨"block_end", 5, 1, none, none, none, none, none, none, none, none⟩]

/-- **`nonlocal c, a` (pinned Python frontend).**  The frontend is not modelled; on the rows it
emitted at the pinned commit the assignment `a = 1` in `g` (statement 10) is bound to `g`'s own
declaration 8, on the rows it emits now to `f`'s parameter (statement 4) — what Python selects. -/
theorem C05_unfixed_counterexample_py_nonlocal_second_name :
    bindRows lastSegStr defaultOps w7RowsPinned 10 "a" .use = some ⟨"a", 7, 8, false⟩ ∧
    bindRows lastSegStr defaultOps w7Rows 10 "a" .use = some ⟨"a", 1, 4, false⟩ := by decide +kernel

end LianVerif.C05
