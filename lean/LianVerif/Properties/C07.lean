/-
C07 — Every call that can happen at run time is in the computed call graph.

Only property theorems, non-vacuity examples and negative witnesses live here.
Model: LianVerif/Model/Frames.lean — the phase-III frame-stack DRIVER (analyze_frame_stack,
init_compute_frame, compute_target_method_states, count_cycles, PathManager) with statement analysis
(call resolution inside stmt_states.py) as an ORACLE.  Every theorem below quantifies over all oracles:
they say what the driver guarantees GIVEN what resolution produced.  That resolution itself finds every
run-time callee is NOT proved; it is monitored against CPython call logs (harness/lv/c07.py).
-/
import LianVerif.Proofs.Frames
import LianVerif.Proofs.FramesAcyclic
import LianVerif.Spec.FramesWitness
import LianVerif.Spec.SchedWitness

namespace LianVerif.C07
open LianVerif.Frames LianVerif.PathStore

/-- **C07 (decision logic, stated outright).**  In one invocation of `compute_target_method_states`
with duplicate-free callee ids, a callee is selected for descent (a frame will be created for it under
this call site) iff it is one of the resolved callees, the extended call path is not already a stored
path, the extended path closes at most one cycle, the call site is not marked in the frame's
`content_already_analyzed`, and the call site's counter has not exceeded the budget. -/
theorem C07_descend_iff (max : Nat) (store : Store Site) (f : Frame) (stmt : Nat) (ctr : Counter)
    (cs : List Nat) (hnd : cs.Nodup) (c : Nat) :
    c ∈ (firstLoop max store f stmt cs ctr []).2 ↔
      (c ∈ cs ∧ store.terms.contains (f.path ++ [(f.method, stmt, c)]) = false ∧
        countCycles (f.path ++ [(f.method, stmt, c)]) ≤ 1 ∧
        caaGet f.caa (f.method, stmt, c) = false ∧
        ctrGet ctr (f.method, stmt, c) ≤ max) := by
  rw [firstLoop_filter max store f stmt ctr cs hnd ctr [] (fun _ _ => rfl)]
  simp only [List.nil_append, List.mem_filter, descendOk, Bool.not_eq_true', Bool.or_eq_false_iff,
    decide_eq_false_iff_not, Nat.not_lt]
  constructor
  · rintro ⟨h1, ⟨⟨h2, h3⟩, h4⟩, h5⟩; exact ⟨h1, h2, h3, h4, h5⟩
  · rintro ⟨h1, h2, h3, h4, h5⟩; exact ⟨h1, ⟨⟨h2, h3⟩, h4⟩, h5⟩

/-- **C07 (termination of the driver: frames bound).**  For EVERY oracle (cyclic call relations
included): if all call sites the oracle can produce lie in a finite list `U`, then the driver creates
at most `1 + (max+1)·|U|` frames for one entry point — whatever the fuel, the store it starts from and
the serial it starts at.  (`max` = MAX_ANALYSIS_ROUND_FOR_CALL_SITE.) -/
theorem C07_frames_bound (max : Nat) (oracle : Oracle) (U : List Site) (hU : SitesIn oracle U)
    (fuel entry : Nat) (store : Store Site) (k : Nat) (log : List Event) :
    (drive max oracle fuel (initSt oracle entry store k log)).created ≤ k + 1 + (max + 1) * U.length := by
  have h := drive_boundInv max oracle U hU k (countCreates log) fuel _
    (initSt_boundInv max oracle U hU entry store k log)
  have h1 := h.count
  have h2 := phi_le max U (drive max oracle fuel (initSt oracle entry store k log)).counter
  omega

/-- the same bound counted on the log: frames pushed by the driver for this entry point -/
theorem C07_frames_bound_log (max : Nat) (oracle : Oracle) (U : List Site) (hU : SitesIn oracle U)
    (fuel entry : Nat) :
    countCreates (runEntry max oracle fuel entry).log ≤ (max + 1) * U.length := by
  have h := drive_boundInv max oracle U hU 0 (countCreates []) fuel _
    (initSt_boundInv max oracle U hU entry Store.empty 0 [])
  have h1 := h.count
  have h3 := h.creates
  have h2 := phi_le max U (runEntry max oracle fuel entry).counter
  simp only [runEntry] at *
  simp only [countCreates, List.filter_nil, List.length_nil] at h3
  simp only [countCreates]
  omega

/-- **C07 (termination of the driver).**  For EVERY oracle whose call sites lie in a finite list `U`
(cyclic call relations included), `3·(MAX+1)·|U| + 1` iterations of the frame-stack loop suffice to
empty the stack of one entry point, from any store and serial.  Potential: `2·(frames still allowed)
+ stack height + (counter potential still available)`; a push, a pop and an interruption each decrease
it. -/
theorem C07_driver_terminates (max : Nat) (oracle : Oracle) (U : List Site) (hU : SitesIn oracle U)
    (fuel entry : Nat) (store : Store Site) (k : Nat) (log : List Event)
    (hfuel : 3 * ((max + 1) * U.length) + 1 ≤ fuel) :
    (drive max oracle fuel (initSt oracle entry store k log)).stack = [] := by
  apply drive_terminates max oracle U hU k (countCreates log) fuel _
    (initSt_boundInv max oracle U hU entry store k log)
  have hphi := phi_nil max U
  unfold psi
  simp only [initSt]
  split <;> simp only [List.length_cons, List.length_nil, hphi] <;> omega

/-! ### what is guaranteed for every program, recursive ones included -/

/-- **C07 (partial, every oracle).**  Whenever an invocation of `compute_target_method_states` runs
through without interruption, every resolved callee other than the caller itself is from then on an
edge of a stored call path (`path_manager.add_path` is called in the cut-off branch, and stored
paths are only ever replaced by extensions).  PARTIAL: nothing is promised for `callee = caller`
(the code records no path then — see `C07_selfcall_cut_not_recorded`), and an edge being recorded
does not mean the callee was analysed under that call site. -/
theorem C07_cutoff_edge_recorded_partial (max : Nat) (oracle : Oracle) (fuel entry : Nat)
    (n m stmt : Nat) (cs rs : List Nat)
    (hev : Event.cts n m stmt cs [] rs ∈ (runEntry max oracle fuel entry).log)
    (c : Nat) (hc : c ∈ cs) (hne : c ≠ m) :
    edgeInStore (runEntry max oracle fuel entry).store (m, stmt, c) = true := by
  have h := drive_storeInv max oracle fuel _ (initSt_storeInv oracle entry)
  rw [edgeInStore_iff]
  exact h.good _ hev rfl c hc hne

/-- every frame that was initialised has all the edges of its call path in the store -/
theorem C07_framed_path_recorded (max : Nat) (oracle : Oracle) (fuel entry : Nat)
    (n m : Nat) (p : List Site)
    (hev : Event.init n m p true ∈ (runEntry max oracle fuel entry).log) (site : Site) (hs : site ∈ p) :
    edgeInStore (runEntry max oracle fuel entry).store site = true := by
  have h := drive_storeInv max oracle fuel _ (initSt_storeInv oracle entry)
  rw [edgeInStore_iff]
  exact h.good _ hev site hs

/-! ### the acyclic case -/

/-- methods reachable from the entry along resolved edges -/
inductive Reach (resolved : Nat → List (Nat × Nat)) (entry : Nat) : Nat → Prop
  | refl : Reach resolved entry entry
  | step {M S F : Nat} : Reach resolved entry M → (S, F) ∈ resolved M → Reach resolved entry F

/-- **C07 (acyclic completeness of the driver).**  Let `resolved M` be a set of (call statement,
callee) pairs such that every frame of `M` is shown each of them in some invocation (`hcover`:
"statement analysis resolves at least `resolved`, in every context"), let every method with resolved
callees have a body (`hinit`), and let the call relation the oracle can produce be ranked, i.e.
acyclic (`hR`).  Then, once the driver has emptied its stack, every resolved edge `(M, S, F)` with `M`
reachable from the entry point has had a frame created for `F` under exactly that call site — `F`
is analysed under `S` — and, if `F` has a body, the edge is in a stored call path.  No budget
hypothesis is needed: the first frame of `M` always finds the counters of its own call sites at 0. -/
theorem C07_acyclic_complete (max : Nat) (oracle : Oracle) (rk : Nat → Nat)
    (resolved : Nat → List (Nat × Nat)) (fuel entry : Nat)
    (hR : Ranked oracle rk)
    (hcover : ∀ n M S F, (S, F) ∈ resolved M → ∃ inv ∈ (oracle n M).script, inv.stmt = S ∧ F ∈ inv.callees)
    (hinit : ∀ n M S F, (S, F) ∈ resolved M → (oracle n M).inits = true)
    (hdone : (runEntry max oracle fuel entry).stack = []) :
    ∀ M S F, Reach resolved entry M → (S, F) ∈ resolved M →
      createdFor (runEntry max oracle fuel entry).log (M, S, F) = true ∧
      ((∀ n, (oracle n F).inits = true) →
        edgeInStore (runEntry max oracle fuel entry).store (M, S, F) = true) := by
  have hI := drive_acycInv max oracle rk hR fuel _ (initSt_acycInv oracle rk hR entry)
  have hent := drive_log_mono max oracle fuel _ _ (initSt_entry_event oracle entry)
  -- every reachable method that has a resolved callee was initialised in some frame
  have key : ∀ M, Reach resolved entry M → ∀ S F, (S, F) ∈ resolved M →
      ∃ n p, Event.init n M p true ∈ (runEntry max oracle fuel entry).log := by
    intro M hreach
    induction hreach with
    | refl =>
      intro S F hSF
      refine ⟨0, [], ?_⟩
      have := hinit 0 entry S F hSF
      rw [this] at hent; exact hent
    | @step M' S' F' _ hSF' ih =>
      intro S F hSF
      obtain ⟨n, p, hev⟩ := ih S' F' hSF'
      -- the frame of M' is gone (empty stack): everything it was shown has a frame
      have hall : ∀ inv ∈ (oracle n M').script, ∀ c ∈ inv.callees,
          Created (runEntry max oracle fuel entry).log (M', inv.stmt, c) := by
        rcases hI.finished n M' p hev with ⟨f, hf, _⟩ | h'
        · simp only [runEntry] at hdone hf; rw [hdone] at hf; simp at hf
        · exact h'
      obtain ⟨inv, hinv, e1, e2⟩ := hcover n M' S' F' hSF'
      obtain ⟨k, hk⟩ := hall inv hinv F' e2
      obtain ⟨p', hp'⟩ := hI.createdInit k _ hk
      refine ⟨k, p', ?_⟩
      have := hinit k F' S F hSF
      simp only [Site.callee] at hp'
      rw [this] at hp'; exact hp'
  intro M S F hreach hSF
  obtain ⟨n, p, hev⟩ := key M hreach S F hSF
  have hall : ∀ inv ∈ (oracle n M).script, ∀ c ∈ inv.callees,
      Created (runEntry max oracle fuel entry).log (M, inv.stmt, c) := by
    rcases hI.finished n M p hev with ⟨f, hf, _⟩ | h'
    · simp only [runEntry] at hdone hf; rw [hdone] at hf; simp at hf
    · exact h'
  obtain ⟨inv, hinv, e1, e2⟩ := hcover n M S F hSF
  have hcr := hall inv hinv F e2
  rw [e1] at hcr
  refine ⟨(createdFor_iff _ _).2 hcr, ?_⟩
  intro hF
  obtain ⟨k, hk⟩ := hcr
  rw [edgeInStore_iff]
  exact hI.createdEdge k _ hk (hF k)

/-- the same with the termination hypothesis discharged: enough fuel instead of "the stack is empty" -/
theorem C07_acyclic_complete_total (max : Nat) (oracle : Oracle) (rk : Nat → Nat)
    (resolved : Nat → List (Nat × Nat)) (U : List Site) (fuel entry : Nat)
    (hR : Ranked oracle rk) (hU : SitesIn oracle U)
    (hcover : ∀ n M S F, (S, F) ∈ resolved M → ∃ inv ∈ (oracle n M).script, inv.stmt = S ∧ F ∈ inv.callees)
    (hinit : ∀ n M S F, (S, F) ∈ resolved M → (oracle n M).inits = true)
    (hfuel : 3 * ((max + 1) * U.length) + 1 ≤ fuel) :
    ∀ M S F, Reach resolved entry M → (S, F) ∈ resolved M →
      createdFor (runEntry max oracle fuel entry).log (M, S, F) = true ∧
      ((∀ n, (oracle n F).inits = true) →
        edgeInStore (runEntry max oracle fuel entry).store (M, S, F) = true) :=
  C07_acyclic_complete max oracle rk resolved fuel entry hR hcover hinit
    (C07_driver_terminates max oracle U hU fuel entry Store.empty 0 [] hfuel)

/-! ### non-vacuity: a concrete acyclic oracle satisfies every hypothesis -/

/-- entry 3 calls 2 at statements 10 and 11, 2 calls 1 at statement 20; each call statement is analysed
twice (first visit interrupts, the re-analysis runs through) -/
def demoOracle : Oracle := fun _ m =>
  if m = 3 then { inits := true, script := [⟨10, [2]⟩, ⟨10, [2]⟩, ⟨11, [2]⟩, ⟨11, [2]⟩] }
  else if m = 2 then { inits := true, script := [⟨20, [1]⟩, ⟨20, [1]⟩] }
  else { inits := true, script := [] }

def demoResolved : Nat → List (Nat × Nat) := fun m =>
  if m = 3 then [(10, 2), (11, 2)] else if m = 2 then [(20, 1)] else []

example : Ranked demoOracle id := by
  intro n m inv hinv c hc
  simp only [demoOracle] at hinv
  split at hinv
  · rename_i h; subst h
    simp only [List.mem_cons, List.not_mem_nil, or_false] at hinv
    rcases hinv with rfl | rfl | rfl | rfl <;> simp at hc <;> subst hc <;> decide
  · split at hinv
    · rename_i _ h; subst h
      simp only [List.mem_cons, List.not_mem_nil, or_false] at hinv
      rcases hinv with rfl | rfl <;> simp at hc <;> subst hc <;> decide
    · simp at hinv

example : (runEntry 2 demoOracle 40 3).stack = [] ∧
    createdFor (runEntry 2 demoOracle 40 3).log (2, 20, 1) = true ∧
    edgeInStore (runEntry 2 demoOracle 40 3).store (2, 20, 1) = true ∧
    (runEntry 2 demoOracle 40 3).created = 5 := by decide

/-- `C07_descend_iff` and `C07_frames_bound` are not vacuous either: in the demo run the second context
of method 2 (call site (3,11,2)) is descended, and 4 frames are pushed against the bound 3·3 = 9. -/
example : countCreates (runEntry 2 demoOracle 40 3).log = 4 ∧
    SitesIn demoOracle [(3, 10, 2), (3, 11, 2), (2, 20, 1)] := by
  refine ⟨by decide, ?_⟩
  intro n m inv hinv c hc
  simp only [demoOracle] at hinv
  split at hinv
  · rename_i h; subst h
    simp only [List.mem_cons, List.not_mem_nil, or_false] at hinv
    rcases hinv with rfl | rfl | rfl | rfl <;> simp at hc <;> subst hc <;> simp
  · split at hinv
    · rename_i _ h; subst h
      simp only [List.mem_cons, List.not_mem_nil, or_false] at hinv
      rcases hinv with rfl | rfl <;> simp at hc <;> subst hc <;> simp
    · simp at hinv

/-! ### negative results on the driver as it is (no repair: the cut-offs are deliberate budget) -/

/-- corpus/C07/k_budget_third_context.json, harvested from the real run (methods: 9 = %unit_init,
5 = f, 4 = h, 1 = a1, 2 = b1, 3 = c1).  `h` calls whatever callback its context passes; any frame of `h`
created after the recorded ones would be shown the callback `c1` of the third context. -/
def budgetOracle : Oracle := tableOracle budgetTable
  (fun m => if m = 4 then [⟨8, [3]⟩, ⟨8, [3]⟩] else [])

/-- **The call-site budget ignores the calling context.**  The third context of `f` (frame 7) is shown
its callee `h` and refuses the descent because the counter of call site (f,10,h) is over budget
(reason 4), the invocation runs through, the driver terminates — and the callback `c1`, which only a
frame of `h` in that third context would resolve, never gets a frame nor an edge.  The hypothesis
`hcover` of `C07_acyclic_complete` ("resolved in every context") cannot be dropped. -/
theorem C07_budget_counterexample :
    (runEntry 2 budgetOracle 60 9).stack = [] ∧
    Event.cts 7 5 10 [4] [] [4] ∈ (runEntry 2 budgetOracle 60 9).log ∧
    (runEntry 2 budgetOracle 60 9).created = 8 ∧
    createdFor (runEntry 2 budgetOracle 60 9).log (4, 8, 3) = false ∧
    edgeInStore (runEntry 2 budgetOracle 60 9).store (4, 8, 3) = false := by decide

/-- corpus/C07/k_selfrec_edge_never_recorded.json, harvested from the real run (methods: 9 =
%unit_init, 5 = a, 3 = b1, 4 = b2, 2 = M; a calls b1, b2, M; b1 and b2 call a; M calls itself). -/
def selfrecOracle : Oracle := tableOracle selfrecTable (fun _ => [])

/-- **A self-recursive call that is only ever cut off is in no call path.**  Both frames of `M` sit on
paths that already closed a cycle, the descent into `M` from the cycle-free context is refused by the
budget, and the cut-off branch records no path when caller = callee: the invocations run through, yet
the edge (M,3,M) is nowhere in the store and `M` is never analysed under that call site.  This is the
case `C07_cutoff_edge_recorded_partial` excludes with `c ≠ m`. -/
theorem C07_selfcall_cut_not_recorded :
    (runEntry 2 selfrecOracle 80 9).stack = [] ∧
    Event.cts 5 2 3 [2] [] [2] ∈ (runEntry 2 selfrecOracle 80 9).log ∧
    Event.cts 8 2 3 [2] [] [2] ∈ (runEntry 2 selfrecOracle 80 9).log ∧
    Event.cts 1 5 16 [2] [] [4] ∈ (runEntry 2 selfrecOracle 80 9).log ∧
    createdFor (runEntry 2 selfrecOracle 80 9).log (2, 3, 2) = false ∧
    edgeInStore (runEntry 2 selfrecOracle 80 9).store (2, 3, 2) = false := by decide

/-! ### the statement scheduler of a frame, frozen at the pinned commit (`Sched0`) -/

/-- **After a callee descent the frame resumes at the wrong statement.**  On the real control-flow
graph of corpus/C07/k_resume_wrong_statement.json the frozen scheduler model visits statement 9
(`t = f4(1)`) exactly once, and that visit is *blind*: it directly follows the resume of the
interrupted statement 7, so `analyze_reachable_symbols` is skipped (`interruption_flag` set), the
statement has no symbol-graph node and its handler never runs.  Statement 7's own re-analysis happens
only after statement 9 has been consumed.  The call `f4(1)` is therefore never resolved. -/
theorem C07_unfixed_resume_skips_statement :
    LianVerif.Sched.schedule LianVerif.Sched.resumeCfg LianVerif.Sched.resumeOracle 200 =
      [(1, false), (2, false), (3, false), (4, false), (5, false), (7, false), (5, true), (8, false),
       (8, true), (7, false), (5, true), (8, false), (8, true), (7, false), (9, true), (7, false),
       (7, false), (7, false)] ∧
    (LianVerif.Sched.schedule LianVerif.Sched.resumeCfg LianVerif.Sched.resumeOracle 200).filter
      (fun v => v.1 == 9) = [(9, true)] := by decide

end LianVerif.C07
