/-
C19 — The call-path store keeps exactly the maximal paths.

Only property theorems, non-vacuity examples and negative witnesses live here.
Model: LianVerif/Model/PathStore.lean (`step` = code in /repo now, `step0` = pinned commit).
Spec:  LianVerif/Spec/MaxPaths.lean.
-/
import LianVerif.Proofs.PathStore

namespace LianVerif.C19
open LianVerif.PathStore LianVerif.MaxPaths

variable {α : Type} [DecidableEq α]

/-- generalised refinement: from any store satisfying the representation invariant. -/
theorem refines_from (valid : α → Bool) (ops : List (Op α)) :
    ∀ (s : Store α), Inv s →
      (run (step valid) s ops).2 = (specRun valid s.terms ops).2 ∧
      (run (step valid) s ops).1.terms = (specRun valid s.terms ops).1 ∧
      Inv (run (step valid) s ops).1 := by
  induction ops with
  | nil => intro s h; exact ⟨rfl, rfl, h⟩
  | cons op ops ih =>
    intro s h
    obtain ⟨hinv, hterms, hret⟩ := step_refines valid h op
    obtain ⟨ih1, ih2, ih3⟩ := ih (step valid s op).1 hinv
    simp only [run, specRun]
    rw [hterms] at ih1 ih2
    refine ⟨?_, ?_, ih3⟩
    · rw [ih1, hret, hterms]
    · rw [ih2]

/-- **C19 (refinement).** For every validity predicate and every history of add / remove / exists
operations from the empty store, the store returns at every step the value the set-of-maximal-paths
specification returns, and holds after every step exactly the specification's paths. -/
theorem C19_refines (valid : α → Bool) (ops : List (Op α)) :
    (run (step valid) Store.empty ops).2 = (specRun valid [] ops).2 ∧
    (run (step valid) Store.empty ops).1.terms = (specRun valid [] ops).1 := by
  have := refines_from valid ops (Store.empty : Store α) inv_empty
  exact ⟨this.1, this.2.1⟩

/-! ### Consequences, proved on the specification and transported by `C19_refines`. -/

/-- invariant of the specification under arbitrary histories: no duplicates, no invalid site,
no stored path is a proper prefix of another stored path. -/
def SpecOk (valid : α → Bool) (S : List (List α)) : Prop :=
  S.Nodup ∧ (∀ p ∈ S, p.all valid = true) ∧ (∀ p ∈ S, ∀ q ∈ S, strictPrefix p q = false)

theorem specStep_ok (valid : α → Bool) {S : List (List α)} (h : SpecOk valid S) (op : Op α) :
    SpecOk valid (specStep valid S op).1 := by
  obtain ⟨hnd, hval, hmax⟩ := h
  cases op with
  | exist p => exact ⟨hnd, hval, hmax⟩
  | remove p =>
    simp only [specStep, specRemove]
    split
    · refine ⟨hnd.filter _, ?_, ?_⟩
      · intro q hq; exact hval q (List.mem_filter.1 hq).1
      · intro q hq r hr; exact hmax q (List.mem_filter.1 hq).1 r (List.mem_filter.1 hr).1
    · exact ⟨hnd, hval, hmax⟩
  | add p =>
    simp only [specStep, specAdd]
    split
    · exact ⟨hnd, hval, hmax⟩
    · rename_i hc
      simp only [Bool.or_eq_true, Bool.not_eq_true', not_or, Bool.not_eq_true,
        Bool.not_eq_false] at hc
      obtain ⟨⟨hv, hmem⟩, hany⟩ := hc
      have hmem' : p ∉ S := by
        intro hp; rw [List.contains_iff_mem.2 hp] at hmem; exact absurd hmem (by simp)
      refine ⟨?_, ?_, ?_⟩
      · rw [List.nodup_append]
        refine ⟨hnd.filter _, by simp, ?_⟩
        intro a ha b hb
        rw [List.mem_singleton] at hb; subst hb
        rintro rfl; exact hmem' (List.mem_filter.1 ha).1
      · intro q hq
        rcases List.mem_append.1 hq with hq | hq
        · exact hval q (List.mem_filter.1 hq).1
        · rw [List.mem_singleton] at hq; subst hq; exact hv
      · intro q hq r hr
        rcases List.mem_append.1 hq with hq | hq <;> rcases List.mem_append.1 hr with hr | hr
        · exact hmax q (List.mem_filter.1 hq).1 r (List.mem_filter.1 hr).1
        · rw [List.mem_singleton] at hr; subst hr
          have := (List.mem_filter.1 hq).2
          simpa using this
        · rw [List.mem_singleton] at hq; subst hq
          rw [Bool.eq_false_iff]
          intro hpr
          have : S.any (fun x => strictPrefix q x) = true :=
            List.any_eq_true.2 ⟨r, (List.mem_filter.1 hr).1, hpr⟩
          rw [this] at hany; exact absurd hany (by simp)
        · rw [List.mem_singleton] at hq hr; subst hq; subst hr
          exact strictPrefix_irrefl _

theorem specRun_ok (valid : α → Bool) (ops : List (Op α)) :
    ∀ S, SpecOk valid S → SpecOk valid (specRun valid S ops).1 ∧
      ∀ o ∈ (specRun valid S ops).2, SpecOk valid o.2 := by
  induction ops with
  | nil => intro S h; exact ⟨h, by simp [specRun]⟩
  | cons op ops ih =>
    intro S h
    have h1 := specStep_ok valid h op
    obtain ⟨ih1, ih2⟩ := ih _ h1
    simp only [specRun]
    refine ⟨ih1, ?_⟩
    intro o ho
    rcases List.mem_cons.1 ho with rfl | ho
    · exact h1
    · exact ih2 o ho

/-- **C19 (no duplicates, no invalid site, only maximal paths — every history, every step).** -/
theorem C19_store_ok (valid : α → Bool) (ops : List (Op α)) :
    ∀ o ∈ (run (step valid) Store.empty ops).2,
      o.2.Nodup ∧ (∀ p ∈ o.2, p.all valid = true) ∧
      (∀ p ∈ o.2, ∀ q ∈ o.2, strictPrefix p q = false) := by
  rw [(C19_refines valid ops).1]
  exact (specRun_ok valid ops [] ⟨List.nodup_nil, by simp, by simp⟩).2

theorem C19_no_dup (valid : α → Bool) (ops : List (Op α)) :
    (run (step valid) Store.empty ops).1.terms.Nodup := by
  rw [(C19_refines valid ops).2]
  exact (specRun_ok valid ops [] ⟨List.nodup_nil, by simp, by simp⟩).1.1

theorem C19_no_invalid (valid : α → Bool) (ops : List (Op α)) :
    ∀ p ∈ (run (step valid) Store.empty ops).1.terms, p.all valid = true := by
  rw [(C19_refines valid ops).2]
  exact (specRun_ok valid ops [] ⟨List.nodup_nil, by simp, by simp⟩).1.2.1

/-! ### Add-only histories: the store is the set of maximal valid added paths. -/

/-- the valid paths among those added by the history -/
def validAdded (valid : α → Bool) : List (Op α) → List (List α)
  | [] => []
  | .add p :: ops => if p.all valid then p :: validAdded valid ops else validAdded valid ops
  | _ :: ops => validAdded valid ops

def addOnly : List (Op α) → Bool
  | [] => true
  | .add _ :: ops => addOnly ops
  | .exist _ :: ops => addOnly ops
  | .remove _ :: _ => false

/-- set-level characterisation used as loop invariant -/
def IsMaxSet (X S : List (List α)) : Prop :=
  ∀ p, p ∈ S ↔ (p ∈ X ∧ maximalIn X p = true)

theorem maximalIn_iff {X : List (List α)} {p : List α} :
    maximalIn X p = true ↔ ∀ q ∈ X, strictPrefix p q = false := by
  simp [maximalIn]

/-- every element of a finite set of paths lies below a maximal one -/
theorem exists_max_above (X : List (List α)) :
    ∀ (n : Nat) (q : List α), q ∈ X → (∀ r ∈ X, r.length ≤ q.length + n) →
      ∃ q' ∈ X, q <+: q' ∧ maximalIn X q' = true := by
  intro n
  induction n with
  | zero =>
    intro q hq hb
    refine ⟨q, hq, List.prefix_refl q, ?_⟩
    rw [maximalIn_iff]
    intro r hr
    rw [Bool.eq_false_iff]
    intro hs
    obtain ⟨hp, hl⟩ := strictPrefix_iff.1 hs
    have := hb r hr; have := hp.length_le; omega
  | succ n ih =>
    intro q hq hb
    by_cases hm : maximalIn X q = true
    · exact ⟨q, hq, List.prefix_refl q, hm⟩
    · have hm' : X.any (fun x => strictPrefix q x) = true := by
        simpa [maximalIn] using hm
      obtain ⟨r, hr, hqr⟩ := List.any_eq_true.1 hm'
      obtain ⟨hp, hl⟩ := strictPrefix_iff.1 hqr
      have hlt : q.length < r.length := by have := hp.length_le; omega
      obtain ⟨q', hq', hrq', hmax⟩ := ih r hr (fun t ht => by have := hb t ht; omega)
      exact ⟨q', hq', hp.trans hrq', hmax⟩

theorem exists_max_above' (X : List (List α)) (q : List α) (hq : q ∈ X) :
    ∃ q' ∈ X, q <+: q' ∧ maximalIn X q' = true := by
  -- a bound on all lengths: the sum of lengths
  have hb : ∀ r ∈ X, r.length ≤ q.length + (X.map List.length).sum := by
    intro r hr
    have : ∀ (Y : List (List α)), r ∈ Y → r.length ≤ (Y.map List.length).sum := by
      intro Y
      induction Y with
      | nil => intro h; simp at h
      | cons y Y ih =>
        intro h
        rcases List.mem_cons.1 h with rfl | h
        · simp
        · have := ih h; simp only [List.map_cons, List.sum_cons]; omega
    have := this X hr
    omega
  exact exists_max_above X _ q hq hb

theorem specAdd_maxset (valid : α → Bool) {X S : List (List α)} (h : IsMaxSet X S) (p : List α)
    (hv : p.all valid = true) : IsMaxSet (X ++ [p]) (specAdd valid S p).1 := by
  have hmaxX' : ∀ r, maximalIn (X ++ [p]) r = true ↔
      (maximalIn X r = true ∧ strictPrefix r p = false) := by
    intro r
    simp only [maximalIn_iff, List.mem_append, List.mem_singleton]
    constructor
    · intro hh; exact ⟨fun q hq => hh q (Or.inl hq), hh p (Or.inr rfl)⟩
    · rintro ⟨h1, h2⟩ q (hq | rfl)
      · exact h1 q hq
      · exact h2
  unfold specAdd
  simp only [hv, Bool.not_true, Bool.false_or]
  by_cases hc : (S.contains p || S.any (fun q => strictPrefix p q)) = true
  · simp only [hc, if_true]
    intro r
    rw [h r, hmaxX' r, List.mem_append, List.mem_singleton]
    -- some stored q equals or properly extends p; q ∈ X and q is maximal in X
    obtain ⟨q, hqS, hpq⟩ : ∃ q ∈ S, p <+: q := by
      rw [Bool.or_eq_true] at hc
      rcases hc with hc | hc
      · exact ⟨p, List.contains_iff_mem.1 hc, List.prefix_refl p⟩
      · obtain ⟨q, hq, hpq⟩ := List.any_eq_true.1 hc
        exact ⟨q, hq, (strictPrefix_iff.1 hpq).1⟩
    obtain ⟨hqX, hqmax⟩ := (h q).1 hqS
    constructor
    · rintro ⟨hrX, hrmax⟩
      refine ⟨Or.inl hrX, hrmax, ?_⟩
      rw [Bool.eq_false_iff]
      intro hrp
      have := strictPrefix_trans hrp hpq
      rw [(maximalIn_iff.1 hrmax) q hqX] at this
      exact absurd this (by simp)
    · rintro ⟨hrX | rfl, hrmax, hrp⟩
      · exact ⟨hrX, hrmax⟩
      · -- r = p: p ≤ q ∈ X and p maximal in X force p = q ∈ X
        by_cases hpq' : r = q
        · subst hpq'; exact ⟨hqX, hrmax⟩
        · have := (maximalIn_iff.1 hrmax) q hqX
          rw [strictPrefix_iff'.2 ⟨hpq, hpq'⟩] at this
          exact absurd this (by simp)
  · have hc' : S.contains p = false ∧ S.any (fun q => strictPrefix p q) = false := by
      simpa [Bool.or_eq_false_iff] using hc
    simp only [hc, Bool.false_eq_true, if_false]
    intro r
    rw [hmaxX' r]
    simp only [List.mem_append, List.mem_singleton, List.mem_filter, Bool.not_eq_true']
    constructor
    · rintro (⟨hrS, hrp⟩ | rfl)
      · obtain ⟨hrX, hrmax⟩ := (h r).1 hrS
        exact ⟨Or.inl hrX, hrmax, hrp⟩
      · refine ⟨Or.inr rfl, ?_, strictPrefix_irrefl _⟩
        -- r = p is maximal in X: any extension in X lies below a maximal one, which is stored
        rw [maximalIn_iff]
        intro q hqX
        rw [Bool.eq_false_iff]
        intro hpq
        obtain ⟨q', hq'X, hqq', hq'max⟩ := exists_max_above' X q hqX
        have hq'S : q' ∈ S := (h q').2 ⟨hq'X, hq'max⟩
        have : S.any (fun q => strictPrefix r q) = true :=
          List.any_eq_true.2 ⟨q', hq'S, strictPrefix_trans hpq hqq'⟩
        rw [this] at hc'; exact absurd hc'.2 (by simp)
    · rintro ⟨hrX | rfl, hrmax, hrp⟩
      · exact Or.inl ⟨(h r).2 ⟨hrX, hrmax⟩, hrp⟩
      · exact Or.inr rfl

theorem specRun_addOnly (valid : α → Bool) (ops : List (Op α)) :
    ∀ (X S : List (List α)), IsMaxSet X S → addOnly ops = true →
      IsMaxSet (X ++ validAdded valid ops) (specRun valid S ops).1 := by
  induction ops with
  | nil => intro X S h _; simpa [validAdded, specRun] using h
  | cons op ops ih =>
    intro X S h hao
    cases op with
    | remove p => simp [addOnly] at hao
    | exist p =>
      simp only [addOnly] at hao
      simpa [validAdded, specRun, specStep] using ih X S h hao
    | add p =>
      simp only [addOnly] at hao
      simp only [specRun, specStep, validAdded]
      by_cases hv : p.all valid = true
      · simp only [hv, if_true]
        have := ih (X ++ [p]) _ (specAdd_maxset valid h p hv) hao
        simpa [List.append_assoc] using this
      · have hv' : p.all valid = false := by simpa using hv
        have hS : (specAdd valid S p).1 = S := by simp [specAdd, hv']
        simp only [hv', Bool.false_eq_true, if_false]
        rw [hS]
        exact ih X S h hao

/-- **C19 (first sentence of the statement).** After any sequence of additions (and lookups), a
path is stored iff it is a valid added path that is not a proper prefix of another valid added
path; together with `C19_no_dup` the stored *set* is exactly the set of maximal valid added paths. -/
theorem C19_add_only_maximal (valid : α → Bool) (ops : List (Op α)) (h : addOnly ops = true) :
    ∀ p, p ∈ (run (step valid) Store.empty ops).1.terms ↔
      (p ∈ validAdded valid ops ∧ maximalIn (validAdded valid ops) p = true) := by
  rw [(C19_refines valid ops).2]
  have := specRun_addOnly valid ops [] [] (by intro p; simp) h
  rw [List.nil_append] at this
  exact this

/-- **C19 (last sentence).** A valid path that is not stored and has no stored proper extension is
accepted — in every reachable state, in particular right after the removal of its last extension. -/
theorem C19_readd_after_remove (valid : α → Bool) (ops : List (Op α)) (p : List α)
    (hv : p.all valid = true)
    (hfree : ∀ q ∈ (run (step valid) Store.empty ops).1.terms, p.isPrefixOf q = false) :
    (step valid (run (step valid) Store.empty ops).1 (.add p)).2 = true ∧
    p ∈ (step valid (run (step valid) Store.empty ops).1 (.add p)).1.terms := by
  obtain ⟨_, hterms, hinv⟩ := refines_from valid ops (Store.empty : Store α) inv_empty
  obtain ⟨_, hT, hR⟩ := step_refines valid hinv (.add p)
  rw [hT, hR]
  have hnot : ((run (step valid) Store.empty ops).1.terms.contains p ||
      (run (step valid) Store.empty ops).1.terms.any (fun q => strictPrefix p q)) = false := by
    rw [Bool.or_eq_false_iff]
    constructor
    · rw [Bool.eq_false_iff]; intro hc
      have := hfree p (List.contains_iff_mem.1 hc)
      rw [List.isPrefixOf_iff_prefix.2 (List.prefix_refl p)] at this
      exact absurd this (by simp)
    · rw [Bool.eq_false_iff]; intro hc
      obtain ⟨q, hq, hpq⟩ := List.any_eq_true.1 hc
      have := hfree q hq
      rw [List.isPrefixOf_iff_prefix.2 (strictPrefix_iff.1 hpq).1] at this
      exact absurd this (by simp)
  simp only [specStep, specAdd, hv, hnot, Bool.not_true, Bool.false_or, Bool.false_eq_true, if_false]
  exact ⟨trivial, by simp⟩

/-! ### Non-vacuity: concrete histories exercising eviction, refusal, removal and re-adding. -/

def vNat : Nat → Bool := fun n => n != 0   -- 0 plays the invalid call site

example : (run (step vNat) Store.empty
    [.add [1], .add [1, 2], .add [1], .add [3, 0], .remove [1, 2], .add [1], .add [], .add [2]]).2
    = [(true, [[1]]), (true, [[1, 2]]), (false, [[1, 2]]), (false, [[1, 2]]), (true, []),
       (true, [[1]]), (false, [[1]]), (true, [[1], [2]])] := by decide

example : addOnly [Op.add [1], .add [1, 2], .exist [1]] = true ∧
    maximalIn (validAdded vNat [Op.add [1], .add [1, 2], .exist [1]]) [1, 2] = true := by decide

/-! ### The pinned commit (frozen model `step0`) violates the property: two minimal witnesses. -/

/-- add [a,b]; remove [a,b]; add [a] — the last add is refused although nothing extends [a]. -/
theorem C19_unfixed_counterexample_readd :
    (run (step0 vNat) Store.empty [.add [1, 2], .remove [1, 2], .add [1]]).2
      ≠ (specRun vNat [] [.add [1, 2], .remove [1, 2], .add [1]]).2 := by decide

/-- add []; add [a] — the empty path is a proper prefix of [a] but stays stored. -/
theorem C19_unfixed_counterexample_empty :
    (run (step0 vNat) Store.empty [.add [], .add [1]]).2
      ≠ (specRun vNat [] [.add [], .add [1]]).2 := by decide

end LianVerif.C19
