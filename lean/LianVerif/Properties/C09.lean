/-
C09 — Points-to results are flow-, field- and call-site-sensitive where advertised; binary operations on
constants yield exactly the results of the operand combinations.

Only property theorems, non-vacuity examples and negative witnesses live here.
Models: LianVerif/Model/Aref.lean (reference abstract interpreter), LianVerif/Model/Fold.lean (folding).
Spec:   LianVerif/Spec/Collect.lean (all executions of a loop-free program).
-/
import LianVerif.Proofs.ArefExact
import LianVerif.Proofs.Fold

namespace LianVerif.C09
open LianVerif.PyStrLit LianVerif.Fold LianVerif.Aref LianVerif.Collect LianVerif.ArefProofs LianVerif.FoldProofs

/-- **C09 (exactness), partial: object-free, call-free programs with linear binary operations.**
For every sound and exact abstract binary operation and every loop-free program built from constants,
copies, binary operations with at most one variable operand, sequencing and `if`/`else` on fresh
decisions, none of whose executions raises: the reference interpreter's result is EXACTLY the collecting
semantics —
(1) every element of the abstract set of every definition is a constant that the definition takes on some
    execution path (no unknown, no overwritten value retained, nothing invented), and
(2) every value a definition takes on some path is in its abstract set. -/
theorem C09_exact_partial (ab : ABin) (hs : ABinSound ab) (hx : ABinExact ab) (P : Prog)
    (hc : CoreLin P.body = true) (hn : NoStuck P P.body (fun ρ => ρ = CEnv.empty))
    (res : Log) (hrun : run ab P = some res) :
    (∀ k A, (k, A) ∈ res → ∀ a ∈ A, ∃ pv, a = AVal.const pv ∧ Takes P k (.prim pv)) ∧
    (∀ k v, Takes P k v → ∃ A, (k, A) ∈ res ∧ covers A v) := by
  unfold run at hrun
  cases he : exec ab P P.body AEnv.empty with
  | none => simp [he] at hrun
  | some r =>
    obtain ⟨σ', alog⟩ := r
    simp only [he, Option.map, Option.some.injEq] at hrun
    subst hrun
    have hrel : Rel AEnv.empty CEnv.empty :=
      ⟨fun x c hc => by simp [CEnv.empty] at hc, fun x c hc => by simp [CEnv.empty] at hc⟩
    have hinv : Inv AEnv.empty (fun ρ => ρ = CEnv.empty) :=
      ⟨⟨CEnv.empty, rfl⟩, fun ρ hρ => by subst hρ; exact hrel, fun x S hS => by simp [AEnv.empty] at hS⟩
    obtain ⟨_, hl⟩ := exact_exec ab hs hx P P.body hc AEnv.empty _ σ' alog he hinv hn
    constructor
    · intro k A' hA' a ha
      obtain ⟨A, hA, haA⟩ := of_mem_mergeLog hA' a ha
      obtain ⟨ρ, hρ, r, hr, pv, hpv, hap⟩ := hl (k, A) hA a haA
      subst hρ
      exact ⟨pv, hap, r, hr, hpv⟩
    · intro k v hv
      obtain ⟨r, hr, hkv⟩ := hv
      have hw := writesOK_of_coreLin ab P P.body hc AEnv.empty
      obtain ⟨_, hlc⟩ := sound_exec ab hs P P.body AEnv.empty hw CEnv.empty σ' alog he hrel r hr
      obtain ⟨A, hA, hcv⟩ := hlc (k, v) hkv
      obtain ⟨A', hA', hsub⟩ := mem_mergeLog hA
      exact ⟨A', hA', covers_mono hsub hcv⟩

/-
-- OPEN (not proved):
-- theorem C09_exact : the same for the whole C09 fragment (objects reached through a single allocation per
--   variable, field read/write with distinct field names, helper functions called from several sites) and with
--   `ab := foldBin` (needs `ABinExact foldBin` on integer constants within the folding size limit: the
--   decimal print/lex round trip through `pyEval`).  These parts are tied by the correspondence check only
--   (alpha(real) = Aref per definition, and = the independent exact reference of the harness).
-/

/-! non-vacuity of `C09_exact_partial`: an ideal folding and a branching program satisfy all hypotheses. -/


/-- `x = 1; if d0: x = 2 else: y = x + 3; z = x * 2`. -/
def wExact : Prog :=
  { classes := [], helpers := [],
    body := .seq (.const "1" "x" (.int 1))
           (.seq (.ite 0 (.const "2" "x" (.int 2)) (.bin "3" "y" "+" (.var "x") (.const (.int 3))))
                 (.bin "4" "z" "*" (.var "x") (.const (.int 2)))) }

example : (run idealBin wExact).map (fun l => l.map (fun p => (p.1, p.2.length))) =
    some [("1", 1), ("2", 1), ("3", 1), ("4", 2)] := by decide +kernel

theorem wExact_noStuck : NoStuck wExact wExact.body (fun ρ => ρ = CEnv.empty) := by
  simp only [wExact, NoStuck]
  refine ⟨?_, ⟨?_, ?_⟩, ?_⟩
  · intro ρ _; simp [stepC]
  · intro ρ _; simp [stepC]
  · rintro ρ ⟨ρ0, rfl, r, hr, rfl⟩
    simp only [runs, stepC, Option.toList, List.mem_singleton] at hr
    subst hr
    simp [stepC, evalC, CEnv.get, CEnv.set, cupd, cBin, Op.ofString, pyBinop, PyVal.asInt?, intBinop]
  · rintro ρ ⟨ρ1, ⟨ρ0, rfl, r1, hr1, rfl⟩, r, hr, rfl⟩
    simp only [runs, stepC, Option.toList, List.mem_singleton] at hr1
    subst hr1
    simp only [runs, List.mem_append] at hr
    rcases hr with hr | hr
    · simp only [stepC, Option.toList, List.mem_singleton] at hr
      subst hr
      simp [stepC, evalC, CEnv.get, CEnv.set, cupd, cBin, Op.ofString, pyBinop, PyVal.asInt?, intBinop]
    · simp [stepC, evalC, CEnv.get, CEnv.set, cupd, cBin, Op.ofString, pyBinop, PyVal.asInt?, intBinop] at hr
      subst hr
      simp [stepC, evalC, CEnv.get, CEnv.set, cupd, cBin, Op.ofString, pyBinop, PyVal.asInt?, intBinop]

example :
    (∀ k A, (k, A) ∈ [("1", [AVal.const (.int 1)]), ("2", [.const (.int 2)]), ("3", [.const (.int 4)]),
        ("4", [.const (.int 4), .const (.int 2)])] → ∀ a ∈ A, ∃ pv, a = AVal.const pv ∧ Takes wExact k (.prim pv)) :=
  (C09_exact_partial idealBin idealBin_sound idealBin_exact wExact (by decide) wExact_noStuck _ (by decide +kernel)).1

/-- **flow sensitivity: an overwritten value is not retained** (`x = 1; x = 2; y = x`). -/
theorem C09_overwritten_value_not_retained (ab : ABin) (P : Prog) (σ : AEnv) (c1 c2 : PyVal) :
    (exec ab P (.seq (.const "1" "x" c1) (.seq (.const "2" "x" c2) (.copy "3" "y" "x"))) σ).map (·.2) =
      some [("1", [.const c1]), ("2", [.const c2]), ("3", [.const c2])] := by
  simp [exec, AEnv.set, AEnv.get, upd]

/-- **field sensitivity: writing one field of one object leaves every other field and object untouched.** -/
theorem C09_field_write_is_local (heap : Site × String → Option ASet) (s s' : Site) (f g : String) (v : ASet)
    (h : (s', g) ≠ (s, f)) : writeAll heap f v [s] (s', g) = heap (s', g) := by
  simp [writeAll, upd, h]

/-- **call-site sensitivity: the result of a call is determined by the arguments of that call site** — two
abstract stores that give the arguments of the call the same sets yield the same result set and the same
sets for the callee's parameters and locals, whatever was passed at other sites. -/
theorem C09_call_result_depends_on_own_arguments (ab : ABin) (P : Prog) (k : Key) (x : Var) (h : String)
    (args : List Opnd) (σ σ' : AEnv) (hargs : args.map (evalOpnd σ) = args.map (evalOpnd σ')) :
    (exec ab P (.call k x h args) σ).map (·.2) = (exec ab P (.call k x h args) σ').map (·.2) := by
  simp only [exec, hargs]
  cases P.helpers.find? (fun hp => hp.name = h) with
  | none => rfl
  | some hp =>
    simp only
    cases execH ab hp.body (bindParams hp.params (args.map (evalOpnd σ'))).1
        (bindParams hp.params (args.map (evalOpnd σ'))).2 with
    | none => rfl
    | some r => rfl

/-! ### binary operations on constants (assign_stmt_state / compute_two_states) -/

/-- pinned commit: `7 - 7` and `1 < 0` gave an unknown (ANYTHING) state — the results 0 and False were
discarded; the repaired code folds them. -/
theorem C09_unfixed_falsy_result_dropped :
    binStates0 "-" [.reg ⟨.str [55], .int⟩] [.reg ⟨.str [55], .int⟩] = .states [.anything] ∧
    binStates asciiPrintable "-" [.reg ⟨.str [55], .int⟩] [.reg ⟨.str [55], .int⟩] = .states [.val (.int 0) .int] ∧
    binStates0 "<" [.reg ⟨.str [49], .int⟩] [.reg ⟨.str [48], .int⟩] = .states [.anything] ∧
    binStates asciiPrintable "<" [.reg ⟨.str [49], .int⟩] [.reg ⟨.str [48], .int⟩] = .states [.val (.bool false) .int] := by
  decide +kernel

/-- **current code: one result state per operand combination, and nothing else, when every combination
folds** (all operand states REGULAR, every pair yields a state): no unknown state is added, no pair is
skipped, no other state appears. -/
theorem C09_binop_all_combinations (P : Ch → Bool) (opText : String) (S1 S2 : List AState)
    (hreg1 : S1.contains .nonreg = false) (hreg2 : S2.contains .nonreg = false)
    (hne : regPairs S1 S2 ≠ [])
    (hall : ∀ p ∈ regPairs S1 S2, ∃ v dt, fold P opText p.1 p.2 = .state v dt) :
    binStates P opText S1 S2 =
      .states ((regPairs S1 S2).map (fun p => outVal (fold P opText p.1 p.2))) ∧
    OState.anything ∉ (regPairs S1 S2).map (fun p => outVal (fold P opText p.1 p.2)) := by
  have hall' : ∀ o ∈ (regPairs S1 S2).map (fun p => fold P opText p.1 p.2), ∃ v dt, o = Out.state v dt := by
    intro o ho
    obtain ⟨p, hp, rfl⟩ := List.mem_map.1 ho
    exact hall p hp
  have hcol := collect_all_states _ hall'
  have hnone := contains_false_of_all_states _ hall' .none (by intro v dt; simp)
  have hfm := filterMap_all_states _ hall'
  rw [List.map_map] at hcol hfm
  refine ⟨?_, hfm.2⟩
  unfold binStates
  simp only [hcol]
  have hemp : ((regPairs S1 S2).map (outVal ∘ fun p => fold P opText p.1 p.2)).isEmpty = false := by
    cases hp : regPairs S1 S2 with
    | nil => exact absurd hp hne
    | cons a as => rfl
  have hsk : someSkipped S1 S2 ((regPairs S1 S2).map (fun p => fold P opText p.1 p.2)) = false := by
    unfold someSkipped
    rw [hreg1, hreg2, hnone]
    simp
  simp only [hemp, hsk, Bool.or_self, Bool.false_eq_true, if_false]
  rfl

end LianVerif.C09
