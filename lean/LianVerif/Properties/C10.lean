/-
C10 — Taint analysis reports every explicit source-to-sink flow.

Only property theorems, non-vacuity examples and negative witnesses live here.
Models: LianVerif/Model/Sfg.lean, TaintRules.lean, Taint.lean (`current` = the code in /repo now;
single-flag variants of it = the pinned commit, frozen).  Vocabulary: LianVerif/Spec/Reach.lean.

Strength.  The property decomposes into
  (P) "a value flows at run time ⇒ there is a path in the SFG"  — soundness of lian's P1–P3
      analyses, NOT proved (searched for counter-examples by the end-to-end tier of the check), and
  (E) "a path in the SFG and matching rules ⇒ the flow is reported" — the engine part, proved here:
      `C10_propagation_complete` (the final tag map contains every consequence of every `Live`
      node), `C10_flow_reported` / `C10_analyze_reports` (hence the pair is reported), and the
      decision logic of every rule kind (`C10_rule_kinds_*`).
`Live` is reachability on NODES that only follows steps guaranteed to enqueue their target; it is
all of `Reach` when ids are not shared between nodes.  That the id-level closure is NOT reached in
general is the negative theorem `C10_alias_incomplete`.
Termination of the worklist within `fuelFor g` iterations on such graphs is proved
(`C10_worklist_terminates`, potential-function argument in Proofs/TaintTerm.lean); on ill-typed
graphs the real loop can run forever, the driver reports a non-empty final worklist.
-/
import LianVerif.Proofs.TaintComplete
import LianVerif.Proofs.TaintTerm
import LianVerif.Proofs.TaintRules
import LianVerif.Spec.TaintWitness

namespace LianVerif.C10
open LianVerif.Sfg LianVerif.TaintRules LianVerif.Taint LianVerif.Reach LianVerif.TaintWitness

/-- **C10 (the worklist terminates).** On a consistently serialised, edge-typed SFG the loop of
`propagate_taint` has emptied its worklist after at most `fuelFor g` = 4·N² + 8·N + 1 iterations. -/
theorem C10_worklist_terminates (g : Graph) (prm : Params) (src : Nat) (hwf : g.wf = true)
    (hty : edgeTyped g = true) : (propagate g prm src).wl = [] :=
  propagate_terminates prm hwf hty src

/-- **C10 (propagation is complete).** On a consistently serialised, edge-typed SFG every `Live`
node has been dequeued carrying the tag, and every one-step consequence of it carries the tag in
the final environment: the final tag map is closed under the one-step relation from every live
node. -/
theorem C10_propagation_complete (g : Graph) (prm : Params) (src : Nat) (hwf : g.wf = true)
    (hty : edgeTyped g = true) (u : Nat) (hl : Live g prm src u) :
    u ∈ (propagate g prm src).processed ∧ nodeTag g (propagate g prm src) u = true ∧
    ∀ l, Conseq g prm u l → TaggedLoc (propagate g prm src) l :=
  live_processed_hot (consistent_of_wf hwf) (edgeTyped_of_check hwf hty)
    (propagate_terminates prm hwf hty src) hl

/-- a live symbol's id is tagged -/
theorem C10_live_symbol_tagged (g : Graph) (prm : Params) (src : Nat) (hwf : g.wf = true)
    (hty : edgeTyped g = true) (u : Nat)
    (hl : Live g prm src u) (hk : g.kindOf u = K_SYMBOL) : g.nid u ∈ (propagate g prm src).symT := by
  have h := (C10_propagation_complete g prm src hwf hty u hl).2.1
  rw [nodeTag_symbol hk] at h
  exact List.contains_iff_mem.1 h

/-- **C10 (reachable + rules ⇒ reported).** If a sink rule consulted for `sink` names a position at
which a live symbol is used, `find_flows` reports the pair. -/
theorem C10_flow_reported {vr : Variant} (hr : vr.resetTargetPos = true) (g : Graph) (prm : Params)
    (rs : RuleSet) (sources sinks : List Nat) (src sink : Nat) (hwf : g.wf = true)
    (hty : edgeTyped g = true)
    (hsrc : src ∈ sources) (hsink : sink ∈ sinks) (hk : (g.node sink).kind = K_STMT)
    (r : Rule) (hrm : r ∈ sinkMatching vr g rs sink) (t : Option String) (ht : t ∈ targetsOf r)
    (e : Edge) (he : e ∈ g.inE sink) (het : e.etype = E_USED)
    (hpos : posHit (g.node sink).name t ((targetPos? t).getD (-1)) e = true)
    (hks : g.kindOf e.peer = K_SYMBOL) (hl : Live g prm src e.peer) :
    ∃ f ∈ findFlows vr g prm rs sources sinks, f.src = src ∧ f.sink = sink := by
  have htag : symWithStatesTag g (propagate g prm src) e.peer = true := by
    unfold symWithStatesTag
    rw [Bool.or_eq_true]
    exact Or.inl (List.contains_iff_mem.2
      (C10_live_symbol_tagged g prm src hwf hty e.peer hl hks))
  have hsink_tag : (sinkTag vr g rs (propagate g prm src) sink).tag = true := by
    rw [(sinkTag_reset hr g rs _ sink hk).1, Bool.or_eq_true]
    left
    rw [List.any_eq_true]
    refine ⟨r, hrm, ?_⟩
    rw [List.any_eq_true]
    refine ⟨t, ht, ?_⟩
    unfold targetHit
    rw [List.any_eq_true]
    exact ⟨e, List.mem_filter.2 ⟨he, by simp [het]⟩, by rw [Bool.and_eq_true]; exact ⟨hpos, htag⟩⟩
  exact ⟨{ src := src, sink := sink, vuln := (sinkTag vr g rs (propagate g prm src) sink).vuln },
    mem_findFlows.2 ⟨hsrc, hsink, hsink_tag, rfl⟩, rfl, rfl⟩

/-- the same for the analysis of a whole entry point: a statement matching a source rule, a
statement matching a sink rule, and a live symbol at the rule's position ⇒ the flow is reported. -/
theorem C10_analyze_reports {vr : Variant} (hr : vr.resetTargetPos = true) (g : Graph) (prm : Params)
    (rs : RuleSet) (n src sink : Nat) (hwf : g.wf = true) (hty : edgeTyped g = true)
    (hn : n < g.size) (hnk : (g.node n).kind = K_STMT) (hm : srcMatch vr g rs n = true)
    (hd : defSym g n = some src)
    (hs : sink < g.size) (hk : (g.node sink).kind = K_STMT) (hsm : isSink vr g rs sink = true)
    (r : Rule) (hrm : r ∈ sinkMatching vr g rs sink) (t : Option String) (ht : t ∈ targetsOf r)
    (e : Edge) (he : e ∈ g.inE sink) (het : e.etype = E_USED)
    (hpos : posHit (g.node sink).name t ((targetPos? t).getD (-1)) e = true)
    (hks : g.kindOf e.peer = K_SYMBOL) (hl : Live g prm src e.peer) :
    ∃ f ∈ analyze vr g prm rs, f.src = src ∧ f.sink = sink := by
  unfold analyze
  apply C10_flow_reported hr g prm rs _ _ src sink hwf hty _ (mem_findSinks.2 ⟨hs, hsm⟩) hk
    r hrm t ht e he het hpos hks hl
  rw [List.mem_filterMap]
  refine ⟨some src, mem_findSources.2 ⟨n, hn, ?_⟩, rfl⟩
  rw [sourceOf_eq]
  have : ((g.node n).kind != K_STMT) = false := by simp [hnk]
  simp [this, hm, hd]

/-! ### C10_rule_kinds: the decision logic of every rule kind, stated outright -/

/-- call source (`operation: call_stmt`): the callee symbol is the LAST predecessor whose edge has
position `callSrcPos` (0 in the repaired code), the statement defines a symbol, and some source
rule of operation call_stmt passes the language / unit_path / unit_name / line_num filters and
names the access path of one of the callee's states (or the callee's name when that path is empty). -/
theorem C10_rule_kinds_call_source (vr : Variant) (g : Graph) (rs : RuleSet) (n : Nat) :
    callSource vr g rs n = true ↔
      ∃ m d, (usedByPos g n vr.callSrcPos).1 = some m ∧ defSym g n = some d ∧
        ∃ r ∈ rs.sources, langOk vr r.lang (g.node n) = true ∧ failUnitPath r (g.node n) = false ∧
          failUnitName r (g.node n) = false ∧ failLine r ((g.node n).lineNo + 1) = false ∧
          r.operation = some "call_stmt" ∧
          ∃ s ∈ (usedByPos g n vr.callSrcPos).2,
            some (if apFmtDrop (g.node s).ap = "" then (g.node m).name
                  else apFmtDrop (g.node s).ap) = r.name := by
  unfold callSource
  cases hu : usedByPos g n vr.callSrcPos with
  | mk ms mstates =>
    cases ms with
    | none => simp
    | some m =>
      cases hd : defSym g n with
      | none => simp
      | some d =>
        simp only
        constructor
        · intro h
          rw [List.any_eq_true] at h
          obtain ⟨r, hr, h⟩ := h
          simp only [Bool.and_eq_true, Bool.not_eq_true', beq_iff_eq, List.any_eq_true] at h
          obtain ⟨⟨⟨⟨⟨h1, h2⟩, h3⟩, h4⟩, h5⟩, s, hs, h6⟩ := h
          exact ⟨m, d, rfl, rfl, r, hr, h1, h2, h3, h4, h5, s, hs, h6⟩
        · rintro ⟨m', d', hm', _, r, hr, h1, h2, h3, h4, h5, s, hs, h6⟩
          simp only [Option.some.injEq] at hm'
          subst hm'
          rw [List.any_eq_true]
          refine ⟨r, hr, ?_⟩
          simp only [Bool.and_eq_true, Bool.not_eq_true', beq_iff_eq, List.any_eq_true]
          exact ⟨⟨⟨⟨⟨h1, h2⟩, h3⟩, h4⟩, h5⟩, s, hs, h6⟩

/-- method-call source: an `object_call_stmt` statement and some source rule (of ANY operation)
that passes the filters and whose name is `<receiver text>.<field>` or `<access path of a state of
the receiver symbol at position 0>.<field>`. -/
theorem C10_rule_kinds_object_call_source (vr : Variant) (g : Graph) (rs : RuleSet) (n : Nat) :
    objCallSource vr g rs n = true ↔
      (g.node n).kind = K_STMT ∧ (g.node n).name = "object_call_stmt" ∧
      ∃ r ∈ rs.sources, langOk vr r.lang (g.node n) = true ∧ failUnitPath r (g.node n) = false ∧
        failUnitName r (g.node n) = false ∧ failLine r ((g.node n).lineNo + 1) = false ∧
        nameIn r.name (objCallNames g n 0 false) = true := by
  unfold objCallSource
  simp only [List.any_eq_true, Bool.and_eq_true, Bool.not_eq_true', beq_iff_eq]
  constructor
  · rintro ⟨⟨h1, h2⟩, r, hr, ⟨⟨⟨⟨a, b⟩, c⟩, d⟩, e⟩⟩
    exact ⟨h1, h2, r, hr, a, b, c, d, e⟩
  · rintro ⟨h1, h2, r, hr, a, b, c, d, e⟩
    exact ⟨⟨h1, h2⟩, r, hr, ⟨⟨⟨⟨a, b⟩, c⟩, d⟩, e⟩⟩

/-- parameter source: the name of the FIRST successor of the `parameter_decl` statement equals the
name of a source rule that passes the language / unit_name / line filters and either has no `attr`
(then its operation is not looked at) or has operation parameter_decl. -/
theorem C10_rule_kinds_parameter_source (vr : Variant) (g : Graph) (rs : RuleSet) (n : Nat) :
    paramSource vr g rs n = true ↔
      ∃ e0, (g.outE n).head? = some e0 ∧
        ∃ r ∈ rs.sources, langOk vr r.lang (g.node n) = true ∧ failUnitName r (g.node n) = false ∧
          failLine r ((g.node n).startRow + 1) = false ∧
          r.name = some (g.node e0.peer).name ∧
          (truthy r.attr = false ∨ r.operation = some "parameter_decl") := by
  unfold paramSource
  cases hh : (g.outE n).head? with
  | none => simp
  | some e0 =>
    simp only [List.any_eq_true, Bool.and_eq_true, Bool.or_eq_true, Bool.not_eq_true', beq_iff_eq,
      Option.some.injEq, exists_eq_left']
    constructor
    · rintro ⟨r, hr, ⟨⟨h1, h2⟩, h3⟩, h4⟩
      rcases h4 with ⟨h5, h6⟩ | ⟨h5, h6⟩
      · exact ⟨r, hr, h1, h2, h3, h6, Or.inl h5⟩
      · exact ⟨r, hr, h1, h2, h3, h6, Or.inr h5⟩
    · rintro ⟨r, hr, h1, h2, h3, h6, h5 | h5⟩
      · exact ⟨r, hr, ⟨⟨h1, h2⟩, h3⟩, Or.inl ⟨h5, h6⟩⟩
      · exact ⟨r, hr, ⟨⟨h1, h2⟩, h3⟩, Or.inr ⟨h5, h6⟩⟩

/-- field-read source: the statement defines a symbol holding at least one state, and some source
rule of operation field_read passes the filters and names the access path of one of those states. -/
theorem C10_rule_kinds_field_read_source (vr : Variant) (g : Graph) (rs : RuleSet) (n : Nat) :
    fieldReadSource vr g rs n = true ↔
      (defSym g n).isSome = true ∧ defStates g (defSym g n) ≠ [] ∧
      ∃ r ∈ rs.sources, langOk vr r.lang (g.node n) = true ∧ r.operation = some "field_read" ∧
        (vr.fieldReadLoc = true → failUnitPath r (g.node n) = false ∧
          failUnitName r (g.node n) = false ∧ failLine r ((g.node n).lineNo + 1) = false) ∧
        ∃ s ∈ defStates g (defSym g n), some (apFmtDrop (g.node s).ap) = r.name := by
  unfold fieldReadSource
  simp only
  split
  · rename_i hc
    simp only [Bool.or_eq_true, Option.isNone_iff_eq_none, List.isEmpty_iff] at hc
    constructor
    · intro h; exact absurd h (by simp)
    · rintro ⟨h1, h2, _⟩
      rcases hc with hc | hc
      · rw [hc] at h1; exact absurd h1 (by simp)
      · exact absurd hc h2
  · rename_i hc
    simp only [Bool.or_eq_true, Option.isNone_iff_eq_none, List.isEmpty_iff, not_or] at hc
    simp only [List.any_eq_true, Bool.and_eq_true, Bool.or_eq_true, Bool.not_eq_true', beq_iff_eq]
    constructor
    · rintro ⟨r, hr, ⟨⟨h1, h2⟩, h3⟩, s, hs, h4⟩
      refine ⟨Option.isSome_iff_ne_none.2 hc.1, hc.2, r, hr, h1, h2, ?_, s, hs, h4⟩
      intro hf
      rcases h3 with h3 | h3
      · rw [hf] at h3; exact absurd h3 (by simp)
      · exact ⟨h3.1.1, h3.1.2, h3.2⟩
    · rintro ⟨_, _, r, hr, h1, h2, h3, s, hs, h4⟩
      refine ⟨r, hr, ⟨⟨h1, h2⟩, ?_⟩, s, hs, h4⟩
      cases hf : vr.fieldReadLoc with
      | false => exact Or.inl rfl
      | true => exact Or.inr ⟨⟨(h3 hf).1, (h3 hf).2.1⟩, (h3 hf).2.2⟩

/-- call sink: a `call_stmt` statement, and some sink rule of operation call_stmt that passes the
language / unit_name / line filters and whose dotted name is a suffix (with `\\%anyname` wildcards)
of the access path of a state of the callee symbol (LAST predecessor at position 0). -/
theorem C10_rule_kinds_call_sink (vr : Variant) (g : Graph) (rs : RuleSet) (n : Nat) :
    callSink vr g rs n = true ↔
      (g.node n).kind = K_STMT ∧ (g.node n).name = "call_stmt" ∧
      ∃ r ∈ rs.sinks, langOk vr r.lang (g.node n) = true ∧ r.operation = some "call_stmt" ∧
        failUnitName r (g.node n) = false ∧ failLine r ((g.node n).lineNo + 1) = false ∧
        ∃ s ∈ (usedByPos g n 0).2, checkMethodName (r.name.getD "") (g.node s).ap = true := by
  unfold callSink
  simp only [List.any_eq_true, Bool.and_eq_true, Bool.not_eq_true', beq_iff_eq]
  constructor
  · rintro ⟨⟨h1, h2⟩, r, hr, ⟨⟨⟨a, b⟩, c⟩, d⟩, e⟩
    exact ⟨h1, h2, r, hr, a, b, c, d, e⟩
  · rintro ⟨h1, h2, r, hr, a, b, c, d, e⟩
    exact ⟨⟨h1, h2⟩, r, hr, ⟨⟨⟨a, b⟩, c⟩, d⟩, e⟩

/-- method-call sink: an `object_call_stmt` statement and some sink rule (of ANY operation) that
passes the filters and whose name is `<receiver text>.<field>`, `__init__` for constructor calls,
or built from a state of the predecessor at position -1. -/
theorem C10_rule_kinds_object_call_sink (vr : Variant) (g : Graph) (rs : RuleSet) (n : Nat) :
    objCallSink vr g rs n = true ↔
      (g.node n).kind = K_STMT ∧ (g.node n).name = "object_call_stmt" ∧
      ∃ r ∈ rs.sinks, langOk vr r.lang (g.node n) = true ∧ failUnitPath r (g.node n) = false ∧
        failUnitName r (g.node n) = false ∧ failLine r ((g.node n).lineNo + 1) = false ∧
        nameIn r.name (objCallNames g n (-1) true) = true := by
  unfold objCallSink
  simp only [List.any_eq_true, Bool.and_eq_true, Bool.not_eq_true', beq_iff_eq]
  constructor
  · rintro ⟨⟨h1, h2⟩, r, hr, ⟨⟨⟨⟨a, b⟩, c⟩, d⟩, e⟩⟩
    exact ⟨h1, h2, r, hr, a, b, c, d, e⟩
  · rintro ⟨h1, h2, r, hr, a, b, c, d, e⟩
    exact ⟨⟨h1, h2⟩, r, hr, ⟨⟨⟨⟨a, b⟩, c⟩, d⟩, e⟩⟩

/-- record-write sink (selection only — see `C10_record_write_never_reported`). -/
theorem C10_rule_kinds_record_write_sink (vr : Variant) (g : Graph) (rs : RuleSet) (n : Nat) :
    recordSink vr g rs n = true ↔
      (g.node n).kind = K_STMT ∧ (g.node n).name = "record_write" ∧
      ∃ r ∈ rs.sinks, langOk vr r.lang (g.node n) = true ∧ r.operation = some "record_write" ∧
        failUnitPath r (g.node n) = false ∧ failUnitName r (g.node n) = false ∧
        failLine r ((g.node n).lineNo + 1) = false ∧ truthy r.key = true ∧
        r.key = some (g.node n).sKey := by
  unfold recordSink
  simp only [List.any_eq_true, Bool.and_eq_true, Bool.not_eq_true', beq_iff_eq]
  constructor
  · rintro ⟨⟨h1, h2⟩, r, hr, ⟨⟨⟨⟨⟨⟨a, b⟩, c⟩, d⟩, e⟩, f⟩, k⟩⟩
    exact ⟨h1, h2, r, hr, a, b, c, d, e, f, k⟩
  · rintro ⟨h1, h2, r, hr, a, b, c, d, e, f, k⟩
    exact ⟨⟨h1, h2⟩, r, hr, ⟨⟨⟨⟨⟨⟨a, b⟩, c⟩, d⟩, e⟩, f⟩, k⟩⟩

/-- field-write sink: a `field_write` statement and a sink rule of operation field_write that
passes the filters and whose non-empty name OCCURS IN THE PRINTED GIR of the statement. -/
theorem C10_rule_kinds_field_write_sink (vr : Variant) (g : Graph) (rs : RuleSet) (n : Nat) :
    fieldSink vr g rs n = true ↔
      (g.node n).kind = K_STMT ∧ (g.node n).name = "field_write" ∧
      ∃ r ∈ rs.sinks, langOk vr r.lang (g.node n) = true ∧ r.operation = some "field_write" ∧
        failUnitPath r (g.node n) = false ∧ failUnitName r (g.node n) = false ∧
        failLine r ((g.node n).lineNo + 1) = false ∧
        ∃ x, r.name = some x ∧ x ≠ "" ∧ strIn x (g.node n).operation = true := by
  unfold fieldSink
  simp only [List.any_eq_true, Bool.and_eq_true, Bool.not_eq_true', beq_iff_eq]
  constructor
  · rintro ⟨⟨h1, h2⟩, r, hr, ⟨⟨⟨⟨⟨a, b⟩, c⟩, d⟩, e⟩, f⟩⟩
    refine ⟨h1, h2, r, hr, a, b, c, d, e, ?_⟩
    cases hn : r.name with
    | none => rw [hn] at f; exact absurd f (by simp)
    | some x =>
      rw [hn] at f
      simp only [Bool.and_eq_true, bne_iff_ne, ne_eq] at f
      exact ⟨x, rfl, f.1, f.2⟩
  · rintro ⟨h1, h2, r, hr, a, b, c, d, e, x, hx, hne, hin⟩
    refine ⟨⟨h1, h2⟩, r, hr, ⟨⟨⟨⟨⟨a, b⟩, c⟩, d⟩, e⟩, ?_⟩⟩
    rw [hx]
    simp only [Bool.and_eq_true, bne_iff_ne, ne_eq]
    exact ⟨hne, hin⟩

/-- which rule targets name which position (`\\%arg0..4` ↦ 1..5, `\\%receiver` / `\\%target` ↦ 0,
anything else ↦ none), and when a used symbol at edge position `e.pos` counts: object calls shift
the argument positions by one; `\\%target`, an absent and an empty target make every position count. -/
theorem C10_rule_kinds_target_position :
    targetPos? (some KW_ARG0) = some 1 ∧ targetPos? (some KW_ARG1) = some 2 ∧
    targetPos? (some KW_ARG2) = some 3 ∧ targetPos? (some KW_ARG3) = some 4 ∧
    targetPos? (some KW_ARG4) = some 5 ∧ targetPos? (some KW_RECEIVER) = some 0 ∧
    targetPos? (some KW_TARGET) = some 0 ∧ targetPos? none = none ∧
    targetPos? (some "%arg0") = none ∧
    (∀ (e : Edge), posHit "call_stmt" (some KW_ARG0) 1 e = (e.pos == 1)) ∧
    (∀ (e : Edge), posHit "object_call_stmt" (some KW_ARG0) 1 e = (e.pos - 1 == 1)) ∧
    (∀ (op : String) (p : Int) (e : Edge), posHit op (some KW_TARGET) p e = true) ∧
    (∀ (op : String) (p : Int) (e : Edge), posHit op none p e = true) := by
  refine ⟨by decide, by decide, by decide, by decide, by decide, by decide, by decide, by decide,
    by decide, ?_, ?_, ?_, ?_⟩
  · intro e
    have h1 : (some KW_ARG0 == some KW_TARGET) = false := by decide
    have h2 : truthy (some KW_ARG0) = true := by decide
    simp [posHit, h1, h2]
  · intro e
    have h1 : (some KW_ARG0 == some KW_TARGET) = false := by decide
    have h2 : truthy (some KW_ARG0) = true := by decide
    simp [posHit, h1, h2]
  · intro op p e; simp [posHit]
  · intro op p e; simp [posHit, truthy]

/-! ### Non-vacuity -/

/-- `w = src(); sink(w)`: the repaired model reports the flow; the hypotheses of
`C10_analyze_reports` are satisfiable (the graph is consistent and edge-typed, `w` is live and sits
at position 1). -/
example : analyze current wCallSrc.g prm0 wCallSrc.rs = [{ src := 1, sink := 4, vuln := some "v" }] := by
  decide
example : gCallSrc.wf = true ∧ edgeTyped gCallSrc = true ∧ (propagate gCallSrc prm0 1).wl = [] := by
  refine ⟨by decide, by decide, by decide⟩
example : Live gCallSrc prm0 1 1 := Live.init (LiveInit.srcSym (by decide))

/-! ### Findings -/

/-- **the pinned commit**: `apply_call_stmt_source_rules` looked the callee up at position -1.  No
edge of an SFG carries that position, so no call statement was ever a source, whatever the rules. -/
theorem C10_call_source_never_matches (vr : Variant) (hv : vr.callSrcPos = -1) (g : Graph)
    (rs : RuleSet) (n : Nat) (hpos : ∀ e ∈ g.inE n, e.pos ≠ -1) : callSource vr g rs n = false := by
  have hnone : ∀ (es : List Edge), (∀ e ∈ es, e.pos ≠ -1) →
      es.foldl (fun acc e => if e.pos == (-1 : Int) then some e.peer else acc) (none : Option Nat)
        = none := by
    intro es
    induction es with
    | nil => intro _; rfl
    | cons e es ih =>
      intro h
      simp only [List.foldl_cons]
      have : (e.pos == (-1 : Int)) = false := by
        simpa using h e (List.mem_cons_self ..)
      rw [this]
      exact ih (fun e' he' => h e' (List.mem_cons_of_mem _ he'))
  have hu : usedByPos g n (-1) = (none, []) := by
    unfold usedByPos
    split
    · rfl
    · rw [hnone _ hpos]
  unfold callSource
  rw [hv, hu]

/-- witness: `w = src(); sink(w)` — nothing at the pinned commit, the flow after the repair. -/
theorem C10_unfixed_call_source :
    analyze wCallSrc.frozen wCallSrc.g prm0 wCallSrc.rs = [] ∧
    analyze current wCallSrc.g prm0 wCallSrc.rs = [{ src := 1, sink := 4, vuln := some "v" }] := by
  constructor <;> decide

/-- **open finding (also in the code as it is now)**: `get_sink_tag_by_rules` has no branch for
`record_write`; without a from-code hit the sink tag of a record-write statement is zero in every
environment, so a record-write sink never yields a flow. -/
theorem C10_record_write_never_reported (vr : Variant) (g : Graph) (rs : RuleSet) (s : PState)
    (n : Nat) (hop : (g.node n).name = "record_write") (hcode : codeSinkHit vr rs (g.node n) = false) :
    (sinkTag vr g rs s n).tag = false := by
  have hm : sinkMatching vr g rs n = [] := by
    unfold sinkMatching
    simp only [hop]
    have h1 : ("record_write" == "call_stmt") = false := by decide
    have h2 : ("record_write" == "object_call_stmt") = false := by decide
    have h3 : ("record_write" == "field_write") = false := by decide
    simp [h1, h2, h3]
  unfold sinkTag
  simp only [hm, List.foldl_nil]
  unfold codeSinkHit at hcode
  split
  · rfl
  · simp [hcode]

/-- **open finding (also in the code as it is now)**: tags are per id, the worklist is per node.
In `gAlias` the source flows into two symbol nodes with the same id; the first makes the id tagged,
so the second is never enqueued and what only IT is used by stays untagged — although the location
is reachable in the id-level closure.  `Live` (with its uniqueness conditions) cannot be replaced
by `Reach` in `C10_propagation_complete`. -/
theorem C10_alias_incomplete :
    Reach gAlias prm0 0 (true, 3) ∧ (3 : Int) ∉ (propagate gAlias prm0 0).symT ∧
    (propagate gAlias prm0 0).wl = [] ∧ gAlias.wf = true ∧ edgeTyped gAlias = true ∧
    findFlows current gAlias prm0 wAlias.rs [0] [5] = [] := by
  refine ⟨?_, by decide, by decide, by decide, by decide, by decide⟩
  -- 0 (id 1) → B = node 2 (id 2) by SYMBOL_FLOW → statement 3 uses it → defines node 4 (id 3)
  have h0 : Reach gAlias prm0 0 (symLoc gAlias 0) := Reach.initSym (by decide)
  have hB : Reach gAlias prm0 0 (symLoc gAlias 2) :=
    Reach.stepSym (u := 0) (by decide) h0
      (Conseq.symFlow (e := ⟨2, 3, -1⟩) (by decide) (by decide) (Or.inl (by decide)) (by decide))
  exact Reach.stepStmt (u := 3) (e := ⟨2, 2, 0⟩) (by decide) (by decide) (by decide) hB
    (Conseq.stmtDef (e := ⟨4, 1, -1⟩) (by decide) (by decide) (by decide) (by decide))

end LianVerif.C10
