/-
C11 — Every reported taint flow is justified by rules and by a data dependence.

Only property theorems, non-vacuity examples and negative witnesses live here.
Models: LianVerif/Model/Sfg.lean, TaintRules.lean, Taint.lean (`current` = the code in /repo now,
`pinned` and the single-flag variants = the pinned commit, frozen).
Vocabulary: LianVerif/Spec/Reach.lean (`Reach` = closure of the one-step taint relation of the SFG
on (table, id) locations; `Watch g p` = the locations `get_symbol_with_states_tag(p)` reads).

What is NOT proved here: that a run-time flow implies a path in the SFG, or that an SFG path implies
a dependence in the program (soundness / precision of the SFG construction, lian's P1–P3).  The
theorems take the SFG as given.
-/
import LianVerif.Proofs.TaintComplete
import LianVerif.Proofs.TaintRules
import LianVerif.Spec.TaintWitness

namespace LianVerif.C11
open LianVerif.Sfg LianVerif.TaintRules LianVerif.Taint LianVerif.Reach LianVerif.TaintWitness

/-- **C11 (tags).** Whatever `propagate_taint` tags — symbol-table or state-table entry — is
reachable from the source along the one-step taint relation of the SFG.  Every graph, every source. -/
theorem C11_tags_justified (g : Graph) (prm : Params) (src : Nat) :
    (∀ i ∈ (propagate g prm src).symT, Reach g prm src (true, i)) ∧
    (∀ i ∈ (propagate g prm src).stT, Reach g prm src (false, i)) :=
  propagate_sound g prm src

/-- **C11 (certified checker).** The closure the driver computes for every source of every graph of
a run (`reachSat`, compared there with the REAL tag maps) only contains reachable locations. -/
theorem C11_reach_checker_sound (g : Graph) (prm : Params) (src : Nat) :
    ∀ l ∈ reachSat g prm src, Reach g prm src l :=
  reachSat_sound g prm src

/-- how a flow into `sink` is justified: a sink rule consulted for `sink` names a position at which
a symbol is used whose watched locations (own id, states, included sub-states) are reachable from
the source — or a from-code rule makes every predecessor count. -/
def SinkJustified (vr : Variant) (g : Graph) (prm : Params) (rs : RuleSet) (src sink : Nat) : Prop :=
  (∃ r ∈ sinkMatching vr g rs sink, ∃ t ∈ targetsOf r, ∃ e ∈ g.inE sink, e.etype = E_USED ∧
      posHit (g.node sink).name t ((targetPos? t).getD (-1)) e = true ∧
      ∃ l, Watch g e.peer l ∧ Reach g prm src l) ∨
  (codeSinkHit vr rs (g.node sink) = true ∧ ∃ e ∈ g.inE sink,
      (vr.codeSinkSymOnly = true → g.kindOf e.peer = K_SYMBOL) ∧ ∃ l, Watch g e.peer l ∧ Reach g prm src l)

theorem sinkTag_justified {vr : Variant} (hr : vr.resetTargetPos = true) (g : Graph) (prm : Params)
    (rs : RuleSet) (src sink : Nat)
    (h : (sinkTag vr g rs (propagate g prm src) sink).tag = true) :
    (g.node sink).kind = K_STMT ∧ SinkJustified vr g prm rs src sink := by
  have hk : (g.node sink).kind = K_STMT := by
    by_cases hk : (g.node sink).kind = K_STMT
    · exact hk
    · rw [sinkTag_nonstmt vr g rs _ sink hk] at h; exact absurd h (by simp)
  refine ⟨hk, ?_⟩
  have hs := propagate_sound g prm src
  rw [(sinkTag_reset hr g rs _ sink hk).1, Bool.or_eq_true] at h
  rcases h with h | h
  · left
    rw [List.any_eq_true] at h
    obtain ⟨r, hrm, h⟩ := h
    rw [List.any_eq_true] at h
    obtain ⟨t, htm, h⟩ := h
    unfold targetHit at h
    rw [List.any_eq_true] at h
    obtain ⟨e, he, h⟩ := h
    rw [Bool.and_eq_true] at h
    rw [List.mem_filter] at he
    obtain ⟨l, hw, htl⟩ := symWithStatesTag_sound h.2
    exact ⟨r, hrm, t, htm, e, he.1, by simpa using he.2, h.1, l, hw, taggedLoc_reach hs htl⟩
  · right
    rw [Bool.and_eq_true] at h
    refine ⟨h.1, ?_⟩
    obtain ⟨e, he, h2⟩ := List.any_eq_true.1 h.2
    rw [Bool.and_eq_true] at h2
    obtain ⟨l, hw, htl⟩ := symWithStatesTag_sound h2.2
    refine ⟨e, he, ?_, l, hw, taggedLoc_reach hs htl⟩
    intro hso
    have h3 := h2.1
    rw [hso] at h3
    simpa using h3

/-- **C11 (justification).** Every flow the analysis of an entry point reports
(1) starts at the symbol defined by a statement that matches a source rule (`srcMatch`; its decision
logic per rule kind is `C10_rule_kinds_*`), (2) ends at a statement that matches a sink rule,
(3) and is backed by an SFG path from the source to a location watched at a predecessor of the sink
that sits at the position a consulted sink rule names.
Stated for every variant that re-initialises `target_pos` per target, in particular `current`. -/
theorem C11_justified {vr : Variant} (hr : vr.resetTargetPos = true) (g : Graph) (prm : Params)
    (rs : RuleSet) (f : Flow) (hf : f ∈ analyze vr g prm rs) :
    (∃ n, n < g.size ∧ (g.node n).kind = K_STMT ∧ srcMatch vr g rs n = true ∧ defSym g n = some f.src) ∧
    (f.sink < g.size ∧ (g.node f.sink).kind = K_STMT ∧ isSink vr g rs f.sink = true) ∧
    SinkJustified vr g prm rs f.src f.sink := by
  unfold analyze at hf
  obtain ⟨h1, h2, h3, _⟩ := mem_findFlows.1 hf
  have hsrc : some f.src ∈ findSources vr g rs := by
    rw [List.mem_filterMap] at h1
    obtain ⟨o, ho, hid⟩ := h1
    simp only [id] at hid
    rw [← hid]; exact ho
  obtain ⟨hk, hj⟩ := sinkTag_justified hr g prm rs f.src f.sink h3
  obtain ⟨hlt, hsink⟩ := mem_findSinks.1 h2
  exact ⟨findSources_spec hsrc, ⟨hlt, hk, hsink⟩, hj⟩

theorem C11_justified_current (g : Graph) (prm : Params) (rs : RuleSet) (f : Flow)
    (hf : f ∈ analyze current g prm rs) :
    (∃ n, n < g.size ∧ (g.node n).kind = K_STMT ∧ srcMatch current g rs n = true ∧
      defSym g n = some f.src) ∧
    (f.sink < g.size ∧ (g.node f.sink).kind = K_STMT ∧ isSink current g rs f.sink = true) ∧
    SinkJustified current g prm rs f.src f.sink :=
  C11_justified rfl g prm rs f hf

/-- **C11 (no source rule ⇒ no flow).** -/
theorem C11_no_source_no_flow (vr : Variant) (g : Graph) (prm : Params) (rs : RuleSet)
    (h1 : rs.sources = []) (h2 : rs.srcCode = []) : analyze vr g prm rs = [] := by
  have hnone : findSources vr g rs = [] := by
    apply List.eq_nil_iff_forall_not_mem.2
    intro o ho
    obtain ⟨n, _, hs⟩ := mem_findSources.1 ho
    rw [sourceOf_eq, srcMatch_no_rules vr g rs n h1 h2] at hs
    split at hs <;> exact absurd hs (by simp)
  unfold analyze findFlows
  rw [hnone]
  rfl

/-- **C11 (no sink rule ⇒ no flow).** -/
theorem C11_no_sink_no_flow (vr : Variant) (g : Graph) (prm : Params) (rs : RuleSet)
    (h1 : rs.sinks = []) (h2 : rs.sinkCode = []) : analyze vr g prm rs = [] := by
  have hnone : findSinks vr g rs = [] := by
    apply List.eq_nil_iff_forall_not_mem.2
    intro k hk
    have := (mem_findSinks.1 hk).2
    rw [isSink_no_rules vr g rs k h1 h2] at this
    exact absurd this (by simp)
  apply List.eq_nil_iff_forall_not_mem.2
  intro f hf
  unfold analyze at hf
  have := (mem_findFlows.1 hf).2.1
  rw [hnone] at this
  exact absurd this (by simp)

/-- **C11 (rules of another language ⇒ no flow).** If no source rule (and no from-code source rule)
is written for the language of any unit of the graph — nor for every language — nothing is reported. -/
theorem C11_wrong_lang_no_flow (vr : Variant) (g : Graph) (prm : Params) (rs : RuleSet)
    (h1 : ∀ n, ∀ r ∈ rs.sources, langOk vr r.lang (g.node n) = false)
    (h2 : ∀ n, ∀ c ∈ rs.srcCode, langOk vr c.lang (g.node n) = false) :
    analyze vr g prm rs = [] := by
  have hnone : findSources vr g rs = [] := by
    apply List.eq_nil_iff_forall_not_mem.2
    intro o ho
    obtain ⟨n, _, hs⟩ := mem_findSources.1 ho
    rw [sourceOf_eq, srcMatch_wrong_lang vr g rs n (h1 n) (h2 n)] at hs
    split at hs <;> exact absurd hs (by simp)
  unfold analyze findFlows
  rw [hnone]
  rfl

/-- **C11 (unrelated data ⇒ no flow).** If nothing watched at any predecessor of the sink is
reachable from the source, the pair is not reported. -/
theorem C11_unrelated_no_flow {vr : Variant} (hr : vr.resetTargetPos = true) (g : Graph)
    (prm : Params) (rs : RuleSet) (sources sinks : List Nat) (src sink : Nat)
    (h : ∀ e ∈ g.inE sink, ∀ l, Watch g e.peer l → ¬ Reach g prm src l) :
    ∀ f ∈ findFlows vr g prm rs sources sinks, ¬ (f.src = src ∧ f.sink = sink) := by
  rintro f hf ⟨rfl, rfl⟩
  obtain ⟨_, hj⟩ := sinkTag_justified hr g prm rs f.src f.sink (mem_findFlows.1 hf).2.2.1
  rcases hj with ⟨r, _, t, _, e, he, _, _, l, hw, hl⟩ | ⟨_, e, he, _, l, hw, hl⟩
  · exact h e he l hw hl
  · exact h e he l hw hl

/-- **C11 (wrong argument position ⇒ no flow).** Without a from-code hit: if every symbol used at a
position named by a consulted rule is unrelated to the source, the pair is not reported — whatever
is tainted at the other positions. -/
theorem C11_wrong_position_no_flow {vr : Variant} (hr : vr.resetTargetPos = true) (g : Graph)
    (prm : Params) (rs : RuleSet) (sources sinks : List Nat) (src sink : Nat)
    (hcode : codeSinkHit vr rs (g.node sink) = false)
    (h : ∀ r ∈ sinkMatching vr g rs sink, ∀ t ∈ targetsOf r, ∀ e ∈ g.inE sink, e.etype = E_USED →
      posHit (g.node sink).name t ((targetPos? t).getD (-1)) e = true →
      ∀ l, Watch g e.peer l → ¬ Reach g prm src l) :
    ∀ f ∈ findFlows vr g prm rs sources sinks, ¬ (f.src = src ∧ f.sink = sink) := by
  rintro f hf ⟨rfl, rfl⟩
  obtain ⟨_, hj⟩ := sinkTag_justified hr g prm rs f.src f.sink (mem_findFlows.1 hf).2.2.1
  rcases hj with ⟨r, hrm, t, ht, e, he, het, hp, l, hw, hl⟩ | ⟨hc, _⟩
  · exact h r hrm t ht e he het hp l hw hl
  · rw [hcode] at hc; exact absurd hc (by simp)

theorem sinkTag_mono {vr : Variant} (hr : vr.resetTargetPos = true) {g : Graph} {rs rs' : RuleSet}
    (hle : rs.le rs') (s : PState) (n : Nat) (h : (sinkTag vr g rs s n).tag = true) :
    (sinkTag vr g rs' s n).tag = true := by
  have hk : (g.node n).kind = K_STMT := by
    by_cases hk : (g.node n).kind = K_STMT
    · exact hk
    · rw [sinkTag_nonstmt vr g rs s n hk] at h; exact absurd h (by simp)
  rw [(sinkTag_reset hr g rs s n hk).1, Bool.or_eq_true] at h
  rw [(sinkTag_reset hr g rs' s n hk).1, Bool.or_eq_true]
  rcases h with h | h
  · left
    rw [List.any_eq_true] at h ⊢
    obtain ⟨r, hrm, h⟩ := h
    exact ⟨r, sinkMatching_mono hle.2.1 hrm, h⟩
  · right
    rw [Bool.and_eq_true] at h ⊢
    refine ⟨?_, h.2⟩
    unfold codeSinkHit at *
    exact any_mono hle.2.2.2 h.1

/-- **C11 (monotone in the rule set).** Adding rules — anywhere in the lists — never removes a
reported (source, sink) pair (`vuln_type` may change: it is taken from the last consulted rule). -/
theorem C11_monotone {vr : Variant} (hr : vr.resetTargetPos = true) (g : Graph) (prm : Params)
    (rs rs' : RuleSet) (hle : rs.le rs') (f : Flow) (hf : f ∈ analyze vr g prm rs) :
    ∃ f' ∈ analyze vr g prm rs', f'.src = f.src ∧ f'.sink = f.sink := by
  unfold analyze at hf ⊢
  obtain ⟨h1, h2, h3, _⟩ := mem_findFlows.1 hf
  refine ⟨{ src := f.src, sink := f.sink,
            vuln := (sinkTag vr g rs' (propagate g prm f.src) f.sink).vuln }, ?_, rfl, rfl⟩
  apply mem_findFlows.2
  refine ⟨?_, findSinks_mono hle h2, sinkTag_mono hr hle _ _ h3, rfl⟩
  rw [List.mem_filterMap] at h1 ⊢
  obtain ⟨o, ho, hid⟩ := h1
  simp only [id] at hid
  subst hid
  exact ⟨some f.src, findSources_mono hle ho, rfl⟩

theorem C11_monotone_current (g : Graph) (prm : Params) (rs rs' : RuleSet) (hle : rs.le rs')
    (f : Flow) (hf : f ∈ analyze current g prm rs) :
    ∃ f' ∈ analyze current g prm rs', f'.src = f.src ∧ f'.sink = f.sink :=
  C11_monotone rfl g prm rs rs' hle f hf

/-! ### Non-vacuity: the repaired model reports the flow of `y = req.get(); sink(y)` under Python
rules, and nothing when the tainted value sits in the second argument. -/

set_option maxRecDepth 4096 in
example : analyze current (gObjCall 1) prm0 rsPy = [{ src := 1, sink := 2, vuln := some "v" }] := by
  decide
set_option maxRecDepth 4096 in
example : analyze current (gObjCall 2) prm0 rsPy = [] := by decide
example : rsPy.le { rsPy with sinks := sinkCall "%" .none :: rsPy.sinks } :=
  ⟨fun _ h => h, fun _ h => List.mem_cons_of_mem _ h, fun _ h => h, fun _ h => h⟩

/-! ### The pinned commit violates the property (frozen variants, one defect each; the cases are
those of Spec/TaintWitness.lean, replayed on the real code by every run). -/

/-- `rule.lang` was never consulted: rules listed under `lang: java` report a flow in a Python unit;
the repaired code reports none. -/
theorem C11_unfixed_lang_ignored :
    analyze wLang.frozen wLang.g prm0 wLang.rs = [{ src := 1, sink := 2, vuln := some "v" }] ∧
    analyze current wLang.g prm0 wLang.rs = [] := by
  constructor <;> decide

/-- an unknown target keyword as first target reached `target_pos` unbound (UnboundLocalError: the
whole taint phase aborts); the repaired code treats it as naming no position. -/
theorem C11_unfixed_stale_target_pos :
    flowsErr wTargetPos.frozen wTargetPos.g prm0 wTargetPos.rs [1] [2] = true ∧
    flowsErr current wTargetPos.g prm0 wTargetPos.rs [1] [2] = false ∧
    analyze current wTargetPos.g prm0 wTargetPos.rs = [] := by
  refine ⟨?_, ?_, ?_⟩ <;> decide

/-- a `sink_from_code` rule written for another file (same line, matching symbol text) made every
argument of `sink(0, y)` count although the matching rule names `\\%arg0`. -/
theorem C11_unfixed_code_sink_other_file :
    analyze wCodeSink.frozen wCodeSink.g prm0 wCodeSink.rs
      = [{ src := 1, sink := 2, vuln := some "v" }] ∧
    analyze current wCodeSink.g prm0 wCodeSink.rs = [] := by
  constructor <;> decide

/-- `get_sink_tag_by_rules` ignored `line_num`: a rule restricted to line 9 (`\\%arg1`) contributed its
target to the call on line 2 that a rule restricted to line 2 (`\\%arg0`) had selected. -/
theorem C11_unfixed_sink_rule_location_ignored :
    analyze wSinkLoc.frozen wSinkLoc.g prm0 wSinkLoc.rs
      = [{ src := 1, sink := 2, vuln := some "v" }] ∧
    analyze current wSinkLoc.g prm0 wSinkLoc.rs = [] := by
  constructor <;> decide

/-- `apply_field_read_source_rules` ignored `unit_name` / `line_num`: a field-read source rule
restricted to line 7 of other.py made `z = cfg.secret` on line 1 of a.py a source. -/
theorem C11_unfixed_field_read_location_ignored :
    analyze wFieldRead.frozen wFieldRead.g prm0 wFieldRead.rs
      = [{ src := 1, sink := 3, vuln := some "v" }] ∧
    analyze current wFieldRead.g prm0 wFieldRead.rs = [] := by
  constructor <;> decide

/-- `_propagate_from_state` wrote the id of a containing STATE (STATE_INCLUSION predecessor) into
the SYMBOL table: the unrelated variable `x` whose symbol id equals that state id became tainted and
`sink(x)` was reported; the repaired code writes SYMBOL predecessors only. -/
theorem C11_unfixed_state_id_tagged_as_symbol :
    analyze current wStateId.g (wStateId.frozenPrm prm0) wStateId.rs
      = [{ src := 1, sink := 4, vuln := some "v" }] ∧
    analyze current wStateId.g prm0 wStateId.rs = [] := by
  constructor <;> decide

/-- the `sink_from_code` branch of `get_sink_tag_by_rules` consulted every predecessor of the sink,
also the STATE node of a literal operand (STATE_IS_USED), whose state id it looked up in the SYMBOL
table: `w = src(); sink(7)` was reported when the literal's state id equalled the symbol id of `w`.
The repaired code consults SYMBOL predecessors only. -/
theorem C11_unfixed_code_sink_state_operand :
    analyze wCodeLit.frozen wCodeLit.g prm0 wCodeLit.rs = [{ src := 1, sink := 4, vuln := none }] ∧
    analyze current wCodeLit.g prm0 wCodeLit.rs = [] := by
  constructor <;> decide

/-- **only symbols are consulted at the sink.** When the SYMBOL_IS_USED in-edges of the sink come from
SYMBOL nodes (true of every SFG lian builds) a reported pair is backed by a SYMBOL predecessor of the
sink that watches a location reachable from the source: no state id is looked up in the SYMBOL table. -/
theorem C11_sink_consults_symbols_only {vr : Variant} (hr : vr.resetTargetPos = true)
    (hso : vr.codeSinkSymOnly = true) (g : Graph) (prm : Params) (rs : RuleSet) (src sink : Nat)
    (hused : ∀ e ∈ g.inE sink, e.etype = E_USED → g.kindOf e.peer = K_SYMBOL)
    (h : (sinkTag vr g rs (propagate g prm src) sink).tag = true) :
    ∃ e ∈ g.inE sink, g.kindOf e.peer = K_SYMBOL ∧ ∃ l, Watch g e.peer l ∧ Reach g prm src l := by
  obtain ⟨_, hj⟩ := sinkTag_justified hr g prm rs src sink h
  rcases hj with ⟨_, _, _, _, e, he, het, _, l, hw, hl⟩ | ⟨_, e, he, hk, l, hw, hl⟩
  · exact ⟨e, he, hused e he het, l, hw, hl⟩
  · exact ⟨e, he, hk hso, l, hw, hl⟩

/-- since that repair the SYMBOL table only receives ids of SYMBOL nodes and of the symbols a
propagating statement defines: every symbol-table consequence of a dequeued node names such a node. -/
theorem C11_symbol_table_holds_symbols (g : Graph) (prm : Params) (hs : prm.stateUpSymOnly = true)
    {u : Nat} {i : Int} (h : Conseq g prm u (true, i)) :
    ∃ x, g.nid x = i ∧ (g.kindOf x = K_SYMBOL ∨ ∃ e ∈ g.outE u, e.etype = E_DEFINED ∧ e.peer = x) := by
  generalize hl : ((true, i) : Loc) = l at h
  cases h with
  | symState _ _ _ => simp [stLoc] at hl
  | symFlow _ _ _ hpk => exact ⟨_, by simpa [symLoc] using (congrArg Prod.snd hl).symm, Or.inl hpk⟩
  | stateUp _ _ _ hk => exact ⟨_, by simpa [symLoc] using (congrArg Prod.snd hl).symm, Or.inl (hk hs)⟩
  | stateDown _ _ _ _ => simp [stLoc] at hl
  | stmtDef _ _ he het =>
    exact ⟨_, by simpa [symLoc] using (congrArg Prod.snd hl).symm, Or.inr ⟨_, he, het, rfl⟩⟩
  | recv _ _ _ _ _ _ hpk => exact ⟨_, by simpa [symLoc] using (congrArg Prod.snd hl).symm, Or.inl hpk⟩

/-- with a stale `target_pos` the sink tag is not monotone in the rule set: the frozen model
answers an error where the smaller rule set answers a flow. -/
theorem C11_unfixed_not_monotone :
    analyze wTargetPos.frozen (gObjCall 1) prm0 rsPy = [{ src := 1, sink := 2, vuln := some "v" }] ∧
    flowsErr wTargetPos.frozen (gObjCall 1) prm0
      { rsPy with sinks := sinkCall "python" (.list [some "%bogus"]) :: rsPy.sinks } [1] [2] = true := by
  constructor <;> decide

end LianVerif.C11
