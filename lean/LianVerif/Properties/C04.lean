/-
C04 — Every concrete execution of a method is a path in its control-flow graph.

Only property theorems, non-vacuity examples and negative witnesses live here.
Model:  LianVerif/Model/Cfg.lean  (`cfg Q.live` = code in the repo now, `cfg Q.pinned` = pinned commit).
Spec:   LianVerif/Spec/Ctl.lean   (control-skeleton runs `runCtl`, required edges `req`, monitor `cfgCheck`).
-/
import LianVerif.Proofs.Ctl
import LianVerif.Proofs.CfgSound

namespace LianVerif.C04
open LianVerif.Cfg

/-- consecutive steps are edges of `E` (or the same statement repeated) -/
def IsPath (E : List (Int × Int)) : List Int → Prop
  | [] => True
  | [_] => True
  | a :: b :: t => hasE E a b = true ∧ IsPath E (b :: t)

/-- the relation the main lemma is instantiated with: an edge is only demanded of a supported source -/
def RelS (params body : S) (E : List (Int × Int)) (a b : Int) : Prop :=
  supported params body E a = true → hasE E a b = true

theorem supported_of_edge {params body : S} {E : List (Int × Int)} {a b : Int}
    (ha : supported params body E a = true) (h : hasE E a b = true) : supported params body E b = true := by
  unfold hasE at h
  simp only [Bool.or_eq_true, beq_iff_eq, List.contains_iff_mem] at h
  rcases h with h | h
  · subst h; exact ha
  · unfold supported
    simp only [Bool.or_eq_true, List.any_eq_true, beq_iff_eq]
    exact Or.inr ⟨(a, b), h, rfl⟩

/-- from a support-relative chain to a path, left to right -/
theorem path_of_chain {params body : S} {E : List (Int × Int)} :
    ∀ (t : List Int) (x : Int), supported params body E x = true →
      chainO (RelS params body E) (some x) t →
      IsPath E (x :: t) ∧ ∀ y, lastO (some x) t = some y → supported params body E y = true := by
  intro t
  induction t with
  | nil =>
    intro x hx _
    refine ⟨trivial, ?_⟩
    intro y hy
    simp only [lastO, Option.some.injEq] at hy
    subst hy; exact hx
  | cons y t ih =>
    intro x hx hc
    obtain ⟨hxy, hrest⟩ := hc
    have hE : hasE E x y = true := hxy hx
    have hy := supported_of_edge hx hE
    obtain ⟨hp, hl⟩ := ih y hy hrest
    exact ⟨⟨hE, hp⟩, fun z hz => hl z (by simpa [lastO] using hz)⟩

theorem lastO_some_getLast : ∀ (t : List Int) (x : Int), lastO (some x) t = some ((x :: t).getLast (by simp)) := by
  intro t
  induction t with
  | nil => intro x; rfl
  | cons y t ih => intro x; simp only [lastO]; rw [ih y]; simp [List.getLast_cons]

/-- the run of a method against the method-level required edges, for any relation -/
theorem run_post (R : Int → Int → Prop) (params body : S) (hreq : Holds R (reqM params body))
    (a : Option Int) (ha : ∀ j ∈ entries params body, linkO R a j) (n : Nat) (o : List Bool) :
    Post R a (runCtl n params body o) K0 := by
  unfold reqM at hreq
  rw [holds_append] at hreq
  unfold runCtl
  refine post_bind R ((exec_ok R n).1 false params _ o a hreq.1 ha) (fun _ => rfl) (fun _ => rfl) (fun _ => rfl) ?_
  intro _ hl
  exact (exec_ok R n).1 false body K0 _ _ hreq.2 hl

/-- **C04, certified monitor.**  If `cfgCheck` accepts the edge list `E` for a method, then for every
fuel and every oracle the control-skeleton run of the method
(1) is a path of `E` (consecutive distinct statements are edges),
(2) starts at an entry node: a possible first step of the method with no incoming edge,
(3) when it terminates (normally or by `return`) ends with an edge to the exit node `-1`. -/
theorem cfgCheck_sound (params body : S) (E : List (Int × Int)) (h : cfgCheck params body E = true)
    (n : Nat) (o : List Bool) :
    IsPath E (runCtl n params body o).tr ∧
    (∀ x, (runCtl n params body o).tr.head? = some x →
        x ∈ entries params body ∧ (x ≠ -1 → ∀ e ∈ E, e.2 ≠ x)) ∧
    (((runCtl n params body o).out = .normal ∨ (runCtl n params body o).out = .ret) →
        ∀ x, (runCtl n params body o).tr.getLast? = some x → hasE E x (-1) = true) := by
  unfold cfgCheck at h
  simp only [Bool.and_eq_true, List.isEmpty_iff] at h
  obtain ⟨⟨hmiss, hbad⟩, _⟩ := h
  -- (a) every required edge with a supported source is present
  have hreq : Holds (RelS params body E) (reqM params body) := by
    intro e he hs
    unfold missing at hmiss
    have := List.filter_eq_nil_iff.1 hmiss e he
    simpa [hs] using this
  have hpost := run_post (RelS params body E) params body hreq none (fun _ _ => trivial) n o
  -- (b) the first step is one of `entries`: the main lemma again, with a relation that only
  -- constrains the successors of the (fictitious) predecessor -1
  have hhead : ∀ x, (runCtl n params body o).tr.head? = some x → x ∈ entries params body := by
    intro x hx
    let R2 : Int → Int → Prop := fun a b => a = -1 → b ∈ entries params body
    have hreq2 : Holds R2 (reqM params body) := by
      intro e he h1
      have hsrc : 0 ≤ e.1 := by
        unfold reqM at he
        rcases List.mem_append.1 he with he | he
        · exact (req_src params).1 _ _ e he
        · exact (req_src body).1 _ _ e he
      omega
    have hp2 := run_post R2 params body hreq2 (some (-1)) (fun j hj _ => hj) n o
    obtain ⟨hch, _⟩ := hp2
    cases htr : (runCtl n params body o).tr with
    | nil => rw [htr] at hx; simp at hx
    | cons y t =>
      rw [htr] at hx hch
      simp only [List.head?_cons, Option.some.injEq] at hx
      subst hx
      exact hch.1 rfl
  obtain ⟨hch, hout⟩ := hpost
  generalize runCtl n params body o = r at hch hout hhead ⊢
  cases htr : r.tr with
  | nil =>
    refine ⟨trivial, ?_, ?_⟩
    · intro x hx; simp at hx
    · intro _ x hx; simp at hx
  | cons x t =>
    rw [htr] at hch hout hhead
    have hx : x ∈ entries params body := hhead x rfl
    have hsx : supported params body E x = true := by
      unfold supported
      simp only [Bool.or_eq_true, List.contains_iff_mem]
      exact Or.inl hx
    obtain ⟨hp, hl⟩ := path_of_chain t x hsx hch.2
    refine ⟨hp, ?_, ?_⟩
    · intro y hy
      simp only [List.head?_cons, Option.some.injEq] at hy
      subst hy
      refine ⟨hx, ?_⟩
      intro hne e he heq
      unfold badEntries at hbad
      have := List.filter_eq_nil_iff.1 hbad x hx
      simp only [Bool.and_eq_true, bne_iff_ne, ne_eq, List.any_eq_true, beq_iff_eq, not_and,
        not_exists] at this
      exact this hne e he heq
    · intro hfin y hy
      have hlast : lastO (some x) t = some y := by
        rw [lastO_some_getLast]
        rw [List.getLast?_eq_some_getLast (by simp)] at hy
        exact hy
      have hsy : supported params body E y = true := hl y hlast
      have hlast' : lastO none (x :: t) = some y := by simpa [lastO] using hlast
      rcases hfin with hfin | hfin
      · simp only [hfin] at hout
        have := hout (-1) (by simp [K0])
        rw [hlast'] at this
        exact this hsy
      · simp only [hfin] at hout
        rw [hlast'] at hout
        exact hout hsy

/-- **C04, nodes.**  If `cfgCheck` accepts `E`, every node of `E` is a statement of this method
(parameters or body, not inside a nested declaration) or the exit node. -/
theorem cfgCheck_nodes (params body : S) (E : List (Int × Int)) (h : cfgCheck params body E = true) :
    ∀ e ∈ E, (e.1 = -1 ∨ e.1 ∈ ids params ++ ids body) ∧ (e.2 = -1 ∨ e.2 ∈ ids params ++ ids body) := by
  unfold cfgCheck at h
  simp only [Bool.and_eq_true, List.isEmpty_iff] at h
  obtain ⟨_, hf⟩ := h
  unfold foreign at hf
  intro e he
  have h1 := List.filter_eq_nil_iff.1 hf e.1 (List.mem_append.2 (Or.inl (List.mem_map.2 ⟨e, he, rfl⟩)))
  have h2 := List.filter_eq_nil_iff.1 hf e.2 (List.mem_append.2 (Or.inr (List.mem_map.2 ⟨e, he, rfl⟩)))
  simp only [Bool.not_eq_true', Bool.not_eq_false, List.contains_iff_mem, List.mem_cons] at h1 h2
  exact ⟨h1, h2⟩

/-! ### Decidability of `IsPath`, so that concrete runs can be checked by `decide` -/

def decIsPath (E : List (Int × Int)) : (t : List Int) → Decidable (IsPath E t)
  | [] => .isTrue trivial
  | [_] => .isTrue trivial
  | a :: b :: t =>
    match decIsPath E (b :: t) with
    | .isTrue h =>
      if h2 : hasE E a b = true then .isTrue ⟨h2, h⟩ else .isFalse (fun h' => h2 h'.1)
    | .isFalse h => .isFalse (fun h' => h h'.2)

instance (E : List (Int × Int)) (t : List Int) : Decidable (IsPath E t) := decIsPath E t

/-- edge pairs of an analysis result (an exception leaves no graph) -/
def edgesOf : Result → List (Int × Int)
  | .ok es => edgePairs es
  | .error _ => []

def p1 : S := .simple 1 .nil          -- one parameter_decl

/-! ### Defects of the pinned commit (frozen model `cfg Q.pinned`), each with the repaired behaviour.
Every witness is a method with one parameter (so that the entry clause is not what fails), a
concrete oracle, and the run it produces. -/

/-- JS `for (i=0; i<n; i++) { if (c) continue; s; }` -/
def wForCont : S :=
  .forS 12 false (.simple 14 .nil) (.simple 16 .nil) (.simple 18 .nil)
    (.ifS 20 (.cont 22 .nil) .nil (.simple 23 .nil)) (.simple 24 .nil)

/-- **negative, pinned.** `continue` inside `for_stmt`: the run …, continue(22), update(18), … is not a
path — the pinned builder has `continue → for_stmt` only. -/
theorem C04_for_continue_unsound :
    (runCtl 20 p1 wForCont [true, true, false]).tr = [1, 14, 16, 12, 20, 22, 18, 16, 12, 24] ∧
    ¬ IsPath (edgesOf (cfg Q.pinned p1 wForCont)) (runCtl 20 p1 wForCont [true, true, false]).tr ∧
    missing p1 wForCont (edgesOf (cfg Q.pinned p1 wForCont)) = [(22, 18)] := by decide

theorem C04_for_continue_fixed : cfgCheck p1 wForCont (edgesOf (cfg Q.live p1 wForCont)) = true := by decide

/-- Java `while (i < n) { s; } return` — `condition_prebody` = [14] -/
def wPre : S := .whileS 12 false (.simple 14 .nil) (.simple 16 .nil) .nil (.ret 17 .nil)

/-- **negative, pinned.** The prebody statement 14 executes before every test but is not a CFG node. -/
theorem C04_while_prebody_missing :
    (runCtl 20 p1 wPre [true, false]).tr = [1, 14, 12, 16, 14, 12, 17] ∧
    ¬ IsPath (edgesOf (cfg Q.pinned p1 wPre)) (runCtl 20 p1 wPre [true, false]).tr ∧
    (∀ e ∈ edgesOf (cfg Q.pinned p1 wPre), e.1 ≠ 14 ∧ e.2 ≠ 14) := by decide

theorem C04_while_prebody_fixed : cfgCheck p1 wPre (edgesOf (cfg Q.live p1 wPre)) = true := by decide

/-- Python `while True: s` + `else: t` -/
def wTrueElse : S := .whileS 12 true .nil (.simple 14 .nil) (.simple 16 .nil) (.simple 17 .nil)

/-- **negative, pinned.** `last_stmts.pop()` on an empty list: IndexError escapes `analyze()`. -/
theorem C04_while_true_else : cfg Q.pinned p1 wTrueElse = .error 1 := by decide

theorem C04_while_true_else_fixed :
    cfgCheck p1 wTrueElse (edgesOf (cfg Q.live p1 wTrueElse)) = true := by decide

/-- Python `while c: (while d: s else: break); t` then `u` -/
def wElseBreak : S :=
  .whileS 12 false .nil
    (.whileS 14 false .nil (.simple 16 .nil) (.brk 18 .nil) (.simple 19 .nil)) .nil (.simple 20 .nil)

/-- **negative, pinned.** A `break` in the else clause of the inner loop leaves the outer loop; the
pinned builder drops it (no out-edge at all). -/
theorem C04_while_else_break_lost :
    (runCtl 20 p1 wElseBreak [true, false]).tr = [1, 12, 14, 18, 20] ∧
    ¬ IsPath (edgesOf (cfg Q.pinned p1 wElseBreak)) (runCtl 20 p1 wElseBreak [true, false]).tr ∧
    (∀ e ∈ edgesOf (cfg Q.pinned p1 wElseBreak), e.1 ≠ 18) := by decide

theorem C04_while_else_break_fixed :
    cfgCheck p1 wElseBreak (edgesOf (cfg Q.live p1 wElseBreak)) = true := by decide

/-- JS `switch (x) { case 1: s; break; }` then `t`, no default -/
def wSwNoDflt : S :=
  .switchS 12 true (.caseS 14 false (.simple 16 (.brk 17 .nil)) .nil) (.simple 18 .nil)

/-- **negative, pinned.** No case matches: the run switch(12), 18 has no edge. -/
theorem C04_switch_no_default :
    (runCtl 20 p1 wSwNoDflt [false]).tr = [1, 12, 18] ∧
    ¬ IsPath (edgesOf (cfg Q.pinned p1 wSwNoDflt)) (runCtl 20 p1 wSwNoDflt [false]).tr := by decide

theorem C04_switch_no_default_fixed :
    cfgCheck p1 wSwNoDflt (edgesOf (cfg Q.live p1 wSwNoDflt)) = true := by decide

/-- JS `while (c) { switch (x) { case 1: continue; } s; }` then `t` -/
def wSwCont : S :=
  .whileS 12 false .nil
    (.switchS 14 true (.caseS 16 false (.cont 18 .nil) .nil) (.simple 19 .nil)) .nil (.simple 20 .nil)

/-- **negative, pinned.** `continue` in a case body is wired to the statement after the switch
(18 → 19), not to its loop (18 → 12). -/
theorem C04_switch_continue :
    (runCtl 20 p1 wSwCont [true, true, false]).tr = [1, 12, 14, 16, 18, 12, 20] ∧
    ¬ IsPath (edgesOf (cfg Q.pinned p1 wSwCont)) (runCtl 20 p1 wSwCont [true, true, false]).tr ∧
    (18, 19) ∈ edgesOf (cfg Q.pinned p1 wSwCont) := by decide

theorem C04_switch_continue_fixed : cfgCheck p1 wSwCont (edgesOf (cfg Q.live p1 wSwCont)) = true := by decide

/-- JS `if (c) {}` then `s; return` -/
def wEmptyIf : S := .ifS 12 .nil .nil (.simple 13 (.ret 14 .nil))

/-- **negative, pinned.** A compound statement without blocks stops the enclosing block: 13 and 14
are not in the CFG. -/
theorem C04_empty_body_truncates :
    (runCtl 20 p1 wEmptyIf [true]).tr = [1, 12, 13, 14] ∧
    ¬ IsPath (edgesOf (cfg Q.pinned p1 wEmptyIf)) (runCtl 20 p1 wEmptyIf [true]).tr ∧
    edgesOf (cfg Q.pinned p1 wEmptyIf) = [(1, 12), (12, -1)] := by decide

theorem C04_empty_body_fixed : cfgCheck p1 wEmptyIf (edgesOf (cfg Q.live p1 wEmptyIf)) = true := by decide

/-- TypeScript `class K { static q = 1 }` inside a function -/
def wSinit : S := .classS 12 true (.simple 14 .nil) .nil .nil .nil (.simple 15 .nil)

/-- **negative, pinned.** The bare class_decl row is iterated as a list of parents: TypeError. -/
theorem C04_class_static_init_crash : cfg Q.pinned p1 wSinit = .error 2 := by decide

theorem C04_class_static_init_fixed : cfgCheck p1 wSinit (edgesOf (cfg Q.live p1 wSinit)) = true := by decide

/-! ### Open findings: the code in the repo now (`cfg Q.live`) still violates the property. -/

/-- `try { s; t } catch { u }` then `v` -/
def wTry : S :=
  .tryS 12 (.simple 14 (.simple 15 .nil)) (.clause 17 (.simple 19 .nil) .nil) .nil .nil (.simple 20 .nil)

/-- **negative, current code.** A raise at the non-last statement 14 of a try body: 14 → catch(17) is
not an edge; only the last statement 15 is linked to the clause. -/
theorem C04_try_midbody :
    (runCtl 20 p1 wTry [true]).tr = [1, 12, 14, 17, 19, 20] ∧
    ¬ IsPath (edgesOf (cfg Q.live p1 wTry)) (runCtl 20 p1 wTry [true]).tr ∧
    missing p1 wTry (edgesOf (cfg Q.live p1 wTry)) = [(14, 17)] := by decide

/-- Python `match x: case 1: s` `case _: t` then `u` (`ft = false`) -/
def wMatch : S :=
  .switchS 12 false (.caseS 14 false (.simple 16 .nil) (.caseS 17 true (.simple 19 .nil) .nil)) (.simple 20 .nil)

/-- **negative, current code.** Python `match` has no fall-through: after the body of case 1 comes 20,
but the CFG has 16 → 19 (fall-through) and no 16 → 20. -/
theorem C04_match_case_exit :
    (runCtl 20 p1 wMatch [true]).tr = [1, 12, 14, 16, 20] ∧
    ¬ IsPath (edgesOf (cfg Q.live p1 wMatch)) (runCtl 20 p1 wMatch [true]).tr ∧
    missing p1 wMatch (edgesOf (cfg Q.live p1 wMatch)) = [(16, 20)] := by decide

/-- a method without parameters whose first statement is `while c: s` -/
def wLoopFirst : S := .whileS 12 false .nil (.simple 14 .nil) .nil .nil

/-- **negative, current code.** The first step 12 has an incoming edge (the loop-back 14 → 12): no
node of the CFG has in-degree 0, and the analyses that start from in-degree-0 nodes never start. -/
theorem C04_entry_loop_head :
    (runCtl 20 .nil wLoopFirst [false]).tr.head? = some 12 ∧
    (14, 12) ∈ edgesOf (cfg Q.live .nil wLoopFirst) ∧
    badEntries .nil wLoopFirst (edgesOf (cfg Q.live .nil wLoopFirst)) = [12] ∧
    missing .nil wLoopFirst (edgesOf (cfg Q.live .nil wLoopFirst)) = [] := by decide

/-! ### C04 for the model of the repaired builder, fragment F₀ -/

theorem isPath_of_chainO {E : List (Int × Int)} :
    ∀ (t : List Int) (a : Option Int), chainO (fun x y => hasE E x y = true) a t → IsPath E t := by
  intro t
  induction t with
  | nil => intro _ _; trivial
  | cons x t ih =>
    intro a h
    cases t with
    | nil => trivial
    | cons y t =>
      obtain ⟨_, h2⟩ := h
      exact ⟨h2.1, ih (some x) h2⟩

theorem lastO_none_getLast? : ∀ (t : List Int), lastO none t = t.getLast? := by
  intro t
  cases t with
  | nil => rfl
  | cons x t =>
    simp only [lastO]
    rw [lastO_some_getLast, List.getLast?_eq_some_getLast (by simp)]

/-- **C04_sound (partial: fragment F₀, path and exit clauses).**  For every method whose parameter
block and body are in F₀ = { simple statements, nested method declarations, if/else,
while/forin/for_value without condition_prebody (with else, with literal-true condition), dowhile
without condition_prebody, for_stmt whose condition_prebody/update_body are straight-line
(including `continue` bound to it), break, continue, return }, the graph the repaired builder model
computes contains every control-skeleton run: consecutive distinct statements are edges, and a run
that ends normally or by `return` ends with an edge to the exit node `-1`.

-- OPEN (not proved): the same for the whole of `S` minus the open findings — try/catch (unsound
-- today: `C04_try_midbody`), switch, class declarations, condition_prebody of while/dowhile — and
-- the entry clause, which is false today (`C04_entry_loop_head`). -/
theorem C04_sound_partial (params body : S) (hp : inF0 params = true) (hb : inF0 body = true)
    (es : List Edge) (h : cfg Q.live params body = .ok es) (n : Nat) (o : List Bool) :
    IsPath (edgePairs es) (runCtl n params body o).tr ∧
    (((runCtl n params body o).out = .normal ∨ (runCtl n params body o).out = .ret) →
        ∀ x, (runCtl n params body o).tr.getLast? = some x → hasE (edgePairs es) x (-1) = true) := by
  simp only [cfg] at h
  split at h
  · cases h
  · simp only [Result.ok.injEq] at h
    subst h
    let R : Int → Int → Prop := fun x y => hasE (edgePairs (build (emitted Q.live params body).es)) x y = true
    have hall : HasE R (emitted Q.live params body).es := build_has _
    simp only [emitted, hasE_append] at hall
    obtain ⟨⟨h1, h2⟩, hx⟩ := hall
    have hsim := sim_all R n n (Nat.le_refl n)
    have hc : Concl R none (runCtl n params body o)
        (analyze Q.live body (analyze Q.live params []).F).F
        ((analyze Q.live params []).sp ++ (analyze Q.live body (analyze Q.live params []).F).sp) := by
      unfold runCtl
      refine concl_bind R (hsim params hp [] none o h1 trivial) (fun s hs => List.mem_append.2 (Or.inl hs)) ?_
      intro _ hin
      exact concl_mono R (hsim body hb _ _ _ h2 hin) (fun f hf => hf) (fun s hs => List.mem_append.2 (Or.inr hs))
    obtain ⟨hch, hout⟩ := hc
    refine ⟨isPath_of_chainO _ none hch, ?_⟩
    intro hfin x hxl
    have hlast : lastO none (runCtl n params body o).tr = some x := by rw [lastO_none_getLast?]; exact hxl
    rcases hfin with hfin | hfin
    · simp only [hfin, hlast] at hout
      obtain ⟨f, hf, hfx⟩ := hout
      rw [← hfx]
      exact hx (f.id, -1, f.kind.getD kEMPTY) (List.mem_map.2 ⟨f, hf, rfl⟩)
    · simp only [hfin, hlast] at hout
      obtain ⟨y, hy, hR⟩ := hout
      rw [Option.some.inj hy]
      exact hR

/-- non-vacuity: the for+continue witness is in F₀, its model graph exists, the run is long -/
example : inF0 p1 = true ∧ inF0 wForCont = true ∧ (∃ es, cfg Q.live p1 wForCont = .ok es) := by
  refine ⟨by decide, by decide, ?_⟩
  exact ⟨_, rfl⟩

/-! ### Non-vacuity of `cfgCheck_sound`: an accepted CFG of a method that uses every construct, and a
long run of it. -/

def wAll : S :=
  .simple 10 <| .ifS 11 (.simple 12 .nil) (.ret 13 .nil) <|
  .whileS 14 false (.simple 15 .nil) (.ifS 16 (.cont 17 .nil) (.brk 18 .nil) .nil) .nil <|
  .doS 20 false (.simple 21 .nil) (.simple 22 .nil) <|
  .forS 23 false (.simple 24 .nil) (.simple 25 .nil) (.simple 26 .nil)
    (.switchS 27 true (.caseS 28 false (.cont 29 .nil) (.caseS 30 true (.simple 31 (.brk 32 .nil)) .nil)) .nil) <|
  .classS 33 true .nil .nil (.decl 34 .nil) .nil <|
  .tryS 35 (.simple 36 .nil) (.clause 37 (.simple 38 .nil) (.clause 39 .nil .nil)) (.simple 40 .nil) (.simple 41 .nil) <|
  .ret 42 .nil

example : cfgCheck p1 wAll (edgesOf (cfg Q.live p1 wAll)) = true ∧ wfCtl p1 wAll = true := by
  decide +kernel

example :
    (runCtl 60 p1 wAll [true, true, true, false, false, true, true, false, true, false]).out = .ret ∧
    (runCtl 60 p1 wAll [true, true, true, false, false, true, true, false, true, false]).tr =
      [1, 10, 11, 12, 15, 14, 16, 17, 15, 14, 21, 22, 20, 24, 25, 23, 27, 28, 29, 26, 25, 23, 33, 34,
        35, 36, 39, 41, 42] := by
  decide +kernel

end LianVerif.C04
