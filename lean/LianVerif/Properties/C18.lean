/-
C18 — Running lian never alters inputs and writes only inside its workspace.

Only property theorems, non-vacuity examples and negative witnesses live here.
Model: LianVerif/Model/Workspace.lean — `prepare v fuel cfg fs` is workspace preparation
(`Lian.set_workspace_dir` + `WorkspaceBuilder.run`) over the abstract file system of Spec/Fs.lean;
`Variant.live` = the code in the repo now (fix: 1002e8d, c360ebe), `Variant.pinned` = pinned commit.

`W` is the physical workspace directory.  The `…_partial` theorems assume the decidable predicate
`inFragment cfg fs W` (Model/Workspace.lean): well-formed file system, and the workspace option leads
to `W` in both of its readings, independently of the contents of `W`.  Outside that fragment the
property is FALSE on the current code (open finding C18/ws-dotdot-after-symlink, witness below), so
no unconditional statement can be proved; the harness evaluates `inFragment` on every placement it
generates and reports how many fall inside.

-- OPEN (not proved):
--   * the quantitative half of `C18_copy_bounded`:
--       `copyCount (prepare .live fuel cfg fs).1.log ≤ (cfg.inputs.length + 1) * (number of files of fs outside W)`.
--     Proved instead: termination of the repaired walk within `maxDepth + 2` levels
--     (`C18_copy_terminates_partial`); the number of copies is monitored on every placement by the
--     snapshot oracle (new files ≤ (inputs + 1) × files before; depth bounded).
--   * the directories created by `prepare_directory` are ancestors of `W` (they are characterised
--     here only as "directory creations of prepare_directory").
--   * the statements without `inFragment` (false today, see the dotdot witness).
-/
import LianVerif.Proofs.WorkspaceBound

namespace LianVerif.C18
open LianVerif.Fs LianVerif.Workspace

/-- **C18 (writes and deletions only inside the workspace).**  Every effect of a run — for both
variants, any fuel — lies strictly below the physical workspace directory `W`, except the directory
creations `prepare_directory` performs to create the workspace path itself. -/
theorem C18_effects_within_ws_partial (v : Variant) (fuel : Nat) (cfg : Cfg) (fs : FS) (W : Path)
    (hf : inFragment cfg fs W = true) :
    ∀ e ∈ (prepare v fuel cfg fs).1.log,
      Below W e.path ∨ (e ∈ (prepState cfg fs).log ∧ ∃ p, e = .mkdir p) := by
  have hfrag := frag_of_inFragment hf
  have honly := prepareDirectory_only cfg.cwd (wsAbsPath cfg (setWorkspaceDir cfg)) (initSt fs)
  have hprep : ∀ e ∈ (prepState cfg fs).log, e ∈ (prepState cfg fs).log ∧ ∃ p, e = Eff.mkdir p := by
    intro e he
    rcases honly.log e he with h | h
    · simp [initSt] at h
    · exact ⟨he, h⟩
  intro e he
  rcases prepare_cases v fuel cfg fs with h | ⟨stop, h⟩ | ⟨_, h⟩
  · rw [h] at he; simp [initSt] at he
  · rw [h] at he; exact Or.inr (hprep e he)
  · rw [h] at he
    rcases (after_prepare hfrag v fuel _).1 e he with h1 | h1
    · exact Or.inr (hprep e h1)
    · exact Or.inl h1

/-- **C18 (everything outside the workspace is left alone).**  A path that is not strictly below `W`
holds after the run what it held before — or it did not exist and is now a directory (a missing
ancestor of the workspace, created by `prepare_directory`). -/
theorem C18_outside_unchanged_partial (v : Variant) (fuel : Nat) (cfg : Cfg) (fs : FS) (W : Path)
    (hf : inFragment cfg fs W = true) :
    ∀ p, ¬ Below W p →
      lookup (prepare v fuel cfg fs).1.fs p = lookup fs p ∨
      (lookup fs p = none ∧ lookup (prepare v fuel cfg fs).1.fs p = some .dir) := by
  have hfrag := frag_of_inFragment hf
  have honly := (prepareDirectory_only cfg.cwd (wsAbsPath cfg (setWorkspaceDir cfg)) (initSt fs)).fs
  intro p hp
  rcases prepare_cases v fuel cfg fs with h | ⟨stop, h⟩ | ⟨_, h⟩
  · rw [h]; exact Or.inl rfl
  · rw [h]; exact honly p
  · rw [h, (after_prepare hfrag v fuel _).2 p hp]; exact honly p

/-- **C18 (inputs are byte-identical).**  Every file that is not strictly below the workspace
directory — in particular every input file outside the workspace — has the same content after the run. -/
theorem C18_inputs_unchanged_partial (v : Variant) (fuel : Nat) (cfg : Cfg) (fs : FS) (W : Path)
    (hf : inFragment cfg fs W = true) :
    ∀ p n, lookup fs p = some n → ¬ Below W p → lookup (prepare v fuel cfg fs).1.fs p = some n := by
  intro p n hn hp
  rcases C18_outside_unchanged_partial v fuel cfg fs W hf p hp with h | ⟨h, _⟩
  · rw [h, hn]
  · rw [hn] at h; simp at h

/-- **C18 (deletes only previous contents of the workspace, only when forced).** -/
theorem C18_deletes_only_ws_children_partial (v : Variant) (fuel : Nat) (cfg : Cfg) (fs : FS) (W : Path)
    (hf : inFragment cfg fs W = true) :
    ∀ e ∈ (prepare v fuel cfg fs).1.log, ∀ q, (e = .unlink q ∨ e = .rmtree q) →
      Below W q ∧ cfg.force = true := by
  intro e he q hq
  have hforce : cfg.force = true := by
    rcases prepare_cases v fuel cfg fs with h | ⟨stop, h⟩ | ⟨hfo, _⟩
    · rw [h] at he; simp [initSt] at he
    · rw [h] at he
      rcases (prepareDirectory_only cfg.cwd (wsAbsPath cfg (setWorkspaceDir cfg)) (initSt fs)).log e he
        with h1 | ⟨p, h1⟩
      · simp [initSt] at h1
      · rcases hq with hq | hq <;> rw [hq] at h1 <;> simp at h1
    · exact hfo
  rcases C18_effects_within_ws_partial v fuel cfg fs W hf e he with h | ⟨_, p, h⟩
  · rcases hq with hq | hq <;> rw [hq] at h <;> exact ⟨h, hforce⟩
  · rcases hq with hq | hq <;> rw [hq] at h <;> simp at h

/-- **C18 (without --force nothing happens)** — unconditional: every file system, every option. -/
theorem C18_no_force_no_effect (v : Variant) (fuel : Nat) (cfg : Cfg) (fs : FS)
    (h : cfg.force = false) : prepare v fuel cfg fs = (initSt fs, some .quit) := by
  simp [prepare, manage, h, andThen]

/-- **C18 (an input strictly inside the workspace is refused before anything is deleted)** —
the repaired code, unconditional. -/
theorem C18_input_inside_ws_refused (fuel : Nat) (cfg : Cfg) (fs : FS)
    (h : cfg.inputs.any (inputInsideWs cfg (initSt fs) (wsAbsPath cfg (setWorkspaceDir cfg))) = true) :
    prepare .live fuel cfg fs = (initSt fs, some .quit) := by
  unfold prepare manage
  by_cases hforce : cfg.force = true
  · simp [hforce, Variant.refuse, h, andThen]
  · have : cfg.force = false := by simpa using hforce
    simp [this, andThen]

/-- **C18 (bounded copying: the repaired walk terminates).**  With the fuel the driver uses (depth
of the file system + slack) the repaired run never reports `fuelOut`: the walk never enters the
workspace it is filling, so it only visits directories that existed outside the workspace before.
Extra hypotheses (`inFragmentBound`): the workspace location computed by `WorkspaceBuilder.__init__`
is `W`, and the working directory is a physical directory not strictly inside `W`. -/
theorem C18_copy_terminates_partial (cfg : Cfg) (fs : FS) (W : Path)
    (hf : inFragmentBound cfg fs W = true) :
    (prepare .live (defaultFuel cfg fs) cfg fs).2 ≠ some .fuelOut := by
  simp only [inFragmentBound, Bool.and_eq_true, beq_iff_eq, Bool.not_eq_true'] at hf
  obtain ⟨⟨⟨h1, h2⟩, h3⟩, h4⟩ := hf
  have hfrag := frag_of_inFragment h1
  have b : BoundCtx W (prepState cfg fs).fs cfg.cwd :=
    ⟨physDir_of_B h3, fun hb => by rw [strictlyInside_iff.2 hb] at h4; simp at h4⟩
  refine prepare_noFuel hfrag h2 b ?_
  unfold defaultFuel prepState
  omega

/-! ### Non-vacuity -/

def rel (l : List String) : RPath := { abs := false, comps := l }

/-- `lang -l python -w p -f p` run in `/r`: the workspace `/r/p/lian_workspace` lies inside the input `/r/p`. -/
def cfgIn : Cfg := { cwd := ["r"], wsOpt := rel ["p"], inputs := [rel ["p"]], force := true, exts := [".py"], subdirs := ["src", "externs"], srcDir := "src", externsDir := "externs", defaultName := "lian_workspace", mock := none }

def fsIn : FS := [(["r"], .dir), (["r", "p"], .dir), (["r", "p", "a.py"], .file 1),
  (["r", "p", "lian_workspace"], .dir), (["r", "p", "lian_workspace", "old"], .link (rel ["..", "a.py"]))]

example : inFragment cfgIn fsIn ["r", "p", "lian_workspace"] = true := by decide +kernel

example : inFragmentBound cfgIn fsIn ["r", "p", "lian_workspace"] = true := by decide +kernel

/-- the repaired code on that placement: the old link is unlinked (not followed), one copy is made -/
example : (prepare .live 12 cfgIn fsIn).2 = none ∧
    (prepare .live 12 cfgIn fsIn).1.log =
      [.unlink ["r", "p", "lian_workspace", "old"],
       .mkdir ["r", "p", "lian_workspace", "src"], .mkdir ["r", "p", "lian_workspace", "externs"],
       .mkdir ["r", "p", "lian_workspace", "src", "p"],
       .create ["r", "p", "lian_workspace", "src", "p", "a.py"]] := by decide +kernel

/-! ### The pinned commit (frozen `Variant.pinned`) violates the property -/

/-- Defect 1 (fixed by 1002e8d): with the workspace inside the input directory the pinned walk
descends into the workspace it is filling: it does not finish within 12 resp. 24 levels, makes more
and more copies of the single input file, ever deeper — the repaired walk finishes with one copy. -/
theorem C18_unfixed_counterexample_unbounded_copy :
    (prepare .pinned 12 cfgIn fsIn).2 = some .fuelOut ∧
    (prepare .pinned 24 cfgIn fsIn).2 = some .fuelOut ∧
    copyCount (prepare .pinned 12 cfgIn fsIn).1.log = 4 ∧
    copyCount (prepare .pinned 24 cfgIn fsIn).1.log = 8 ∧
    maxEffDepth (prepare .pinned 12 cfgIn fsIn).1.log < maxEffDepth (prepare .pinned 24 cfgIn fsIn).1.log ∧
    (prepare .live 24 cfgIn fsIn).2 = none ∧
    copyCount (prepare .live 24 cfgIn fsIn).1.log = 1 := by decide +kernel

/-- `lang -l python -w W -f W/lian_workspace/src/in` run in `/r` -/
def cfgInside : Cfg := { cwd := ["r"], wsOpt := rel ["W"], inputs := [rel ["W", "lian_workspace", "src", "in"]], force := true, exts := [".py"], subdirs := ["src", "externs"], srcDir := "src", externsDir := "externs", defaultName := "lian_workspace", mock := none }

def fsInside : FS := [(["r"], .dir), (["r", "W"], .dir), (["r", "W", "lian_workspace"], .dir),
  (["r", "W", "lian_workspace", "src"], .dir), (["r", "W", "lian_workspace", "src", "in"], .dir),
  (["r", "W", "lian_workspace", "src", "in", "a.py"], .file 7)]

/-- Defect 2 (fixed by c360ebe): the pinned code completes normally and the input file is gone;
the repaired code quits before touching anything. -/
theorem C18_unfixed_counterexample_input_deleted :
    (prepare .pinned 12 cfgInside fsInside).2 = none ∧
    lookup fsInside ["r", "W", "lian_workspace", "src", "in", "a.py"] = some (.file 7) ∧
    lookup (prepare .pinned 12 cfgInside fsInside).1.fs ["r", "W", "lian_workspace", "src", "in", "a.py"] = none ∧
    prepare .live 12 cfgInside fsInside = (initSt fsInside, some .quit) := by decide +kernel

/-! ### Open findings: the current code (`Variant.live`) still violates the literal statement here -/

/-- `lang -l python -f a.py lian_workspace` run in `/r`: the workspace itself is among the inputs -/
def cfgSelf : Cfg := { cwd := ["r"], wsOpt := rel ["lian_workspace"], inputs := [rel ["a.py"], rel ["lian_workspace"]], force := true, exts := [".py"], subdirs := ["src", "externs"], srcDir := "src", externsDir := "externs", defaultName := "lian_workspace", mock := none }

def fsSelf : FS := [(["r"], .dir), (["r", "a.py"], .file 1), (["r", "lian_workspace"], .dir),
  (["r", "lian_workspace", "old.py"], .file 2)]

/-- Open finding C18/input-is-workspace: the run succeeds and the file of the input
`lian_workspace` is deleted (it is a previous content of the workspace). -/
theorem C18_input_is_workspace_counterexample :
    (prepare .live 12 cfgSelf fsSelf).2 = none ∧
    lookup (prepare .live 12 cfgSelf fsSelf).1.fs ["r", "lian_workspace", "old.py"] = none := by
  decide +kernel

/-- `lang -l python -w lnk/../lian_workspace -f ../in` run in `/cwd`, `lnk -> ../else/d` -/
def cfgDot : Cfg := { cwd := ["cwd"], wsOpt := rel ["lnk", "..", "lian_workspace"], inputs := [rel ["..", "in"]], force := true, exts := [".py"], subdirs := ["src", "externs"], srcDir := "src", externsDir := "externs", defaultName := "lian_workspace", mock := none }

def fsDot : FS := [(["cwd"], .dir), (["cwd", "lian_workspace"], .dir),
  (["cwd", "lian_workspace", "old.txt"], .file 1), (["cwd", "lnk"], .link (rel ["..", "else", "d"])),
  (["else"], .dir), (["else", "d"], .dir), (["in"], .dir), (["in", "a.py"], .file 2)]

/-- Open finding C18/ws-dotdot-after-symlink: `manage_directory` empties the textual path
`/cwd/lian_workspace` while `run` fills `/else/lian_workspace`; whichever of the two is taken as the
workspace, the placement is outside the fragment and an effect lies outside it. -/
theorem C18_dotdot_after_symlink_counterexample :
    (prepare .live 12 cfgDot fsDot).2 = none ∧
    Eff.unlink ["cwd", "lian_workspace", "old.txt"] ∈ (prepare .live 12 cfgDot fsDot).1.log ∧
    Eff.create ["else", "lian_workspace", "src", "in", "a.py"] ∈ (prepare .live 12 cfgDot fsDot).1.log ∧
    inFragment cfgDot fsDot ["cwd", "lian_workspace"] = false ∧
    inFragment cfgDot fsDot ["else", "lian_workspace"] = false := by decide +kernel

end LianVerif.C18
