/-
C15 — Every result saved through the loader is what later reads and the files return.

Only property theorems, non-vacuity examples and negative witnesses live here.
Models: LianVerif/Model/Lru.lean, Loader.lean (`step` = code in /repo now, `step0` = pinned commit),
        MapLoader.lean (`step` / `step0`).
Spec:   LianVerif/Spec/LoaderSpec.lean ("latest save wins").

Standing hypotheses of the positive loader theorems (all are configuration facts, not facts about
the history): every bundle is writable (`hw`; the state-flow-graph family violates it — see
`C15_failed_write_*`), and the subclass queries a column it writes (`hq`).  The serialiser round trip
(flatten → feather → query → unflatten) is outside the model (DESIGN §5 C15, `RoundTrip`).
Capacities, `maxRows`, `cachesExported`, `hasSchema` are arbitrary.
-/
import LianVerif.Proofs.Loader
import LianVerif.Proofs.MapLoader

namespace LianVerif.C15
open LianVerif.Loader LianVerif.LoaderSpec
open LianVerif.Lru (alookup aset aerase akeys rowsSum Lru rows_nil_of_rowsSum_zero alookup_aset alookup_cons
  alookup_append alookup_none_iff alookup_mem mem_aerase nodup_aerase LInv lru_run_ok)
set_option linter.unusedSectionVars false
set_option linter.unusedVariables false

variable {K R : Type} [DecidableEq K]

/-! ## The loader state machine -/

/-- **C15 (reads return the latest save).** For every configuration (any item/bundle cache capacity,
any `MAX_ROWS`, with or without caching of exported bundles) and every history of
save / get / contain / export / export_indexing / remove_unit_id operations on a fresh loader, every
read returns the rows most recently saved for that id — from the item cache, the active bundle, the
bundle cache or a bundle file, whatever evictions and exports happened in between — `None` for an id
never saved (or removed), and `contain` is exact.  (An item saved *without rows* may read as `[]`.) -/
theorem C15_get_latest (cfg : Cfg K R) (hw : ∀ b, cfg.writable b = true) (hq : cfg.queryOk = true)
    (ops : List (Op K R)) (hn : noReopen ops = true) :
    RunOk false Spec.empty ops (run (step cfg) (L.init cfg) ops).2 :=
  run_exact_from cfg hw hq ops _ _ (inv_init cfg) (ghostfree_init cfg) hn

/-- **C15 (a reopened loader returns what was saved).** The same for histories that also contain
`reopen` (`export(); export_indexing();` then a *fresh* loader that `restore_indexing()`s from the
files, any number of times, anywhere): every later read still returns the latest save.  The only
weakening: an item saved without rows, which is never written anywhere, may read as `None`. -/
theorem C15_restore_equal (cfg : Cfg K R) (hw : ∀ b, cfg.writable b = true) (hq : cfg.queryOk = true)
    (ops : List (Op K R)) (hn : noRestore ops = true) :
    RunOk true Spec.empty ops (run (step cfg) (L.init cfg) ops).2 :=
  (run_ok_from cfg hw hq ops _ _ (inv_init cfg) hn).1

/-- the zero-row corner, spelled out: after any history and a reopen, a read of an id whose latest
save had rows returns exactly those rows; only an id saved without rows may come back as `None`/`[]`. -/
theorem C15_zero_rows_partial (cfg : Cfg K R) (hw : ∀ b, cfg.writable b = true) (hq : cfg.queryOk = true)
    (ops : List (Op K R)) (hn : noRestore ops = true) (k : K) :
    let s := (run (step cfg) (L.init cfg) (ops ++ [.reopen])).1
    match specRun Spec.empty ops k with
    | none => (get cfg s k).2 = .none
    | some [] => (get cfg s k).2 = .item [] ∨ (get cfg s k).2 = .notFound ∨ (get cfg s k).2 = .none
    | some (r :: rs) => (get cfg s k).2 = .item (r :: rs) := by
  intro s
  have hinv := (run_ok_from cfg hw hq (ops ++ [.reopen]) _ _ (inv_init cfg) (noRestore_append_reopen ops hn)).2
  rw [specRun_append_reopen] at hinv
  have := (get_ok cfg hq hinv k).2.2.2.1
  cases hm : specRun (Spec.empty : Spec K R) ops k with
  | none => rw [hm] at this; exact this
  | some rows =>
    cases rows with
    | nil =>
      rw [hm] at this
      simp only [GotOk] at this
      rcases this with h | h | h
      · exact Or.inl h
      · exact Or.inr (Or.inl h)
      · exact Or.inr (Or.inr h.2)
    | cons r rs => rw [hm] at this; exact this

/-- **C15 (the files contain every saved item).** After any history followed by `export()`, every id
whose latest save has at least one row is indexed to a bundle number whose file exists, is readable
and holds exactly those rows for the id. -/
theorem C15_files_contain_all (cfg : Cfg K R) (hw : ∀ b, cfg.writable b = true) (hq : cfg.queryOk = true)
    (ops : List (Op K R)) (hn : noRestore ops = true) (k : K) (r : R) (rs : List R)
    (hk : specRun Spec.empty ops k = some (r :: rs)) :
    let s := doExport cfg (run (step cfg) (L.init cfg) ops).1
    ∃ b bf, alookup k s.index = some (some b) ∧ alookup b s.disk = some (some bf) ∧
      alookup k bf.items = some (r :: rs) := by
  intro s
  have hinv0 := (run_ok_from cfg hw hq ops _ _ (inv_init cfg) hn).2
  obtain ⟨hinv, _, hlen⟩ := export_ok cfg hw hinv0
  have hdom := hinv.idx_dom k
  rw [hk] at hdom
  cases hi : alookup k s.index with
  | none => rw [hi] at hdom; cases hdom
  | some ob =>
    cases ob with
    | none =>
      exfalso
      cases ha : alookup k s.active with
      | none =>
        have := hinv.ghost k hi ha
        rw [hk] at this; cases this
      | some rows =>
        have h1 := (hinv.active_ok k rows ha).2
        have hz : rowsSum s.active = 0 := by rw [← hinv.len_ok]; exact hlen
        have := rows_nil_of_rowsSum_zero hz ha
        subst this
        rw [hk] at h1; cases h1
    | some b =>
      obtain ⟨bf, hd, _, hm⟩ := hinv.idx_disk k b hi
      refine ⟨b, bf, rfl, hd, ?_⟩
      rw [hk] at hm
      simp only [rowsOf, Option.some.injEq] at hm
      cases hb : alookup k bf.items with
      | none => rw [hb] at hm; cases hm
      | some rows => rw [hb] at hm; simp only [Option.getD_some] at hm; rw [hm]

/-- **C15 (a failed write is reported).** Whenever `export()` has something to write and the write is
refused, the console log grows by exactly the report of that bundle, and the bundle's file is left
unreadable. -/
theorem C15_failed_write_reported (cfg : Cfg K R) (s : L K R) (hpos : s.activeLen > 0)
    (hfail : cfg.writable s.active = false) :
    (doExport cfg s).log = s.log ++ [.writeFailed s.bundleCount] ∧
    alookup s.bundleCount (doExport cfg s).disk = some none := by
  unfold doExport
  simp [hpos, hfail, alookup_aset]

/-- … and a write that succeeds reports nothing. -/
theorem C15_good_write_silent (cfg : Cfg K R) (s : L K R) (hw : ∀ b, cfg.writable b = true) :
    (doExport cfg s).log = s.log := by
  unfold doExport
  split <;> simp [hw]

/-! ### Non-vacuity: one concrete history through every read path. -/

def cfgT : Cfg Nat Nat := { maxRows := 2, itemCap := 1, bundleCap := 1 }

-- active bundle, item cache, re-save, automatic export at the row limit, bundle cache, eviction, disk
example : (run (step cfgT) (L.init cfgT)
    [.save 1 [10], .get 1, .save 1 [11], .get 1, .save 2 [20, 21], .get 1, .save 3 [30, 31, 32], .get 2, .get 1,
     .get 9, .contain 2, .removeUnit 2, .get 2, .reopen, .get 1, .get 3]).2
    = [.unit, .got (.item [10]), .unit, .got (.item [11]), .unit, .got (.item [11]), .unit, .got (.item [20, 21]),
       .got (.item [11]), .got .none, .bool true, .removed .ok, .got .none, .unit, .got (.item [11]),
       .got (.item [30, 31, 32])] := by decide

example : noReopen [Op.save (1 : Nat) [(10 : Nat)], .get 1, .exp] = true ∧
    noRestore [Op.save (1 : Nat) [(10 : Nat)], .reopen, .get 1] = true := by decide

-- the zero-row corner is real: an item saved without rows reads as `None` after reopening
example : (run (step cfgT) (L.init cfgT) [.save 1 [], .get 1, .reopen, .get 1, .contain 1]).2
    = [.unit, .got (.item []), .unit, .got .none, .bool true] := by decide

/-! ### The pinned commit (frozen model `step0`) violates the property. -/

/-- save(1,A); get(1); save(1,B); get(1) → A: `save` did not invalidate the item cache. -/
theorem C15_unfixed_counterexample :
    (run (step0 cfgT) (L.init cfgT) [.save 1 [10], .get 1, .save 1 [20], .get 1]).2
      = [.unit, .got (.item [10]), .unit, .got (.item [10])] ∧
    (run (step cfgT) (L.init cfgT) [.save 1 [10], .get 1, .save 1 [20], .get 1]).2
      = [.unit, .got (.item [10]), .unit, .got (.item [20])] := by
  decide

/-- save(1, rows); save(1, no rows); export(); get(1) → the process quits: `active_bundle_length` was
never reduced, so a bundle without rows — a table without columns — was written and then queried. -/
theorem C15_unfixed_counterexample_empty_bundle :
    (run (step0 { cfgT with maxRows := 100 }) (L.init cfgT) [.save 1 [10], .save 1 [], .exp, .get 1]).2
      = [.unit, .unit, .unit, .got .quit] ∧
    (run (step { cfgT with maxRows := 100 }) (L.init cfgT) [.save 1 [10], .save 1 [], .exp, .get 1]).2
      = [.unit, .unit, .unit, .got (.item [])] := by decide

/-- an id that a restored index marks as active made `remove_unit_id` raise `KeyError`. -/
theorem C15_unfixed_counterexample_remove_restored :
    (run (step0 cfgT) (L.init cfgT) [.save 1 [], .reopen, .removeUnit 1]).2 = [.unit, .unit, .removed .keyError] ∧
    (run (step cfgT) (L.init cfgT) [.save 1 [], .reopen, .removeUnit 1]).2 = [.unit, .unit, .removed .ok] := by
  decide

/-- a subclass that queries a column it never writes (`ClassIDToMembersLoader` at the pinned commit,
`queryOk = false`): every read of an exported id quits the process. -/
theorem C15_query_column_mismatch_quits :
    (run (step { cfgT with queryOk := false }) (L.init cfgT) [.save 1 [10], .exp, .get 1]).2
      = [.unit, .unit, .got .quit] := by decide

/-- OPEN FINDING `C15/sfg-p3-not-persisted`, on the model: when the write is refused the saved item is
still served from the bundle cache, is gone as soon as that bundle is evicted, and is gone for a
reopened loader — although the only trace is one console line. -/
theorem C15_failed_write_lost_after_eviction :
    (run (step { cfgT with writable := fun _ => false }) (L.init cfgT)
      [.save 1 [10, 11, 12], .get 1, .save 2 [20, 21, 22], .get 2, .get 1]).2
      = [.unit, .got (.item [10, 11, 12]), .unit, .got (.item [20, 21, 22]), .got .loadError] ∧
    (run (step { cfgT with writable := fun _ => false }) (L.init cfgT)
      [.save 1 [10, 11, 12], .reopen, .get 1]).2 = [.unit, .unit, .got .loadError] := by decide

/-! ## The LRU cache -/

section lru
variable {V : Type}
open LianVerif.LruSpec (specStep specRun)

/-- **C15 (LRU cache).** For every capacity and every history of get / contain / put / remove from the
empty cache: a hit always returns the value of the latest `put` for that key (never a stale one),
`contain` is only true for keys that have a live `put`, the cache never holds more than `capacity`
entries and never two entries for one key. -/
theorem C15_lru_spec (cap : Nat) (ops : List (Lru.Op K V)) :
    LruSpec.RunOk (fun _ => none) ops (Lru.run (Lru.empty cap : Lru K V) ops).2 ∧
    (∀ p ∈ (Lru.run (Lru.empty cap : Lru K V) ops).1.items, LruSpec.specRun (fun _ => none) ops p.1 = some p.2) ∧
    (Lru.run (Lru.empty cap : Lru K V) ops).1.items.length ≤ cap ∧
    (akeys (Lru.run (Lru.empty cap : Lru K V) ops).1.items).Nodup := by
  have h0 : LInv (Lru.empty cap : Lru K V) (fun _ => none) :=
    ⟨by simp [Lru.empty], by simp [Lru.empty], by simp [Lru.empty, akeys]⟩
  obtain ⟨r1, r2⟩ := lru_run_ok ops _ _ h0
  have hcap : (Lru.run (Lru.empty cap : Lru K V) ops).1.cap = cap := by
    have : ∀ (ops : List (Lru.Op K V)) (c : Lru K V), (Lru.run c ops).1.cap = c.cap := by
      intro ops
      induction ops with
      | nil => intro c; rfl
      | cons op ops ih =>
        intro c
        simp only [Lru.run]
        rw [ih]
        cases op with
        | get k => simp only [Lru.step, Lru.get]; split <;> rfl
        | contain k => rfl
        | put k v => simp only [Lru.step, Lru.put]; split <;> rfl
        | remove k => rfl
    rw [this]; rfl
  have hsz := r2.size
  rw [hcap] at hsz
  exact ⟨r1, r2.fresh, hsz, r2.nodup⟩

/-- a value just put is the next hit, for every capacity ≥ 1 (the cache is not trivially empty) -/
theorem C15_lru_hit_after_put (c : Lru K V) (hcap : 1 ≤ c.cap) (k : K) (v : V) :
    ((c.put k v).get k).2 = some v := by
  rw [Lru.get_snd]
  simp only [Lru.put, Lru.lookup]
  have key : ∀ l : List (K × V), (∀ p ∈ l, p.1 ≠ k) → alookup k (l ++ [(k, v)]) = some v := by
    intro l hl
    rw [alookup_append]
    have : alookup k l = none := by
      rw [alookup_none_iff]
      intro hm
      obtain ⟨p, hp, e⟩ := List.mem_map.1 hm
      exact hl p hp e
    simp [this, alookup_cons]
  have hne : ∀ p ∈ aerase k c.items, p.1 ≠ k := fun p hp => (mem_aerase.1 hp).2
  split
  · rename_i hgt
    -- the evicted entry is the head; the new entry is last and the list has ≥ 2 entries
    cases hl : aerase k c.items with
    | nil => simp [hl] at hgt; omega
    | cons q l =>
      simp only [List.cons_append, List.drop_succ_cons, List.drop_zero]
      apply key
      intro p hp
      exact hne p (by rw [hl]; exact List.mem_cons_of_mem _ hp)
  · exact key _ hne

example : (Lru.run (Lru.empty 2 : Lru Nat Nat) [.put 1 10, .put 2 20, .get 1, .put 3 30, .get 2, .get 1, .put 1 11, .get 1]).2.map (·.1)
    = [.unit, .unit, .val (some 10), .unit, .val none, .val (some 10), .unit, .val (some 11)] := by decide

end lru

/-! ## The one-to-many map loaders -/

section maps
variable {A B : Type} [DecidableEq A] [DecidableEq B]
open LianVerif.MapLoader LianVerif.MapSpec

/-- **C15 (map loaders).** For every history of save / lookups / export on a fresh
`OneToManyMapLoader`: `convert_one_to_many` returns the list most recently saved for the id — an empty
list included — and `convert_many_to_one` never names an id whose current list lacks the element. -/
theorem C15_map_get_latest (ops : List (MapLoader.Op A B)) (hn : MapSpec.noRestore ops = true) :
    MapSpec.RunOk (fun _ => []) ops (MapLoader.run MapLoader.step (M.init : M A B) ops).2 := by
  have gen : ∀ (ops : List (MapLoader.Op A B)) (s : M A B) (f : A → List B), MapLoader.Inv s f →
      MapSpec.noRestore ops = true → MapSpec.RunOk f ops (MapLoader.run MapLoader.step s ops).2 := by
    intro ops
    induction ops with
    | nil => intro s f _ _; trivial
    | cons op ops ih =>
      intro s f h hn
      have hop : ∀ x : Unit, op ≠ .restore := by
        intro _ e; subst e; simp [MapSpec.noRestore] at hn
      have hn' : MapSpec.noRestore ops = true := by
        cases op <;> simp_all [MapSpec.noRestore]
      obtain ⟨h1, o1⟩ := map_step_ok h op hop
      exact ⟨o1, ih _ _ h1 hn'⟩
  exact gen ops _ _ MapLoader.inv_init hn

example : (MapLoader.run MapLoader.step (M.init : M Nat Nat)
    [.save 1 [10, 11], .save 1 [11], .manyToOne 10, .manyToOne 11, .save 1 [], .oneToMany 1, .manyToOne 11]).2
    = [.unit, .unit, .one none, .one (some 1), .unit, .many [], .one none] := by decide

/-- pinned commit: an empty list does not replace the earlier one … -/
theorem C15_map_unfixed_counterexample_empty :
    (MapLoader.run MapLoader.step0 (M.init : M Nat Nat) [.save 1 [10, 11], .save 1 [], .oneToMany 1]).2
      = [.unit, .unit, .many [10, 11]] ∧
    (MapLoader.run MapLoader.step (M.init : M Nat Nat) [.save 1 [10, 11], .save 1 [], .oneToMany 1]).2
      = [.unit, .unit, .many []] := by
  decide

/-- … and reverse entries of a replaced list stay. -/
theorem C15_map_unfixed_counterexample_reverse :
    (MapLoader.run MapLoader.step0 (M.init : M Nat Nat) [.save 1 [10, 11], .save 1 [11], .manyToOne 10]).2
      = [.unit, .unit, .one (some 1)] ∧
    (MapLoader.run MapLoader.step (M.init : M Nat Nat) [.save 1 [10, 11], .save 1 [11], .manyToOne 10]).2
      = [.unit, .unit, .one none] := by
  decide

end maps

end LianVerif.C15
