/-
C01 — Lowering Python source to GIR preserves program behaviour.

Only property theorems, non-vacuity examples and negative witnesses live here.
Source semantics: LianVerif/Spec/PySrc.lean (`runProg`).  Lowering model: LianVerif/Model/LowerPy.lean
(`pipeline Cfg.current` = code in the repo now, `pipeline Cfg.pinned` = pinned commit).
Target semantics: LianVerif/Gir/Sem.lean (`runEntry`).
-/
import LianVerif.Proofs.LowerPyStmt

namespace LianVerif.C01
open LianVerif.Gir LianVerif.PySrc LianVerif.LowerPy

/-! ## Lowering of expressions preserves their value (proved fragment) -/

/-- **C01, expression handlers, pure fragment** (constants, variables, binary arithmetic and
two-operand comparison, unary operators; `pureFrag`).  For both the current and the pinned handler set
(`cfg`), every temp-counter value `k`, every state `σ` of the GIR reference semantics in which lian
temporaries are ordinary locals (`hloc`) and every function table: if Python's evaluation of `e`
(`PySrc.evalE`) yields the value `v` and the state `σ'`, then executing the statements that lian's
handlers emit for `e` from `σ` (with fuel = number of statements + 1) terminates normally in a state
`τ` in which the returned operand evaluates to `v`, the object heap, the output log and the
environment chain are exactly those of `σ'`, and every variable that is not a lian temporary has the
value it has in `σ'`.  (Operand order, operators and statement order are therefore preserved on this
fragment.)  The hypothesis `NoTmp` says the source does not itself use names of the form `%vvN`. -/
theorem C01_lower_expr_partial (cfg : Cfg) (fns : Prog) (e : Expr) (hp : pureFrag e = true) (hnt : NoTmp e)
    (k fuel : Nat) (σ σ' : State) (v : Val)
    (hsrc : evalE fns fuel σ e = (.ok v, σ'))
    (hb : σ.budget = none) (hloc : ∀ n, σ.Loc (tmp n)) :
    ∃ τ, exec ((lowerE cfg e k).1.length + 1) σ (lowerE cfg e k).1 = (.normal, τ) ∧
      τ.evalOpd (lowerE cfg e k).2.1 = .ok v ∧
      τ.heap = σ'.heap ∧ τ.out = σ'.out ∧ τ.env = σ'.env ∧
      ∀ x, (∀ n, x ≠ tmp n) → τ.lookup x = σ'.lookup x := by
  have hsim : Sim σ σ := ⟨rfl, rfl, rfl, hb, fun _ _ => rfl, hloc⟩
  obtain ⟨_, _, τ, hex, hev, hs, _, _⟩ := lowerE_sim cfg fns fuel e hp hnt k σ σ σ' v hsrc hsim
  refine ⟨τ, ?_, hev, hs.heap.symm, hs.out.symm, hs.env.symm, fun x hx => (hs.look x hx).symm⟩
  have h := hex [] 1
  simp only [List.append_nil] at h
  rw [Nat.add_comm] at h
  rw [h]
  simp [exec]

def exE : Expr :=
  .bin "<" (.bin "*" (.bin "+" (.name "x") (.const (.int 2))) (.un "-" (.name "y"))) (.const (.int 10))
def exS : State :=
  { heap := [], frames := [{ vars := [("x", some (.int 3)), ("y", some (.int 4))] }], env := [0] }
def okv (r : Res Val) : Option Val :=
  match r with
  | .ok v => some v
  | .error _ => none

/-- Non-vacuity: `(x + 2) * -y < 10` with x = 3, y = 4 is in the fragment, Python evaluates it
(to True), and the four emitted statements compute the same value in `%vv4`. -/
example :
    pureFrag exE = true ∧ okv (evalE [] 10 exS exE).1 = some (.bool true) ∧
    (lowerE Cfg.current exE 0).2.1 = .var "%vv4" ∧ (lowerE Cfg.current exE 0).1.length = 4 ∧
    okv ((exec 5 exS (lowerE Cfg.current exE 0).1).2.lookup "%vv4") = some (.bool true) := by
  decide

/-! ## Lowering of statements preserves behaviour (proved fragment) -/

/-- **C01, statement handlers, loop-free and call-free fragment** (`bodyFrag`: assignment and
augmented assignment to a name, expression statement, `pass`, `if`/`else` nested arbitrarily,
`return`, all over pure expressions).  For both handler sets, every temp counter and every state `σ`
whose current frame declares nothing `global`/`nonlocal` (`hloc`): if Python's execution of the
statement list `B` (`PySrc.execP`) ends normally or by `return w` in state `σ'`, then for some fuel
the GIR reference semantics executes the statements that lian's handlers emit for `B` from `σ` with
the SAME outcome (same returned value), in a state with exactly the heap, output log and environment
of `σ'` and in which every variable that is not a lian temporary reads as in `σ'`.  Branch arms,
statement order, the read-before-right-hand-side order of augmented assignment and the
`variable_decl`/`assign_stmt` pairs are therefore preserved on this fragment. -/
theorem C01_lower_stmt_partial (cfg : Cfg) (fns : Prog) (B : List PStmt)
    (hf : bodyFrag B = true) (hnt : NoTmpB B) (k fuel : Nat) (σ σ' : State) (o : Outcome)
    (hsrc : execP fns fuel σ B = (o, σ')) (ho : o = .normal ∨ ∃ w, o = .ret w)
    (hb : σ.budget = none) (hloc : ∀ x, σ.Loc x) :
    ∃ τ N, exec N σ (lowerB cfg B k).1 = (o, τ) ∧
      τ.heap = σ'.heap ∧ τ.out = σ'.out ∧ τ.env = σ'.env ∧
      ∀ x, (∀ n, x ≠ tmp n) → τ.lookup x = σ'.lookup x := by
  have hs : Sim2 σ σ := ⟨⟨rfl, rfl, rfl, hb, fun _ _ => rfl, fun n => hloc _⟩, hloc, hloc⟩
  obtain ⟨τ, hs', hruns⟩ := lowerB_sim cfg fns fuel B hf hnt k σ σ σ' o hsrc ho hs
  refine ⟨τ, (costL (lowerB cfg B k).1 + 1) + (lowerB cfg B k).1.length, ?_,
    hs'.sim.heap.symm, hs'.sim.out.symm, hs'.sim.env.symm, fun x hx => (hs'.sim.look x hx).symm⟩
  have h := hruns [] (costL (lowerB cfg B k).1 + 1) (Nat.le_refl _)
  simp only [List.append_nil] at h
  rcases ho with ho | ⟨w, ho⟩
  · rw [h.1 ho, ho]; exact exec_nil _ τ
  · rw [h.2 w ho, ho]

/-- `t = x * 2` / `if t > y: t -= y; z = 1` / `else: return t + 1` / `return t - z` -/
def exB : List PStmt :=
  [ .assign "t" (.bin "*" (.name "x") (.const (.int 2))),
    .ifS (.bin ">" (.name "t") (.name "y"))
      [.aug "t" "-" (.name "y"), .assign "z" (.const (.int 1))]
      [.ret (.bin "+" (.name "t") (.const (.int 1)))],
    .ret (.bin "-" (.name "t") (.name "z")) ]

def outv (r : Outcome × State) : Option Val :=
  match r.1 with
  | .ret v => some v
  | _ => none

/-- Non-vacuity: `exB` is in the fragment; with x = 3, y = 4 Python returns 1 through the `if` arm,
and so do the seven top-level statements emitted for it. -/
example :
    bodyFrag exB = true ∧ outv (execP [] 20 exS exB) = some (.int 1) ∧
    (lowerB Cfg.current exB 0).1.length = 7 ∧
    outv (exec 20 exS (lowerB Cfg.current exB 0).1) = some (.int 1) := by
  decide

-- OPEN (not proved): the full statement of C01 for the modelled fragment,
--   ∀ m : Module in the core fragment minus the open-defect shapes (and/or with an effectful right
--   operand, `continue` in a `while` with a computed condition, a bare-name operand before a call that
--   assigns it), ∀ entry args fuel,
--     runModule fuel m entry args = r  →  r.result ≠ "err:fuel"  →
--     ∃ fuel', runEntry fuel' (pipelineM Cfg.current m) entry args = r
--   i.e. additionally: `while`, calls and parameter binding, `and`/`or`/chains/conditional
--   expressions inside statements, `global`, and the three passes tmpElim / hoist / addMainFunc
--   (C01_tmp_elim_preserves, C01_hoist_preserves, C01_main_func_preserves of DESIGN §5 are not
--   proved; C01_flatten_roundtrip is not stated: flattening is not modelled here, see NOTES-C01.md);
--   and its extension to the whole grammar of the quantifier (containers, keyword/default
--   parameters, nested functions, classes).  Only monitored: LEG 1b of the check compares both sides
--   on every generated fragment program, LEG 3 executes lian's real GIR for the whole grammar
--   against CPython.

/-! ## Negative theorems: defects of the lowering, witnessed on the model and replayed on the real
code by corpus/C01/*.json -/

/-- `def noisy(v): print(v); return v` / `def entry(x): return x and noisy(1)` -/
def boolProg : Prog :=
  [ { name := "noisy", params := ["v"],
      body := [.exprS (.call "print" [.name "v"]), .ret (.name "v")] },
    { name := "entry", params := ["x"],
      body := [.ret (.boolop "and" (.name "x") (.call "noisy" [.const (.int 1)]))] } ]

/-- **OPEN defect (C01/bool-no-short-circuit), live model.** `0 and noisy(1)`: Python does not call
`noisy`; the GIR lian emits calls it (one output) — same return value, different outputs. -/
theorem C01_bool_not_short_circuit :
    runProg 40 boolProg "entry" [.int 0] = { out := [], result := "ok 0" } ∧
    runEntry 40 (pipeline Cfg.current boolProg) "entry" [.int 0] = { out := ["1"], result := "ok 0" } := by
  decide

/-- `def entry(n): i = 0; while i < n: i += 1; if i == n: continue; print(i)`, then `return i` -/
def whileProg : Prog :=
  [ { name := "entry", params := ["n"],
      body := [ .assign "i" (.const (.int 0)),
                .whileS (.bin "<" (.name "i") (.name "n"))
                  [ .aug "i" "+" (.const (.int 1)),
                    .ifS (.bin "==" (.name "i") (.name "n")) [.cont] [],
                    .exprS (.call "print" [.name "i"]) ],
                .ret (.name "i") ] } ]

/-- **OPEN defect (C01/while-continue-stale-condition), live model.** With n = 2 Python prints 1 and
returns 2; in the emitted GIR `continue` skips the re-evaluation of the condition, the loop runs once
more: prints 1 and 3, returns 3. -/
theorem C01_while_continue_stale_condition :
    runProg 60 whileProg "entry" [.int 2] = { out := ["1"], result := "ok 2" } ∧
    runEntry 60 (pipeline Cfg.current whileProg) "entry" [.int 2] = { out := ["1", "3"], result := "ok 3" } := by
  decide

/-- `def entry(x): return 0 < x < 10` -/
def chainProg : Prog :=
  [ { name := "entry", params := ["x"],
      body := [.ret (.cmp3 "<" "<" (.const (.int 0)) (.name "x") (.const (.int 10)))] } ]

/-- **Defect of the pinned commit (C01/chained-comparison), frozen model; repaired by 397a1ee.**
`0 < 20 < 10` is False; the pinned lowering compares the first with the last operand: True.
The current lowering agrees with Python on this input. -/
theorem C01_chained_compare :
    runProg 40 chainProg "entry" [.int 20] = { out := [], result := "ok False" } ∧
    runEntry 40 (pipeline Cfg.pinned chainProg) "entry" [.int 20] = { out := [], result := "ok True" } ∧
    runEntry 40 (pipeline Cfg.current chainProg) "entry" [.int 20] = { out := [], result := "ok False" } := by
  decide

/-- `def f(): global g; g = 10; return 1` / `def entry(): global g; g += f(); return g` / `g = 2` -/
def augMod : Module :=
  { fns := [ { name := "f", params := [],
               body := [.globalS "g", .assign "g" (.const (.int 10)), .ret (.const (.int 1))] },
             { name := "entry", params := [],
               body := [.globalS "g", .aug "g" "+" (.call "f" []), .ret (.name "g")] } ],
    top := [.assign "g" (.const (.int 2))] }

/-- **Defect of the pinned commit (C01/augassign-rhs-before-target), frozen model; repaired by
f44b6a7.**  `g += f()` with `f` assigning `g`: Python reads `g` (2) before calling `f`: 3.  The pinned
lowering evaluates the call first and reads the target afterwards: 11.  The current lowering copies
the old value to a temporary first and agrees with Python. -/
theorem C01_augassign_order :
    runModule 40 augMod "entry" [] = { out := [], result := "ok 3" } ∧
    runEntry 40 (pipelineM Cfg.pinned augMod) "entry" [] = { out := [], result := "ok 11" } ∧
    runEntry 40 (pipelineM Cfg.current augMod) "entry" [] = { out := [], result := "ok 3" } := by
  decide

/-- as `augMod`, with `def entry(): return g + f()` -/
def lateMod : Module :=
  { fns := [ { name := "f", params := [],
               body := [.globalS "g", .assign "g" (.const (.int 10)), .ret (.const (.int 1))] },
             { name := "entry", params := [],
               body := [.ret (.bin "+" (.name "g") (.call "f" []))] } ],
    top := [.assign "g" (.const (.int 2))] }

/-- **OPEN defect (C01/name-operand-read-after-later-call), live model.**  `g + f()`: Python reads
`g` (2) before the call: 3.  In the emitted GIR the operand is the *name* `g`, read when the
`assign_stmt` executes, i.e. after the call changed it: 11. -/
theorem C01_name_operand_read_late :
    runModule 40 lateMod "entry" [] = { out := [], result := "ok 3" } ∧
    runEntry 40 (pipelineM Cfg.current lateMod) "entry" [] = { out := [], result := "ok 11" } := by
  decide

end LianVerif.C01
