/-
C12 — Results are invariant under meaning-preserving edits of the input.

Only property theorems, non-vacuity examples and negative witnesses live here.  C12 has no model of
its own for the analyser: it is a family of EQUIVARIANCE lemmas `M (edit x) = edit' (M x)` about the
models that exist (scope / resolver pipeline of C05, CFG model of C04, `add_main_func` of C03), one
group per kind of edit, plus the text-level model of the Python import preprocessor.

Models: LianVerif/Model/Meta.lean        (`MRow`, `relocate` / `rename` / `renumber`, `toScopeRow`, `mapS` …)
        LianVerif/Model/PyImportPre.lean (`preprocess` = code in /repo now, `preprocess0` = pinned commit)
What is NOT here: call graph construction (C07) and the taint engine (C10/C11) have no model in this
project yet; for them C12 is covered by the metamorphic monitor of harness/lv/c12.py only.
-/
import LianVerif.Proofs.MetaPyImport
import LianVerif.Proofs.MetaRows
import LianVerif.Proofs.MetaResolver
import LianVerif.Proofs.MetaCfg
import LianVerif.Proofs.MetaMainFunc
import LianVerif.Proofs.MetaSummary
import LianVerif.Properties.C05

namespace LianVerif.C12
open LianVerif.Meta LianVerif.Scopes LianVerif.Resolver LianVerif.PyImportPre

/-! ## 1. Blank lines and comments: locations are never read, reported lines move with the text -/

/-- **C12_lines (rows).**  The row the scope / resolver models read does not contain a location:
changing `start_row / start_col / end_row / end_col` (and Python's `decorators` row) of every row by
ANY map, or erasing them, changes nothing the models see. -/
theorem C12_lines_rows (m : Nat → Nat) (d : Bool) (rows : List MRow) :
    (rows.map (relocate m d)).map toScopeRow = rows.map toScopeRow ∧
    (rows.map eraseLoc).map toScopeRow = rows.map toScopeRow :=
  ⟨toScopeRows_relocate m d rows, toScopeRows_eraseLoc rows⟩

/-- **C12_lines (bindings).**  Hence the whole per-unit pipeline — `discover_scopes`, `correct_scopes`,
`summarize_symbol_decls`, resolver, def-use rule — gives every occurrence the same declaration
statement before and after the text was moved. -/
theorem C12_lines (m : Nat → Nat) (d : Bool) (lastSeg : String → Option String) (t : OpTable)
    (rows : List MRow) (stmt : Nat) (n : String) (mode : Mode) :
    bindRows lastSeg t ((rows.map (relocate m d)).map toScopeRow) stmt n mode =
      bindRows lastSeg t (rows.map toScopeRow) stmt n mode := by
  rw [toScopeRows_relocate]

/-- **C12_lines (`add_main_func`).**  The synthetic `%unit_init` wrapper is built without looking at a
location attribute: erasing the four location attributes before or after the pass is the same. -/
theorem C12_lines_main_func (P : MainFunc.Params) (rows : Gir.Rows) :
    MainFunc.addMainFunc P (rows.map eraseLocG) = (MainFunc.addMainFunc P rows).map eraseLocG :=
  addMainFunc_map eraseLocG_attrOnly P (fun _ => by simp [eraseLocG, Gir.initDecl, locKeys])
    (fun _ _ => rfl) (fun _ _ => rfl) rows

/-- **C12_lines (report).**  `source_line` / `sink_line` are `start_row + 1`: when the statement moves
down by `δ` lines the reported line moves down by `δ`. -/
theorem C12_lines_report (startRow δ : Nat) : reportLine (startRow + δ) = reportLine startRow + δ := by
  unfold reportLine; omega

/-! ## 2. Consistent renaming -/

section Rename
variable {ν μ : Type} [DecidableEq ν] [DecidableEq μ]

/-- **C12_rename (all occurrences of an identifier in the unit: functions, classes, unit-wide names).**
On real rows (`MRow`): renaming the identifier items of every row by an injective `σ` that keeps empty
text empty and commutes with "last dotted segment" makes the pipeline bind the renamed occurrence to the
same declaration statement, in the same scope, under the renamed name.  (Repackaging of `C05_alpha`
through `toScopeRow`.) -/
theorem C12_rename (σ : String → String) (hinj : Function.Injective σ) (hσ : ∀ s, (σ s).isEmpty = s.isEmpty)
    (hseg : ∀ a, lastSegStr (σ a) = (lastSegStr a).map σ)
    (t : OpTable) (rows : List MRow) (stmt : Nat) (n : String) (mode : Mode) :
    bindRows lastSegStr t ((rows.map (rename σ)).map toScopeRow) stmt (σ n) mode =
      (bindRows lastSegStr t (rows.map toScopeRow) stmt n mode).map (Decl.map σ) := by
  have h : (rows.map (rename σ)).map toScopeRow = (rows.map toScopeRow).map (Row.map σ) := by
    rw [List.map_map, List.map_map]
    apply List.map_congr_left
    intro r _
    exact toScopeRow_rename σ hσ r
  rw [h]
  exact C05.C05_alpha σ hinj lastSegStr lastSegStr hseg t (rows.map toScopeRow) stmt n mode

/-- **C12_rename (to a fresh name).**  The edit replaces `a` by `b` and touches nothing else
(`renOne`).  When `b` is fresh — it is not the name or alias of any row — that is the same as applying
the transposition of `a` and `b`, which is injective: every occurrence `n ≠ b` keeps its declaration
statement and scope. -/
theorem C12_rename_fresh (a b : ν) (lastSeg : ν → Option ν)
    (hseg : ∀ x, lastSeg (swapName a b x) = (lastSeg x).map (swapName a b))
    (t : OpTable) (rows : List (Row ν)) (hfresh : FreshIn b rows) (stmt : Nat) (n : ν) (hn : n ≠ b) (mode : Mode) :
    bindRows lastSeg t (rows.map (Row.map (renOne a b))) stmt (renOne a b n) mode =
      (bindRows lastSeg t rows stmt n mode).map (Decl.map (swapName a b)) := by
  rw [← rowsMap_swap_eq_renOne hfresh, ← swapName_eq_renOne hn]
  exact C05.C05_alpha (swapName a b) (swapName_inj a b) lastSeg lastSeg hseg t rows stmt n mode

/-- **C12_rename (ONE local variable / parameter, i.e. one declaration).**  Rename the declaration made
by statement `d0` from `n` to a fresh `n'`, together with exactly the occurrences bound to it.
(a) those occurrences stay bound to it; (b) occurrences of the old spelling that were bound elsewhere
(another function's local of the same name) keep their binding; (c) every other name is unaffected.
(Repackaging of `C05_alpha_single_bound / _unbound / _other`.) -/
theorem C12_rename_one_decl (S : Summary ν) (d0 : Nat) (n n' : ν) (hne : n ≠ n')
    (hfresh : ∀ d ∈ S.decls, d.name ≠ n')
    (hold : ∀ d ∈ S.decls, d.stmt = d0 → d.name = n) :
    (∀ cur dd, (∀ d ∈ S.decls, d.stmt = d0 → d = dd) → resolveDecl S cur n = some dd → dd.stmt = d0 →
        resolveDecl (C05.renameIn S d0 n') cur n' = some { dd with name := n' }) ∧
    (∀ cur, (∀ dd, resolveDecl S cur n = some dd → dd.stmt ≠ d0) →
        resolveDecl (C05.renameIn S d0 n') cur n = resolveDecl S cur n) ∧
    (∀ cur m, m ≠ n → m ≠ n' → resolveDecl (C05.renameIn S d0 n') cur m = resolveDecl S cur m) :=
  ⟨fun cur dd huniq h hdd => C05.C05_alpha_single_bound S d0 n n' cur dd hfresh huniq h hdd,
   fun cur h => C05.C05_alpha_single_unbound S d0 n n' cur hne h,
   fun cur m h1 h2 => C05.C05_alpha_single_other S d0 n n' m cur hold h1 h2⟩

/-- **C12_rename (scope structure).**  Scope space, memo table and visible-scope table do not depend on
any identifier.  The CFG model is in the same position by construction: its input type `Cfg.S` carries
statement ids and flags only, no identifier at all. -/
theorem C12_rename_scope_structure (σ : String → String) (hσ : ∀ s, (σ s).isEmpty = s.isEmpty)
    (t : OpTable) (rows : List MRow) :
    scopeTable t (((rows.map (rename σ)).map toScopeRow).map Row.shape) =
      scopeTable t ((rows.map toScopeRow).map Row.shape) := by
  have h : (rows.map (rename σ)).map toScopeRow = (rows.map toScopeRow).map (Row.map σ) := by
    rw [List.map_map, List.map_map]
    apply List.map_congr_left
    intro r _
    exact toScopeRow_rename σ hσ r
  rw [h]
  exact C05.C05_scope_structure_name_independent σ t (rows.map toScopeRow)

end Rename

/-! ## 3. Inserting a no-op statement: ids move by a strictly monotone map -/

section Renumber
variable {ν : Type} [DecidableEq ν]

/-- **C12_renumber (rows).**  Renumbering the real rows and then projecting is projecting and then
renumbering the ids and the six block references the scope model reads. -/
theorem C12_renumber_rows (ρ : Nat → Nat) (r : MRow) : toScopeRow (renumber ρ r) = mapScopeRow ρ (toScopeRow r) :=
  toScopeRow_renumber ρ r

/-- **C12_renumber (resolver).**  `resolve_symbol_source_decl` uses statement ids through `=`, the
sign test and `max` only: for every strictly monotone `ρ` with `ρ 0 = 0`, applied to the declaration
table, the visible-scope table, the implicit roots and the current scope, the selected declaration is
the renumbered one — "the maximum of the intersection commutes with monotone maps". -/
theorem C12_renumber_resolver {ρ : Nat → Nat} (h : Mono ρ) (S : Summary ν) (cur : Int) (n : ν) :
    resolveDecl (mapSummary ρ S) (mapInt ρ cur) n = (resolveDecl S cur n).map (mapDecl ρ) ∧
    resolveGlobal (mapSummary ρ S) n = (resolveGlobal S n).map (mapDecl ρ) :=
  ⟨resolveDecl_mapSummary h S cur n, resolveGlobal_mapSummary h S n⟩

/-- **C12_renumber (def-use rule).**  The `symbol_id` stored for an occurrence commutes as well
(`stmtScope'` is the statement→scope map of the renumbered unit). -/
theorem C12_renumber_bind {ρ : Nat → Nat} (h : Mono ρ) (S : Summary ν) (stmtScope stmtScope' : Nat → Int)
    (stmt : Nat) (hss : stmtScope' (ρ stmt) = mapInt ρ (stmtScope stmt)) (n : ν) (mode : Mode) :
    Resolver.bind (mapSummary ρ S) stmtScope' (ρ stmt) n mode =
      (Resolver.bind S stmtScope stmt n mode).map (mapDecl ρ) :=
  bind_mapSummary h S stmtScope stmtScope' stmt hss n mode

/-- **C12_renumber (CFG).**  The CFG model passes statement ids around as labels and compares them
for equality in `_add_one_edge` only: for every INJECTIVE renumbering (monotone or not — this also
covers reordered and moved code) the CFG of the renumbered method is the renumbered CFG, in both
the live and the pinned variant. -/
theorem C12_renumber_cfg {ρ : Nat → Nat} (hinj : Function.Injective ρ) (q : Cfg.Q) (params body : Cfg.S) :
    Cfg.cfg q (mapS ρ params) (mapS ρ body) = mapResult ρ (Cfg.cfg q params body) :=
  cfg_map (fun _ _ e => hinj e) q params body

/-- **C12_renumber (construction of the scope tables).**  `discover_scopes` (ascending-id walk with
the memo table of `determine_scope`), and `correct_scopes` commute with the renumbering: scope space,
`all_scope_ids` and the memo table of the renumbered unit are the renumbered ones (code as it is now
and the pinned variant). -/
theorem C12_renumber_scope_table {ρ : Nat → Nat} (h : Mono ρ) (t : OpTable) (shapes : List Shape) :
    scopeTable t (shapes.map (mapShape ρ)) = mapDState ρ (scopeTable t shapes) ∧
    scopeTable0 t (shapes.map (mapShape ρ)) = mapDState ρ (scopeTable0 t shapes) :=
  ⟨scopeTable_map h t shapes, scopeTable0_map h t shapes⟩

/-- **C12_renumber (main theorem, rows).**  The whole per-unit pipeline on GIR rows —
`discover_scopes`, `correct_scopes`, `summarize_symbol_decls` with its worklist closure, resolver,
def-use rule — commutes with every strictly monotone renumbering `ρ` of statement ids with `ρ 0 = 0`
(applied to ids, parents and the six block references): the occurrence `(ρ stmt, n)` of the
renumbered unit is bound to the renumbered declaration, in the renumbered scope.  This is what
inserting a no-op statement does to the rows of all other statements. -/
theorem C12_renumber {ρ : Nat → Nat} (h : Mono ρ) (lastSeg : ν → Option ν) (t : OpTable) (rows : List (Row ν))
    (stmt : Nat) (n : ν) (mode : Mode) :
    bindRows lastSeg t (rows.map (mapScopeRow ρ)) (ρ stmt) n mode =
      (bindRows lastSeg t rows stmt n mode).map (mapDecl ρ) :=
  bindRows_mapRows h lastSeg t rows stmt n mode

/-- the same on the real rows as the harness abstracts them, with the lines moved as well: the
statement the driver re-evaluates on every real (base, edited) pair of a blank-line / comment /
no-op edit (`editRow` with an empty renaming). -/
theorem C12_noop_edit (e : Edit) (hρ : Mono e.ρ) (hσ : ∀ i, e.σOn i = false) (t : OpTable)
    (rows : List MRow) (stmt : Nat) (n : String) (mode : Mode) :
    bindRows lastSegStr t ((editRows e rows).map toScopeRow) (e.ρ stmt) n mode =
      (bindRows lastSegStr t (rows.map toScopeRow) stmt n mode).map (mapDecl e.ρ) := by
  have hrows : (editRows e rows).map toScopeRow = (rows.map toScopeRow).map (mapScopeRow e.ρ) := by
    unfold editRows
    rw [List.map_map, List.map_map]
    apply List.map_congr_left
    intro r _
    simp only [Function.comp, editRow, hσ, Bool.false_eq_true, if_false, toScopeRow_relocate, toScopeRow_renumber]
  rw [hrows]
  exact bindRows_mapRows hρ lastSegStr t (rows.map toScopeRow) stmt n mode

/-- **all three actions at once** (a unit-wide renaming of a function / class combined with a no-op
insertion and moved lines): for an edit whose renaming applies to every row, `bindRows` on the edited
real rows is the renumbered, renamed answer on the base rows. -/
theorem C12_edit_uniform (e : Edit) (hρ : Mono e.ρ) (hσon : ∀ i, e.σOn i = true)
    (hinj : Function.Injective e.σ) (hσ : ∀ s, (e.σ s).isEmpty = s.isEmpty)
    (hseg : ∀ a, lastSegStr (e.σ a) = (lastSegStr a).map e.σ) (t : OpTable)
    (rows : List MRow) (stmt : Nat) (n : String) (mode : Mode) :
    bindRows lastSegStr t ((editRows e rows).map toScopeRow) (e.ρ stmt) (e.σ n) mode =
      ((bindRows lastSegStr t (rows.map toScopeRow) stmt n mode).map (Decl.map e.σ)).map (mapDecl e.ρ) := by
  have hrows : (editRows e rows).map toScopeRow =
      ((rows.map toScopeRow).map (Row.map e.σ)).map (mapScopeRow e.ρ) := by
    unfold editRows
    rw [List.map_map, List.map_map, List.map_map]
    apply List.map_congr_left
    intro r _
    simp only [Function.comp, editRow, hσon, if_true, toScopeRow_relocate, toScopeRow_renumber,
      toScopeRow_rename e.σ hσ]
  rw [hrows, bindRows_mapRows hρ]
  congr 1
  exact C05.C05_alpha e.σ hinj lastSegStr lastSegStr hseg t (rows.map toScopeRow) stmt n mode

-- OPEN (not proved): `flatten` hands out consecutive ids, so inserting a statement that consumes `k`
-- ids shifts every later id of the unit by `k` (and the ids of later units by a multiple of 10,
-- `adjust_node_id`): a strictly monotone map.  That the REAL rows of the edited program are
-- `editRows e` of the real rows of the base program for such an `e` is checked by the driver on every
-- pair (`firstDiff`, `strictMonoOn`; evidence: coverage.tie), not proved about `Gir.flatten` or the
-- tree-sitter frontends.

end Renumber

/-! ## 4. Exchanging independent top-level definitions -/

/-- **C12_reorder_toplevel (`add_main_func`).**  `A` and `B` are two adjacent top-level declaration
subtrees (a `*_decl` / import / export row at the top level followed by the rows below it).  The pass
sends `… A B …` and `… B A …` to outputs that consist of the SAME prefix, the two subtrees in their
respective order, and the SAME rest (the kept rows, the `%unit_init` wrapper with the same two fresh
ids, the moved statements).  No hypothesis on names is needed at this level; "last declaration wins"
enters in the scope tables, not here. -/
theorem C12_reorder_toplevel (P : MainFunc.Params) {A B : Gir.Rows} (hA : DeclTree P A) (hB : DeclTree P B)
    (pre post : Gir.Rows) :
    ∃ hd tl, MainFunc.addMainFunc P (pre ++ (A ++ (B ++ post))) = hd ++ (A ++ (B ++ tl)) ∧
             MainFunc.addMainFunc P (pre ++ (B ++ (A ++ post))) = hd ++ (B ++ (A ++ tl)) :=
  addMainFunc_swap P hA hB pre post

-- OPEN (not proved): the scope / resolver pipeline commutes with the block-monotone id map that a
-- reordering induces, provided no two exchanged declarations share a name (DESIGN §5 C12); and
-- `C12_move_to_file_partial` (needs a model of the import graph, which C05 does not have either).
-- Both are covered by the metamorphic monitor and by the driver's re-evaluation of the pipeline on
-- the real rows of every swap / move pair.

/-! ## 5. The Python import preprocessor -/

def L (s : String) : Line := s.toList

/-- **line numbers survive.**  One output line per input line (code as it is now). -/
theorem C12_pyimport_line_count (spans : List Spans) (lines : List Line) :
    (preprocess spans lines).length = lines.length := run_length [] lines spans

/-- **a line that does not contain the dotted name is not touched.**  A line that is not an import
line and contains none of the dotted names imported so far (as a substring) comes out as it went in,
and leaves the set of names alone. -/
theorem C12_pyimport_untouched_line (spans : Spans) (keys : List Line) (line : Line)
    (himp : isImportLine spans line = false) (h : ∀ k ∈ keys, ¬ k <:+: line) :
    stepLine spans keys line = (keys, line) := by
  unfold stepLine
  rw [if_neg (by rw [himp]; exact Bool.false_ne_true)]
  rw [rewriteLine_of_not_infix (overlaps spans) line keys h]

/-- the names that are ever rewritten are dotted names listed on an earlier import line. -/
theorem C12_pyimport_keys (spans : Spans) (keys : List Line) (line : Line) (k : Line)
    (hk : k ∈ (stepLine spans keys line).1) :
    k ∈ keys ∨ (isImportLine spans line = true ∧ k ∈ importNames (lstrip (importPart spans line)) ∧
      hasDot k = true) := by
  unfold stepLine at hk
  by_cases himp : isImportLine spans line = true
  · rw [if_pos himp] at hk
    rcases mem_addKeys hk with h | h
    · exact Or.inl h
    · exact Or.inr ⟨himp, h⟩
  · rw [if_neg himp] at hk; exact Or.inl hk

/-- **string literals and comments are data.**  On a line that is not an import line, the output has
the length of the input and every column inside a literal span (as delimited by Python's tokenizer:
an input of the model) holds the character it held before — whatever was imported earlier. -/
theorem C12_pyimport_literals_untouched (spans : Spans) (keys : List Line) (line : Line)
    (himp : isImportLine spans line = false) :
    (stepLine spans keys line).2.length = line.length ∧
    ∀ s ∈ spans, ∀ col, s.1 ≤ col → col < s.2 → (stepLine spans keys line).2[col]? = line[col]? := by
  unfold stepLine
  rw [if_neg (by rw [himp]; exact Bool.false_ne_true)]
  obtain ⟨h1, h2⟩ := rewriteLine_spec (overlaps spans) keys line
  exact ⟨h1, fun s hs col hc1 hc2 => h2 col (guarded_of_span hs hc1 hc2)⟩

/-- **the trailing comment of an import line stays a comment.**  On an import line whose comment starts
at column `c` (first literal span that begins with `#`), the imported names are read from the text in
front of the comment only, and the output line ends with the comment, character for character. -/
theorem C12_pyimport_import_comment_kept (spans : Spans) (keys : List Line) (line : Line) (c : Nat)
    (himp : isImportLine spans line = true) (hc : commentStart spans line = some c) :
    (stepLine spans keys line).2 =
      leading line ++ joinWith sepSemi ((importNames (lstrip (rstrip (line.take c)))).map newImport) ++
        trailingComment spans line ∧
    line.drop c <:+ (stepLine spans keys line).2 := by
  have hpart : importPart spans line = rstrip (line.take c) := by unfold importPart; rw [hc]
  have hout : (stepLine spans keys line).2 =
      leading line ++ joinWith sepSemi ((importNames (lstrip (rstrip (line.take c)))).map newImport) ++
        trailingComment spans line := by
    unfold stepLine
    rw [if_pos himp, hpart]
  refine ⟨hout, ?_⟩
  rw [hout]
  exact (comment_suffix_trailing hc).trans (List.suffix_append _ _)

/-! ### negative theorems -/

/-- **REPAIRED finding C12/import-rewrite-in-strings** (frozen model of the pinned commit): after
`import os.path` the constant `"see os.path docs"` is rewritten.  Reproduced on the real code. -/
theorem C12_unfixed_counterexample_import_rewrite_touches_strings :
    preprocess0 [L "import os.path", L "s = \"see os.path docs\""] =
      [L "from os.path import os_path", L "s = \"see os_path docs\""] := by decide +kernel

/-- the same statement under the name DESIGN.md / the task sheet use for it. -/
theorem C12_import_rewrite_touches_strings :
    preprocess0 [L "import os.path", L "s = \"see os.path docs\""] ≠
      [L "from os.path import os_path", L "s = \"see os.path docs\""] := by decide +kernel

/-- the repaired code on the same input, with the span the tokenizer reports for the string
(columns 4–22 of the second line): the constant is left alone, code next to it is still rewritten. -/
theorem C12_fixed_import_rewrite_spares_strings :
    preprocess [[], [(4, 22)]] [L "import os.path", L "s = \"see os.path docs\" + os.path.sep"] =
      [L "from os.path import os_path", L "s = \"see os.path docs\" + os_path.sep"] := by decide +kernel

/-- **REPAIRED finding C12/import-rewrite-in-strings, second half** (frozen): a docstring line that
starts with `import x.y` is taken for an import statement and `x.y` is rewritten from then on. -/
theorem C12_unfixed_counterexample_docstring_import :
    preprocess0 [L "\"\"\"usage:", L "import x.y", L "\"\"\"", L "    v = x.y"] =
      [L "\"\"\"usage:", L "from x.y import x_y", L "\"\"\"", L "    v = x_y"] ∧
    preprocess [[(0, 9)], [(0, 10)], [(0, 3)], []] [L "\"\"\"usage:", L "import x.y", L "\"\"\"", L "    v = x.y"] =
      [L "\"\"\"usage:", L "import x.y", L "\"\"\"", L "    v = x.y"] := by decide +kernel

/-- **REPAIRED finding C12/import-split-shifts-lines** (frozen): `import os, sys` became two lines, so
`x = 1` moved from line 2 to line 3 — every later `start_row`, hence every reported line, was one too
large.  The code as it is now keeps the line count (`C12_pyimport_line_count`). -/
theorem C12_unfixed_counterexample_import_split_shifts_lines :
    preprocess0 [L "import os, sys", L "x = 1"] = [L "import os", L "import sys", L "x = 1"] ∧
    preprocess [] [L "import os, sys", L "x = 1"] = [L "import os; import sys", L "x = 1"] := by decide +kernel

/-- **REPAIRED finding C12/import-line-comment-swallowed** (frozen model of the pinned commit): the
trailing comment of `import os.path  # c` becomes part of the imported name — the line handed to
tree-sitter is `from os.path  # c import os_path  # c` (an import without names: the module is never
imported) and the name to rewrite is `os.path  # c`, which never occurs again, so `os.path` in later
lines stays.  The code as it is now reads the name in front of the comment and keeps the comment. -/
theorem C12_unfixed_counterexample_import_trailing_comment :
    preprocess0 [L "import os.path  # c", L "x = os.path.sep"] =
      [L "from os.path  # c import os_path  # c", L "x = os.path.sep"] ∧
    preprocess [[(16, 19)], []] [L "import os.path  # c", L "x = os.path.sep"] =
      [L "from os.path import os_path  # c", L "x = os_path.sep"] := by decide +kernel

/-- **OPEN finding C12/import-rewrite-scope-blind** (live model): the rewrite knows no scopes.  The
same two lines of a function `g(conf)` are rewritten or not depending on whether an unrelated
`import conf.db` stands before or after them — exchanging two independent definitions changes what
tree-sitter gets to see (`conf.db`, a field of the parameter, vs the unbound name `conf_db`). -/
theorem C12_import_rewrite_scope_blind :
    preprocess [] [L "def g(conf):", L "    return conf.db", L "def f():", L "    import conf.db"] =
      [L "def g(conf):", L "    return conf.db", L "def f():", L "    from conf.db import conf_db"] ∧
    preprocess [] [L "def f():", L "    import conf.db", L "def g(conf):", L "    return conf.db"] =
      [L "def f():", L "    from conf.db import conf_db", L "def g(conf):", L "    return conf_db"] := by
  decide +kernel

/-! ## Non-vacuity -/

/-- the hypotheses of `C12_renumber_*` are satisfiable by a map that really moves ids (what inserting
one statement after id 3 does), and the resolver theorem then says something about a resolving name. -/
example : Mono (fun n => if n ≤ 3 then n else n + 1) :=
  ⟨fun a b h => by by_cases ha : a ≤ 3 <;> by_cases hb : b ≤ 3 <;> simp [ha, hb] <;> omega, by simp⟩

example :
    let S : Summary String := { decls := [⟨"x", 0, 2, false⟩, ⟨"x", 5, 7, false⟩], avail := [(5, [5, 0])], implicit := [] }
    resolveDecl S 5 "x" = some ⟨"x", 5, 7, false⟩ ∧
    resolveDecl (mapSummary (fun n => if n ≤ 3 then n else n + 1) S) 6 "x" = some ⟨"x", 6, 8, false⟩ := by
  decide +kernel

/-- `C12_renumber` on a unit in which the name resolves (the rows of C05's witness `w3Rows`:
`x = 1` / `def g():` / `    x = 2` / `    def h(): … return x`), renumbered as if one statement had been
inserted after id 3: statement 10 becomes 11 and is bound to declaration 6 in scope 5 instead of
declaration 5 in scope 4. -/
example :
    bindRows lastSegStr defaultOps C05.w3Rows 10 "x" .use = some ⟨"x", 4, 5, false⟩ ∧
    bindRows lastSegStr defaultOps (C05.w3Rows.map (mapScopeRow (fun n => if n ≤ 3 then n else n + 1))) 11 "x" .use =
      some ⟨"x", 5, 6, false⟩ := by decide +kernel

/-- `C12_renumber_cfg` on a method with a loop: the edge list really changes with the ids. -/
example :
    Cfg.cfg Cfg.Q.live .nil (.whileS 4 false .nil (.simple 5 .nil) .nil (.ret 6 .nil)) =
      .ok [(4, 5, Cfg.kLOOP_TRUE), (5, 4, Cfg.kLOOP_BACK), (4, 6, Cfg.kLOOP_FALSE), (6, -1, Cfg.kRETURN)] ∧
    Cfg.cfg Cfg.Q.live .nil (mapS (fun n => n + 10) (.whileS 4 false .nil (.simple 5 .nil) .nil (.ret 6 .nil))) =
      .ok [(14, 15, Cfg.kLOOP_TRUE), (15, 14, Cfg.kLOOP_BACK), (14, 16, Cfg.kLOOP_FALSE), (16, -1, Cfg.kRETURN)] := by
  decide +kernel

/-- `C12_rename_fresh`: the transposition satisfies the segment hypothesis for an undotted universe. -/
example : ∀ x : Nat, (fun y : Nat => some y) (swapName 1 9 x) = ((fun y : Nat => some y) x).map (swapName 1 9) :=
  fun _ => rfl

/-- `C12_reorder_toplevel`: two method declarations with their blocks are `DeclTree`s. -/
example : DeclTree {} [⟨"method_decl", 1, 0, [("body", .int 2)]⟩, Gir.mkStart 2 1, ⟨"return_stmt", 3, 2, []⟩, Gir.mkEnd 2 1] :=
  ⟨by simp, by intro r hr; simp at hr; subst hr; exact ⟨rfl, by decide +kernel⟩,
   by intro r hr; simp [Gir.mkStart, Gir.mkEnd] at hr; rcases hr with rfl | rfl | rfl <;> simp⟩

/-- `C12_pyimport_literals_untouched` / `_untouched_line`: the hypotheses hold on a real-looking line. -/
example : isImportLine [(4, 22)] (L "s = \"see os.path docs\" + os.path.sep") = false := by decide +kernel

end LianVerif.C12
