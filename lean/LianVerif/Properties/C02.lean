/-
C02 — The same program written in any supported language lowers to equivalent GIR.

Only property theorems, non-vacuity examples and negative witnesses live here.
Source semantics: LianVerif/Spec/Core.lean (`runCore` = evalCore).  Vocabulary check:
LianVerif/Model/Vocabulary.lean.  Target semantics: LianVerif/Gir/Sem.lean (`runEntry`).
-/
import LianVerif.Model.Vocabulary
import LianVerif.Spec.Core
import LianVerif.Proofs.LowerCore

namespace LianVerif.C02
open LianVerif.Vocabulary LianVerif.Gir LianVerif.Core LianVerif.LowerCore

/-! ## The vocabulary check is sound -/

/-- **C02, vocabulary clause.**  If `vocabCheck V rows` answers `true` (it is evaluated by lvdrv on the
REAL rows, with the vocabulary `V` extracted at run time from the live handler tables), then for every
row: (1) its operation is handled by some analysis table (or is a structural marker), and, if it is
one of the carriers of the elements C02 names (`mustDefUse`) / a control-transfer operation
(`mustCfg`), by the def-use table / the CFG table themselves; (2) every attribute the row sets is in
the vocabulary of that operation — read by a handler of the operation, declared for it by the
instruction table, or a bookkeeping column; (3) every attribute an analysis reads for the operation is
one the row sets or may legitimately omit (it is not in `required`). -/
theorem C02_vocabulary_check_sound (V : Vocab) (rows : Rows) (h : vocabCheck V rows = true) :
    ∀ r ∈ rows,
      V.isHandled r.op = true ∧
      (r.op ∈ mustDefUse → r.op ∈ V.defuse) ∧ (r.op ∈ mustCfg → r.op ∈ V.cfg) ∧
      (∀ a ∈ r.attrs, a ∈ lookupL V.reads r.op ∨ a ∈ lookupL V.doc r.op ∨ a ∈ V.book) ∧
      (∀ a ∈ lookupL V.reads r.op, a ∈ r.attrs ∨ a ∉ lookupL required r.op) := by
  intro r hr
  have hrow : rowOk V r = true := List.all_eq_true.mp h r hr
  simp only [rowOk, Bool.and_eq_true] at hrow
  obtain ⟨⟨⟨hh, ht⟩, hk⟩, hq⟩ := hrow
  simp only [Vocab.tablesOk, Bool.and_eq_true, Bool.or_eq_true, Bool.not_eq_true', List.contains_eq_mem,
    decide_eq_true_eq, decide_eq_false_iff_not] at ht
  refine ⟨hh, fun hm => ht.1.resolve_left (fun hn => hn hm), fun hm => ht.2.resolve_left (fun hn => hn hm), ?_, ?_⟩
  · intro a ha
    have := List.all_eq_true.mp hk a ha
    simp only [Vocab.isKnown, Bool.or_eq_true, List.contains_eq_mem, decide_eq_true_eq] at this
    rcases this with (h1 | h2) | h3
    · exact Or.inl h1
    · exact Or.inr (Or.inl h2)
    · exact Or.inr (Or.inr h3)
  · intro a _
    by_cases hreq : a ∈ lookupL required r.op
    · left
      have := List.all_eq_true.mp hq a hreq
      simpa using this
    · right; exact hreq

/-- the converse: the check accepts exactly the rows with these three properties (so it raises no
alarm on a row that has them). -/
theorem C02_vocabulary_check_complete (V : Vocab) (rows : Rows)
    (h : ∀ r ∈ rows, V.isHandled r.op = true ∧
      (r.op ∈ mustDefUse → r.op ∈ V.defuse) ∧ (r.op ∈ mustCfg → r.op ∈ V.cfg) ∧
      (∀ a ∈ r.attrs, a ∈ lookupL V.reads r.op ∨ a ∈ lookupL V.doc r.op ∨ a ∈ V.book) ∧
      (∀ a ∈ lookupL required r.op, a ∈ r.attrs)) :
    vocabCheck V rows = true := by
  apply List.all_eq_true.mpr
  intro r hr
  obtain ⟨hh, hd, hc, hk, hq⟩ := h r hr
  simp only [rowOk, Bool.and_eq_true]
  have ht : V.tablesOk r.op = true := by
    simp only [Vocab.tablesOk, Bool.and_eq_true, Bool.or_eq_true, Bool.not_eq_true', List.contains_eq_mem,
      decide_eq_true_eq, decide_eq_false_iff_not]
    refine ⟨?_, ?_⟩
    · by_cases hm : r.op ∈ mustDefUse
      · exact Or.inr (hd hm)
      · exact Or.inl hm
    · by_cases hm : r.op ∈ mustCfg
      · exact Or.inr (hc hm)
      · exact Or.inl hm
  refine ⟨⟨⟨hh, ht⟩, ?_⟩, ?_⟩
  · apply List.all_eq_true.mpr
    intro a ha
    simp only [Vocab.isKnown, Bool.or_eq_true, List.contains_eq_mem, decide_eq_true_eq]
    rcases hk a ha with h1 | h2 | h3
    · exact Or.inl (Or.inl h1)
    · exact Or.inl (Or.inr h2)
    · exact Or.inr h3
  · apply List.all_eq_true.mpr
    intro a ha
    simpa using hq a ha

/-- the vocabulary of the two handler tables restricted to the operations of the witnesses below
(as extracted from the pinned commit). -/
def exVocab : Vocab :=
  { handled := ["return_stmt", "call_stmt", "assign_stmt", "array_read"],
    defuse := ["return_stmt", "call_stmt", "assign_stmt", "array_read"],
    cfg := ["return_stmt"],
    reads := [("return_stmt", ["name"]),
              ("call_stmt", ["name", "target", "positional_args", "packed_positional_args", "named_args", "packed_named_args"]),
              ("assign_stmt", ["target", "operand", "operand2", "operator"]),
              ("array_read", ["target", "array", "index"])],
    doc := [("call_stmt", ["data_type", "prototype"])],
    book := ["stmt_id", "parent_stmt_id", "unit_id", "start_row", "start_col", "end_row", "end_col"] }

/-- Non-vacuity: the rows every frontend but Go emits for `y = add(x, 3); return y` pass the check. -/
example : vocabCheck exVocab
    [ { op := "call_stmt", attrs := ["stmt_id", "target", "name", "positional_args"] },
      { op := "return_stmt", attrs := ["stmt_id", "name"] } ] = true := by decide

/-- **Defect of the pinned commit (C02/go-return-args-vocabulary), frozen rows; repaired.**  The rows
the pinned Go frontend emits for `return y` and `add(x, 3)` — operation `return` with attribute
`target`, `call_stmt` with `args` — are rejected by the check (the operation is handled by no table;
`args` is read by no handler of `call_stmt`); the rows the repaired frontend emits pass. -/
theorem C02_go_return_outside_vocabulary :
    vocabCheck exVocab [ { op := "return", attrs := ["stmt_id", "target"] } ] = false ∧
    vocabCheck exVocab [ { op := "call_stmt", attrs := ["stmt_id", "target", "name", "args"] } ] = false ∧
    vocabCheck exVocab [ { op := "array_read", attrs := ["stmt_id", "target", "receiver_object", "index"] } ] = false ∧
    vocabCheck exVocab
      [ { op := "return_stmt", attrs := ["stmt_id", "name"] },
        { op := "call_stmt", attrs := ["stmt_id", "target", "name", "positional_args"] },
        { op := "array_read", attrs := ["stmt_id", "target", "array", "index"] } ] = true := by
  decide

/-! ## Lowering preserves behaviour (proved fragment), for every language of the dialect table -/

/-- **C02, expression handlers, pure fragment, each of the seven dialect rows** (constants of the three
scalar types, variables, arithmetic / comparison / concatenation, unary minus and `not`; `pureE`).
For every language `l`, every temp-counter value `k`, every state `σ` of the common GIR reference
semantics in which lian temporaries are ordinary locals: if the reference semantics of the core language
(`Core.evalE`) gives `e` the value `v`, then executing the statements the model of `l`'s handlers emits
for `e` from `σ` terminates normally in a state `τ` in which the returned operand evaluates to `v`; heap,
output log and environment are unchanged, and every variable that is not a lian temporary keeps its
value.  The dialect-specific choices covered: operator spellings (`not`/`!`), Java's folding of a binary
expression over two literals, C's negative number literals, PHP's copy of string literals to a
temporary.  The hypothesis `NoTmpE` says the source does not itself use names of the form `%vvN`. -/
theorem C02_lower_expr_partial (l : Lang) (fns : List FnDef) (e : Expr) (hp : pureE e = true) (hnt : NoTmpE e)
    (k fuel : Nat) (σ σ' : State) (v : Val)
    (hsrc : Core.evalE fns fuel σ e = (.ok v, σ'))
    (hb : σ.budget = none) (hloc : ∀ n, σ.Loc (tmp n)) :
    ∃ τ, exec ((lowerE (dialect l false) e k).1.length + 1) σ (lowerE (dialect l false) e k).1 = (.normal, τ) ∧
      τ.evalOpd (lowerE (dialect l false) e k).2.1 = .ok v ∧
      τ.heap = σ'.heap ∧ τ.out = σ'.out ∧ τ.env = σ'.env ∧
      ∀ x, (∀ n, x ≠ tmp n) → τ.lookup x = σ'.lookup x := by
  have hsim : LowerPy.Sim σ σ := ⟨rfl, rfl, rfl, hb, fun _ _ => rfl, hloc⟩
  obtain ⟨e1, _, _, τ, hex, hev, hs, _, _⟩ :=
    lowerE_sim (dialect l false) (dialect_ok l) fns fuel e hp hnt k σ σ σ' v hsrc hsim
  subst e1
  refine ⟨τ, ?_, hev, hs.heap.symm, hs.out.symm, hs.env.symm, fun x hx => (hs.look x hx).symm⟩
  have h := hex [] 1
  simp only [List.append_nil] at h
  rw [Nat.add_comm] at h
  rw [h]
  simp [exec]

def exE : Expr :=
  .bin .lt (.bin .mul (.bin .add (.var "x") (.int 2)) (.un .neg (.var "y"))) (.bin .add (.int 4) (.int 6))
def exS : State :=
  { heap := [], frames := [{ vars := [("x", some (.int 3)), ("y", some (.int 4))] }], env := [0] }
def okv (r : Res Val) : Option Val :=
  match r with
  | .ok v => some v
  | .error _ => none

/-- Non-vacuity: `(x + 2) * -y < 4 + 6` with x = 3, y = 4 is in the fragment and evaluates to true; the C
rows are five statements computing it in `%vv5`, the Java rows four (`4 + 6` is folded to `10`). -/
example :
    pureE exE = true ∧ okv (Core.evalE [] 10 exS exE).1 = some (.bool true) ∧
    (lowerE (dialect .c false) exE 0).2.1 = .var "%vv5" ∧ (lowerE (dialect .c false) exE 0).1.length = 5 ∧
    okv ((exec 6 exS (lowerE (dialect .c false) exE 0).1).2.lookup "%vv5") = some (.bool true) ∧
    (lowerE (dialect .java false) exE 0).1.length = 4 ∧
    okv ((exec 6 exS (lowerE (dialect .java false) exE 0).1).2.lookup "%vv4") = some (.bool true) := by
  decide

/-- **C02, statement handlers, loop-free and call-free fragment, each of the seven dialect rows**
(`bodyFrag`: declaration with initialiser, assignment to a name, expression statement, the output
statement, `if`/`else` nested arbitrarily, `return`, all over pure expressions).  For every language
`l`, every temp counter and every state `σ` whose current frame declares nothing `global`/`nonlocal`
and in which the output function of `l` (`print` / `output`) is the built-in: if the reference
semantics of the core language (`Core.execS`) ends the statement list `B` normally or by `return w` in
state `σ'`, then for some fuel the common GIR reference semantics executes the statements the model of
`l`'s handlers emits for `B` from `σ` with the SAME outcome (same returned value), in a state with
exactly the heap, OUTPUT LOG and environment of `σ'` and in which every variable that is not a lian
temporary reads as in `σ'`.  Returned values, output arguments, branch conditions and arms,
declarations and their initialisers, statement order and the `variable_decl`/`assign_stmt` pairs of
each dialect (with or without a declaration per assignment, with or without `expression_stmt`) are
therefore preserved on this fragment, in all seven dialects.  For Python and PHP this is the handler
output BEFORE the tmp-elimination / hoisting passes. -/
theorem C02_preserves_partial (l : Lang) (fns : List FnDef) (B : List Core.Stmt)
    (hf : bodyFrag B = true) (hnt : NoTmpB B) (hnn : NotNamedB (dialect l false).outName B)
    (k fuel : Nat) (σ σ' : State) (o : Outcome)
    (hsrc : Core.execS fns fuel σ B = (o, σ')) (ho : o = .normal ∨ ∃ w, o = .ret w)
    (hb : σ.budget = none) (hloc : ∀ x, σ.Loc x)
    (hout : σ.lookup (dialect l false).outName = .ok (.builtin (dialect l false).outName)) :
    ∃ τ N, exec N σ (lowerB (dialect l false) B k).1 = (o, τ) ∧
      τ.heap = σ'.heap ∧ τ.out = σ'.out ∧ τ.env = σ'.env ∧
      ∀ x, (∀ n, x ≠ tmp n) → τ.lookup x = σ'.lookup x := by
  have hs : LowerPy.Sim2 σ σ := ⟨⟨rfl, rfl, rfl, hb, fun _ _ => rfl, fun n => hloc _⟩, hloc, hloc⟩
  obtain ⟨τ, hs', _, hruns⟩ :=
    lowerB_sim (dialect l false) (dialect_ok l) fns fuel B hf hnt hnn k σ σ σ' o hsrc ho hs hout
  refine ⟨τ, (LowerPy.costL (lowerB (dialect l false) B k).1 + 1) + (lowerB (dialect l false) B k).1.length, ?_,
    hs'.sim.heap.symm, hs'.sim.out.symm, hs'.sim.env.symm, fun x hx => (hs'.sim.look x hx).symm⟩
  have h := hruns [] (LowerPy.costL (lowerB (dialect l false) B k).1 + 1) (Nat.le_refl _)
  simp only [List.append_nil] at h
  rcases ho with ho | ⟨w, ho⟩
  · rw [h.1 ho, ho]; exact LowerPy.exec_nil _ τ
  · rw [h.2 w ho, ho]

/-- `t = x * 2` / `output(t)` / `if t > y: t = t - y; z = 1; output(z)` / `else: return t + 1` / `return t - y` -/
def exB : List Core.Stmt :=
  [ .decl "t" .int (.bin .mul (.var "x") (.int 2)),
    .out (.var "t"),
    .ifS (.bin .gt (.var "t") (.var "y"))
      [.assign "t" (.bin .sub (.var "t") (.var "y")), .decl "z" .int (.int 1), .out (.var "z")]
      [.ret (.bin .add (.var "t") (.int 1))],
    .ret (.bin .sub (.var "t") (.var "y")) ]

def obsOf (r : Outcome × State) : Option (Val × List String) :=
  match r.1 with
  | .ret v => some (v, r.2.out.reverse)
  | _ => none

/-- Non-vacuity: `exB` is in the fragment; with x = 3, y = 4 the reference semantics prints 6 and 1 and
returns -2 through the `if` arm, and so do the rows of each of the seven dialects. -/
example :
    bodyFrag exB = true ∧ obsOf (Core.execS [] 20 exS exB) = some (.int (-2), ["6", "1"]) ∧
    [Lang.python, .javascript, .typescript, .java, .go, .c, .php].all (fun l =>
      obsOf (exec 30 exS (lowerB (dialect l false) exB 0).1) == some (.int (-2), ["6", "1"])) = true := by
  decide

-- OPEN (not proved): the full statement of C02 for the modelled fragment,
--   ∀ l, ∀ p : Program with inFragment l p, ∀ entry args fuel,
--     runCore fuel p entry args = r  →  r.result is not an error  →  (no open-defect shape of l in p)  →
--     ∃ fuel', runEntry fuel' (execView l (lowerProgram l false p)) entry args = r
--   i.e. additionally: `while` / counted `for` / break / continue, calls of user functions and
--   parameter binding, `and`/`or` (strict in every frontend: open finding), the passes that run for
--   Python/PHP/JavaScript (tmp elimination, declaration hoisting), the Java class wrapper and the Go
--   `%unit_init`; and its extension to arrays and records and to JavaScript (not modelled).  Also
--   C02_same_skeleton of DESIGN §5 (CFG isomorphism between the lowerings of two languages) is not
--   stated.  Only monitored: LEG 1 compares `lowerProgram` with lian's real rows, LEG 1b runs `runEntry`
--   on the model's output against `runCore`, and the monitor executes lian's REAL rows of all seven
--   languages (whole core language) against `runCore`.

/-! ## Negative theorems: defects of the lowerings, witnessed on the model and replayed on the real
code by corpus/C02/*.json -/

/-- `add(a, b) = a + b` / `entry(x): y = add(x, 3); output(y); return y + 1` -/
def callProg : Program :=
  { fns := [ { name := "add", params := [("a", .int), ("b", .int)], ret := .int,
               body := [.ret (.bin .add (.var "a") (.var "b"))] },
             { name := "entry", params := [("x", .int)], ret := .int,
               body := [.decl "y" .int (.call "add" [.var "x", .int 3]), .out (.var "y"),
                        .ret (.bin .add (.var "y") (.int 1))] } ] }

def runModel (l : Lang) (pinned : Bool) (p : Program) (entry : String) (args : List Val) : Option Obs :=
  (lowerProgram l pinned p).map (fun out => runEntry 60 (execView l out) entry args)

/-- `entry(x): return x + 1` -/
def retProg : Program :=
  { fns := [ { name := "entry", params := [("x", .int)], ret := .int, body := [.ret (.bin .add (.var "x") (.int 1))] } ] }

/-- **Defect of the pinned commit (C02/go-return-args-vocabulary), frozen model; repaired by
95f8c33 + 2a47cf4.**  `entry(4)` prints 7 and returns 8.  In the rows of the pinned Go frontend the call
arguments sit in an attribute (`args`) the common semantics — like every analysis — does not read:
`add` is called without arguments; and `return x + 1` is the unknown operation `return{target}`.  The
rows of the repaired frontend compute both programs, as do those of the other modelled frontends. -/
theorem C02_go_pinned_not_preserved :
    runCore 60 callProg "entry" [.int 4] = { out := ["7"], result := "ok 8" } ∧
    runModel .go true callProg "entry" [.int 4]
      = some { out := [], result := "err:raise:TypeError:missing-argument:a" } ∧
    runCore 60 retProg "entry" [.int 4] = { out := [], result := "ok 5" } ∧
    runModel .go true retProg "entry" [.int 4] = some { out := [], result := "err:unsupported:return" } ∧
    [Lang.python, .typescript, .java, .go, .c, .php].all (fun l =>
      runModel l false callProg "entry" [.int 4] == some { out := ["7"], result := "ok 8" } &&
      runModel l false retProg "entry" [.int 4] == some { out := [], result := "ok 5" }) = true := by
  decide

/-- `say(n): output(n); return n` / `entry(): return say(1) - say(2)` -/
def orderProg : Program :=
  { fns := [ { name := "say", params := [("n", .int)], ret := .int, body := [.out (.var "n"), .ret (.var "n")] },
             { name := "entry", params := [], ret := .int,
               body := [.ret (.bin .sub (.call "say" [.int 1]) (.call "say" [.int 2]))] } ] }

/-- **Defect of the pinned commit (C02/typescript-right-operand-first), frozen model; repaired by
bcad2d0.**  `say(1) - say(2)` prints 1 then 2.  The pinned TypeScript frontend parsed the right operand
first: its rows print 2 then 1 (the value is the same); the repaired rows agree with the reference. -/
theorem C02_typescript_operand_order :
    runCore 60 orderProg "entry" [] = { out := ["1", "2"], result := "ok -1" } ∧
    runModel .typescript true orderProg "entry" [] = some { out := ["2", "1"], result := "ok -1" } ∧
    runModel .typescript false orderProg "entry" [] = some { out := ["1", "2"], result := "ok -1" } := by
  decide

/-- `entry(x): if 5 <= 4: return 1` / `return 0`   and   `entry(x): return true and true` -/
def foldProg : Program :=
  { fns := [ { name := "entry", params := [("x", .int)], ret := .int,
               body := [.ifS (.bin .le (.int 5) (.int 4)) [.ret (.int 1)] [], .ret (.int 0)] } ] }
def foldProg2 : Program :=
  { fns := [ { name := "entry", params := [("x", .int)], ret := .bool,
               body := [.ret (.and (.bool true) (.bool true))] } ] }

/-- **Defects of the pinned commit (C02/java-fold-python-spelling, C02/java-fold-unevaluable-text),
frozen model; repaired by fc4f7c2 + a1b441e.**  The pinned Java frontend folded `5 <= 4` with Python's
`eval` and wrote the result as `False` — a NAME for every reader of the row — and pasted the source text
`true&&true` of an expression `eval` rejects into the operand.  The repaired rows are right. -/
theorem C02_java_fold_spelling :
    runCore 60 foldProg "entry" [.int 0] = { out := [], result := "ok 0" } ∧
    runModel .java true foldProg "entry" [.int 0] = some { out := [], result := "err:raise:NameError:False" } ∧
    runModel .java false foldProg "entry" [.int 0] = some { out := [], result := "ok 0" } ∧
    runCore 60 foldProg2 "entry" [.int 0] = { out := [], result := "ok True" } ∧
    runModel .java true foldProg2 "entry" [.int 0] = some { out := [], result := "err:raise:NameError:true&&true" } ∧
    runModel .java false foldProg2 "entry" [.int 0] = some { out := [], result := "ok True" } := by
  decide

/-- `entry(a): s = 0; i = 0; while i < 2: i = i + 1; s = s + a` / `return s` -/
def phpProg : Program :=
  { fns := [ { name := "entry", params := [("a", .int)], ret := .int,
               body := [.decl "s" .int (.int 0), .decl "i" .int (.int 0),
                        .whileS (.bin .lt (.var "i") (.int 2))
                          [.assign "i" (.bin .add (.var "i") (.int 1)), .assign "s" (.bin .add (.var "s") (.var "a"))],
                        .ret (.var "s")] } ] }

def bodyDecls (out : Option (List Gir.Stmt)) : List String :=
  match out with
  | some [.methodDecl _ _ b] => declsL b
  | _ => []

/-- **Defect of the pinned commit (C02/php-variable-redeclared-in-nested-block), frozen model; repaired
by be521c8.**  In the pinned PHP rows every assignment keeps its own `variable_decl`: `s` and `i` are
declared at the top of the function AND again inside the loop body (a block-scoped reader — lian's
scope analysis — binds the `s` of the loop to a different symbol than the `s` that is returned).  In the
repaired rows each variable is declared exactly once. -/
theorem C02_php_block_redeclaration :
    bodyDecls (lowerProgram .php true phpProg) = ["s", "i", "i", "s"] ∧
    bodyDecls (lowerProgram .php false phpProg) = ["i", "s"] := by
  decide

/-- `noisy(v): output(v); return true` / `entry(x): return (x > 0) and noisy(1)` -/
def boolProg : Program :=
  { fns := [ { name := "noisy", params := [("v", .int)], ret := .bool, body := [.out (.var "v"), .ret (.bool true)] },
             { name := "entry", params := [("x", .int)], ret := .bool,
               body := [.ret (.and (.bin .gt (.var "x") (.int 0)) (.call "noisy" [.int 1]))] } ] }

/-- **OPEN defect (C02/bool-no-short-circuit; C01/bool-no-short-circuit for Python), live model.**
`(0 > 0) and noisy(1)`: the reference semantics does not call `noisy`; the rows of EVERY modelled
frontend evaluate both operands and emit one strict `assign_stmt`: `noisy` runs (one output). -/
theorem C02_bool_not_short_circuit :
    runCore 60 boolProg "entry" [.int 0] = { out := [], result := "ok False" } ∧
    [Lang.python, .typescript, .java, .go, .c, .php].all (fun l =>
      runModel l false boolProg "entry" [.int 0] == some { out := ["1"], result := "ok False" }) = true := by
  decide

/-- `entry(n): i = 0; while i < n: i = i + 1; if i == n: continue; output(i)` / `return i` -/
def whileProg : Program :=
  { fns := [ { name := "entry", params := [("n", .int)], ret := .int,
               body := [ .decl "i" .int (.int 0),
                         .whileS (.bin .lt (.var "i") (.var "n"))
                           [ .assign "i" (.bin .add (.var "i") (.int 1)),
                             .ifS (.bin .eq (.var "i") (.var "n")) [.cont] [],
                             .out (.var "i") ],
                         .ret (.var "i") ] } ] }

/-- **OPEN defect (C02/while-continue-stale-condition; C01's for Python), live model.**  With n = 2
the reference semantics prints 1 and returns 2.  Python, PHP and TypeScript (and JavaScript) put the
statements that evaluate the loop condition before the loop and at the END of the body: `continue`
skips them, the loop runs once more (prints 1 and 3, returns 3).  Java, C and Go put them into
`condition_prebody`: right. -/
theorem C02_while_continue_stale_condition :
    runCore 80 whileProg "entry" [.int 2] = { out := ["1"], result := "ok 2" } ∧
    [Lang.python, .php, .typescript].all (fun l =>
      runModel l false whileProg "entry" [.int 2] == some { out := ["1", "3"], result := "ok 3" }) = true ∧
    [Lang.java, .c, .go].all (fun l =>
      runModel l false whileProg "entry" [.int 2] == some { out := ["1"], result := "ok 2" }) = true := by
  decide

end LianVerif.C02
