/-
C17 — Event handlers run in registration order under the documented blocking rules.

Only property theorems, non-vacuity examples and quirk witnesses live here.
Model: LianVerif/Model/Events.lean (`register`, `registerList`, `notify`, `sync` mirror
        src/lian/events/event_manager.py and event_return.py as they are in /repo now).
Spec vocabulary: LianVerif/Spec/Events.lean (`fullRun`, `takeThrough`, `norm`, `unionNorm`).

Reading of the statement that is proved (and that the code implements):
* "successful handler"  = a handler whose return is not UNPROCESSED (`current != 0`); a handler that
  returns `None` counts as successful for the data hand-over (`None != 0`) but contributes no flag;
* "requests blocking"   = the handler's own return has bit 2 (STOP_OTHER_EVENT_HANDLERS);
* "union of the flags returned" = bitwise union of the *normalised* returns: a non-zero return carries
  SUCCESS, and only the four defined flags 1, 2, 4, 8 are kept (`norm`).  For the documented return
  values (0, or SUCCESS combined with the other flags) this is the plain bitwise union
  (`C17_flags_union_documented`).
-/
import LianVerif.Proofs.Events

namespace LianVerif.C17
open LianVerif.Events

variable {L D E : Type} [DecidableEq L] [DecidableEq E]

/-- the registrations of the list whose language set contains the event's language or the
any-language marker, in list (= registration) order -/
def matching (anyL lang : L) (rs : List (Reg L)) : List (Reg L) :=
  rs.filter (matchesLang anyL lang)

/-- a registration matches iff its language collection contains the event's language or the
any-language marker — membership only, so order and duplicates in the collection (e.g. the arbitrary
order of `list(a_set)`) are irrelevant. -/
theorem C17_matches_iff (anyL lang : L) (r : Reg L) :
    matchesLang anyL lang r = true ↔ (lang ∈ r.langs ∨ anyL ∈ r.langs) := by
  simp [matchesLang]

theorem C17_matches_membership_only (anyL lang : L) (l1 l2 : List L) (h : Nat)
    (hmem : ∀ x, x ∈ l1 ↔ x ∈ l2) :
    matchesLang anyL lang { langs := l1, h := h } = matchesLang anyL lang { langs := l2, h := h } := by
  rw [Bool.eq_iff_iff, C17_matches_iff, C17_matches_iff]
  simp [hmem]

/-- **C17 (who runs, in which order, where it stops).**  The calls `notify` makes are exactly the
statement's run over the matching registrations — every matching handler in registration order, each
fed the data the statement prescribes — cut after the first call whose own return has bit 2.  The
handlers of that run are the handlers of the matching registrations, and every recorded return /
`out_data` is what the handler computes from the data it was shown. -/
theorem C17_ran_exactly (anyL lang : L) (beh : Beh D) (rs : List (Reg L)) (d : D) :
    (notifyList anyL lang beh (some rs) d).trace =
        takeThrough (fun e => blocksRet e.ret) (fullRun beh (matching anyL lang rs) d d) ∧
    (fullRun beh (matching anyL lang rs) d d).map (·.h) = (matching anyL lang rs).map (·.h) ∧
    (∀ e ∈ fullRun beh (matching anyL lang rs) d d,
        e.ret = (beh e.h e.inSeen e.outSeen).1 ∧ e.outLeft = (beh e.h e.inSeen e.outSeen).2) :=
  ⟨loop_trace anyL lang beh rs 0 d d (by decide), fullRun_handlers beh _ d d,
   fullRun_consistent beh _ d d⟩

/-- **C17 (the same, clause by clause).**  The handlers called are a prefix of the matching
registrations' handlers (so: only matching ones, in registration order, none skipped); no call before
the last one requested blocking; and if fewer handlers were called than match, the last call
requested blocking. -/
theorem C17_ran_clauses (anyL lang : L) (beh : Beh D) (rs : List (Reg L)) (d : D) :
    let T := (notifyList anyL lang beh (some rs) d).trace
    T.map (·.h) <+: (matching anyL lang rs).map (·.h) ∧
    (∀ e ∈ T.dropLast, blocksRet e.ret = false) ∧
    (T.length < (matching anyL lang rs).length →
        ∃ e, T.getLast? = some e ∧ blocksRet e.ret = true) := by
  intro T
  obtain ⟨h1, h2, _⟩ := C17_ran_exactly anyL lang beh rs d
  refine ⟨?_, ?_, ?_⟩
  · rw [← h2]
    show List.map _ (notifyList anyL lang beh (some rs) d).trace <+: _
    rw [h1]
    exact (takeThrough_prefix _ _).map _
  · show ∀ e ∈ (notifyList anyL lang beh (some rs) d).trace.dropLast, _
    rw [h1]; exact takeThrough_dropLast _ _
  · show (notifyList anyL lang beh (some rs) d).trace.length < _ → ∃ e,
      (notifyList anyL lang beh (some rs) d).trace.getLast? = some e ∧ _
    rw [h1]
    intro hlt
    apply takeThrough_short
    rw [fullRun_length]; exact hlt

/-- a handler that does not match is never called; a matching handler registered before any blocker
is called (here: when nobody blocks, all matching handlers are called). -/
theorem C17_all_run_when_nobody_blocks (anyL lang : L) (beh : Beh D) (rs : List (Reg L)) (d : D)
    (h : ∀ e ∈ fullRun beh (matching anyL lang rs) d d, blocksRet e.ret = false) :
    (notifyList anyL lang beh (some rs) d).trace.map (·.h) = (matching anyL lang rs).map (·.h) := by
  obtain ⟨h1, h2, _⟩ := C17_ran_exactly anyL lang beh rs d
  rw [h1, takeThrough_all _ _ h, h2]

/-- **C17 (what each handler sees).**  The k-th call sees as `in_data` the `out_data` left by the
last earlier call whose return was not UNPROCESSED (`None` counts as processed), else the event's
original `in_data`; it sees as `out_data` what the call before it left, else the original `in_data`
(`notify` initialises `out_data` to `in_data`). -/
theorem C17_sees_previous_success (anyL lang : L) (beh : Beh D) (rs : List (Reg L)) (d : D)
    (k : Nat) (e : Entry D)
    (hk : (notifyList anyL lang beh (some rs) d).trace[k]? = some e) :
    let T := (notifyList anyL lang beh (some rs) d).trace
    e.inSeen = (((T.take k).reverse.find? (fun x => processedRet x.ret)).map (·.outLeft)).getD d ∧
    e.outSeen = (((T.take k).getLast?).map (·.outLeft)).getD d := by
  intro T
  obtain ⟨h1, _, _⟩ := C17_ran_exactly anyL lang beh rs d
  have hpre : T <+: fullRun beh (matching anyL lang rs) d d := by
    show (notifyList anyL lang beh (some rs) d).trace <+: _
    rw [h1]; exact takeThrough_prefix _ _
  obtain ⟨hF, htake⟩ := prefix_sees hpre k e hk
  have := fullRun_sees beh (matching anyL lang rs) d d k e hF
  rw [htake] at this
  exact this

/-- **C17 (what `notify` leaves in the event).**  `out_data` is what the last call left (the original
`in_data` when nobody ran); `in_data` is what the last call saw, advanced to the `out_data` it left
when it processed the event and did not block. -/
theorem C17_final_data (anyL lang : L) (beh : Beh D) (rs : List (Reg L)) (d : D) :
    let R := notifyList anyL lang beh (some rs) d
    R.outD = ((R.trace.getLast?).map (·.outLeft)).getD d ∧
    R.inD = ((R.trace.getLast?).map finalIn).getD d :=
  loop_final anyL lang beh rs 0 d d (by decide)

/-- **C17 (combined return value).**  The value returned by `notify` is the bitwise union of the
normalised returns of the calls made. -/
theorem C17_flags_are_union (anyL lang : L) (beh : Beh D) (rs : List (Reg L)) (d : D) :
    (notifyList anyL lang beh (some rs) d).flags =
      unionNorm ((notifyList anyL lang beh (some rs) d).trace.map (·.ret)) :=
  loop_flags anyL lang beh rs 0 d d

/-- what a return value contributes: its bits 2, 4, 8, and SUCCESS iff it is non-zero (so bit 16 and
above are dropped, and e.g. a bare STOP_REQUESTERS = 4 contributes 5). -/
theorem C17_norm_closed (r : Nat) :
    norm (some r) = (r &&& 14) ||| (if r = 0 then 0 else 1) := norm_closed r

theorem unionNorm_eq_unionRaw (rets : List (Option Nat))
    (h : ∀ r ∈ rets, documented r = true) : unionNorm rets = unionRaw rets := by
  have key : ∀ a : Nat, rets.foldl (fun a r => a ||| norm r) a =
      rets.foldl (fun a r => a ||| r.getD 0) a := by
    induction rets with
    | nil => intro a; rfl
    | cons r rs ih =>
      intro a
      simp only [List.foldl_cons]
      rw [norm_documented r (h r List.mem_cons_self)]
      exact ih (fun x hx => h x (List.mem_cons_of_mem _ hx)) _
  exact key 0

/-- **C17 (combined return value, documented flags).**  When every handler that ran returned one of
the documented values (UNPROCESSED, or SUCCESS possibly combined with STOP_OTHER_EVENT_HANDLERS,
STOP_REQUESTERS, INTERRUPTION_CALL), the combined value is the plain bitwise union of the returns. -/
theorem C17_flags_union_documented (anyL lang : L) (beh : Beh D) (rs : List (Reg L)) (d : D)
    (h : ∀ e ∈ (notifyList anyL lang beh (some rs) d).trace, documented e.ret = true) :
    (notifyList anyL lang beh (some rs) d).flags =
      unionRaw ((notifyList anyL lang beh (some rs) d).trace.map (·.ret)) := by
  rw [C17_flags_are_union]
  apply unionNorm_eq_unionRaw
  intro r hr
  obtain ⟨e, he, rfl⟩ := List.mem_map.1 hr
  exact h e he

/-- **C17 (combined return value, closed form for arbitrary returns).**  The combined value is the
plain bitwise union of the integer returns restricted to the flags 2, 4, 8, plus SUCCESS iff some
handler that ran returned a non-zero integer. -/
theorem C17_flags_closed_form (anyL lang : L) (beh : Beh D) (rs : List (Reg L)) (d : D) :
    let rets := (notifyList anyL lang beh (some rs) d).trace.map (·.ret)
    (notifyList anyL lang beh (some rs) d).flags =
      (unionRaw rets &&& 14) ||| (anyNonZero rets).toNat := by
  intro rets
  rw [C17_flags_are_union]
  exact unionNorm_closed _

/-- **C17 (only matching handlers run).**  Every call made belongs to a registration of the list
whose language collection contains the event's language or the any-language marker. -/
theorem C17_only_matching_run (anyL lang : L) (beh : Beh D) (rs : List (Reg L)) (d : D) :
    ∀ e ∈ (notifyList anyL lang beh (some rs) d).trace,
      ∃ r ∈ rs, r.h = e.h ∧ (lang ∈ r.langs ∨ anyL ∈ r.langs) := by
  intro e he
  have hpre := (C17_ran_clauses anyL lang beh rs d).1
  have hmem : e.h ∈ (matching anyL lang rs).map (·.h) :=
    hpre.subset (List.mem_map.2 ⟨e, he, rfl⟩)
  obtain ⟨r, hr, hrh⟩ := List.mem_map.1 hmem
  obtain ⟨hr1, hr2⟩ := List.mem_filter.1 hr
  exact ⟨r, hr1, hrh, (C17_matches_iff anyL lang r).1 hr2⟩

/-- **C17 (unknown event).**  For an event that is not a key of the table, `notify` calls nobody,
returns UNPROCESSED and leaves `in_data` (copied to `out_data`); `register` changes nothing (and
warns). -/
theorem C17_unknown_event_noop (anyL lang : L) (beh : Beh D) (t : Table E L) (e : E) (d : D)
    (h : Nat) (la : LangArg L) (hunk : t.get e = none) :
    notify anyL beh t e lang d = { flags := 0, inD := d, outD := d, trace := [] } ∧
    register t e h la = (t, true) := by
  simp [notify, notifyList, register, hunk, UNPROCESSED]

/-- **C17 (registration appends).**  Registering for a known event appends `(langs, handler)` at the
end of that event's list — `str` wrapped into a one-element list, other collections kept — and
leaves every other event's list untouched. -/
theorem C17_register_order (t : Table E L) (e : E) (h : Nat) (la : LangArg L) (v : List (Reg L))
    (hk : t.get e = some v) :
    (register t e h la).1.get e = some (v ++ [{ langs := normLangs la, h := h }]) ∧
    (register t e h la).2 = false ∧
    (∀ e', e' ≠ e → (register t e h la).1.get e' = t.get e') := by
  refine ⟨?_, ?_, ?_⟩
  · rw [get_register, if_pos rfl, hk]; rfl
  · simp [register, hk]
  · intro e' he; rw [get_register, if_neg he]

/-- **C17 (registration order, whole histories).**  After any sequence of registrations starting from
the constructor's table, the list of a known event is the sequence's registrations for that event,
in the order they were made; an unknown event has no list. -/
theorem C17_register_list_order (keys : List E) (xs : List (E × Nat × LangArg L)) (e : E) :
    (registerList (emptyTable keys) xs).get e =
      if e ∈ keys then some ((xs.filter (fun x => x.1 = e)).map regOf) else none := by
  rw [get_registerList, get_emptyTable]
  split <;> simp

/-- **C17 (end to end).**  Register any sequence `xs`, then raise event `e` with language `lang` and
data `d`: if `e` is a known event, the calls are the statement's run over the registrations of `xs`
for `e` that match `lang`, in the order they were registered, cut after the first blocker, and the
return value is the union of the normalised returns; otherwise nothing happens. -/
theorem C17_main (anyL lang : L) (beh : Beh D) (keys : List E) (xs : List (E × Nat × LangArg L))
    (e : E) (d : D) :
    let R := notify anyL beh (registerList (emptyTable keys) xs) e lang d
    let M := matching anyL lang ((xs.filter (fun x => x.1 = e)).map regOf)
    (e ∈ keys →
      R.trace = takeThrough (fun x => blocksRet x.ret) (fullRun beh M d d) ∧
      R.flags = unionNorm (R.trace.map (·.ret))) ∧
    (e ∉ keys → R = { flags := 0, inD := d, outD := d, trace := [] }) := by
  intro R M
  have hget := C17_register_list_order keys xs e
  refine ⟨?_, ?_⟩
  · intro he
    rw [if_pos he] at hget
    have hR : R = notifyList anyL lang beh (some ((xs.filter (fun x => x.1 = e)).map regOf)) d := by
      show notify anyL beh _ e lang d = _
      rw [notify, hget]
    rw [hR]
    exact ⟨(C17_ran_exactly anyL lang beh _ d).1, C17_flags_are_union anyL lang beh _ d⟩
  · intro he
    rw [if_neg he] at hget
    show notify anyL beh _ e lang d = _
    rw [notify, hget]; rfl

/-- the registrations of a history, in order -/
def regsOf : List (Op E L D) → List (E × Nat × LangArg L)
  | [] => []
  | .reg e h la :: ops => (e, h, la) :: regsOf ops
  | .notify _ _ _ :: ops => regsOf ops

/-- **C17 (histories, table).**  Registrations and notifications may be interleaved; the table after a
history is the table after its registrations alone (notifications never change it). -/
theorem C17_history_table (anyL : L) (beh : Beh D) (ops : List (Op E L D)) :
    ∀ t : Table E L, (runOps anyL beh t ops).1 = registerList t (regsOf ops) := by
  induction ops with
  | nil => intro t; rfl
  | cons op ops ih =>
    intro t
    cases op with
    | reg e h la => simp only [runOps, regsOf, registerList]; exact ih _
    | notify e lang d => simp only [runOps, regsOf]; exact ih _

/-- **C17 (histories, notifications).**  A notification inside a history is answered from exactly the
registrations made before it (`C17_main` then says what that answer is): later registrations and
earlier notifications have no influence. -/
theorem C17_history_notify (anyL : L) (beh : Beh D) (pre post : List (Op E L D)) (e : E) (lang : L)
    (d : D) : ∀ t : Table E L,
    (runOps anyL beh t (pre ++ .notify e lang d :: post)).2[pre.length]? =
      some (.notify (notify anyL beh (registerList t (regsOf pre)) e lang d)) := by
  induction pre with
  | nil => intro t; simp [runOps, regsOf, registerList]
  | cons op pre ih =>
    intro t
    cases op with
    | reg e' h la =>
      simp only [List.cons_append, runOps, regsOf, registerList, List.length_cons,
        List.getElem?_cons_succ]
      exact ih _
    | notify e' lang' d' =>
      simp only [List.cons_append, runOps, regsOf, List.length_cons, List.getElem?_cons_succ]
      exact ih _
/-! ### flag algebra of `sync_event_return` -/

/-- normalisation lemma: synchronising is or-ing in the normalised local value, which is < 16 -/
theorem C17_sync_eq (l : Option Nat) (g : Nat) : sync l g = g ||| norm l ∧ norm l < 16 :=
  ⟨sync_eq_or_norm l g, norm_lt l⟩

/-- the finite table: for all local values below 32 (so including one undefined bit) and all
accumulated values below 32, `sync` computes the closed form. -/
theorem C17_sync_table : ∀ l < 32, ∀ g < 32,
    sync (some l) g = g ||| ((l &&& 14) ||| (if l = 0 then 0 else 1)) := by decide +kernel

theorem C17_sync_idem (l : Option Nat) (g : Nat) : sync l (sync l g) = sync l g := by
  simp only [sync_eq_or_norm, Nat.or_assoc, Nat.or_self]

theorem C17_sync_comm (a b : Option Nat) (g : Nat) : sync a (sync b g) = sync b (sync a g) := by
  simp only [sync_eq_or_norm, Nat.or_assoc, Nat.or_comm (norm a)]

/-- monotone: no flag already accumulated is ever lost -/
theorem C17_sync_mono (l : Option Nat) (g : Nat) : g ||| sync l g = sync l g := by
  simp only [sync_eq_or_norm, ← Nat.or_assoc, Nat.or_self]

/-- the accumulated value stays within the four defined flags -/
theorem C17_sync_range (l : Option Nat) (g : Nat) (hg : g < 16) : sync l g < 16 := by
  rw [sync_eq_or_norm]
  exact Nat.or_lt_two_pow (n := 4) hg (norm_lt l)

/-- the accumulated value requests blocking iff it did before or this handler's own return does —
why testing the accumulated value stops at the *first* handler that requests blocking -/
theorem C17_block_test (l : Option Nat) (g : Nat) :
    blocksOthers (sync l g) = (blocksOthers g || blocksRet l) := blocksOthers_sync l g

/-! ### Non-vacuity and quirk witnesses (languages: 0 = "%", 1 = python, 2 = javascript;
handler `h` assigns `out_data = 10 * in_data + h` unless stated otherwise) -/

/-- returns per handler number; handlers 0‥4 assign out_data, handler 5‥ do not -/
def exBeh (rets : List (Option Nat)) : Beh Nat := fun h i o =>
  (rets.getD h (some 0), if h < 5 then 10 * i + h else o)

/-- three matching handlers with a blocker (3 = SUCCESS|STOP_OTHER) in the middle, one non-matching
registration in front: the javascript handler is skipped, the third matching handler never runs, the
second sees the first's out_data, the result is 1 ||| 3. -/
example :
    notifyList 0 1 (exBeh [some 1, some 1, some 3, some 9])
      (some [⟨[2], 0⟩, ⟨[1], 1⟩, ⟨[0], 2⟩, ⟨[1, 2], 3⟩]) 7 =
    { flags := 3, inD := 71, outD := 712,
      trace := [⟨1, 7, 7, some 1, 71⟩, ⟨2, 71, 71, some 3, 712⟩] } := by decide

/-- quirk: a handler returning `None` sets no flag but its out_data is forwarded (`None != 0`) -/
example :
    notifyList 0 1 (exBeh [none, some 0]) (some [⟨[1], 0⟩, ⟨[1], 1⟩]) 7 =
    { flags := 0, inD := 70, outD := 701,
      trace := [⟨0, 7, 7, none, 70⟩, ⟨1, 70, 70, some 0, 701⟩] } := by decide

/-- quirk: an UNPROCESSED handler's out_data is not handed over as in_data, but stays in out_data -/
example :
    notifyList 0 1 (exBeh [some 0, some 1]) (some [⟨[1], 0⟩, ⟨[1], 1⟩]) 7 =
    { flags := 1, inD := 71, outD := 71,
      trace := [⟨0, 7, 7, some 0, 70⟩, ⟨1, 7, 70, some 1, 71⟩] } := by decide

/-- quirk: bit 16 is dropped, a bare STOP_REQUESTERS (4) comes back as 5 -/
example : sync (some 16) 0 = 1 ∧ sync (some 4) 0 = 5 ∧ sync (some 20) 2 = 7 ∧ sync none 6 = 6 := by
  decide

/-- registration order end to end: two events, an unknown event (9), `str` / set / list forms -/
example :
    (notify 0 (exBeh [some 1, some 1, some 1, some 1])
      (registerList (emptyTable [1, 2])
        [(1, 0, .str 1), (9, 1, .other [0]), (2, 2, .other [0]), (1, 3, .set [2, 0]), (1, 1, .other [2])])
      1 1 5).trace.map (·.h) = [0, 3] := by decide

example : documented (some 0) = true ∧ documented (some 11) = true ∧ documented (some 4) = false ∧
    documented none = false := by decide

end LianVerif.C17
