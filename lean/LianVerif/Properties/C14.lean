/-
C14 — Analysis output is a deterministic function of the input.

Only property theorems, non-vacuity examples and negative witnesses live here.
Models: LianVerif/Model/Determinism.lean (every Python `set` iteration is an explicit list parameter:
"the elements in the order this interpreter produced").  Determinism of a site = its result does not
depend on that order.

What these theorems are NOT: a proof that lian as a whole is deterministic.  They cover the sites
listed below, one by one; the whole-run claim (identical files for every hash seed, repetition and
workspace location) is only monitored, by the seed sweep of harness/lv/c14.py.  Byte identity of
feather files is not expressible here (pyarrow) and is compared empirically.
-/
import LianVerif.Proofs.Determinism
import LianVerif.Properties.C19

namespace LianVerif.C14
open LianVerif.Determinism List

/-! ### 1. `StmtStates.map_arguments` (core/stmt_states.py) — live code, after the two repairs -/

/-- **C14 (parameter mapping).** The list of parameter mappings that `map_arguments` produces — and
with it the rows exported to `callee_parameter_mapping_p*.bundle*` and the order in which
`apply_parameter_mapping` later creates states — does not depend on
* the iteration order of the `rest_parameters` set (`all₁ ~ all₂`),
* the iteration order of each keyword argument's set of `Argument`s (`NamedRel`),
* the iteration order of the callee's `parameter_symbol_ids` set, over which the code runs a
  first-match-`break` loop (`d₁ ~ d₂`),
provided the sort keys are injective on those sets: parameter positions are pairwise distinct
(`prepare_parameters` numbers them with a counter), the `index_in_space` of the states of one keyword
argument are pairwise distinct (they are elements of a set of indexes), and no parameter symbol has two
entries in `parameter_symbol_ids`.  The three hypotheses are monitored on every harvested call.
The positional-argument sets are the same lists on both sides: their `Argument.__hash__` only involves
ints and the empty string, which do not depend on the hash seed (monitored as well). -/
theorem C14_perm_param_mapping (c : Consts)
    (positional : List Param) (packedPos packedNamed : Option Param) (posArgs : List (List Arg))
    {all₁ all₂ : List Param} {named₁ named₂ : List (String × List Arg)} {d₁ d₂ : List (Int × Int)}
    (hall : all₁ ~ all₂) (hpos : (all₁.map Param.position).Nodup)
    (hnamed : NamedRel named₁ named₂)
    (hd : d₁ ~ d₂) (hdk : (d₁.map Prod.fst).Nodup) :
    mapArgs c ⟨all₁, positional, packedPos, packedNamed, posArgs, named₁, d₁⟩ =
    mapArgs c ⟨all₂, positional, packedPos, packedNamed, posArgs, named₂, d₂⟩ := by
  have h0 : RestRel all₁ all₂ := ⟨hall, hpos⟩
  unfold mapArgs mapArgsWith
  -- stage 1: the positional loop
  have h1 := positionalLoop_perm c
    (posArgs.take (min posArgs.length positional.length))
    (positional.take (min posArgs.length positional.length)) all₁ all₂ [] h0
  simp only [stage1]
  generalize positionalLoop c (posArgs.take (min posArgs.length positional.length))
    (positional.take (min posArgs.length positional.length)) all₁ [] = s₁ at h1 ⊢
  generalize positionalLoop c (posArgs.take (min posArgs.length positional.length))
    (positional.take (min posArgs.length positional.length)) all₂ [] = s₂ at h1 ⊢
  obtain ⟨r₁, o₁⟩ := s₁
  obtain ⟨r₂, o₂⟩ := s₂
  obtain ⟨hr1, he1⟩ := h1
  simp only at hr1 he1
  subst he1
  -- stage 2: keyword arguments / *args
  have h2 : RestRel
      (stage2 sortArgs c ⟨all₁, positional, packedPos, packedNamed, posArgs, named₁, d₁⟩ (r₁, o₁)).1
      (stage2 sortArgs c ⟨all₂, positional, packedPos, packedNamed, posArgs, named₂, d₂⟩ (r₂, o₁)).1 ∧
      (stage2 sortArgs c ⟨all₁, positional, packedPos, packedNamed, posArgs, named₁, d₁⟩ (r₁, o₁)).2 =
      (stage2 sortArgs c ⟨all₂, positional, packedPos, packedNamed, posArgs, named₂, d₂⟩ (r₂, o₁)).2 := by
    simp only [stage2]
    rw [← hnamed.isEmpty_eq]
    split
    · split
      · exact namedLoop_perm c (positional.drop (min posArgs.length positional.length)) hnamed
          r₁ r₂ [] o₁ hr1
      · exact ⟨hr1, rfl⟩
    · split
      · cases packedPos with
        | none => exact ⟨hr1, rfl⟩
        | some pp =>
          have := packedPosLoop_perm c pp (posArgs.drop (min posArgs.length positional.length)) 0 r₁ r₂ o₁ hr1
          exact ⟨this.1, by simp only []; rw [this.2]⟩
      · exact ⟨hr1, rfl⟩
  generalize stage2 sortArgs c ⟨all₁, positional, packedPos, packedNamed, posArgs, named₁, d₁⟩ (r₁, o₁) = t₁ at h2 ⊢
  generalize stage2 sortArgs c ⟨all₂, positional, packedPos, packedNamed, posArgs, named₂, d₂⟩ (r₂, o₁) = t₂ at h2 ⊢
  obtain ⟨u₁, m₁, q₁⟩ := t₁
  obtain ⟨u₂, m₂, q₂⟩ := t₂
  obtain ⟨hr2, he2⟩ := h2
  simp only at hr2 he2
  obtain ⟨hm, hq⟩ := Prod.mk.inj he2
  subst hm; subst hq
  -- stage 3: **kwargs
  have h3 : RestRel
      (stage3 sortArgs c ⟨all₁, positional, packedPos, packedNamed, posArgs, named₁, d₁⟩ (u₁, m₁, q₁)).1
      (stage3 sortArgs c ⟨all₂, positional, packedPos, packedNamed, posArgs, named₂, d₂⟩ (u₂, m₁, q₁)).1 ∧
      (stage3 sortArgs c ⟨all₁, positional, packedPos, packedNamed, posArgs, named₁, d₁⟩ (u₁, m₁, q₁)).2 =
      (stage3 sortArgs c ⟨all₂, positional, packedPos, packedNamed, posArgs, named₂, d₂⟩ (u₂, m₁, q₁)).2 := by
    simp only [stage3]
    cases packedNamed with
    | none => exact ⟨hr2, rfl⟩
    | some pn => exact packedNamedLoop_perm c pn hnamed u₁ u₂ m₁ q₁ hr2
  -- the defaults of the parameters that received nothing
  show (stage3 sortArgs c _ _).2 ++ defaultsLoop c d₁ (sortParams (stage3 sortArgs c _ _).1) =
       (stage3 sortArgs c _ _).2 ++ defaultsLoop c d₂ (sortParams (stage3 sortArgs c _ _).1)
  rw [h3.2, defaultsLoop_perm c hdk hd h3.1]

/-- **C14 (first-match `break` over a set).** `for pair in parameter_symbol_ids: if pair[0] == sym:
default = pair[1]; break` returns the same default for every iteration order of the set when no
parameter symbol has two entries ("all candidates give the same result": there is at most one). -/
theorem C14_perm_default_lookup {d₁ d₂ : List (Int × Int)} (hk : (d₁.map Prod.fst).Nodup) (h : d₁ ~ d₂)
    (sym : Int) : lookupDefault d₁ sym = lookupDefault d₂ sym :=
  lookupDefault_perm hk h sym

/-! ### 2. `StmtStates.require_stmt_state` — live code -/

/-- **C14 (require).** The order in which the REQUIRED_MODULE states are created does not depend on the
iteration order of the set of state indexes of the required name (indexes are pairwise distinct). -/
theorem C14_perm_require_values {s₁ s₂ : List (Int × String)} (hk : (s₁.map Prod.fst).Nodup) (h : s₁ ~ s₂) :
    requireValues s₁ = requireValues s₂ := by
  unfold requireValues
  rw [sortBy_eq_of_perm Prod.fst hk h]

/-! ### 2b. `typescript_parser.Parser.array` — live code -/

/-- **C14 (array literal types).** The live code iterates no set: `data_type` is a function of the
element list alone.  What the theorem adds is that the repair changed only the ORDER: the list has no
duplicates and exactly the members of the set the pinned code built. -/
theorem C14_array_types_same_set (elementTypes : List String) :
    (arrayTypes elementTypes).Nodup ∧ ∀ t, t ∈ arrayTypes elementTypes ↔ t ∈ elementTypes := by
  refine ⟨nodup_dedupFirst elementTypes [] List.nodup_nil, ?_⟩
  intro t
  rw [arrayTypes, mem_dedupFirst]
  simp

/-! ### 2c. `GIRParser.parse`: which units are extern mock code — live code -/

/-- **C14 (workspace location).** Whether a unit is preprocessed as extern mock code does not depend on the
unit's path, hence not on where the workspace lies: the live code consults the `is_extern` flag only.
(The statement is immediate from the model; its content is that the model — checked against the code on
every harvested `parse` call — takes no path.) -/
theorem C14_mock_unit_location_independent (isExtern : Bool) (path₁ path₂ : String) :
    mockUnit isExtern path₁ = mockUnit isExtern path₂ := rfl

/-! ### 2d. `ModuleSymbolsBuilder`: original path of a unit — live code -/

/-- **C14 (form of the workspace path).** The source path recorded for a scanned unit depends on the entry only
through its real path: the same workspace directory given to -w as a relative or as an absolute path yields
the same `original_path`. -/
theorem C14_original_path_form_independent (table : List (String × String)) (realpath : String → String)
    {p₁ p₂ : String} (h : realpath p₁ = realpath p₂) :
    originalPath table realpath p₁ = originalPath table realpath p₂ := by
  unfold originalPath; rw [h]

/-! ### 3. `GeneralLoader.convert_active_bundle_to_dataframe` -/

/-- **C14 (bundle export).** The rows of an exported bundle do not depend on the order in which the items
were saved, because the keys are sorted — provided the comparison key is injective on the saved items
(always true for int and tuple keys, which are dict keys; for `CallSite` keys the comparison ignores the
callee, see `C14_bundle_export_tie_follows_save_order`). -/
theorem C14_perm_bundle_export {ρ : Type} (cmpKey : List Int → List Int)
    {items₁ items₂ : List (List Int × List ρ)}
    (hinj : ∀ a ∈ items₁, ∀ b ∈ items₁, cmpKey a.1 = cmpKey b.1 → a = b)
    (h : items₁ ~ items₂) :
    bundleExport cmpKey items₁ = bundleExport cmpKey items₂ := by
  unfold bundleExport
  congr 2
  refine sortLe_eq_of_perm ?_ ?_ ?_ h
  · intro a b c; exact lexLe_trans _ _ _
  · intro a b; exact lexLe_total _ _
  · intro a ha b hb hab hba
    exact hinj a ha b hb (lexLe_antisymm _ _ hab hba)

/-! ### 4. the call-path store under an add-only batch (corollary of C19) -/

open LianVerif.PathStore LianVerif.MaxPaths LianVerif.C19 in
/-- **C14 (call-path store).** After an add-only batch, the SET of stored call paths does not depend on
the order of the batch.  Corollary of `C19_add_only_maximal`: the stored paths are the maximal valid added
paths, a notion that only mentions membership. -/
theorem C14_perm_pathstore {α : Type} [DecidableEq α] (valid : α → Bool) {ops₁ ops₂ : List (Op α)}
    (h : ops₁ ~ ops₂) (hadd : addOnly ops₁ = true) :
    ∀ p, p ∈ (run (step valid) Store.empty ops₁).1.terms ↔ p ∈ (run (step valid) Store.empty ops₂).1.terms := by
  have hao : ∀ (o : List (Op α)), addOnly o = true ↔ ∀ op ∈ o, ∀ p, op ≠ Op.remove p := by
    intro o
    induction o with
    | nil => simp [addOnly]
    | cons x xs ih =>
      cases x with
      | add p => simp only [addOnly, ih, mem_cons, forall_eq_or_imp]; simp
      | exist p => simp only [addOnly, ih, mem_cons, forall_eq_or_imp]; simp
      | remove p =>
        simp only [addOnly, mem_cons, forall_eq_or_imp]
        constructor
        · intro hf; exact absurd hf (by simp)
        · intro hf; exact absurd rfl (hf.1 p)
  have hva : ∀ (o : List (Op α)) (q : List α),
      q ∈ validAdded valid o ↔ (Op.add q ∈ o ∧ q.all valid = true) := by
    intro o q
    induction o with
    | nil => simp [validAdded]
    | cons x xs ih =>
      cases x with
      | add p =>
        simp only [validAdded, mem_cons, Op.add.injEq]
        split
        · rename_i hv
          rw [mem_cons, ih]
          constructor
          · rintro (rfl | ⟨h1, h2⟩)
            · exact ⟨Or.inl rfl, hv⟩
            · exact ⟨Or.inr h1, h2⟩
          · rintro ⟨rfl | h1, h2⟩
            · exact Or.inl rfl
            · exact Or.inr ⟨h1, h2⟩
        · rename_i hv
          rw [ih]
          constructor
          · rintro ⟨h1, h2⟩; exact ⟨Or.inr h1, h2⟩
          · rintro ⟨rfl | h1, h2⟩
            · exact absurd h2 hv
            · exact ⟨h1, h2⟩
      | remove p => simp only [validAdded, ih, mem_cons]; simp
      | exist p => simp only [validAdded, ih, mem_cons]; simp
  have hadd₂ : addOnly ops₂ = true := by
    rw [hao] at hadd ⊢
    intro op hop; exact hadd op (h.mem_iff.2 hop)
  have hmem : ∀ q, q ∈ validAdded valid ops₁ ↔ q ∈ validAdded valid ops₂ := by
    intro q; rw [hva, hva, h.mem_iff]
  intro p
  rw [C19_add_only_maximal valid ops₁ hadd p, C19_add_only_maximal valid ops₂ hadd₂ p]
  have hmax : maximalIn (validAdded valid ops₁) p = maximalIn (validAdded valid ops₂) p := by
    have : ∀ X Y : List (List α), (∀ q, q ∈ X ↔ q ∈ Y) →
        X.any (fun q => strictPrefix p q) = Y.any (fun q => strictPrefix p q) := by
      intro X Y hXY
      rw [Bool.eq_iff_iff, any_eq_true, any_eq_true]
      constructor
      · rintro ⟨q, hq, hs⟩; exact ⟨q, (hXY q).1 hq, hs⟩
      · rintro ⟨q, hq, hs⟩; exact ⟨q, (hXY q).2 hq, hs⟩
    simp only [maximalIn, this _ _ hmem]
  rw [hmem p, hmax]

/-! ### 5. module / unit ids come from one counter advanced in scan order -/

mutual
  def entrySize : Entry → Nat
    | .file _ => 1
    | .dir _ cs => 1 + entriesSize cs
  def entriesSize : List Entry → Nat
    | [] => 0
    | e :: es => entrySize e + entriesSize es
end

mutual
  theorem numberEntry_spec (parent next : Nat) : ∀ (e : Entry),
      (numberEntry parent next e).1 = next + entrySize e ∧
      (numberEntry parent next e).2.map (fun r => r.1) = List.range' next (entrySize e)
    | .file name => by simp [numberEntry, entrySize]
    | .dir name cs => by
      have ih := numberEntries_spec next (next + 1) cs
      simp only [numberEntry, entrySize]
      refine ⟨by rw [ih.1]; omega, ?_⟩
      rw [map_cons, ih.2, Nat.add_comm 1, List.range'_succ]
  theorem numberEntries_spec (parent next : Nat) : ∀ (es : List Entry),
      (numberEntries parent next es).1 = next + entriesSize es ∧
      (numberEntries parent next es).2.map (fun r => r.1) = List.range' next (entriesSize es)
    | [] => by simp [numberEntries, entriesSize]
    | e :: es => by
      have h1 := numberEntry_spec parent next e
      have h2 := numberEntries_spec parent (numberEntry parent next e).1 es
      simp only [numberEntries, entriesSize]
      refine ⟨by rw [h2.1, h1.1]; omega, ?_⟩
      rw [map_append, h1.2, h2.2, h1.1, List.range'_append_1]
end

/-- **C14 (ids from counters).** The module/unit ids handed out by `ModuleSymbolsBuilder` are, in emission
order, exactly `start, start+1, …`: the id of an entry is `start` + its position in the depth-first scan.
So ids are a function of the LIST of entries the file system returned (names, hashes of names and file
contents play no role) — and of nothing else.  The scan order itself (`os.scandir`) is an input of the
model: hypothesis `SameUnitOrder` of the whole-run claim, monitored by comparing `frontend/module_symbols`
across runs (see also `C14_ids_depend_on_scan_order`). -/
theorem C14_ids_from_counters (start : Nat) (src externs : List Entry) :
    (numberModules start src externs).map (fun r => r.1) =
      List.range' start (entriesSize src + entriesSize externs) := by
  have h1 := numberEntries_spec 0 start src
  have h2 := numberEntries_spec 0 (numberEntries 0 start src).1 externs
  simp only [numberModules]
  rw [map_append, h1.2, h2.2, h1.1, List.range'_append_1]

/-! ### Non-vacuity -/

def kc : Consts := { parameterDecl := "%parameter_decl", packedPositional := "%packed_pos_pmt",
                     packedNamed := "%packed_named_pmt", arrayElement := 12, fieldElement := 10 }

/-- `def f(a, b=1, c=2)` called as `f(x)`: parameters b and c are left to their defaults -/
def pa : Param := ⟨0, "a", 10⟩
def pb : Param := ⟨1, "b", 11⟩
def pc : Param := ⟨2, "c", 12⟩
def argX : Arg := ⟨5, 50, 7, "[]"⟩
def inRest (order : List Param) : MapIn :=
  { allParams := order, positional := [pa, pb, pc], packedPositional := none, packedNamed := none,
    posArgs := [[argX]], namedArgs := [], defaults := [(11, 21), (12, 22), (10, 0)] }

example : (mapArgs kc (inRest [pa, pb, pc])).length = 3 ∧
    mapArgs kc (inRest [pc, pa, pb]) = mapArgs kc (inRest [pa, pb, pc]) ∧
    (mapArgs kc (inRest [pc, pa, pb])).map (fun m => (m.paramSymbolId, m.argStateId, m.isDefault)) =
      [(10, 50, false), (11, 21, true), (12, 22, true)] := by decide

/-- `f(x, b=m)` where `m` has two states (indexes 8 and 9) -/
def argM1 : Arg := ⟨8, 80, 3, "[]"⟩
def argM2 : Arg := ⟨9, 90, 3, "[]"⟩
def inNamed (order : List Arg) : MapIn :=
  { allParams := [pa, pb, pc], positional := [pa, pb, pc], packedPositional := none, packedNamed := none,
    posArgs := [[argX]], namedArgs := [("b", order)], defaults := [(11, 21), (12, 22), (10, 0)] }

example : mapArgs kc (inNamed [argM2, argM1]) = mapArgs kc (inNamed [argM1, argM2]) ∧
    (mapArgs kc (inNamed [argM2, argM1])).map (fun m => (m.paramSymbolId, m.argIndexInSpace)) =
      [(10, 5), (11, 8), (11, 9), (12, -1)] := by decide

example : requireValues [(7, "b.php"), (3, "a.php"), (5, "b.php"), (9, "")] = ["a.php", "b.php"] := by decide

example : bundleExport id [([3], ["r3"]), ([1], ["r1a", "r1b"]), ([2], [])] = ["r1a", "r1b", "r3"] := by decide

example : numberModules 100 [.dir "proj" [.file "a.py", .dir "pkg" [.file "m.py"]]] [.file "ext.py"] =
    [(100, "proj", 0, false), (101, "a.py", 100, true), (102, "pkg", 100, false), (103, "m.py", 102, true),
     (104, "ext.py", 0, true)] := by decide

open LianVerif.PathStore LianVerif.C19 in
example : (run (step vNat) Store.empty [.add [1], .add [1, 2], .add [3]]).1.terms = [[1, 2], [3]] ∧
    (run (step vNat) Store.empty [.add [3], .add [1, 2], .add [1]]).1.terms = [[3], [1, 2]] ∧
    addOnly [Op.add [1], .add [1, 2], .add [3]] = true := by decide

/-! ### Negative results -/

/-- **Pinned commit, site 1** (frozen model `mapArgs0`): a call that leaves two parameters to their
defaults — two iteration orders of the `rest_parameters` set give different mapping lists. -/
theorem C14_unfixed_counterexample_rest_params :
    mapArgs0 kc (inRest [pa, pb, pc]) ≠ mapArgs0 kc (inRest [pa, pc, pb]) := by decide

/-- **Pinned commit, site 2**: a keyword argument with two states — two iteration orders of its
`Argument` set give different mapping lists (also after the first repair alone: `mapArgs1`). -/
theorem C14_unfixed_counterexample_named_args :
    mapArgs0 kc (inNamed [argM1, argM2]) ≠ mapArgs0 kc (inNamed [argM2, argM1]) ∧
    mapArgs1 kc (inNamed [argM1, argM2]) ≠ mapArgs1 kc (inNamed [argM2, argM1]) := by decide

/-- **Pinned commit, site 3**: `require_values` is a set of strings; the states are created in its
iteration order. -/
theorem C14_unfixed_counterexample_require :
    requireValues0 ["uno.php", "dos.php"] ≠ requireValues0 ["dos.php", "uno.php"] := by decide

/-- **Pinned commit, site 4**: the element types of a TypeScript array literal came out in the iteration
order of a set of strings. -/
theorem C14_unfixed_counterexample_array_types :
    arrayTypes0 ["number", "string"] ≠ arrayTypes0 ["string", "number"] := by decide

example : arrayTypes ["number", "string", "number", "identifier"] = ["number", "string", "identifier"] := by decide

/-- **Pinned commit, site 5**: the same user source `proj/a.py`, analysed into the workspace `w` and into the
workspace `a/lian_workspace/externs/w`: only the second is taken for extern mock code (and rewritten by
`replace_percent_symbol_in_mock`). -/
theorem C14_unfixed_counterexample_mock_location :
    mockUnit0 "lian_workspace/externs" "w/lian_workspace/src/proj/a.py" = false ∧
    mockUnit0 "lian_workspace/externs" "a/lian_workspace/externs/w/src/proj/a.py" = true := by decide

/-- **Pinned commit, site 6**: workspace `w` given as a relative path — the scanned entry `w/…/a.py` is not a
key of the table (keyed by real paths), the unit loses its source; given as an absolute path it is found. -/
theorem C14_unfixed_counterexample_relative_workspace :
    originalPath0 [("/r/w/lian_workspace/src/proj/a.py", "/in/proj/a.py")] "w/lian_workspace/src/proj/a.py" = "" ∧
    originalPath0 [("/r/w/lian_workspace/src/proj/a.py", "/in/proj/a.py")] "/r/w/lian_workspace/src/proj/a.py"
      = "/in/proj/a.py" := by decide

/-- **Live code, not order-independent** (monitored, no failing input known): `CallSite.__lt__` compares
(caller_id, call_stmt_id) only, so two call sites of one call statement with different callees are not
ordered by `sorted(keys)` and their blocks are exported in SAVE order. -/
theorem C14_bundle_export_tie_follows_save_order :
    bundleExport callSiteKey [([1, 5, 20], ["to20"]), ([1, 5, 30], ["to30"])] ≠
    bundleExport callSiteKey [([1, 5, 30], ["to30"]), ([1, 5, 20], ["to20"])] := by decide

/-- **Live code, not order-independent** (monitored, no failing input known): `CallPathLoader.export`
numbers the rows by enumerating a set.  The elements hash ints only, so CPython's iteration order is a
function of the insertion history and does not depend on the hash seed — the code itself sorts nothing. -/
theorem C14_call_path_rows_follow_iteration_order :
    callPathRows ["p", "q"] ≠ callPathRows ["q", "p"] ∧
    (callPathRows ["p", "q"]).map Prod.snd ~ (callPathRows ["q", "p"]).map Prod.snd := by
  refine ⟨by decide, ?_⟩
  show ["p", "q"] ~ ["q", "p"]
  exact Perm.swap _ _ _

/-- **The scan order is an input**: the same two files returned by the file system in the other order
get the other ids (hypothesis `SameUnitOrder` is necessary). -/
theorem C14_ids_depend_on_scan_order :
    numberModules 100 [.file "a.py", .file "b.py"] [] ≠ numberModules 100 [.file "b.py", .file "a.py"] [] := by
  decide

end LianVerif.C14
