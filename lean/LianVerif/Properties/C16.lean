/-
C16 — Table queries always reflect the table's current contents.

Only property theorems, non-vacuity examples and negative witnesses live here.
Model: LianVerif/Model/Table.lean (`current` = code in /repo now, `pinned` = pinned commit, frozen),
       LianVerif/Model/Frame.lean (pandas reference definitions, trusted base).
Spec:  LianVerif/Spec/Scan.lean (the table is its frame; every query is a scan).
-/
import LianVerif.Proofs.Table
import LianVerif.Proofs.TableAlias
import LianVerif.Proofs.ScanWF
import LianVerif.Proofs.BlockView

namespace LianVerif.C16
open LianVerif.Table LianVerif.Scan

/-- both table objects of a world satisfy the representation invariant -/
def WConsistent (w : World) : Prop :=
  Consistent w.cur ∧ ∀ o, w.other = some o → Consistent o

/-- forget the caches -/
def frames (w : World) : SWorld := { cur := w.cur.data, other := w.other.map T.data }

theorem stepW_refines {w : World} (h : WConsistent w) (op : WOp) :
    frames (stepW current w op).1 = (specStepW (frames w) op).1 ∧
    (stepW current w op).2 = (specStepW (frames w) op).2 ∧
    WConsistent (stepW current w op).1 := by
  obtain ⟨hc, ho⟩ := h
  cases op with
  | on op enter =>
    obtain ⟨h1, h2, h3, h4, h5⟩ := step_refines hc op
    simp only [stepW, specStepW, frames]
    rcases hs : step current w.cur op with ⟨t', out, child⟩
    rcases hs' : specStep w.cur.data op with ⟨f', out', child'⟩
    rw [hs, hs'] at h1 h3 h4
    rw [hs] at h2 h5
    simp only at h1 h2 h3 h4 h5
    subst h1; subst h3; subst h4
    cases child with
    | none => refine ⟨?_, ?_, h2, ho⟩ <;> first | rfl | trivial
    | some c =>
      cases enter with
      | true =>
        refine ⟨?_, ?_, h5 c rfl, ?_⟩
        · first | rfl | trivial
        · first | rfl | trivial
        · intro o hoo; cases hoo; exact h2
      | false => refine ⟨?_, ?_, h2, ho⟩ <;> first | rfl | trivial
  | swap =>
    simp only [stepW, specStepW, frames]
    cases hw : w.other with
    | none => simp only [Option.map]; exact ⟨by simp [hw], by first | rfl | trivial, hc, by simp [hw]⟩
    | some o =>
      refine ⟨rfl, rfl, ho o hw, ?_⟩
      intro x hx; cases hx; exact hc
  | appendOther =>
    simp only [stepW, specStepW, frames]
    cases hw : w.other with
    | none => simp only [Option.map]; exact ⟨by simp [hw], by first | rfl | trivial, hc, by simp [hw]⟩
    | some o =>
      obtain ⟨h1, h2, h3, _, _⟩ := step_refines hc (.append o.data)
      simp only [Option.map]
      rcases hs : step current w.cur (.append o.data) with ⟨t', out, child⟩
      rcases hs' : specStep w.cur.data (.append o.data) with ⟨f', out', child'⟩
      rw [hs, hs'] at h1 h3
      rw [hs] at h2
      simp only at h1 h2 h3
      subst h1; subst h3
      refine ⟨by simp, rfl, h2, ?_⟩
      intro x hx; exact ho x (by simpa [hw] using hx)

theorem run_refines (ops : List WOp) :
    ∀ (w : World), WConsistent w →
      (run current w ops).2 = (specRun (frames w) ops).2 ∧
      frames (run current w ops).1 = (specRun (frames w) ops).1 ∧
      WConsistent (run current w ops).1 := by
  induction ops with
  | nil => intro w h; exact ⟨rfl, rfl, h⟩
  | cons op ops ih =>
    intro w h
    obtain ⟨h1, h2, h3⟩ := stepW_refines h op
    obtain ⟨i1, i2, i3⟩ := ih (stepW current w op).1 h3
    simp only [run, specRun]
    rw [h1] at i1 i2
    refine ⟨?_, i2, i3⟩
    rw [i1, h2]
    have : (stepW current w op).1.cur.data = (specStepW (frames w) op).1.cur := by
      have := congrArg SWorld.cur h1; simpa [frames] using this
    rw [this]

theorem init_consistent (c : Ctor) : WConsistent (init current c) ∧ frames (init current c) = specInit c := by
  cases c with
  | rows cs rs reset =>
    refine ⟨⟨consistent_construct _ _, by simp [init]⟩, ?_⟩
    simp only [init, frames, specInit, construct_data, Scan.resetIf]; rfl
  | dicts ds =>
    refine ⟨⟨consistent_construct _ _, by simp [init]⟩, ?_⟩
    simp [init, frames, specInit, construct_data, Scan.resetIf]
  | frame f reset =>
    refine ⟨⟨consistent_construct _ _, by simp [init]⟩, ?_⟩
    simp only [init, frames, specInit, construct_data, Scan.resetIf]; rfl
  | load f =>
    refine ⟨⟨consistent_loadT _, by simp [init]⟩, ?_⟩
    simp [init, frames, specInit, loadT_data]

/-- **C16 (refinement).** For every constructor and every sequence of public `DataModel` calls
(queries, mutations, derived tables that become the table under test, switching between a table and
the table it was derived from, appending one to the other) the repaired `DataModel` returns, call by
call, exactly what a scan of the current frame returns, and holds after every call exactly the frame
the reference semantics prescribes. -/
theorem C16_refines (c : Ctor) (ops : List WOp) :
    (run current (init current c) ops).2 = (specRun (specInit c) ops).2 := by
  obtain ⟨hc, hf⟩ := init_consistent c
  rw [← hf]
  exact (run_refines ops _ hc).1

/-- every reachable state satisfies the cache invariant -/
theorem C16_reachable_consistent (c : Ctor) (ops : List WOp) :
    WConsistent (run current (init current c) ops).1 :=
  (run_refines ops _ (init_consistent c).1).2.2

/-! ### positions are valid -/

theorem column_length {f : Frame} {c : String} {col : List Cell} (h : f.column c = some col) :
    col.length = f.rows.length := by
  unfold Frame.column at h
  cases hp : f.colPos c with
  | none => simp [hp] at h
  | some p => simp [hp] at h; rw [← h]; simp

theorem scan_lt {col : List Cell} {v : Cell} {p : Nat} (h : p ∈ scanFrom 0 col v) : p < col.length := by
  have := (mem_scanFrom (s := 0)).1 h
  simpa using this.2.1

theorem specQuery_lt {f : Frame} {c : String} {v : Cell} {l : List Nat} (h : Scan.queryIdx f c v = .ok l) :
    ∀ p ∈ l, p < f.rows.length := by
  unfold Scan.queryIdx at h
  by_cases hv : v.isna = true
  · simp [hv] at h; subst h; simp
  · simp only [hv, Bool.false_eq_true, if_false] at h
    cases hc : f.column c with
    | none => simp [hc] at h
    | some col =>
      simp only [hc, Except.ok.injEq] at h
      subst h
      intro p hp
      rw [← column_length hc]; exact scan_lt hp

/-- **C16 (positions are valid).** In every reachable state, whatever positions the equality query or
the block-boundary query returns are positions of the current table. -/
theorem C16_positions_valid (c : Ctor) (ops : List WOp) (col : String) (v : Cell) :
    let t := (run current (init current c) ops).1.cur
    (∀ l, (step current t (.queryIdx col v)).2.1 = .positions l → ∀ p ∈ l, p < t.data.rows.length) ∧
    (∀ l, (step current t (.searchBlock v)).2.1 = .positions l → ∀ p ∈ l, p < t.data.rows.length) := by
  intro t
  have hc : Consistent t := (C16_reachable_consistent c ops).1
  constructor
  · intro l hl
    rw [(step_refines hc (.queryIdx col v)).2.2.1] at hl
    simp only [specStep] at hl
    cases hq : Scan.queryIdx t.data col v with
    | error e => simp [hq] at hl
    | ok l' =>
      simp only [hq, Out.positions.injEq] at hl
      subst hl; exact specQuery_lt hq
  · intro l hl
    rw [(step_refines hc (.searchBlock v)).2.2.1] at hl
    simp only [specStep, Scan.searchBlock] at hl
    by_cases hv : v.isna = true
    · simp [hv] at hl
    · simp only [hv, Bool.false_eq_true, if_false] at hl
      cases hq : Scan.queryIdx t.data "stmt_id" v with
      | error e => simp [hq] at hl
      | ok l' =>
        simp only [hq, Out.positions.injEq] at hl
        subst hl; exact specQuery_lt hq

theorem ilocTake_isSome {f : Frame} {l : List Nat} (h : ∀ p ∈ l, p < f.rows.length) :
    (f.ilocTake l).isSome = true := by
  unfold Frame.ilocTake
  have : l.all (fun p => decide (p < f.nrows)) = true := by
    simp only [List.all_eq_true, decide_eq_true_eq]; exact h
  simp [this]

/-- **C16 (no stale position ever reaches `iloc`).** In every reachable state the table-valued and
the first-row equality queries never fail with `IndexError` (which is how the stale index of the
pinned commit shows up in `query_index_column_value`). -/
theorem C16_query_never_out_of_range (c : Ctor) (ops : List WOp) (col : String) (v : Cell) :
    let t := (run current (init current c) ops).1.cur
    (step current t (.queryTable col v)).2.1 ≠ .err .index ∧
    (step current t (.queryFirst col v)).2.1 ≠ .err .index := by
  intro t
  have hc : Consistent t := (C16_reachable_consistent c ops).1
  rw [(step_refines hc (.queryTable col v)).2.2.1, (step_refines hc (.queryFirst col v)).2.2.1]
  simp only [specStep]
  cases hq : Scan.queryIdx t.data col v with
  | error e =>
    have : e = .quit := by
      unfold Scan.queryIdx at hq
      by_cases hv : v.isna = true
      · simp [hv] at hq
      · simp only [hv, Bool.false_eq_true, if_false] at hq
        cases hcol : t.data.column col with
        | none => simp [hcol] at hq; exact hq.symm
        | some x => simp [hcol] at hq
    subst this
    exact ⟨by simp, by simp⟩
  | ok l =>
    have hl := specQuery_lt hq
    cases l with
    | nil => exact ⟨by simp, by simp⟩
    | cons p ps =>
      constructor
      · have := ilocTake_isSome hl
        cases hi : t.data.ilocTake (p :: ps) with
        | none => simp [hi] at this
        | some g => simp [hi]
      · have hp : p < t.data.rows.length := hl p (by simp)
        have : t.data.rows[p]? = some (t.data.rows[p]) := List.getElem?_eq_getElem hp
        simp [this]

/-! ### frames stay rectangular; the totalised row accessors never take their error branch -/

/-- **C16 (frames stay well-formed).** From a rectangular constructor argument, the frame after every
call has one label per row and every row as wide as the header. -/
theorem C16_frames_wellformed (c : Ctor) (hc : CtorWF c) (ops : List WOp) :
    ∀ o ∈ (run current (init current c) ops).2, o.2.WF := by
  rw [C16_refines]
  exact (specRun_wf ops _ (specInit_wf hc)).2

theorem reachable_wf (c : Ctor) (hc : CtorWF c) (ops : List WOp) :
    (run current (init current c) ops).1.cur.data.WF := by
  obtain ⟨hi, hf⟩ := init_consistent c
  have h := (run_refines ops _ hi).2.1
  rw [hf] at h
  have hw := (specRun_wf ops _ (specInit_wf hc)).1.1
  rw [← h] at hw
  exact hw

theorem rowAt_ok {f : Frame} (h : f.WF) (i : Int) : ∃ r, Scan.rowAt f i = .ok r := by
  unfold Scan.rowAt
  by_cases hi : 0 ≤ i ∧ i < f.rows.length
  · simp only [hi, and_self, if_true]
    have : i.toNat < f.labels.length := by rw [h.1]; omega
    rw [List.getElem?_eq_getElem this]
    exact ⟨_, rfl⟩
  · simp only [hi, if_false]; exact ⟨_, rfl⟩

theorem rowsAt_ok {f : Frame} (h : f.WF) (is : List Int) : ∃ l, Scan.rowsAt f is = .ok l := by
  induction is with
  | nil => exact ⟨[], rfl⟩
  | cons i is ih =>
    obtain ⟨r, hr⟩ := rowAt_ok h i
    obtain ⟨l, hl⟩ := ih
    exact ⟨r :: l, by simp [Scan.rowsAt, hr, hl]⟩

/-- **C16 (every row has its label).** In every state reachable from a rectangular constructor
argument, access by position, by a list of positions and iteration never end in the `IndexError`
branch that the model's totalised `index[counter]` lookup carries: the refinement theorem is not true
"for the wrong reason" there. -/
theorem C16_rows_have_labels (c : Ctor) (hc : CtorWF c) (ops : List WOp) (i : Int) (is : List Int) :
    let t := (run current (init current c) ops).1.cur
    (∀ e, (step current t (.accessPos i)).2.1 ≠ .err e) ∧
    (∀ e, (step current t (.accessList is)).2.1 ≠ .err e) ∧
    (∀ e, (step current t .iter).2.1 ≠ .err e) := by
  intro t
  have hcons : Consistent t := (C16_reachable_consistent c ops).1
  have hw : t.data.WF := reachable_wf c hc ops
  rw [(step_refines hcons (.accessPos i)).2.2.1, (step_refines hcons (.accessList is)).2.2.1,
    (step_refines hcons .iter).2.2.1]
  simp only [specStep]
  obtain ⟨r, hr⟩ := rowAt_ok hw i
  obtain ⟨l, hl⟩ := rowsAt_ok hw is
  obtain ⟨l', hl'⟩ := rowsAt_ok hw ((List.range t.data.rows.length).map Int.ofNat)
  rw [hr, hl, hl']
  refine ⟨?_, by simp, by simp⟩
  cases r <;> simp

/-! ### blocks -/

theorem clampBound_le {n : Nat} {a : Nat} (h : a ≤ n) : Frame.clampBound n (Int.ofNat a) = a := by
  unfold Frame.clampBound
  have h0 : ¬ ((Int.ofNat a) < 0) := by simp
  rw [if_neg h0]
  simp [Nat.min_eq_left h]

/-- **C16 (a block is what lies between its two markers).** In every reachable state, for a usable
block id: `read_block` returns a table iff a scan of the `stmt_id` column finds the id at exactly two
positions `p < …q`, the table consists of exactly the rows strictly between them (with their labels),
and otherwise the call ends in `error_and_quit`. -/
theorem C16_block_two_markers (c : Ctor) (ops : List WOp) (id : Cell) (col : List Cell)
    (hid : id.isna = false) :
    let t := (run current (init current c) ops).1.cur
    t.data.column "stmt_id" = some col →
    (step current t (.readBlock id false)).2.1 =
      (match scanFrom 0 col id with
       | [p, q] => .frame { t.data with labels := (t.data.labels.drop (p + 1)).take (q - (p + 1)),
                                        rows := (t.data.rows.drop (p + 1)).take (q - (p + 1)) }
       | _ => .err .quit) := by
  intro t hcol
  have hc : Consistent t := (C16_reachable_consistent c ops).1
  rw [(step_refines hc (.readBlock id false)).2.2.1]
  have hq : Scan.queryIdx t.data "stmt_id" id = .ok (scanFrom 0 col id) := by
    simp [Scan.queryIdx, hid, hcol]
  have hlt := specQuery_lt hq
  simp only [specStep, Scan.searchBlock, hid, Bool.false_eq_true, if_false, hq]
  rcases hs : scanFrom 0 col id with _ | ⟨p, _ | ⟨q, _ | ⟨x, xs⟩⟩⟩
  · rfl
  · rfl
  · rw [hs] at hlt
    have hp : p < t.data.rows.length := hlt p (by simp)
    have hq' : q < t.data.rows.length := hlt q (by simp)
    simp only [Scan.resetIf, Bool.false_eq_true, if_false, Frame.ilocSlice, Frame.nrows]
    have e1 : (Int.ofNat p + 1) = Int.ofNat (p + 1) := by simp
    rw [e1, clampBound_le (by omega : p + 1 ≤ t.data.rows.length),
      clampBound_le (by omega : q ≤ t.data.rows.length)]
  · rfl

/-! ### `GIRBlockViewer`: the block geometry recorded by the constructor is what a scan finds -/

section Viewer
open LianVerif.BlockView

/-- **C16 (viewer: a block range is the pair of scan positions of its id).** Whenever the constructor
of `GIRBlockViewer` accepts a statement list, `_block_id_to_range[id] = (p, q)` holds exactly when a
scan of the statement ids finds `id` at the two positions `p, q` and nowhere else. -/
theorem C16_viewer_range_iff_scan {stmts : List Stmt} {s : St} (h : build stmts = .ok s)
    (id : Int) (p q : Nat) :
    lookupRange s.ranges id = some (p, q) ↔ occ stmts id = [p, q] := by
  obtain ⟨inv, _⟩ := build_inv h
  exact ⟨fun hl => (inv.range id p q hl).1, inv.closed id p q⟩

/-- … and those two positions hold the block's `block_start` and `block_end`, in that order. -/
theorem C16_viewer_range_markers {stmts : List Stmt} {s : St} (h : build stmts = .ok s)
    {id : Int} {p q : Nat} (hl : lookupRange s.ranges id = some (p, q)) :
    p < q ∧ stmts[p]? = some ⟨Kind.start, id⟩ ∧ stmts[q]? = some ⟨Kind.fin, id⟩ := by
  obtain ⟨inv, _⟩ := build_inv h
  obtain ⟨a, b, c⟩ := inv.range id p q hl
  exact ⟨occ_pair_lt a, b, c⟩

/-- every id that is not a recorded block occurs at most once (the duplicate check is complete), and
no id occurs more than twice -/
theorem C16_viewer_other_ids_unique {stmts : List Stmt} {s : St} (h : build stmts = .ok s) (id : Int)
    (hl : lookupRange s.ranges id = none) : (occ stmts id).length ≤ 1 := by
  obtain ⟨inv, _⟩ := build_inv h
  have h2 := inv.two id
  rcases ho : occ stmts id with _ | ⟨p, _ | ⟨q, _ | ⟨x, xs⟩⟩⟩
  · simp
  · simp
  · rw [inv.closed id p q ho] at hl; exact absurd hl (by simp)
  · rw [ho] at h2; simp at h2

/-- **C16 (viewer: `read_block` from the root shows the statements strictly between the markers).** -/
theorem C16_viewer_read_block {stmts : List Stmt} {s : St} (h : build stmts = .ok s) (id : Int) :
    (match occ stmts id with
     | [p, q] => readBlock s (root s) id = some ((p : Int), (q : Int)) ∧
                 visible stmts ((p : Int), (q : Int)) = (stmts.drop (p + 1)).take (q - (p + 1))
     | _ => readBlock s (root s) id = none) := by
  obtain ⟨inv, _⟩ := build_inv h
  rcases ho : occ stmts id with _ | ⟨p, _ | ⟨q, _ | ⟨x, xs⟩⟩⟩
  · have : lookupRange s.ranges id = none := by
      cases hl : lookupRange s.ranges id with
      | none => rfl
      | some pq => have := (inv.range id pq.1 pq.2 hl).1; rw [ho] at this; simp at this
    simp [readBlock, this]
  · have : lookupRange s.ranges id = none := by
      cases hl : lookupRange s.ranges id with
      | none => rfl
      | some pq => have := (inv.range id pq.1 pq.2 hl).1; rw [ho] at this; simp at this
    simp [readBlock, this]
  · have hl := inv.closed id p q ho
    obtain ⟨_, _, hq⟩ := inv.range id p q hl
    have hqn : q < s.n := by
      rw [inv.n]
      by_cases hq' : q < stmts.length
      · exact hq'
      · rw [List.getElem?_eq_none (by omega)] at hq; exact absurd hq (by simp)
    refine ⟨?_, ?_⟩
    · simp only [readBlock, hl, root]
      have : (-1 : Int) < (p : Int) ∧ (q : Int) < (s.n : Int) := ⟨by omega, by omega⟩
      simp [this]
    · simp only [visible]
      have e1 : ((p : Int) + 1).toNat = p + 1 := by omega
      have e2 : ((q : Int) - ((p : Int) + 1)).toNat = q - (p + 1) := by omega
      rw [e1, e2]
  · have := inv.two id; rw [ho] at this; simp at this

/-- the first-index map (`_stmt_id_to_index`, behind `get_stmt_by_id`, `contains_stmt_id`, `__contains__`)
holds for every id the first position a scan finds, and nothing for ids that do not occur -/
theorem C16_viewer_first_index_is_scan {stmts : List Stmt} {s : St} (h : build stmts = .ok s) (id : Int) :
    (lookupFirst s.first id).map (fun e => e.1) = (occ stmts id).head? := by
  obtain ⟨inv, _⟩ := build_inv h
  cases hl : lookupFirst s.first id with
  | none => rw [(inv.firstNone id).1 hl]; rfl
  | some e =>
    obtain ⟨i, k⟩ := e
    obtain ⟨⟨t, ht⟩, _⟩ := inv.firstSome id i k hl
    rw [ht]; rfl

/-- **C16 (viewer: `append_other` re-roots the receiver).**  Whatever the receiver was — a root, a
block view, a copy — a successful `append_other` makes it a root viewer (window `(-1, n)`) over
exactly the statements the two viewers showed, with the block geometry of a fresh constructor run on
that list (so the scan theorems above apply to it); a refused one leaves the receiver as it was. -/
theorem C16_viewer_append_reroots (v o : Viewer) :
    (∀ v', Viewer.appendOther true v o = (v', none) →
      v'.coll = v.visible ++ o.visible ∧ v'.range = (-1, (v'.coll.length : Int)) ∧
      (v'.coll = [] ∧ v'.st = St.init ∨ build (v'.coll.map (fun s => s.core)) = .ok v'.st)) ∧
    (∀ v' e, Viewer.appendOther true v o = (v', some e) → v' = v) := by
  unfold Viewer.appendOther Viewer.ofList
  constructor
  · intro v' hv
    by_cases he : (v.visible ++ o.visible).isEmpty = true
    · simp only [he, if_true, Prod.mk.injEq, and_true] at hv
      subst hv
      have : v.visible ++ o.visible = [] := by simpa using he
      exact ⟨this.symm ▸ rfl, rfl, Or.inl ⟨rfl, rfl⟩⟩
    · simp only [he, Bool.false_eq_true, if_false] at hv
      cases hb : build ((v.visible ++ o.visible).map (fun s => s.core)) with
      | ok s =>
        simp only [hb, Prod.mk.injEq, and_true] at hv
        subst hv
        exact ⟨rfl, rfl, Or.inr hb⟩
      | error e => rw [hb] at hv; simp at hv
  · intro v' e hv
    by_cases he : (v.visible ++ o.visible).isEmpty = true
    · simp [he] at hv
    · simp only [he, Bool.false_eq_true, if_false] at hv
      cases hb : build ((v.visible ++ o.visible).map (fun s => s.core)) with
      | ok s => rw [hb] at hv; simp at hv
      | error e' =>
        simp only [hb, if_true, Prod.mk.injEq] at hv
        exact hv.1.symm

def vs (l : List (Kind × Int)) : List VStmt :=
  (l.zip (List.range l.length)).map (fun x => { core := ⟨x.1.1, x.1.2⟩, uid := x.2, tag := 0, label := x.2 })

/-- `d1 [2 d3 [4 x5 4] 2] d6 [7 7]` -/
def unit0 : List VStmt :=
  vs [(.other, 1), (.start, 2), (.other, 3), (.start, 4), (.other, 5), (.fin, 4), (.fin, 2), (.other, 6),
      (.start, 7), (.fin, 7)]

/-- non-vacuity of `C16_viewer_append_reroots`: a block view appended with an empty viewer becomes a
root over its four statements, positions now count from 0 -/
example :
    (stepV true ((stepV true ((stepV true ((stepV true [] (.new unit0)).1) (.read 0 (some 2))).1) .empty).1)
        (.append 1 2)).1[1]?.map (fun v => (v.range, v.len, (v.stmtByPos 0).map (fun s => s.core.id),
          v.blockStmtIds (some 4), v.boundary [some 4, some 2]))
      = some ((-1, 4), 4, some 3, [5], 3) := by decide

/-- **the pinned commit violates it** (frozen variant `atomic = false`): a block view appended with its
own root is refused (`duplicate stmt_id`), and the receiver is left showing nothing while
`get_block_stmt_ids` / `boundary_of_multi_blocks` still answer from the half-built geometry.  The
repaired variant leaves the receiver untouched. -/
theorem C16_unfixed_counterexample_viewer_append :
    let slots := (stepV false ((stepV false [] (.new unit0)).1) (.read 0 (some 2))).1
    let after0 := stepV false slots (.append 1 0)
    let after1 := stepV true slots (.append 1 0)
    after0.2 = .err .dup ∧
    after0.1[1]?.map (fun v => (v.len, v.blockStmtIds (some 4), v.boundary [some 4])) = some (0, [5], 3) ∧
    after1.2 = .err .dup ∧ after1.1 = slots := by decide

def okOf (r : Except BErr St) : Option St := match r with | .ok s => some s | .error _ => none
def errOf (r : Except BErr St) : Option BErr := match r with | .ok _ => none | .error e => some e

/-- non-vacuity: a nested pair of blocks is accepted and read back; malformed lists are refused -/
example :
    (okOf (build [⟨.other, 1⟩, ⟨.start, 2⟩, ⟨.start, 3⟩, ⟨.other, 4⟩, ⟨.fin, 3⟩, ⟨.fin, 2⟩])).map
      (fun s => (readBlock s (root s) 2, readBlock s (root s) 3, readBlock s (1, 5) 3, readBlock s (2, 4) 2))
      = some (some (1, 5), some (2, 4), some (2, 4), none) ∧
    errOf (build [⟨.start, 2⟩, ⟨.fin, 2⟩, ⟨.fin, 2⟩]) = some .noStart ∧
    errOf (build [⟨.other, 1⟩, ⟨.other, 1⟩]) = some .dup ∧
    errOf (build [⟨.start, 1⟩, ⟨.start, 2⟩, ⟨.fin, 1⟩]) = some .mismatch ∧
    errOf (build [⟨.start, 1⟩]) = some .unclosed := by decide

end Viewer

/-! ### `DataModel(other_model)`: two wrappers over one frame -/

theorem runD_query (ops : List (Bool × Op)) (f : Frame) :
    ∀ (d : Duo) (sd : SDuo), DInv d f → SInv sd f → (∀ o ∈ ops, o.2.isQuery = true) →
      (runD current d ops).2 = (specRunD sd ops).2 := by
  induction ops with
  | nil => intro d sd _ _ _; rfl
  | cons o ops ih =>
    intro d sd hd hs hq
    obtain ⟨who, op⟩ := o
    have hqo : op.isQuery = true := hq (who, op) (by simp)
    obtain ⟨d1, d2⟩ := stepD_query hd who hqo
    obtain ⟨s1, s2, s3⟩ := specStepD_query hs who hqo
    have ih' := ih (stepD current d who op).1 (specStepD sd who op).1 d1 s1
      (fun o ho => hq o (List.mem_cons_of_mem _ ho))
    simp only [runD, specRunD]
    rw [ih', d2, s2, s3, (view_consistent d1 who).2]

/-- **C16 for a `DataModel` built from another `DataModel` — PARTIAL.**  Take any reachable table,
construct a second wrapper from it (`DataModel(t)`: shared DataFrame object, shared rows cache, shared
index dict, separate dirty flags) and call any sequence of *non-mutating* methods on the two wrappers
in any interleaving: every answer is the answer of a scan of the shared frame.

-- OPEN (not proved, and false for the code as it is — see `C16_alias_counterexample`):
-- the same statement without the hypothesis `hq`, i.e. with mutations after the sharing
--   theorem C16_shared_caches (c pre ops) :
--     (runD current (Duo.share t) ops).2 = (specRunD (SDuo.share t.data) ops).2
-- Finding C16/alias-shared-dataframe; that production code never gets there is monitored, not proved. -/
theorem C16_shared_caches_partial (c : Ctor) (pre : List WOp) (ops : List (Bool × Op))
    (hq : ∀ o ∈ ops, o.2.isQuery = true) :
    let t := (run current (init current c) pre).1.cur
    (runD current (Duo.share t) ops).2 = (specRunD (SDuo.share t.data) ops).2 := by
  intro t
  have hc : Consistent t := (C16_reachable_consistent c pre).1
  exact runD_query ops t.data _ _ (dinv_share hc) ⟨rfl, rfl⟩ hq

/-! ### Non-vacuity: concrete histories with duplicates, missing values, stale-prone shapes -/

def tbl : Ctor := .rows ["a", "b"] [[.int 1, .str "x"], [.int 2, .str "y"], [.int 1, .str "z"]] false

example : ((run current (init current tbl)
    [.on (.queryIdx "a" (.int 1)) false, .on (.removeRows "a" (.int 1)) false,
     .on (.queryIdx "a" (.int 1)) false, .on (.queryIdx "a" (.int 2)) false, .on .len false]).2.map (·.1))
    = [.positions [0, 2], .unit, .positions [], .positions [0], .int 1] := by decide

example : ((run current (init current (.rows ["stmt_id", "b"]
      [[.int 1, .str "d"], [.int 2, .str ""], [.int 3, .none], [.int 2, .str "e"]] false))
    [.on (.readBlock (.int 2) false) true, .on .iter false, .swap,
     .on (.modifyElement 2 "b" (.str "q") false) false, .on (.queryIdx "b" (.str "q")) false]).2.map (·.1))
    = [.frame { cols := ["stmt_id", "b"], labels := [2], rows := [[.int 3, .none]] },
       .rows [some { cells := [.int 3, .none], schema := ["stmt_id", "b"], index := 2 }],
       .unit, .unit, .positions [2]] := by decide

/-! ### The pinned commit (frozen variant `pinned`) violates the property -/

/-- the reproduced defect: query, remove rows, same query — the index of the old contents answers,
with position 2 on a table that has one row left. -/
theorem C16_unfixed_counterexample :
    let ops : List WOp := [.on (.queryIdx "a" (.int 1)) false, .on (.removeRows "a" (.int 1)) false,
                           .on (.queryIdx "a" (.int 1)) false]
    (run pinned (init pinned tbl) ops).2 ≠ (specRun (specInit tbl) ops).2 ∧
    ((run pinned (init pinned tbl) ops).2.map (·.1)) = [.positions [0, 2], .unit, .positions [0, 2]] ∧
    (run pinned (init pinned tbl) ops).1.cur.data.rows.length = 1 := by decide

/-- same defect through `modify_element` and through `append_data_model` -/
theorem C16_unfixed_counterexample_modify_append :
    (run pinned (init pinned tbl) [.on (.queryIdx "a" (.int 1)) false,
        .on (.modifyElement 0 "a" (.int 5) false) false, .on (.queryIdx "a" (.int 1)) false]).2
      ≠ (specRun (specInit tbl) [.on (.queryIdx "a" (.int 1)) false,
        .on (.modifyElement 0 "a" (.int 5) false) false, .on (.queryIdx "a" (.int 1)) false]).2 ∧
    (run pinned (init pinned tbl) [.on (.queryIdx "a" (.int 1)) false,
        .on (.append (Frame.ofRows ["a", "b"] [[.int 1, .str "w"]])) false, .on (.queryIdx "a" (.int 1)) false]).2
      ≠ (specRun (specInit tbl) [.on (.queryIdx "a" (.int 1)) false,
        .on (.append (Frame.ofRows ["a", "b"] [[.int 1, .str "w"]])) false, .on (.queryIdx "a" (.int 1)) false]).2 := by
  decide

/-- the stale positions reach `iloc`: `query_index_column_value` raises `IndexError` -/
theorem C16_unfixed_counterexample_index_error :
    ((run pinned (init pinned tbl) [.on (.queryIdx "a" (.int 1)) false, .on (.removeRows "a" (.int 1)) false,
        .on (.queryTable "a" (.int 1)) false]).2.map (·.1)).getLast? = some (.err .index) := by decide

def tbl3 : Ctor := .rows ["a", "b", "c"] [[.int 1, .str "x", .int 3], [.int 2, .str "y", .int 4]] false

/-- `modify_row` refused by pandas at the second column: the first column is already written, the
rows cache is not invalidated. -/
theorem C16_unfixed_counterexample_partial_row :
    let ops : List WOp := [.on (.accessPos 0) false,
                           .on (.modifyRow 0 [.int 7, .int 8, .int 9] (some 1)) false, .on (.accessPos 0) false]
    (run pinned (init pinned tbl3) ops).2 ≠ (specRun (specInit tbl3) ops).2 := by decide

/-- `modify_element` for a new label refused by pandas: the all-NaN row is already appended. -/
theorem C16_unfixed_counterexample_partial_element :
    let ops : List WOp := [.on .iter false, .on (.modifyElement 7 "a" (.str "q") true) false, .on .iter false]
    (run pinned (init pinned tbl) ops).2 ≠ (specRun (specInit tbl) ops).2 := by decide

def tblm : Ctor := .rows ["a", "m"] [[.int 1, .str "x"], [.none, .int 1], [.int 2, .none]] false

/-- `fillna` without invalidation -/
theorem C16_unfixed_counterexample_fillna :
    let ops : List WOp := [.on (.queryIdx "a" (.int 0)) false, .on .iter false, .on (.fillna (.int 0)) false,
                           .on (.queryIdx "a" (.int 0)) false, .on (.accessPos 1) false]
    (run pinned (init pinned tblm) ops).2 ≠ (specRun (specInit tblm) ops).2 := by decide

/-- `set_columns` keeps the old schema: rows answer to the old names, the new names are unknown -/
theorem C16_unfixed_counterexample_set_columns :
    let ops : List WOp := [.on (.setColumns ["p", "q"]) false, .on (.accessPos 0) false,
                           .on (.queryIdx "p" (.int 1)) false]
    (run pinned (init pinned tbl) ops).2 ≠ (specRun (specInit tbl) ops).2 := by decide

/-- `reset_index(move_index_to_column=True)` keeps schema and rows of the old layout -/
theorem C16_unfixed_counterexample_reset_move :
    let ops : List WOp := [.on (.resetIndex true) false, .on (.accessPos 0) false]
    (run pinned (init pinned tbl) ops).2 ≠ (specRun (specInit tbl) ops).2 := by decide


/-! ### The code as it is now still violates the property under aliasing (open finding) -/

/-- `A = DataModel(rows); list(A); B = DataModel(A); B.modify_element(0, "a", 9); A.access(0)`:
`A` answers from its rows cache of the old contents although `A._data` holds 9.  This is the `current`
variant: the repairs above do not remove it. -/
theorem C16_alias_counterexample :
    let t := (run current (init current tbl) [.on .iter false]).1.cur
    let ops : List (Bool × Op) := [(true, .modifyElement 0 "a" (.int 9) false), (false, .accessPos 0),
                                    (true, .queryIdx "a" (.int 1)), (false, .queryIdx "a" (.int 9))]
    (runD current (Duo.share t) ops).2 ≠ (specRunD (SDuo.share t.data) ops).2 ∧
    ((runD current (Duo.share t) ops).2.map (·.1)) =
      [.unit, .row { cells := [.int 1, .str "x"], schema := ["a", "b"], index := 0 },
       .positions [2], .positions [0]] := by decide

/-- non-vacuity of `C16_shared_caches_partial`: queries on both wrappers, the index built through one
is used by the other -/
example :
    let t := (run current (init current tbl) [.on (.queryIdx "a" (.int 1)) false]).1.cur
    ((runD current (Duo.share t) [(true, .queryIdx "a" (.int 2)), (false, .iter), (true, .accessPos 2),
        (false, .queryIdx "b" (.str "z"))]).2.map (·.1)) =
      [.positions [1],
       .rows [some { cells := [.int 1, .str "x"], schema := ["a", "b"], index := 0 },
              some { cells := [.int 2, .str "y"], schema := ["a", "b"], index := 1 },
              some { cells := [.int 1, .str "z"], schema := ["a", "b"], index := 2 }],
       .row { cells := [.int 1, .str "z"], schema := ["a", "b"], index := 2 },
       .positions [2]] := by decide

end LianVerif.C16
