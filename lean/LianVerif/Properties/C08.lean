/-
C08 — Abstract values cover every value a variable actually takes; literal text is only data.

Only property theorems, non-vacuity examples and negative witnesses live here.
Models: LianVerif/Model/Fold.lean (`fold`, `binStates` = constant folding of /repo now; `fold0`,
        `binStates0` = pinned commit, frozen), LianVerif/Model/Aref.lean (reference abstract interpreter).
Specs:  LianVerif/Spec/PyStrLit.lean (Python literals / tiny expressions), LianVerif/Spec/Collect.lean
        (concrete collecting semantics).
-/
import LianVerif.Proofs.PyStrLit
import LianVerif.Proofs.Fold
import LianVerif.Proofs.ArefExact

namespace LianVerif.C08
open LianVerif.PyStrLit LianVerif.Fold LianVerif.Aref LianVerif.Collect LianVerif.ArefProofs LianVerif.FoldProofs

/-! ## Literal text is only data (constant folding) -/

/-- What the folded state of two string constants must be when the literal text is only data: Python's
operator applied to the two strings.  No text is built or lexed here. (`%` is refused by the size guard;
a raising operation stores the pseudo-value `s1 op s2` exactly as the code does.) -/
def strFoldSpec (o : Op) (s1 s2 : Str) : Out :=
  if o = .mod then .none
  else
    match pyBinop o (.str s1) (.str s2) with
    | .ok v => if oversized v then .none else if avail (PyVal.toObj v) then .state v .string else .none
    | .err =>
      if oversized (.str (s1 ++ (o.text ++ s2))) then .none else .state (.str (s1 ++ (o.text ++ s2))) .string
    | .unmodelled => .unmodelled

/-- **C08 (literal is data), current code, ALL strings.**  For every two non-empty Python strings —
whatever quotes, backslashes, line breaks, operator characters, `#`, digits or non-printable code
points they contain — and every `isprintable` predicate, the state `compute_two_states` produces is
the one determined by the string *data* alone: the evaluated text `repr(s1) op repr(s2)` is read back
as exactly the two strings. -/
theorem C08_literal_is_data (P : Ch → Bool) (opText : String) (o : Op) (ho : Op.ofString opText = some o)
    (s1 s2 : Str) (h1 : s1 ≠ []) (h2 : s2 ≠ []) (v1 : Valid s1) (v2 : Valid s2) :
    fold P opText ⟨.str s1, .string⟩ ⟨.str s2, .string⟩ = strFoldSpec o s1 s2 := by
  have e1 : s1.isEmpty = false := by cases s1 <;> simp_all
  have e2 : s2.isEmpty = false := by cases s2 <;> simp_all
  have ht := pyEval_strText P o s1 s2 h1 h2 v1 v2
  unfold strText at ht
  unfold fold strFoldSpec
  simp only [avail, e1, e2, isBuiltin, ho, pyStr, unprintable, tooLarge, fallback, sp]
  by_cases hm : o = .mod
  · subst hm; simp
  · have hb : (o == Op.mod) = false := by cases o <;> simp_all
    simp only [List.cons_append, List.append_assoc, List.nil_append] at ht
    simp [hb, hm, ht]
    generalize pyBinop o (PyVal.str s1) (PyVal.str s2) = r
    cases r <;> rfl

/-- concatenation: the folded value of `s1 + s2` is exactly the concatenation. -/
theorem C08_concat_is_concat (P : Ch → Bool) (s1 s2 : Str) (h1 : s1 ≠ []) (h2 : s2 ≠ [])
    (v1 : Valid s1) (v2 : Valid s2) (hlen : (s1 ++ s2).length ≤ maxStrLen) :
    fold P "+" ⟨.str s1, .string⟩ ⟨.str s2, .string⟩ = .state (.str (s1 ++ s2)) .string := by
  rw [C08_literal_is_data P "+" .add rfl s1 s2 h1 h2 v1 v2]
  have hne : (s1 ++ s2).isEmpty = false := by cases s1 <;> simp_all
  have hlen' : s1.length + s2.length ≤ maxStrLen := by simpa using hlen
  simp [strFoldSpec, pyBinop, oversized, avail, PyVal.toObj, hne]
  omega



/-- what the folded state of two integer constants must be when their text is only data: the size guard
(a function of the two numbers), then Python's operator on the two numbers. -/
def intFoldSpec (o : Op) (a b : Int) : Out :=
  match tooLarge o (.int a) (.int b) false with
  | none => .unmodelled
  | some true => .none
  | some false =>
    match pyBinop o (.int a) (.int b) with
    | .ok v => if oversized v then .none else if avail (PyVal.toObj v) then .state v .int else .none
    | .err =>
      if oversized (.str (intStr a ++ (o.text ++ intStr b))) then .none
      else .state (.str (intStr a ++ (o.text ++ intStr b))) .string
    | .unmodelled => .unmodelled

/-- **integer operands, ALL integers.**  The text `(str(a)) op (str(b))` the code evaluates is read back as
exactly the two numbers (decimal printing followed by lexing is the identity; a negative operand stays one
operand thanks to the parentheses): the stored state is determined by the numbers alone. -/
theorem C08_int_text_is_data (P : Ch → Bool) (opText : String) (o : Op) (ho : Op.ofString opText = some o)
    (a b : Int) :
    fold P opText ⟨.int a, .int⟩ ⟨.int b, .int⟩ = intFoldSpec o a b := by
  have ht := pyEval_intText o a b
  unfold intText at ht
  unfold fold intFoldSpec
  simp only [avail, isBuiltin, ho, pyStr, fallback, sp]
  simp only [Bool.and_self, Bool.not_true, Bool.false_eq_true, if_false, reduceCtorEq, or_self, decide_false, Bool.or_self]
  cases hg : tooLarge o (Obj.int a) (Obj.int b) false with
  | none => rfl
  | some t =>
    cases t with
    | true => rfl
    | false =>
      have hov : overLimit (.int a) = false ∧ overLimit (.int b) = false := by
        unfold tooLarge at hg
        by_cases hc : (overLimit (.int a) || overLimit (.int b)) = true
        · simp [hc] at hg
        · simpa using hc
      simp only [not_unprintable_of_not_overLimit _ hov.1, not_unprintable_of_not_overLimit _ hov.2,
        Bool.or_self, Bool.false_eq_true, if_false]
      simp only [List.cons_append, List.append_assoc, List.nil_append] at ht ⊢
      rw [ht]
      generalize pyBinop o (PyVal.int a) (PyVal.int b) = r
      cases r <;> rfl

/-- **integer constants are covered:** when Python's operation on the two numbers has a value, the fold either
refuses (the defined symbol then gets an unknown state) or stores exactly that value. -/
theorem C08_int_fold_covers (P : Ch → Bool) (opText : String) (o : Op) (ho : Op.ofString opText = some o)
    (a b : Int) (v : PyVal) (hv : pyBinop o (.int a) (.int b) = .ok v) :
    fold P opText ⟨.int a, .int⟩ ⟨.int b, .int⟩ = .none ∨
    fold P opText ⟨.int a, .int⟩ ⟨.int b, .int⟩ = .state v .int := by
  rw [C08_int_text_is_data P opText o ho a b]
  unfold intFoldSpec
  cases hg : tooLarge o (Obj.int a) (Obj.int b) false with
  | none => exact absurd hg (tooLarge_int_some o a b)
  | some t =>
    cases t with
    | true => exact Or.inl rfl
    | false =>
      simp only [hv, int_result_avail o a b v hv, if_true]
      by_cases hov : oversized v = true
      · left; simp [hov]
      · right; simp [hov]

example : fold asciiPrintable "-" ⟨.int 3, .int⟩ ⟨.int 5, .int⟩ = .state (.int (-2)) .int := by decide +kernel

/-- non-vacuity, and the witness of the repaired finding: `" + "x` followed by `b`. -/
def wQuote : Str := [34, 32, 43, 32, 34, 120]

example : fold asciiPrintable "+" ⟨.str wQuote, .string⟩ ⟨.str [98], .string⟩ = .state (.str (wQuote ++ [98])) .string :=
  C08_concat_is_concat asciiPrintable wQuote [98] (by decide) (by decide)
    (by intro c hc; simp [wQuote] at hc; omega) (by intro c hc; simp at hc; omega) (by decide)

/-- **Pinned commit, partial.**  The pinned code re-quoted operands with `f'"{v}"'`: the literal is data only
for strings without a double quote, backslash or line break (and when the first is not all digits). -/
theorem C08_literal_is_data_pinned_partial (opText : String) (o : Op) (ho : Op.ofString opText = some o)
    (s1 s2 : Str) (h1 : s1 ≠ []) (h2 : s2 ≠ []) (p1 : Plain s1) (p2 : Plain s2)
    (hd : isdigit? s1 = some false) :
    fold0 opText ⟨.str s1, .string⟩ ⟨.str s2, .string⟩ =
      match pyBinop o (.str s1) (.str s2) with
      | .ok v => if truthy (PyVal.toObj v) then .state v .string else .none
      | .err => .state (.str (s1 ++ (o.text ++ s2))) .string
      | .unmodelled => .unmodelled := by
  have e1 : s1.isEmpty = false := by cases s1 <;> simp_all
  have e2 : s2.isEmpty = false := by cases s2 <;> simp_all
  have ht := pyEval_strText0 o s1 s2 h1 h2 p1 p2
  unfold strText0 at ht
  simp only [List.cons_append, List.append_assoc, List.nil_append] at ht
  unfold fold0
  simp [truthy, e1, e2, isBuiltin, ho, pyStr, unprintable, isString0, hd, fallback, sp, ht]
  generalize pyBinop o (PyVal.str s1) (PyVal.str s2) = r
  cases r <;> rfl

/-! ### negative theorems on the frozen model (each witness is in corpus/C08 and replayed on the real code) -/

/-- quote break-out: `a = '" + "x'; b = a + 'b'` folded to `xb`. -/
theorem C08_quote_breaks_out :
    fold0 "+" ⟨.str wQuote, .string⟩ ⟨.str [98], .string⟩ = .state (.str [120, 98]) .string := by decide

/-- `"12" + "3"` folded to the integer 15. -/
theorem C08_unfixed_digit_strings_are_numbers :
    fold0 "+" ⟨.str [49, 50], .string⟩ ⟨.str [51], .string⟩ = .state (.int 15) .int ∧
    fold asciiPrintable "+" ⟨.str [49, 50], .string⟩ ⟨.str [51], .string⟩ = .state (.str [49, 50, 51]) .string := by
  decide +kernel

/-- `b = 3 - 5; c = b ** 2`: the text `-2 ** 2` evaluates to -4; the repaired code folds 4. -/
theorem C08_unfixed_negative_pow_precedence :
    fold0 "**" ⟨.int (-2), .int⟩ ⟨.str [50], .int⟩ = .state (.int (-4)) .int ∧
    fold asciiPrintable "**" ⟨.int (-2), .int⟩ ⟨.str [50], .int⟩ = .state (.int 4) .int := by decide +kernel

/-- no size guard: the pinned code stores a 4301-digit constant (`10 ** 4300`) … -/
theorem C08_fold_unbounded :
    fold0 "**" ⟨.str [49, 48], .int⟩ ⟨.str [52, 51, 48, 48], .int⟩ = .state (.int (10 ^ 4300)) .int := by
  decide +kernel

/-- … and the next use of that constant raises inside `compute_two_states` (f-string of an int above the
4300-digit limit, outside the `try`): the analysis run aborts.  The repaired code refuses the first fold. -/
theorem C08_unfixed_fold_crashes :
    fold0 "+" ⟨.int (10 ^ 4300), .int⟩ ⟨.str [49], .int⟩ = .crash ∧
    fold asciiPrintable "**" ⟨.str [49, 48], .int⟩ ⟨.str [52, 51, 48, 48], .int⟩ = .none := by decide +kernel

/-- **current code: every stored constant is below the size limits.** -/
theorem C08_fold_bounded (P : Ch → Bool) (opText : String) (s1 s2 : St) (v : PyVal) (dt : DT)
    (h : fold P opText s1 s2 = .state v dt) : oversized v = false := by
  unfold fold at h
  simp only at h
  repeat' (split at h)
  all_goals first
    | (simp only [Out.state.injEq] at h; obtain ⟨hv, _⟩ := h; subst hv; simp_all)
    | (simp at h)

/-- **current code: no constant of the analysed program makes `compute_two_states` raise.** -/
theorem C08_fold_never_crashes (P : Ch → Bool) (opText : String) (s1 s2 : St) :
    fold P opText s1 s2 ≠ .crash := by
  unfold fold
  split
  · simp
  · split
    · simp
    · split
      · simp
      · simp only
        cases ht : tooLarge _ s1.val s2.val _ with
        | none => simp
        | some b =>
          cases b with
          | true => simp
          | false =>
            have hov : overLimit s1.val = false ∧ overLimit s2.val = false := by
              unfold tooLarge at ht
              by_cases hc : (overLimit s1.val || overLimit s2.val) = true
              · simp [hc] at ht
              · simpa using hc
            simp only [not_unprintable_of_not_overLimit _ hov.1, not_unprintable_of_not_overLimit _ hov.2,
              Bool.or_self, Bool.false_eq_true, if_false]
            repeat' split
            all_goals simp

/-! ### unknown operand states (assign_stmt_state) -/

/-- **current code:** an operand with a non-REGULAR (unknown) state makes the result contain the unknown state. -/
theorem C08_unknown_operand_kept (P : Ch → Bool) (opText : String) (S1 S2 : List AState) (l : List OState)
    (h : binStates P opText S1 S2 = .states l)
    (hu : S1.contains .nonreg = true ∨ (S1.any (· != .nonreg) = true ∧ S2.contains .nonreg = true)) :
    OState.anything ∈ l := by
  unfold binStates at h
  have hs : ∀ outs, someSkipped S1 S2 outs = true := by
    intro outs
    unfold someSkipped
    rcases hu with hu | ⟨h1, h2⟩
    · simp only [hu, Bool.true_or]
    · simp only [h1, h2, Bool.and_self, Bool.or_true, Bool.true_or]
  simp only [hs, Bool.or_true, if_true] at h
  cases hc : collect ((regPairs S1 S2).map (fun p => fold P opText p.1 p.2)) with
  | states l' =>
    simp only [hc, BinRes.states.injEq] at h
    rw [← h]; exact List.mem_append.2 (Or.inr (List.mem_singleton.2 rfl))
  | crash => simp only [hc] at h; exact absurd h (by simp)
  | unmodelled => simp only [hc] at h; exact absurd h (by simp)

/-- pinned: `x ∈ {5, unknown}; y = x - 3` gave `{2}` — the unknown state was dropped. -/
theorem C08_unfixed_unknown_operand_dropped :
    binStates0 "-" [.reg ⟨.str [53], .int⟩, .nonreg] [.reg ⟨.str [51], .int⟩] = .states [.val (.int 2) .int] ∧
    binStates asciiPrintable "-" [.reg ⟨.str [53], .int⟩, .nonreg] [.reg ⟨.str [51], .int⟩] =
      .states [.val (.int 2) .int, .anything] := by decide +kernel

/-! ## Abstract values cover concrete values (reference abstract interpreter) -/

/-- **C08 (soundness), partial: single-object receivers.**  For every sound abstract binary operation, every
program of the fragment (constants, copies, binary operations, if/else, allocation through classes,
field read/write, aliasing by copy, helper calls) all of whose field writes go through a receiver that
denotes exactly one object: every value every definition takes on every execution path is covered by
the abstract value set the reference interpreter reports for that definition — an equal constant, a
state of the object's allocation site, or an explicit unknown. -/
theorem C08_sound_partial (ab : ABin) (hab : ABinSound ab) (P : Prog)
    (hw : WritesOK ab P P.body AEnv.empty) (res : Log) (hrun : run ab P = some res)
    (k : Key) (v : CVal) (hv : Takes P k v) :
    ∃ A, (k, A) ∈ res ∧ covers A v := by
  unfold run at hrun
  cases he : exec ab P P.body AEnv.empty with
  | none => simp [he] at hrun
  | some r =>
    obtain ⟨σ', alog⟩ := r
    simp only [he, Option.map, Option.some.injEq] at hrun
    subst hrun
    obtain ⟨r, hr, hkv⟩ := hv
    have hrel : Rel AEnv.empty CEnv.empty :=
      ⟨fun x c hc => by simp [CEnv.empty] at hc, fun x c hc => by simp [CEnv.empty] at hc⟩
    obtain ⟨_, hl⟩ := sound_exec ab hab P P.body AEnv.empty hw CEnv.empty σ' alog he hrel r hr
    obtain ⟨A, hA, hc⟩ := hl (k, v) hkv
    obtain ⟨A', hA', hsub⟩ := mem_mergeLog hA
    exact ⟨A', hA', covers_mono hsub hc⟩

/-- non-vacuity: `o = K(1); if d: o.f = 5 else: x = 2; r = o.f` with the ideal folding satisfies the hypotheses. -/
def wObj : Prog :=
  { classes := [{ name := "K", fields := [("f", none)] }], helpers := [],
    body := .seq (.new "1" "o" "K" (.const (.int 1)))
           (.seq (.ite 0 (.fwrite "o" "f" (.const (.int 5))) (.const "3" "x" (.int 2)))
                 (.fread "4" "r" "o" "f")) }

example : ∀ k v, Takes wObj k v →
    ∃ A, (k, A) ∈ [("1", [AVal.obj "1"]), ("3", [.const (.int 2)]), ("4", [.const (.int 5), .const (.int 1)])] ∧ covers A v := by
  have hw : WritesOK idealBin wObj wObj.body AEnv.empty := by
    show WritesOK idealBin wObj (.seq (.new "1" "o" "K" (.const (.int 1)))
           (.seq (.ite 0 (.fwrite "o" "f" (.const (.int 5))) (.const "3" "x" (.int 2)))
                 (.fread "4" "r" "o" "f"))) AEnv.empty
    simp only [WritesOK]
    refine ⟨trivial, ?_⟩
    intro σ1 l1 h1
    have h2 : exec idealBin wObj (.new "1" "o" "K" (.const (.int 1))) AEnv.empty =
        some ({ vars := upd AEnv.empty.vars "o" [.obj "1"],
                heap := initFields "1" [.const (.int 1)] AEnv.empty.heap [("f", none)] }, [("1", [.obj "1"])]) := by
      simp [exec, wObj, evalOpnd]
    rw [h2] at h1
    simp only [Option.some.injEq, Prod.mk.injEq] at h1
    obtain ⟨rfl, _⟩ := h1
    exact ⟨⟨⟨"1", by simp [AEnv.get, upd]⟩, trivial⟩, fun _ _ _ => trivial⟩
  exact C08_sound_partial idealBin idealBin_sound wObj hw _ (by decide +kernel)

/-- one decision vector (what the CPython ground truth of the harness executes) is one of the runs. -/
theorem C08_execC_mem_runs (δ : Nat → Bool) (P : Prog) :
    ∀ (p : Prg) (ρ : CEnv) (r : CEnv × CLog), execC δ P p ρ = some r → r ∈ runs P p ρ := by
  intro p
  induction p with
  | skip => intro ρ r h; simp only [execC, Option.some.injEq] at h; subst h; simp [runs]
  | seq a b iha ihb =>
    intro ρ r h
    simp only [execC] at h
    cases h1 : execC δ P a ρ with
    | none => simp [h1] at h
    | some r1 =>
      simp only [h1] at h
      cases h2 : execC δ P b r1.1 with
      | none => simp [h2] at h
      | some r2 =>
        simp only [h2, Option.map, Option.some.injEq] at h
        subst h
        simp only [runs, List.mem_flatMap, List.mem_map]
        exact ⟨r1, iha ρ r1 h1, r2, ihb r1.1 r2 h2, rfl⟩
  | ite i t e iht ihe =>
    intro ρ r h
    simp only [execC] at h
    simp only [runs, List.mem_append]
    split at h
    · exact Or.inl (iht ρ r h)
    · exact Or.inr (ihe ρ r h)
  | const k x c => intro ρ r h; simp only [execC] at h; simp [runs, h]
  | copy k x y => intro ρ r h; simp only [execC] at h; simp [runs, h]
  | bin k x op a b => intro ρ r h; simp only [execC] at h; simp [runs, h]
  | new k x cls a => intro ρ r h; simp only [execC] at h; simp [runs, h]
  | fwrite o f a => intro ρ r h; simp only [execC] at h; simp [runs, h]
  | fread k x o f => intro ρ r h; simp only [execC] at h; simp [runs, h]
  | call k x h' args => intro ρ r h; simp only [execC] at h; simp [runs, h]

/-
-- OPEN (not proved):
-- theorem C08_sound : the statement of C08_sound_partial without the hypothesis `hw` (field writes through a
--   receiver that may denote several objects) — it is FALSE for the analyser as it is (next theorem); and
--   with `ab := foldBin` (the folding of the real code) instead of an abstract sound `ab`: the fold is proved to be
--   data-level for two strings (C08_literal_is_data) and for two integer objects (C08_int_text_is_data,
--   C08_int_fold_covers), but `ABinSound foldBin` is FALSE in general: a string and an integer operand are both
--   quoted as strings, so `3 * "ab"` folds to the pseudo-value "3*ab" (observed on the real code, outside the
--   property's quantifier, see NOTES); bool operands and %int constants kept as source text are covered by the
--   dense in-process diff only.
-/

/-- witness program: `o1 = K(1); o2 = K(2); if d: o3 = o1 else: o3 = o2; o3.f = 5; r = o1.f`. -/
def wMulti : Prog :=
  { classes := [{ name := "K", fields := [("f", none)] }], helpers := [],
    body := .seq (.new "1" "o1" "K" (.const (.int 1)))
           (.seq (.new "2" "o2" "K" (.const (.int 2)))
           (.seq (.ite 0 (.copy "3" "o3" "o1") (.copy "4" "o3" "o2"))
           (.seq (.fwrite "o3" "f" (.const (.int 5)))
                 (.fread "6" "r" "o1" "f")))) }

/-- **negative (open finding C08/multi-target-field-write):** the reference model — which mirrors lian's strong
update of every receiver state, as the correspondence check confirms on every run — reports `r = {5}`,
but the execution with `d` false reads `r = 1`. -/
theorem C08_multi_target_write_unsound :
    (run foldBin wMulti).map (fun res => res.find? (fun p => p.1 = "6")) = some (some ("6", [.const (.int 5)])) ∧
    (execC (fun _ => false) wMulti wMulti.body CEnv.empty).map (fun r => r.2.find? (fun p => p.1 = "6")) =
      some (some ("6", .prim (.int 1))) := by decide +kernel

end LianVerif.C08
