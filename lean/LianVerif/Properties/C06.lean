/-
C06 — Reaching definitions are sound and flow-sensitive.

Only property theorems, non-vacuity examples and negative witnesses live here.
Models: LianVerif/Model/WorkList.lean, LianVerif/Model/ReachDef.lean
  (`rd` = code in the repository now, `rd0` = frozen model of the pinned commit — no repair was
   committed for C06, so they coincide; `sweep`/`ideal` = idealised solvers, *not* the code).
Spec:   LianVerif/Spec/ClassicalRD.lean (path-based reaching definitions).

What is proved, at which strength (see NOTES-C06.md):
* about the code's model `rdWith v` (every CFG, every budget, both work-list variants):
  `C06_run_finishes` (the visit loop terminates within the fuel), `C06_visit_budget`,
  `C06_use_site_is_projection` (what is handed to the use sites is the projection of the in set),
  `C06_no_dead_defs_partial` — soundness of kill, under the run-time hypothesis that the
  `if key in current_bits: continue` shortcut was never taken (`skips = 0`, reported by the driver
  for every compared method); the unrestricted statement is false for the model
  (`C06_skip_kill_retains_dead_def`); `C06_certified_exact` — a run without the shortcut whose final
  tables pass the certified post-fixpoint check is exactly classical reaching definitions.
* about the idealised solvers: `C06_ideal_no_dead_defs`, `C06_fixpoint_sound` (certified
  post-fixpoint checker, also run on the real in/out sets), `C06_ideal_exact`, `C06_sound_once`,
  and `C06_dag_exact` (one sweep in a topological order is exactly classical reaching definitions).
* about the frozen model `rd0`: negative theorems `C06_loop_def_lost`, `C06_dag_def_lost`,
  `C06_header_revisit_reads_nothing`, `C06_kill_skip_dead_def_real`, `C06_pop_removes_other_element`
  with concrete CFG witnesses replayed on the real code by the harness (corpus/C06).
-/
import LianVerif.Proofs.ReachDef

namespace LianVerif.C06
open LianVerif.WorkList LianVerif.ReachDef LianVerif.ClassicalRD

/-! ### 1. Soundness of kill for the model of the code -/

/-- one loop iteration either leaves the in/out tables alone or is a visit of some statement -/
theorem step_cases (v : Variant) (I : Input) (G : Graph) (st : St) :
    ((step v I G st).ins = st.ins ∧ (step v I G st).outs = st.outs ∧ (step v I G st).skips = st.skips) ∨
    ∃ s, (step v I G st).ins = upd st.ins s (analyse I G st s).1 ∧
         (step v I G st).outs = upd st.outs s (analyse I G st s).2.1 ∧
         (step v I G st).skips = st.skips + (analyse I G st s).2.2 := by
  unfold step
  split
  · exact Or.inl ⟨rfl, rfl, rfl⟩
  · rename_i s _
    split
    · exact Or.inl ⟨rfl, rfl, rfl⟩
    · split
      · exact Or.inr ⟨s, rfl, rfl, rfl⟩
      · exact Or.inl ⟨rfl, rfl, rfl⟩

theorem step_skips_mono (v : Variant) (I : Input) (G : Graph) (st : St) :
    st.skips ≤ (step v I G st).skips := by
  rcases step_cases v I G st with ⟨_, _, h⟩ | ⟨s, _, _, h⟩ <;> omega

theorem run_skips_mono (v : Variant) (I : Input) (G : Graph) (fuel : Nat) :
    ∀ st, st.skips ≤ (run v I G fuel st).skips := by
  induction fuel with
  | zero => intro st; exact Nat.le_refl _
  | succ n ih =>
    intro st
    simp only [run]
    exact Nat.le_trans (step_skips_mono v I G st) (ih _)

/-- the selected predecessors are predecessors -/
theorem analyse_preds (I : Input) (G : Graph) (st : St) (s : Int) :
    ∀ p ∈ (selectPreds I G (st.counters s) s).filter (fun p => I.stmts.contains p), (p, s) ∈ G.E := by
  intro p hp
  have hp1 := (List.mem_filter.1 hp).1
  unfold selectPreds at hp1
  split at hp1
  · exact mem_preds.1 (List.mem_filter.1 hp1).1
  · exact mem_preds.1 hp1

theorem step_inv (v : Variant) (I : Input) (G : Graph) (st : St)
    (h : Inv G.E I.defs st.ins st.outs) (hs : (step v I G st).skips = st.skips) :
    Inv G.E I.defs (step v I G st).ins (step v I G st).outs := by
  rcases step_cases v I G st with ⟨h1, h2, _⟩ | ⟨s, h1, h2, h3⟩
  · rw [h1, h2]; exact h
  · rw [h1, h2]
    have hz : (analyse I G st s).2.2 = 0 := by omega
    have hin : ∀ d, d ∈ (analyse I G st s).1 → ReachIn (EdgeOf G.E) (defsOf I.defs) d s := by
      intro d hd
      exact reachIn_of_unionAll h.1 (analyse_preds I G st s) hd
    refine inv_upd h hin ?_
    intro d hd
    have heq := transfer_eq_ideal s (defsOf I.defs s) (analyse I G st s).1 hz
    have hd' : d ∈ transferIdeal s (defsOf I.defs s) (analyse I G st s).1 := by
      rw [← heq]; exact hd
    exact reachOut_of_transferIdeal hin hd'

theorem run_inv (v : Variant) (I : Input) (G : Graph) (fuel : Nat) :
    ∀ st, Inv G.E I.defs st.ins st.outs → (run v I G fuel st).skips = st.skips →
      Inv G.E I.defs (run v I G fuel st).ins (run v I G fuel st).outs := by
  induction fuel with
  | zero => intro st h _; exact h
  | succ n ih =>
    intro st h hs
    simp only [run] at hs ⊢
    have h1 := step_skips_mono v I G st
    have h2 := run_skips_mono v I G n (step v I G st)
    have hs1 : (step v I G st).skips = st.skips := by omega
    exact ih _ (step_inv v I G st h hs1) (by omega)

/-- **C06 (second clause, model of the code), partial.**  For every CFG, every visit budget, every
defined-symbol table and both work-list disciplines: if the run never took the
`if key in current_bits: continue` shortcut, every definition in a final in set reaches that
statement along a CFG path on which it is not overwritten, and every definition in a final out set
survives to that exit — nothing that is overwritten on every path is retained.
The hypothesis is a run-time flag of the same model run that is diffed against the real in/out sets
(the driver reports it; the harness requires it to be 0 on every compared method). -/
theorem C06_no_dead_defs_partial (v : Variant) (I : Input) (hs : (rdWith v I).skips = 0) :
    (∀ u d, d ∈ (rdWith v I).ins u →
      ReachIn (EdgeOf (mkGraph I.rawEdges).E) (defsOf I.defs) d u) ∧
    (∀ u d, d ∈ (rdWith v I).outs u →
      ReachOut (EdgeOf (mkGraph I.rawEdges).E) (defsOf I.defs) d u) := by
  have h := run_inv v I (mkGraph I.rawEdges) (runFuel I (mkGraph I.rawEdges)) (init (mkGraph I.rawEdges))
    (inv_empty _ _) (by simpa [rdWith, init] using hs)
  exact ⟨h.2, h.1⟩

-- OPEN (not proved): the same statement without the hypothesis `skips = 0`.
--   theorem C06_no_dead_defs (I : Input) :
--     ∀ u d, d ∈ (rd I).ins u → ReachIn (EdgeOf (mkGraph I.rawEdges).E) (defsOf I.defs) d u
-- It is FALSE for the model as it stands (`C06_skip_kill_retains_dead_def` below); on CFGs produced by
-- lian's control-flow pass with the edge-weight lookup as broken as it is today the shortcut cannot
-- fire (a loop statement reads no predecessor after its first visit, so no definition travels round a
-- cycle), but that argument needs a structural characterisation of lian's CFGs and is not formalised.

/-- the live model is the `pinned` variant -/
theorem C06_no_dead_defs_live_partial (I : Input) (hs : (rd I).skips = 0) :
    ∀ u d, d ∈ (rd I).ins u → ReachIn (EdgeOf (mkGraph I.rawEdges).E) (defsOf I.defs) d u :=
  (C06_no_dead_defs_partial .pinned I hs).1

/-! #### the visit budget -/

theorem step_budget (v : Variant) (I : Input) (G : Graph) (st : St)
    (h : ∀ s, st.visits.count s = st.counters s ∧ st.counters s ≤ I.maxRound) :
    ∀ s, (step v I G st).visits.count s = (step v I G st).counters s ∧
      (step v I G st).counters s ≤ I.maxRound := by
  unfold step
  split
  · exact h
  · rename_i x _
    split
    · exact h
    · split
      · rename_i hlt
        intro s
        by_cases hsx : s = x
        · subst hsx
          simp only [List.count_cons_self, upd_same]
          have := h s
          omega
        · have hne : (x == s) = false := by
            simp only [beq_eq_false_iff_ne, ne_eq]; exact fun e => hsx e.symm
          simp only [List.count_cons, hne, upd_other _ _ hsx]
          simpa using h s
      · exact h

theorem run_budget (v : Variant) (I : Input) (G : Graph) (fuel : Nat) :
    ∀ st, (∀ s, st.visits.count s = st.counters s ∧ st.counters s ≤ I.maxRound) →
      ∀ s, (run v I G fuel st).visits.count s ≤ I.maxRound := by
  induction fuel with
  | zero => intro st h s; have := h s; simp only [run]; omega
  | succ n ih => intro st h; simp only [run]; exact ih _ (step_budget v I G st h)

/-- **C06 (mechanism "bounded re-visits").**  Whatever the CFG, no statement is analysed more than
`max_analysis_round` times — the budget that replaces a true fixpoint (and that `C06_dag_def_lost`
shows to be spent on the wrong visits). -/
theorem C06_visit_budget (v : Variant) (I : Input) (s : Int) :
    (rdWith v I).visits.count s ≤ I.maxRound := by
  have := run_budget v I (mkGraph I.rawEdges) (runFuel I (mkGraph I.rawEdges)) (init (mkGraph I.rawEdges))
    (by intro s; simp [init]) s
  simpa [rdWith, List.count_reverse] using this

/-- **The visit loop terminates within the model's fuel** (so `rd` really is the result of running the
loop to an empty work list, for every CFG, cyclic or not).  Ranking function: length of the work list
plus, per CFG edge, the remaining visits of its source; every iteration removes one entry and an
analysed visit pays for the successors it pushes. -/
theorem C06_run_finishes (v : Variant) (I : Input) : (rdWith v I).finished = true := by
  unfold rdWith
  simp only
  have := run_finishes v I (mkGraph I.rawEdges) (runFuel I (mkGraph I.rawEdges)) (init (mkGraph I.rawEdges))
    (init_mu I _ (mkGraph_first_le _))
  simp [this]

/-- **C06 (use-site layer).**  What `check_reachable_symbol_defs` hands to the symbol graph and to the
state computation at a use of `sym` — `available_symbol_defs & frame.defined_symbols[sym]` — is exactly
the projection of the statement's in set on `sym`: at the final in set and at the in set of *every*
visit, for every CFG and both work-list variants.  (The harness checks the same identity on every real
call of `check_reachable_symbol_defs`.) -/
theorem C06_use_site_is_projection (v : Variant) (I : Input) (sym : Int) :
    (∀ u, useSite (register I) ((rdWith v I).ins u) sym = ((rdWith v I).ins u).filter (fun d => d.1 == sym)) ∧
    (∀ l ∈ (rdWith v I).inTrace, useSite (register I) l sym = l.filter (fun d => d.1 == sym)) := by
  have h := run_reg v I (mkGraph I.rawEdges) (runFuel I (mkGraph I.rawEdges)) (init (mkGraph I.rawEdges))
    ⟨by intro u d hd; simp [init] at hd, by intro u d hd; simp [init] at hd, by intro l hl; simp [init] at hl⟩
  constructor
  · intro u
    exact useSite_eq_filter (fun d hd => h.2.1 u d hd) sym
  · intro l hl
    have hl' : l ∈ (run v I (mkGraph I.rawEdges) (runFuel I (mkGraph I.rawEdges)) (init (mkGraph I.rawEdges))).inTrace := by
      simpa [rdWith] using hl
    exact useSite_eq_filter (fun d hd => h.2.2 l hl' d hd) sym

/-! ### 2. Idealised solvers: soundness of kill, certified fixpoint check, exactness -/

theorem visitIdeal_inv (E : List (Int × Int)) (defs : List (Int × List Int)) (sol : Sol) (u : Int)
    (h : Inv E defs sol.ins sol.outs) :
    Inv E defs (visitIdeal E defs sol u).ins (visitIdeal E defs sol u).outs := by
  unfold visitIdeal
  have hin : ∀ d, d ∈ unionAll sol.outs (preds E u) → ReachIn (EdgeOf E) (defsOf defs) d u := by
    intro d hd
    exact reachIn_of_unionAll h.1 (fun p hp => mem_preds.1 hp) hd
  exact inv_upd h hin (fun d hd => reachOut_of_transferIdeal hin hd)

theorem sweep_inv (E : List (Int × Int)) (defs : List (Int × List Int)) (order : List Int) :
    ∀ sol : Sol, Inv E defs sol.ins sol.outs →
      Inv E defs (sweep E defs order sol).ins (sweep E defs order sol).outs := by
  unfold sweep
  induction order with
  | nil => intro sol h; exact h
  | cons u us ih => intro sol h; exact ih _ (visitIdeal_inv E defs sol u h)

theorem iterate_inv (E : List (Int × Int)) (defs : List (Int × List Int)) (order : List Int) (fuel : Nat) :
    ∀ (sol : Sol) (n : Nat), Inv E defs sol.ins sol.outs →
      Inv E defs (iterate E defs order fuel sol n).1.ins (iterate E defs order fuel sol n).1.outs := by
  induction fuel with
  | zero => intro sol n h; exact h
  | succ k ih =>
    intro sol n h
    simp only [iterate]
    split
    · exact h
    · exact ih _ _ (sweep_inv E defs order sol h)

/-- **C06 (second clause, idealised solver), full strength.** -/
theorem C06_ideal_no_dead_defs (I : Input) :
    ∀ u d, d ∈ (ideal I).sol.ins u →
      ReachIn (EdgeOf (mkGraph I.rawEdges).E) (defsOf I.defs) d u := by
  have h := iterate_inv (mkGraph I.rawEdges).E I.defs (fullOrder (mkGraph I.rawEdges))
    ((mkGraph I.rawEdges).nodes.length * ((I.defs.map (fun d => d.2.length)).foldl (· + ·) 0 + 1) + 2)
    Sol.empty 0 (inv_empty _ _)
  exact h.2

theorem subset_mem {a b : List Def} (h : subset a b = true) {d : Def} (hd : d ∈ a) : d ∈ b := by
  unfold subset at h
  exact List.contains_iff_mem.1 (List.all_eq_true.1 h d hd)

/-- **C06 (first clause, certified monitor).**  Any in/out tables that pass the post-fixpoint check
contain every definition that reaches along *any* CFG path — in particular along the paths of
executions in which no loop body runs more than once.  The driver runs `chkFix` on the idealised
solver's result and on the *real* in/out sets. -/
theorem C06_fixpoint_sound (E : List (Int × Int)) (defs : List (Int × List Int)) (nodes : List Int)
    (sol : Sol) (h : chkFix E defs nodes sol = true) :
    (∀ d u, ReachOut (EdgeOf E) (defsOf defs) d u → d.2 ∈ nodes → d ∈ sol.outs u) ∧
    (∀ d u, ReachIn (EdgeOf E) (defsOf defs) d u → d.2 ∈ nodes → d ∈ sol.ins u) := by
  unfold chkFix at h
  rw [Bool.and_eq_true] at h
  obtain ⟨hE, hN⟩ := h
  have hE' : ∀ p u, (p, u) ∈ E → p ∈ nodes ∧ u ∈ nodes ∧ ∀ d, d ∈ sol.outs p → d ∈ sol.ins u := by
    intro p u hpu
    have := List.all_eq_true.1 hE (p, u) hpu
    simp only [Bool.and_eq_true] at this
    exact ⟨List.contains_iff_mem.1 this.1.1, List.contains_iff_mem.1 this.1.2,
      fun d hd => subset_mem this.2 hd⟩
  have hN' : ∀ u ∈ nodes, (∀ d, d ∈ sol.ins u → d.1 ∉ defsOf defs u → d ∈ sol.outs u) ∧
      (∀ sym ∈ defsOf defs u, (sym, u) ∈ sol.outs u) := by
    intro u hu
    have := List.all_eq_true.1 hN u hu
    rw [Bool.and_eq_true] at this
    constructor
    · intro d hd hnd
      have h1 := List.all_eq_true.1 this.1 d hd
      rw [Bool.or_eq_true] at h1
      rcases h1 with h1 | h1
      · exact absurd (List.contains_iff_mem.1 h1) hnd
      · exact List.contains_iff_mem.1 h1
    · intro sym hsym
      exact List.contains_iff_mem.1 (List.all_eq_true.1 this.2 sym hsym)
  have hout : ∀ d u, ReachOut (EdgeOf E) (defsOf defs) d u → d.2 ∈ nodes → u ∈ nodes ∧ d ∈ sol.outs u := by
    intro d u hr
    induction hr with
    | gen hsym => intro hn; exact ⟨hn, (hN' _ hn).2 _ hsym⟩
    | step _ he hnd ih =>
      intro hn
      obtain ⟨_, hdp⟩ := ih hn
      obtain ⟨_, hu, hsub⟩ := hE' _ _ he
      exact ⟨hu, (hN' _ hu).1 _ (hsub _ hdp) hnd⟩
  refine ⟨fun d u hr hn => (hout d u hr hn).2, ?_⟩
  rintro d u ⟨p, hp, he⟩ hn
  exact (hE' _ _ he).2.2 d (hout d p hp hn).2

theorem iterate_converged (E : List (Int × Int)) (defs : List (Int × List Int)) (order : List Int)
    (fuel : Nat) : ∀ (sol : Sol) (n : Nat), (iterate E defs order fuel sol n).2.1 = true →
      chkFix E defs order (iterate E defs order fuel sol n).1 = true := by
  induction fuel with
  | zero => intro sol n h; simpa [iterate] using h
  | succ k ih =>
    intro sol n h
    simp only [iterate] at h ⊢
    split
    · rename_i hc; exact hc
    · rename_i hc
      simp only [hc, Bool.false_eq_true, if_false] at h
      exact ih _ _ h

/-- **C06 (both clauses, idealised solver).**  When the round-robin solver reports convergence its in
sets are *exactly* the classical reaching definitions, on every CFG (loops included), for every
definition whose statement is a CFG node. -/
theorem C06_ideal_exact (I : Input) (hc : (ideal I).converged = true) (d : Def) (u : Int)
    (hd : d.2 ∈ (ideal I).order) :
    d ∈ (ideal I).sol.ins u ↔ ReachIn (EdgeOf (mkGraph I.rawEdges).E) (defsOf I.defs) d u := by
  constructor
  · exact C06_ideal_no_dead_defs I u d
  · intro hr
    have hfix := iterate_converged (mkGraph I.rawEdges).E I.defs (fullOrder (mkGraph I.rawEdges))
      ((mkGraph I.rawEdges).nodes.length * ((I.defs.map (fun d => d.2.length)).foldl (· + ·) 0 + 1) + 2)
      Sol.empty 0 hc
    exact (C06_fixpoint_sound _ _ _ _ hfix).2 d u hr hd

/-- **C06, certified per-run exactness for the model of the code.**  Whenever a run of the model of
the code (either work-list variant) did not take the kill-skipping shortcut and its final tables (exit
node patched in) pass the post-fixpoint check, its in sets are *exactly* the classical reaching
definitions at every statement.  Both hypotheses are evaluated by the driver for every compared method
(on the real tables, which equal the model's by the correspondence check): this certifies the real
result method by method where it is right, and fails on exactly the methods of the open findings. -/
theorem C06_certified_exact (v : Variant) (I : Input) (hs : (rdWith v I).skips = 0)
    (hfix : chkFix (mkGraph I.rawEdges).E I.defs (mkGraph I.rawEdges).nodes
      (patchExit (mkGraph I.rawEdges).E { ins := (rdWith v I).ins, outs := (rdWith v I).outs }) = true)
    (d : Def) (u : Int) (hu : u ≠ -1) (hd : d.2 ∈ (mkGraph I.rawEdges).nodes) :
    d ∈ (rdWith v I).ins u ↔ ReachIn (EdgeOf (mkGraph I.rawEdges).E) (defsOf I.defs) d u := by
  constructor
  · exact (C06_no_dead_defs_partial v I hs).1 u d
  · intro hr
    have := (C06_fixpoint_sound _ _ _ _ hfix).2 d u hr hd
    simpa [patchExit, upd_other _ _ hu] using this

/-! #### executions in which no loop body runs more than once -/

theorem isPath_suffix (E : List (Int × Int)) : ∀ (pre rest : List Int),
    isPath E (pre ++ rest) = true → isPath E rest = true := by
  intro pre
  induction pre with
  | nil => intro rest h; exact h
  | cons a pre ih =>
    intro rest h
    cases hpr : pre ++ rest with
    | nil =>
      have : rest = [] := (List.append_eq_nil_iff.1 hpr).2
      subst this; rfl
    | cons b tl =>
      rw [List.cons_append, hpr] at h
      simp only [isPath, Bool.and_eq_true] at h
      rw [← hpr] at h
      exact ih rest h.2

theorem reach_along (E : List (Int × Int)) (defs : List (Int × List Int)) (d : Def) (u : Int) :
    ∀ (mid : List Int) (x : Int), ReachOut (EdgeOf E) (defsOf defs) d x →
      isPath E (x :: (mid ++ [u])) = true → clearSeg defs d.1 mid = true →
      ReachIn (EdgeOf E) (defsOf defs) d u := by
  intro mid
  induction mid with
  | nil =>
    intro x hx hp _
    simp only [List.nil_append, isPath, Bool.and_true] at hp
    exact ⟨x, hx, List.contains_iff_mem.1 hp⟩
  | cons m ms ih =>
    intro x hx hp hc
    simp only [List.cons_append, isPath, Bool.and_eq_true] at hp
    simp only [clearSeg, List.all_cons, Bool.and_eq_true, Bool.not_eq_true'] at hc
    have hm : d.1 ∉ defsOf defs m := by
      intro hmem
      have := List.contains_iff_mem.2 hmem
      rw [this] at hc; exact absurd hc.1 (by simp)
    exact ih m (ReachOut.step hx (List.contains_iff_mem.1 hp.1) hm) hp.2 (by simpa [clearSeg] using hc.2)

/-- a once-execution certificate is in particular a definition-clear CFG path -/
theorem once_imp_reachIn {E : List (Int × Int)} {defs : List (Int × List Int)}
    {loopTrue : List (Int × Int)} {entry : Int} {d : Def} {u : Int}
    (h : ReachInOnce E defs loopTrue entry d u) : ReachIn (EdgeOf E) (defsOf defs) d u := by
  obtain ⟨pre, mid, hw⟩ := h
  unfold onceWitness at hw
  simp only [Bool.and_eq_true] at hw
  obtain ⟨⟨⟨⟨_, hpath⟩, _⟩, hdef⟩, hclear⟩ := hw
  have hp : isPath E (d.2 :: (mid ++ [u])) = true := by
    have := isPath_suffix E pre ([d.2] ++ mid ++ [u]) (by simpa [List.append_assoc] using hpath)
    simpa [List.append_assoc] using this
  obtain ⟨a, b⟩ := d
  exact reach_along E defs (a, b) u mid b (ReachOut.gen (List.contains_iff_mem.1 hdef)) hp hclear

/-- **C06 (first clause, idealised solver).**  A converged run of the idealised solver contains every
definition that reaches a statement in an execution in which no loop body runs more than once. -/
theorem C06_sound_once (I : Input) (hc : (ideal I).converged = true) (loopTrue : List (Int × Int))
    (entry : Int) (d : Def) (u : Int) (hd : d.2 ∈ (ideal I).order)
    (h : ReachInOnce (mkGraph I.rawEdges).E I.defs loopTrue entry d u) :
    d ∈ (ideal I).sol.ins u :=
  (C06_ideal_exact I hc d u hd).2 (once_imp_reachIn h)

/-! #### acyclic CFGs: one sweep in a topological order is exact -/

theorem sweep_outs_notin (E : List (Int × Int)) (defs : List (Int × List Int)) (order : List Int) (x : Int)
    (hx : x ∉ order) : ∀ sol : Sol, (sweep E defs order sol).outs x = sol.outs x ∧
      (sweep E defs order sol).ins x = sol.ins x := by
  unfold sweep
  induction order with
  | nil => intro sol; exact ⟨rfl, rfl⟩
  | cons u us ih =>
    intro sol
    have hxu : x ≠ u := fun h => hx (h ▸ List.mem_cons_self)
    have hxus : x ∉ us := fun h => hx (List.mem_cons_of_mem _ h)
    simp only [List.foldl_cons]
    obtain ⟨h1, h2⟩ := ih hxus (visitIdeal E defs sol u)
    rw [h1, h2]
    simp only [visitIdeal]
    exact ⟨upd_other _ _ hxu, upd_other _ _ hxu⟩

/-- exactness of the tables on a set of already processed nodes -/
def ExactOn (E : List (Int × Int)) (defs : List (Int × List Int)) (done : List Int) (sol : Sol) : Prop :=
  ∀ u ∈ done, (∀ d, d ∈ sol.outs u ↔ ReachOut (EdgeOf E) (defsOf defs) d u) ∧
              (∀ d, d ∈ sol.ins u ↔ ReachIn (EdgeOf E) (defsOf defs) d u)

theorem visitIdeal_exact (E : List (Int × Int)) (defs : List (Int × List Int)) (done : List Int)
    (sol : Sol) (u : Int) (hu : u ∉ done) (hpred : ∀ p, (p, u) ∈ E → p ∈ done)
    (h : ExactOn E defs done sol) : ExactOn E defs (u :: done) (visitIdeal E defs sol u) := by
  have hin : ∀ d, d ∈ unionAll sol.outs (preds E u) ↔ ReachIn (EdgeOf E) (defsOf defs) d u := by
    intro d
    rw [mem_unionAll]
    constructor
    · rintro ⟨p, hp, hd⟩
      have hpe := mem_preds.1 hp
      exact ⟨p, ((h p (hpred p hpe)).1 d).1 hd, hpe⟩
    · rintro ⟨p, hp, he⟩
      exact ⟨p, mem_preds.2 he, ((h p (hpred p he)).1 d).2 hp⟩
  intro x hx
  rcases List.mem_cons.1 hx with rfl | hx
  · simp only [visitIdeal, upd_same]
    refine ⟨?_, hin⟩
    intro d
    rw [mem_transferIdeal]
    constructor
    · rintro (⟨h1, h2⟩ | ⟨h1, h2⟩)
      · obtain ⟨p, hp, he⟩ := (hin d).1 h1
        exact ReachOut.step hp he h2
      · obtain ⟨a, b⟩ := d
        simp only at h1 h2
        subst h1; exact ReachOut.gen h2
    · intro hr
      cases hr with
      | gen hsym => exact Or.inr ⟨rfl, hsym⟩
      | step hp he hnd => exact Or.inl ⟨(hin d).2 ⟨_, hp, he⟩, hnd⟩
  · have hxu : x ≠ u := fun e => hu (e ▸ hx)
    simp only [visitIdeal, upd_other _ _ hxu]
    exact h x hx

theorem idxOf_cons_ne' (a b : Int) (l : List Int) (h : a ≠ b) :
    (a :: l).idxOf b = l.idxOf b + 1 := by
  rw [List.idxOf_cons]
  have : (a == b) = false := by simpa using h
  rw [this]; rfl

theorem sweep_exact (E : List (Int × Int)) (defs : List (Int × List Int)) :
    ∀ (order done : List Int) (sol : Sol), ExactOn E defs done sol →
      (∀ u ∈ order, u ∉ done) → order.Nodup →
      (∀ p u, (p, u) ∈ E → u ∈ order → p ∈ done ∨ (p ∈ order ∧ order.idxOf p < order.idxOf u)) →
      ExactOn E defs (order.reverse ++ done) (sweep E defs order sol) := by
  intro order
  induction order with
  | nil => intro done sol h _ _ _; simpa [sweep] using h
  | cons u us ih =>
    intro done sol h hdisj hnd hedge
    have hu : u ∉ done := hdisj u List.mem_cons_self
    have hnd' := List.nodup_cons.1 hnd
    have hpred : ∀ p, (p, u) ∈ E → p ∈ done := by
      intro p hp
      rcases hedge p u hp List.mem_cons_self with h1 | ⟨_, h2⟩
      · exact h1
      · simp at h2
    have h1 := visitIdeal_exact E defs done sol u hu hpred h
    have := ih (u :: done) (visitIdeal E defs sol u) h1
      (by
        intro x hx hxd
        rcases List.mem_cons.1 hxd with rfl | hxd
        · exact hnd'.1 hx
        · exact hdisj x (List.mem_cons_of_mem _ hx) hxd)
      hnd'.2
      (by
        intro p x hpx hx
        have hxu : x ≠ u := fun e => hnd'.1 (e ▸ hx)
        rcases hedge p x hpx (List.mem_cons_of_mem _ hx) with h1 | ⟨h1, h2⟩
        · exact Or.inl (List.mem_cons_of_mem _ h1)
        · rcases List.mem_cons.1 h1 with rfl | h1
          · exact Or.inl List.mem_cons_self
          · right
            refine ⟨h1, ?_⟩
            have hpu : p ≠ u := fun e => hnd'.1 (e ▸ h1)
            rw [idxOf_cons_ne' _ _ _ (Ne.symm hpu), idxOf_cons_ne' _ _ _ (Ne.symm hxu)] at h2
            omega)
    simpa [sweep, List.reverse_cons, List.append_assoc] using this

theorem nodupB_iff : ∀ (l : List Int), nodupB l = true → l.Nodup := by
  intro l
  induction l with
  | nil => intro _; exact List.nodup_nil
  | cons x xs ih =>
    intro h
    simp only [nodupB, Bool.and_eq_true, Bool.not_eq_true'] at h
    refine List.nodup_cons.2 ⟨?_, ih h.2⟩
    intro hx
    rw [List.contains_iff_mem.2 hx] at h
    exact absurd h.1 (by simp)

/-- **C06 (third sentence).**  On an acyclic CFG — witnessed by an order of its nodes in which every
edge goes forward (`isTopo`, decidable, checked by the driver on every loop-free method) — one sweep of
the idealised solver computes, at every statement, *exactly* the classical reaching definitions. -/
theorem C06_dag_exact (E : List (Int × Int)) (defs : List (Int × List Int)) (order : List Int)
    (htopo : isTopo E order = true) (hnd : nodupB order = true) :
    ∀ u ∈ order, ∀ d,
      (d ∈ (sweep E defs order Sol.empty).ins u ↔ ReachIn (EdgeOf E) (defsOf defs) d u) ∧
      (d ∈ (sweep E defs order Sol.empty).outs u ↔ ReachOut (EdgeOf E) (defsOf defs) d u) := by
  have hex := sweep_exact E defs order [] Sol.empty (by intro u hu; simp at hu)
    (by intro u _; simp) (nodupB_iff order hnd)
    (by
      intro p u hpu _
      unfold isTopo posOf at htopo
      have := List.all_eq_true.1 htopo (p, u) hpu
      simp only [Bool.and_eq_true, decide_eq_true_eq] at this
      exact Or.inr ⟨List.contains_iff_mem.1 this.1.1, this.2⟩)
  intro u hu d
  have := hex u (by simpa using hu)
  exact ⟨this.2 d, this.1 d⟩

/-! ### 3. The pinned commit (frozen model `rd0`) violates the property: witnesses

The inputs below are the *real* `cfg.bundle` rows and defined-symbol tables lian produces for the
programs in corpus/C06/*.json (the harness checks on every run that they still are, and that the real
in sets equal the frozen model's on them). -/

-- loop_def_lost
def W_loop : Input :=
  { edges := [(122, 124, 0), (124, 125, 0), (125, 126, 0), (126, 127, 0), (127, 129, 4), (127, 131, 5), (129, 130, 0), (131, 132, 0), (130, 127, 6), (132, -1, 9)],
    stmts := [122, 124, 125, 126, 127, 129, 130, 131, 132],
    loops := [127],
    defs := [(122, [122]), (124, [124]), (125, [125]), (126, [125]), (127, []), (129, [125]), (130, [122]), (131, [124]), (132, [])],
    maxRound := 3, weightWorks := false, loopBack := 6 }

-- header_revisit_reads_nothing
def W_hdr : Input :=
  { edges := [(122, 124, 0), (124, 125, 0), (125, 126, 0), (126, 128, 1), (126, 130, 2), (128, 129, 0), (130, 132, 4), (130, -1, 5), (129, 130, 0), (132, 130, 6)],
    stmts := [122, 124, 125, 126, 128, 129, 130, 132],
    loops := [130],
    defs := [(122, [122]), (124, [124]), (125, [125]), (126, []), (128, [125]), (129, [124]), (130, []), (132, [])],
    maxRound := 3, weightWorks := false, loopBack := 6 }

-- dag_join_def_lost
def W_dag : Input :=
  { edges := [(122, 123, 0), (123, 124, 0), (124, 125, 0), (125, 127, 0), (127, 128, 0), (128, 129, 0), (129, 130, 0), (130, 132, 1), (130, 133, 2), (132, -1, 9), (133, 135, 1), (133, 137, 2), (135, 150, 0), (137, 139, 1), (137, 149, 2), (150, -1, 9), (139, 140, 0), (149, 150, 0), (140, 142, 1), (140, 143, 2), (142, 143, 0), (143, 144, 0), (144, 146, 1), (144, 150, 2), (146, 147, 0), (147, 150, 0)],
    stmts := [122, 123, 124, 125, 127, 128, 129, 130, 132, 133, 135, 137, 139, 140, 142, 143, 144, 146, 147, 149, 150],
    loops := [],
    defs := [(122, [122]), (123, [123]), (124, [124]), (125, [125]), (127, [127]), (128, [128]), (129, [129]), (130, []), (132, []), (133, []), (135, []), (137, []), (139, [139]), (140, []), (142, []), (143, [143]), (144, []), (146, [128]), (147, [127]), (149, [127]), (150, [])],
    maxRound := 3, weightWorks := false, loopBack := 6 }

/-- the SimpleWorkList defect in isolation: `peek` returns 5; pushing the higher-priority item 3 puts it
at index 0; `pop()` then removes 3 — not the element that was peeked — and 5 stays queued. -/
theorem C06_pop_removes_other_element :
    let prio : List (Int × Nat) := [(5, 1), (3, 0)]
    let w := WL.empty.add prio [5]
    w.peek = some 5 ∧ (w.add prio [3]).peek = some 3 ∧
    ((w.add prio [3]).pop0).peek = some 5 ∧ ((w.add prio [3]).pop0).all = [5] := by decide

/-- `x=1; while c: x=2; c=c-1; y=x` (corpus/C06/loop_def_lost.json; 125 = x, 129 = `x = 2`,
126 = `x = 1`, 131 = `y = x`, 127 = the `while`): the definition `x = 2` reaches `y = x` in the execution
that runs the loop body once, the frozen model (= the real code) reports only `x = 1` there, because the
loop header 127 is never analysed again: the visit sequence ends `…, 130, 132, 130, 130`. -/
theorem C06_loop_def_lost :
    ((rd0 W_loop).ins 131).contains (125, 129) = false ∧
    ((rd0 W_loop).ins 131).contains (125, 126) = true ∧
    onceWitness (mkGraph W_loop.rawEdges).E W_loop.defs [(127, 129)] 122 (125, 129) 131
      [122, 124, 125, 126, 127] [130, 127] = true ∧
    (rd0 W_loop).visits = [122, 124, 125, 126, 127, 129, 131, 130, 132, 130, 130] := by
  decide +kernel

/-- `if c: y=1; x=2` followed by `while c: pass` (corpus/C06/header_revisit_reads_nothing.json):
the join after the `if` is visited twice, so the loop header 130 is visited twice; the second time it
reads no predecessor at all (`get_graph_edge_weight` yields `None` for every edge of the loaded
MultiDiGraph): its final in set and that of the loop body are empty although the parameter `c`
(definition (122,122)) reaches both on every execution. -/
theorem C06_header_revisit_reads_nothing :
    (rd0 W_hdr).ins 130 = [] ∧ (rd0 W_hdr).ins 132 = [] ∧
    onceWitness (mkGraph W_hdr.rawEdges).E W_hdr.defs [(130, 132)] 122 (122, 122) 130
      [] [124, 125, 126] = true ∧
    (rd0 W_hdr).visits = [122, 124, 125, 126, 128, 130, 129, 130, 132, 132, 132] := by
  decide +kernel

/-- loop-free witness (corpus/C06/dag_join_def_lost.json; 150 = `return w`, 147 = `w = w`, 127 = w):
`return w` is visited three times — its whole budget — before its predecessor 147 is analysed for the
first time, so the definition made by 147 never arrives although it reaches 150 on a real path.
This refutes `final_visit_after_preds` (DESIGN §5 C06) for the pinned schedule on an acyclic CFG. -/
theorem C06_dag_def_lost :
    ((rd0 W_dag).ins 150).contains (127, 147) = false ∧
    onceWitness (mkGraph W_dag.rawEdges).E W_dag.defs [] 122 (127, 147) 150
      [122, 123, 124, 125, 127, 128, 129, 130, 133, 137, 139, 140, 143, 144, 146] [] = true ∧
    W_dag.loops = [] ∧
    (rd0 W_dag).visits = [122, 123, 124, 125, 127, 128, 129, 130, 132, 133, 137, 149, 150, 135, 139,
      140, 142, 150, 143, 144, 146, 150, 147] := by
  decide +kernel

/-- An (artificial, not lian-shaped) CFG on which the model of the code *as it is* retains a dead
definition: statement 1 is re-analysed after its own definition travelled round the cycle 1→4→2→1,
the `if key in current_bits: continue` shortcut skips the kill, and (9,1) survives into
the in set of 2 although the only predecessor of 2 is 4, which redefines symbol 9.
So the hypothesis `skips = 0` of `C06_no_dead_defs_partial` cannot simply be dropped. -/
def W_skip : Input :=
  { edges := [(3, 1, 0), (2, 1, 0), (4, 2, 0), (1, 4, 0), (2, 4, 0)], stmts := [1, 2, 3, 4], loops := [],
    defs := [(1, [9]), (2, []), (3, [9]), (4, [9])], maxRound := 3, weightWorks := false, loopBack := 6 }

theorem C06_skip_kill_retains_dead_def :
    ((rd W_skip).ins 2).contains (9, 1) = true ∧ (rd W_skip).skips ≠ 0 ∧
    ¬ ReachIn (EdgeOf (mkGraph W_skip.rawEdges).E) (defsOf W_skip.defs) (9, 1) 2 := by
  refine ⟨by decide +kernel, by decide +kernel, ?_⟩
  have hE : (mkGraph W_skip.rawEdges).E = [(3, 1), (2, 1), (4, 2), (1, 4), (2, 4)] := by decide +kernel
  rintro ⟨p, hp, he⟩
  unfold EdgeOf at he
  rw [hE] at he
  have hp4 : p = 4 := by
    simp only [List.mem_cons, Prod.mk.injEq, List.not_mem_nil, or_false] at he
    omega
  subst hp4
  cases hp with
  | step _ _ hnd => exact hnd (by decide)

/-- The same defect on a **real** lian CFG (corpus/C06/kill_skip_dead_def.json):
`while y > 5: if y > 2: pass else: (if x: return c else: return y); x = y + z` / `x = z + x` / `z = 2`.
139 = `x = y + z` has no CFG predecessor (both branches above it return), so it is a second work-list
entry with priority 0 and 140 = `x = z + x`, 141 = `z = 2`, 142 are analysed *before* the loop header
127; the header's first visit reads the back edge, the definition (125,140) travels round the loop, and
at the second visit of 140 the kill is skipped: (125,125) and (125,139) — definitions of `x` that 140
overwrites on every path — are in the final in set of 141 (reachable from the entry).
Deadness is certified through `C06_ideal_exact`: the converged idealised solver does not contain them. -/
def W_kill : Input :=
  { edges := [(122, 124, 0), (124, 125, 0), (125, 126, 0), (126, 127, 0), (127, 129, 4), (127, -1, 5), (129, 130, 0), (130, 132, 1), (130, 134, 2), (132, 140, 0), (134, 136, 1), (134, 138, 2), (140, 141, 0), (136, -1, 9), (138, -1, 9), (141, 142, 0), (139, 140, 0), (142, 127, 6)],
    stmts := [122, 124, 125, 126, 127, 129, 130, 132, 134, 136, 138, 139, 140, 141, 142],
    loops := [127],
    defs := [(122, [122]), (124, [124]), (125, [125]), (126, [126]), (127, []), (129, [129]), (130, []), (132, []), (134, []), (136, []), (138, []), (139, [125]), (140, [125]), (141, [124]), (142, [126])],
    maxRound := 3, weightWorks := false, loopBack := 6 }

theorem C06_kill_skip_dead_def_real :
    ((rd0 W_kill).ins 141).contains (125, 139) = true ∧ ((rd0 W_kill).ins 141).contains (125, 125) = true ∧
    (rd0 W_kill).skipStmts.contains 140 = true ∧
    ¬ ReachIn (EdgeOf (mkGraph W_kill.rawEdges).E) (defsOf W_kill.defs) (125, 139) 141 ∧
    ¬ ReachIn (EdgeOf (mkGraph W_kill.rawEdges).E) (defsOf W_kill.defs) (125, 125) 141 ∧
    (rd0 W_kill).visits = [122, 139, 124, 140, 125, 141, 126, 142, 127, 129, 130, 132, 134, 138, 136,
      140, 141, 142, 142] := by
  have hc : (ideal W_kill).converged = true := by decide +kernel
  refine ⟨by decide +kernel, by decide +kernel, by decide +kernel, ?_, ?_, by decide +kernel⟩
  · intro h
    have := (C06_ideal_exact W_kill hc (125, 139) 141 (by decide +kernel)).2 h
    exact absurd this (by decide +kernel)
  · intro h
    have := (C06_ideal_exact W_kill hc (125, 125) 141 (by decide +kernel)).2 h
    exact absurd this (by decide +kernel)

/-! ### 4. Non-vacuity -/

/-- the hypothesis of `C06_no_dead_defs_partial` holds on the three real witnesses … -/
example : (rd W_loop).skips = 0 ∧ (rd W_hdr).skips = 0 ∧ (rd W_dag).skips = 0 := by decide +kernel

/-- … and its conclusion is not vacuous: in sets are non-empty there. -/
example : (rd W_loop).ins 131 = [(122, 122), (124, 124), (125, 126)] := by decide +kernel

/-- the idealised solver converges on the loop witness, contains the definition the code loses, and
its result passes the certified post-fixpoint check (hypotheses of `C06_ideal_exact`, `C06_sound_once`,
`C06_fixpoint_sound`). -/
example : (ideal W_loop).converged = true ∧ ((ideal W_loop).sol.ins 131).contains (125, 129) = true ∧
    (129 : Int) ∈ (ideal W_loop).order ∧
    chkFix (mkGraph W_loop.rawEdges).E W_loop.defs (ideal W_loop).order (ideal W_loop).sol = true := by
  decide +kernel

/-- the real in/out sets of the loop witness (= the frozen model's) do *not* pass the check. -/
example : chkFix (mkGraph W_loop.rawEdges).E W_loop.defs (mkGraph W_loop.rawEdges).nodes
    { ins := upd (rd0 W_loop).ins (-1) ((rd0 W_loop).outs 132),
      outs := upd (rd0 W_loop).outs (-1) ((rd0 W_loop).outs 132) } = false := by decide +kernel

/-- hypotheses of `C06_dag_exact` on the loop-free witness: the DFS order of its CFG is topological,
and the single sweep contains the definition the code loses. -/
example : isTopo (mkGraph W_dag.rawEdges).E (fullOrder (mkGraph W_dag.rawEdges)) = true ∧
    nodupB (fullOrder (mkGraph W_dag.rawEdges)) = true ∧
    ((sweep (mkGraph W_dag.rawEdges).E W_dag.defs (fullOrder (mkGraph W_dag.rawEdges)) Sol.empty).ins 150).contains
      (127, 147) = true := by decide +kernel

/-- hypotheses of `C06_certified_exact` hold for the code's model on `x=1; if c: x=2; y=x` (both
definitions of `x` reach the join), and for the candidate repair R1 on the loop-free witness. -/
def W_if : Input :=
  { edges := [(1, 2, 0), (2, 3, 1), (2, 4, 2), (3, 4, 0), (4, -1, 9)], stmts := [1, 2, 3, 4], loops := [],
    defs := [(1, [9]), (2, []), (3, [9]), (4, [8])], maxRound := 3, weightWorks := false, loopBack := 6 }

example : (rd W_if).skips = 0 ∧
    chkFix (mkGraph W_if.rawEdges).E W_if.defs (mkGraph W_if.rawEdges).nodes
      (patchExit (mkGraph W_if.rawEdges).E { ins := (rd W_if).ins, outs := (rd W_if).outs }) = true ∧
    (rd W_if).ins 4 = [(9, 1), (9, 3)] ∧ (rd W_if).visits.count 4 = 1 := by decide +kernel

example : (rdWith .r1 W_dag).skips = 0 ∧
    chkFix (mkGraph W_dag.rawEdges).E W_dag.defs (mkGraph W_dag.rawEdges).nodes
      (patchExit (mkGraph W_dag.rawEdges).E
        { ins := (rdWith .r1 W_dag).ins, outs := (rdWith .r1 W_dag).outs }) = true := by decide +kernel

/-- candidate repair R1 (heappop the analysed statement, then push): exact on the loop-free witness,
still wrong on both loop witnesses (the re-visited header reads no predecessor). -/
example : ((rdWith .r1 W_dag).ins 150).contains (127, 147) = true ∧
    (rdWith .r1 W_loop).ins 131 = [] ∧ (rdWith .r1 W_hdr).ins 132 = [] := by decide +kernel

end LianVerif.C06
