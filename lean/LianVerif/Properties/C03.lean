import LianVerif.Gir.WellFormed
import LianVerif.Gir.Flatten
import LianVerif.Model.LangRun

namespace LianVerif.C03
open LianVerif.Gir

theorem C03_stub : True := trivial

end LianVerif.C03
