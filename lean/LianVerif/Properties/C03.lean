/-
C03 — Emitted GIR is structurally well-formed for every input in every language.

Only property theorems, non-vacuity examples and negative witnesses live here.

Models   Gir/Flatten.lean (`flatten` = `GIRProcessing.flatten`), Model/MainFunc.lean (`addMainFunc` =
         `basic.add_main_func`), Model/LangRun.lean (`langRun`, `adjustNodeId` = id allocation in
         `LangAnalysis.run`).
Spec     Gir/WellFormed.lean: `WFUnit` / `WFProject` (all clauses of the property that can be read off
         the emitted rows), `WFCore` (the clauses that do not depend on which operations a frontend
         emits), the grammar `Lvl`.
Checker  `wfCheck` / `wfUnitCheck` (Gir/WellFormed.lean) — what `lvdrv` evaluates on the REAL rows of
         frontend/gir.bundle*.

What is proved, in one paragraph: the checker *decides* the specification (sound and complete);
the three passes, on every tree `flatten` accepts (`WfGir`), never fail, hand out exactly the ids
`[n, n')` in emission order, produce balanced, properly nested rows whose parents are the innermost
open block / the owning statement, reference every block from its owner, keep body attributes
pointing at owned blocks, leave only declarations at the top level, use two fresh ids for
`%unit_init`, and give different units disjoint, increasing id ranges.  What is NOT proved (it is
monitored on real runs only): that the seven tree-sitter frontends emit `WfGir` trees and never
raise; the clause "executable statements lie inside a method" below the top level, which
`add_main_func` does not establish (negative theorem below, PHP/Java findings).
-/
import LianVerif.Proofs.LangRun
import LianVerif.Proofs.Consumers

namespace LianVerif.C03
open LianVerif.Gir LianVerif.MainFunc LianVerif.LangRun LianVerif.Consumers

/-! ## 1. The certified checker -/

/-- **C03 (checker, project level).** `wfCheck` returns `true` exactly on the projects that satisfy
the specification: every unit `WFUnit` and the id ranges of different units pairwise disjoint. -/
theorem C03_checker_sound_complete (P : WfParams) (units : List Rows) :
    wfCheck P units = true ↔ WFProject P units :=
  wfCheck_iff P units

/-- **C03 (checker, unit level).** -/
theorem C03_checker_unit (P : WfParams) (rows : Rows) : wfUnitCheck P rows = true ↔ WFUnit P rows :=
  wfUnitCheck_iff P rows

/-- Soundness spelled out clause by clause: what a `true` verdict on real rows means. -/
theorem C03_checker_sound (P : WfParams) (units : List Rows) (h : wfCheck P units = true) :
    (∀ u ∈ units,
      Lvl (opensMethod P) (ExecOk P) 0 false none u ∧
      (defIds u).Nodup ∧
      (∀ r ∈ u, r.id ≠ 0) ∧
      (∀ r ∈ u, r.isMarker = false → r.parent = 0 → keepsTop P r.op = true) ∧
      (∀ r ∈ u, r.isMarker = false → ∀ kv ∈ r.attrs, bodyKey P kv.1 = true → ∀ b : Int, kv.2 = AVal.int b →
        ∃ s ∈ u, s.isStart = true ∧ (s.id : Int) = b ∧ s.parent = r.id) ∧
      u.Pairwise (fun a b => a.isMarker = false → b.isMarker = false → a.parent = b.parent → a.id < b.id) ∧
      (u.filter (isUnitInit P)).length ≤ 1) ∧
    units.Pairwise RangesDisjoint := by
  have hw := (wfCheck_iff P units).1 h
  refine ⟨fun u hu => ?_, hw.ranges_disjoint⟩
  have := hw.units_wf u hu
  exact ⟨this.nested, this.ids_unique, this.ids_pos, this.top_decl, this.bodies_exist, this.ordered, this.one_init⟩

/-- The grammar really is "balanced markers": in a derivation every start has its end, so the
numbers of start and end markers agree (a consequence used as a sanity check of the definition). -/
theorem C03_lvl_balanced {M : Row → Nat → Bool} {Q : Nat → Bool → Row → Prop} {p : Nat} {inM : Bool}
    {last : Option Row} {rows : Rows} (h : Lvl M Q p inM last rows) :
    (rows.filter (·.isStart)).length = (rows.filter (·.isEnd)).length := by
  induction h with
  | nil => rfl
  | stmt hm _ _ _ ih =>
    obtain ⟨hs, he⟩ := isMarker_false_iff.1 hm
    simp [List.filter_cons, hs, he, ih]
  | block hs he _ _ _ _ _ _ ih1 ih2 =>
    simp only [List.filter_cons, List.filter_append, hs, isStart_not_isEnd hs, he, isEnd_not_isStart he,
      List.length_cons, List.length_append, if_true, Bool.false_eq_true, if_false, ih1, ih2]
    omega

/-! ## 2. `flatten` -/

/-- **C03 (flatten).** For every start id `n ≥ 1` and every tree `flatten` accepts (`WfGir`):
`flatten` succeeds and returns a counter `n' > n`; the rows that introduce an id carry exactly
`n, n+1, …, n'-1` in table order (so ids are unique and consecutive, and every id lies in
`[n, n')`); markers are balanced and properly nested, every statement's parent is the innermost
open block, every marker's parent is the owning statement, every block is referenced by an
attribute of its owner (`WFCore.nested`); body-valued attributes name owned blocks; statements of
one block are in increasing id order; and the executable nesting recogniser accepts the rows. -/
theorem C03_flatten_wf (P : FlatParams) (bk : String → Bool) (hbk : bk "original_stmt" = false)
    (n : Nat) (hn : 1 ≤ n) (t : JVal) (h : WfGir bk t = true) :
    ∃ n' rows, flatten P n t = .ok (n', rows) ∧ n < n' ∧
      defIds rows = List.range' n (n' - n) ∧
      (∀ r ∈ rows, n ≤ r.id ∧ r.id < n') ∧
      WFCore bk rows ∧
      rows.Pairwise (fun a b => a.isMarker = false → b.isMarker = false → a.parent = b.parent → a.id < b.id) ∧
      chkShape rows = true := by
  obtain ⟨n', rows, hfl, hlt, hseg, hlvl⟩ := flatten_spec P bk hbk n t h
  refine ⟨n', rows, hfl, hlt, hseg.ids, hseg.bound, hseg.wfCore hn hlvl, ordered_of_ids hseg.ids, ?_⟩
  unfold chkShape
  have := parseLvl_complete (M := fun _ _ => false) (q := fun _ _ _ => true) (Q := NoCond)
    (fun _ _ _ _ => rfl) (hlvl (fun _ _ => false) false none) [] (rows.length + 1) (Or.inl rfl) (by omega)
  rw [List.append_nil] at this
  rw [this]

/-- **C03 (totality).** On `WfGir` input neither pass reaches an `err:*` result: `flatten` returns
`.ok`, and `addMainFunc` is a total function on rows. -/
theorem C03_total_on_wfgir (P : FlatParams) (bk : String → Bool) (hbk : bk "original_stmt" = false)
    (n : Nat) (t : JVal) (h : WfGir bk t = true) :
    ∃ n' rows, flatten P n t = .ok (n', rows) := by
  obtain ⟨n', rows, hfl, _⟩ := flatten_spec P bk hbk n t h
  exact ⟨n', rows, hfl⟩

/-! ## 3. `add_main_func` -/

/-- **C03 (add_main_func).** On rows satisfying the core clauses, `addMainFunc`
* preserves them (nesting / parents / ownership, unique ids, positive ids, body attributes),
* leaves only rows whose operation ends in `_decl` or is in the exclusion tuple at the top level,
* either changes nothing or adds exactly the two ids `nextId rows` and `nextId rows + 1` (all other
  ids are kept), which are above every id of the input. -/
theorem C03_main_func_wf (P : MainFunc.Params) (bk : String → Bool) (rows : Rows) (h : WFCore bk rows) :
    WFCore bk (addMainFunc P rows) ∧
    (∀ r ∈ addMainFunc P rows, r.isMarker = false → r.parent = 0 → MainFunc.keepsTop P r.op = true) ∧
    (addMainFunc P rows = rows ∨
      (defIds (addMainFunc P rows)).Perm (nextId rows :: (nextId rows + 1) :: defIds rows)) ∧
    (∀ r ∈ rows, r.id < nextId rows) :=
  ⟨addMainFunc_wfCore P bk h, addMainFunc_top_decl P h.ids_pos, addMainFunc_ids P rows,
   fun _ hr => lt_nextId hr⟩

/-- **C03 (add_main_func, source order).** On a table as `flatten` returns it (top-level level of the
grammar, unique positive ids, increasing in table order) the statements of every block — in
particular the moved top-level statements inside `%unit_init` — still appear in increasing id, i.e.
source, order. -/
theorem C03_main_func_ordered (P : MainFunc.Params) (bk : String → Bool) (rows : Rows) (h : WFCore bk rows)
    (hinc : rows.Pairwise (fun a b => a.isEnd = false → b.isEnd = false → a.id < b.id)) :
    (addMainFunc P rows).Pairwise
      (fun a b => a.isMarker = false → b.isMarker = false → a.parent = b.parent → a.id < b.id) :=
  addMainFunc_ordered P (shape_of_lvl (h.nested (fun _ _ => false) false)) h.ids_pos h.ids_unique hinc

/-- **C03 (add_main_func, one initialiser).** If the table has no top-level `method_decl` already
called `%unit_init`, the result has at most one. -/
theorem C03_main_func_one_init (P : MainFunc.Params) (W : WfParams) (rows : Rows)
    (hfresh : ∀ r ∈ rows, isUnitInit W r = false) :
    ((addMainFunc P rows).filter (isUnitInit W)).length ≤ 1 :=
  addMainFunc_one_init P W hfresh

/-- the two new ids are `n'` and `n' + 1` when the input is what `flatten` returned with counter `n'` -/
theorem C03_main_func_new_ids (P : FlatParams) (bk : String → Bool) (hbk : bk "original_stmt" = false)
    (n : Nat) (t : JVal) (h : WfGir bk t = true) :
    ∃ n' rows, flatten P n t = .ok (n', rows) ∧ nextId rows = n' := by
  obtain ⟨n', rows, hfl, hlt, hseg, _⟩ := flatten_spec P bk hbk n t h
  refine ⟨n', rows, hfl, Nat.le_antisymm (nextId_le (fun r hr => (hseg.bound r hr).2)) ?_⟩
  -- the id `n' - 1` occurs
  have hmem : n' - 1 ∈ defIds rows := by
    rw [hseg.ids, List.mem_range'_1]; omega
  obtain ⟨r, hr, hid⟩ := mem_defIds hmem
  have := lt_nextId hr
  omega

/-! ## 4. The whole run -/

/-- **C03 (project).** For every list of units whose frontend either raises (the file is then
skipped) or returns a tree that is `WfGir` (or nothing / a falsy value), started
at any counter `n ≥ 1`, with `MIN_ID_INTERVAL ≥ 2`: the run completes; all ids lie in `[n, final)`;
every saved unit (after `add_main_func` and `unit_id` stamping) satisfies the core clauses,
`top_decl` and `ordered`; a unit processed earlier has strictly smaller ids than any unit processed
later — id ranges of different files do not overlap and ids are unique across the project.

`_partial`: the full `WFProject` additionally asks `ExecOk` below the top level (not established by
the passes — see the negative theorem) and `one_init` (proved for `addMainFunc` under a row-level
hypothesis, `C03_main_func_one_init`, not transported to trees). -/
theorem C03_project_wf_partial (P : LangRun.Params) (bk : String → Bool)
    (hbk1 : bk "original_stmt" = false) (hbk2 : bk "unit_id" = false) (hI : 2 ≤ P.interval)
    (units : List (Nat × Frontend)) (n : Nat) (hn : 1 ≤ n)
    (hwf : ∀ u ∈ units, ∀ t, u.2 = .gir (some t) → treeFalsy (some t) = false → WfGir bk t = true) :
    ∃ us nf, langRun P n units = .ok (us, nf) ∧ n ≤ nf ∧
      (∀ u ∈ us, ∀ r ∈ u.2, n ≤ r.id ∧ r.id < nf) ∧
      us.Pairwise (fun u v => ∀ a ∈ u.2, ∀ b ∈ v.2, a.id < b.id) ∧
      (us.map (·.2)).Pairwise RangesDisjoint ∧
      (∀ u ∈ us, WFCore bk u.2 ∧
        (∀ r ∈ u.2, r.isMarker = false → r.parent = 0 → MainFunc.keepsTop P.main r.op = true) ∧
        u.2.Pairwise (fun a b => a.isMarker = false → b.isMarker = false → a.parent = b.parent → a.id < b.id)) := by
  obtain ⟨us, nf, h1, h2, h3, h4, h5⟩ := langRun_spec P bk hbk1 hbk2 hI units n hn hwf
  refine ⟨us, nf, h1, h2, h3, h4, ?_, h5⟩
  rw [List.pairwise_map]
  exact h4.imp (fun h => Or.inl h)

-- OPEN (not proved):
--   theorem C03_project_wf : … → WFProject W (us.map (·.2))
-- i.e. additionally, for every saved unit, `one_init` stated on trees (it holds on every run of the
-- correspondence harness; needs the hypothesis that the tree has no top-level `method_decl` already
-- called `%unit_init`, transported through `flatten`), and `Lvl … (ExecOk W)` — which is FALSE for the
-- passes as they are: see `C03_main_func_exec_counterexample`.

/-- the starting counter of a run is ≥ `MIN_ID_INTERVAL` and a multiple of 10, and consecutive units
are at least `MIN_ID_INTERVAL` apart -/
theorem C03_adjust_node_id (i n : Nat) : n + i ≤ adjustNodeId i n ∧ adjustNodeId i n % 10 = 0 :=
  ⟨adjust_ge i n, adjust_mod i n⟩

/-! ## 4b. The consumers -/

/-- **C03 (consumers).** On every table satisfying the core clauses (in particular on everything the
checker accepts, `C03_consumers_total_of_check`) the model of the `GIRBlockViewer` constructor
returns without raising, and the model of `DataModel.read_block` finds exactly two rows for the id of
every block. -/
theorem C03_consumers_total (bk : String → Bool) (rows : Rows) (h : WFCore bk rows) :
    viewer rows = .ok () ∧ ∀ s ∈ rows, s.isStart = true → readBlock rows s.id = true :=
  ⟨viewer_ok (shape_of_lvl (h.nested (fun _ _ => false) false)) h.ids_unique,
   readBlock_ok (shape_of_lvl (h.nested (fun _ _ => false) false)) h.ids_unique⟩

theorem lvl_forget {M : Row → Nat → Bool} {Q : Nat → Bool → Row → Prop} {p : Nat} {inM : Bool}
    {last : Option Row} {rows : Rows} (h : Lvl M Q p inM last rows) : Shape p last rows := by
  induction h with
  | nil => exact Shape.nil
  | stmt hm hp _ _ ih => exact Shape.stmt hm hp ih
  | block hs he hid hsp hep ha _ _ ih1 ih2 => exact Shape.block hs he hid hsp hep ha ih1 ih2

/-- whatever the certified checker accepts is safe for the consumers -/
theorem C03_consumers_total_of_check (P : WfParams) (rows : Rows) (h : wfUnitCheck P rows = true) :
    viewer rows = .ok () ∧ ∀ s ∈ rows, s.isStart = true → readBlock rows s.id = true := by
  have hw := (wfUnitCheck_iff P rows).1 h
  exact ⟨viewer_ok (lvl_forget hw.nested) hw.ids_unique, readBlock_ok (lvl_forget hw.nested) hw.ids_unique⟩

/-! ## 5. Non-vacuity -/

/-- a small program: `x = 1` (declaration + assignment), `if x: pass`, `def f(): …` -/
def demoTree : JVal :=
  .list [ .obj [("variable_decl", .obj [("name", .str "x")])],
          .obj [("assign_stmt", .obj [("target", .str "x"), ("operand", .str "1")])],
          .obj [("if_stmt", .obj [("condition", .str "x"),
                 ("then_body", .list [.obj [("pass_stmt", .obj [])]]), ("else_body", .list [])])],
          .obj [("method_decl", .obj [("name", .str "f"), ("body", .list [])])] ]

def W0 : WfParams := {}

example : WfGir (bodyKey W0) demoTree = true := by decide
example : bodyKey W0 "original_stmt" = false ∧ bodyKey W0 "unit_id" = false := by decide

/-- the hypotheses of `C03_flatten_wf` are satisfiable and its conclusion is about a real table:
9 rows, ids 120…126, next counter 127 -/
example : ∃ rows, flatten {} 120 demoTree = .ok (127, rows) ∧ rows.length = 9 ∧
    defIds rows = [120, 121, 122, 123, 124, 125, 126] ∧ wfUnitCheck W0 rows = false ∧
    wfUnitCheck W0 (addMainFunc {} rows) = true := by
  refine ⟨_, rfl, ?_, ?_, ?_, ?_⟩ <;> decide

/-- the consumer models accept that table and reject a table with a missing `block_end` -/
example : ∃ rows, flatten {} 120 demoTree = .ok (127, rows) ∧ viewer (addMainFunc {} rows) = .ok () ∧
    viewer ((addMainFunc {} rows).dropLast) = .error .unclosed ∧
    readBlock (addMainFunc {} rows) 128 = true ∧ readBlock ((addMainFunc {} rows).dropLast) 128 = false := by
  refine ⟨_, rfl, rfl, rfl, ?_, ?_⟩ <;> decide

/-- the checker accepts and rejects: dropping the last `block_end` of the table above is rejected -/
example : ∃ rows, flatten {} 120 demoTree = .ok (127, rows) ∧
    unitFailures W0 ((addMainFunc {} rows).dropLast) = ["nested"] := by
  refine ⟨_, rfl, ?_⟩; decide

/-- two units in one run get disjoint ranges: 120…128 and 150…158 (the unit without GIR still advances the counter) -/
example : ∃ u1 u2, langRun {} 120 [(100, .gir (some demoTree)), (101, .gir none), (102, .gir (some demoTree))] =
      .ok ([(100, u1), (102, u2)], 170) ∧ wfCheck W0 [u1, u2] = true ∧
      idRange u1 = some (120, 128) ∧ idRange u2 = some (150, 158) := by
  refine ⟨_, _, rfl, ?_, ?_, ?_⟩ <;> decide

/-! ## 6. Negative witnesses -/

/-- PHP `namespace A { $x = 1; }`: an executable statement inside the body of a top-level
declaration. -/
def namespaceTree : JVal :=
  .list [ .obj [("namespace_decl", .obj [("name", .str "A"),
            ("body", .list [.obj [("assign_stmt", .obj [("target", .str "$x"), ("operand", .str "1")])]])])] ]

/-- the rows `flatten` produces for it from counter 120 -/
def namespaceRows : Rows :=
  match flatten {} 120 namespaceTree with
  | .ok (_, rows) => rows
  | .error _ => []

/-- **`add_main_func` does not establish "every executable statement lies inside a method".**
The tree is `WfGir`, the passes succeed and every other clause holds, but the `assign_stmt` stays
in the block of the top-level `namespace_decl` — in no method and no initialiser block.  (Real code:
corpus/C03/php_namespace_body.json; known finding C03/php-namespace-body-outside-method.) -/
theorem C03_main_func_exec_counterexample :
    WfGir (bodyKey W0) namespaceTree = true ∧
    flatten {} 120 namespaceTree = .ok (123, namespaceRows) ∧
    namespaceRows.length = 4 ∧
    addMainFunc {} namespaceRows = namespaceRows ∧
    unitFailures W0 (addMainFunc {} namespaceRows) = ["exec_in_method"] ∧
    ¬ WFUnit W0 (addMainFunc {} namespaceRows) := by
  refine ⟨by decide, rfl, by decide, by decide, by decide, ?_⟩
  rw [← wfUnitCheck_iff]
  decide

/-- **The pinned commit loses the whole project when one frontend call raises** (frozen model
`langRun0`): three units, the second one raises `AttributeError` (real code: any TypeScript file with
`this.x = y`, corpus/C03/project_with_bad_file.json) — the run ends with that exception and no unit
has GIR.  The code as it is now (`langRun`, after the `fix:` commit) skips the file, and the two
other units are well-formed with disjoint id ranges. -/
theorem C03_unfixed_counterexample_frontend_exception :
    langRun0 {} 120 [(100, .gir (some demoTree)), (101, .raised "AttributeError"), (102, .gir (some demoTree))]
      = .error (.exn "AttributeError") ∧
    ∃ u1 u2, langRun {} 120 [(100, .gir (some demoTree)), (101, .raised "AttributeError"), (102, .gir (some demoTree))]
      = .ok ([(100, u1), (102, u2)], 170) ∧ wfCheck W0 [u1, u2] = true := by
  refine ⟨rfl, _, _, rfl, ?_⟩
  decide

/-- **Latent defect of `flatten_stmt` (kept in the model): the bare `return` after
`if not isinstance(stmt_content, dict)` returns `None`, so a statement without attribute dict
followed by an `assign_stmt` / `call_stmt` raises `TypeError`.**  No frontend was seen to emit such a
pair, which is why `WfGir` excludes statements without attribute dict instead of the code being
changed. -/
theorem C03_flatten_bare_return_typeerror :
    flatten {} 120 (.list [.obj [("call_stmt", .null)], .obj [("call_stmt", .null)]]) =
      .error (.exn "TypeError") := by
  rfl

end LianVerif.C03
