/-
C13 — Analysis terminates within bounded time on every program.

Only property theorems, non-vacuity examples and negative witnesses live here.
Models (all written without fuel, so each definition is itself a termination proof):
  Model/Termination.lean         `visitLoop`    — analyze_stmts + SimpleWorkList (any discipline)
  Model/TerminationFrames.lean   `driver`       — analyze_frame_stack + call cut-offs (any statement analysis)
  Model/TerminationTaint.lean    `taintLoop`    — PathFinder.propagate_taint
  Model/TerminationClosure.lean  `closureLoop`  — visited-set guarded closures; `scopeClosure`
  Model/TerminationTotal.lean    `visitRunner`  — the statement loop plugged into the driver
  Model/TerminationPrelim.lean   `prelimDriver` — analyze_method (bottom-up phase), any oracle, any init outcome
Closed forms: Spec/TerminationBounds.lean.

What the theorems are about: numbers of loop iterations.  NOT covered by any theorem here and only
monitored by the harness: the cost of ONE statement analysis (state creation, cartesian products of
operand states, `eval` of folded constants), pandas/feather I/O, wall-clock time.
-/
import LianVerif.Proofs.Termination
import LianVerif.Proofs.TerminationTotal
import LianVerif.Proofs.TerminationPrelim

namespace LianVerif.C13
open LianVerif.Termination LianVerif

/-! ## 1. The statement loop (`analyze_stmts`) -/

/-- **C13 (statement loop, one invocation, every worklist discipline, every statement analysis).**
The number of iterations of one invocation of `analyze_stmts` is at most
`|worklist| + Σ_v (lim v − cnt v)·outdeg v`, plus `outdeg s + 1` if the invocation ends in an
interruption at statement `s`.  `D` ranges over all worklist disciplines — in particular the real
one, where `pop` removes `work_list[0]` of a list that is a heap only by accident. -/
theorem C13_stmts_bound {ω γ : Type} (D : Discipline ω) (succ : Int → List Int) (V : List Int)
    (lim : Int → Nat) (analyse : Int → γ → γ × Bool) (w : ω) (cnt : Int → Nat) (g : γ) :
    visitSteps D succ V lim analyse w cnt g
      ≤ stmtsBound succ V lim cnt (D.size w)
        + allow succ (visitLoop D succ V lim analyse w cnt g).events := by
  have := visit_potential D succ V lim analyse w cnt g
  unfold visitSteps stmtsBound
  unfold rank at this
  omega

/-- the same in potential form, which composes over the successive invocations of one frame: what
an invocation spends is taken out of the ranking function of the frame. -/
theorem C13_stmts_potential {ω γ : Type} (D : Discipline ω) (succ : Int → List Int) (V : List Int)
    (lim : Int → Nat) (analyse : Int → γ → γ × Bool) (w : ω) (cnt : Int → Nat) (g : γ) :
    visitSteps D succ V lim analyse w cnt g
      + rank D succ V lim (visitLoop D succ V lim analyse w cnt g).w (visitLoop D succ V lim analyse w cnt g).cnt
      ≤ rank D succ V lim w cnt + allow succ (visitLoop D succ V lim analyse w cnt g).events :=
  visit_potential D succ V lim analyse w cnt g

/-- an invocation pays the interruption allowance at most once (`≤ dmax + 1`), and not at all when
it runs to the end. -/
theorem C13_stmts_allowance {ω γ : Type} (D : Discipline ω) (succ : Int → List Int) (V : List Int)
    (lim : Int → Nat) (analyse : Int → γ → γ × Bool) (dmax : Nat) (hd : ∀ s, (succ s).length ≤ dmax)
    (w : ω) (cnt : Int → Nat) (g : γ) :
    allow succ (visitLoop D succ V lim analyse w cnt g).events ≤ dmax + 1 ∧
    ((visitLoop D succ V lim analyse w cnt g).interrupted = false →
      allow succ (visitLoop D succ V lim analyse w cnt g).events = 0) :=
  allow_le D succ V lim analyse dmax hd w cnt g

/-- **C13 (statement loop, fresh frame, the uniform form of DESIGN §5).**  With all counters at 0,
the same budget `R` for every statement and an initial worklist no larger than the method, a run
that is not interrupted performs at most `|V| + R·|E| ≤ (R+1)·(|V|+|E|)` iterations. -/
theorem C13_stmts_bound_uniform {ω γ : Type} (D : Discipline ω) (succ : Int → List Int) (V : List Int)
    (R : Nat) (analyse : Int → γ → γ × Bool) (w : ω) (g : γ) (hw : D.size w ≤ V.length)
    (hni : (visitLoop D succ V (fun _ => R) analyse w (fun _ => 0) g).interrupted = false) :
    visitSteps D succ V (fun _ => R) analyse w (fun _ => 0) g ≤ V.length + R * edgeCount succ V ∧
    V.length + R * edgeCount succ V ≤ stmtsBoundUniform R V.length (edgeCount succ V) := by
  have h1 := C13_stmts_bound D succ V (fun _ => R) analyse w (fun _ => 0) g
  have h2 := allow_zero D succ V (fun _ => R) analyse w (fun _ => 0) g hni
  have h3 : stmtsBound succ V (fun _ => R) (fun _ => 0) (D.size w) = D.size w + R * edgeCount succ V := by
    unfold stmtsBound edgeCount
    simp only [Nat.sub_zero]
    rw [sumOver_mul_left]
  refine ⟨by omega, ?_⟩
  unfold stmtsBoundUniform
  rw [Nat.add_mul, Nat.one_mul, Nat.mul_add]
  omega

/-- the theorem covers the real worklist: `heapq.heappush` on insertion, `list.pop(0)` on removal -/
theorem C13_stmts_bound_real_worklist {γ : Type} (succ : Int → List Int) (V : List Int)
    (lim : Int → Nat) (analyse : Int → γ → γ × Bool) (w : HeapWL) (cnt : Int → Nat) (g : γ) :
    visitSteps heapDiscipline succ V lim analyse w cnt g
      ≤ stmtsBound succ V lim cnt w.heap.length
        + allow succ (visitLoop heapDiscipline succ V lim analyse w cnt g).events :=
  C13_stmts_bound heapDiscipline succ V lim analyse w cnt g

/-! non-vacuity: a loop `1 → 2 → {3,5}`, `3 → 4 → 2`, `5 → exit(-1)` with R = 2.  Under the real
discipline the loop header 2 is never re-analysed and statement 4 is analysed twice in a row — the
bound holds all the same (8 iterations ≤ 13). -/
def exSucc : Int → List Int := fun s =>
  if s = 1 then [2] else if s = 2 then [3, 5] else if s = 3 then [4] else if s = 4 then [2]
  else if s = 5 then [-1] else []
def exPrio : List (Int × Nat) := [(1, 0), (2, 1), (3, 3), (4, 4), (5, 2), (-1, 5)]
def exRun := visitLoop heapDiscipline exSucc [1, 2, 3, 4, 5] (fun _ => 2)
  (fun (_ : Int) (g : Unit) => (g, false)) { heap := [(0, 1)], prio := exPrio } (fun _ => 0) ()

example : exRun.events = [.visit 1, .visit 2, .visit 3, .visit 5, .visit 4, .skip (-1), .visit 4, .skip 4] := by
  decide +kernel
example : stmtsBound exSucc [1, 2, 3, 4, 5] (fun _ => 2) (fun _ => 0) 1 = 13 := by decide +kernel

/-! ## 2. The frame-stack driver (`analyze_frame_stack`) -/

/-- **C13 (frames, for every behaviour of the statement analysis).**  For one entry point, whatever
`analyze_stmts` does (`R` is ANY runner obeying the two counter laws), starting from fresh call-site
counters the driver creates at most `1 + (B+1)·|U|` frames, is interrupted at most `(B+1)·|U|` times
and performs at most `4·(B+1)·|U| + 2` iterations, where `U` is the finite universe of call sites
`(caller, call statement, callee)`.  Hence recursion, mutual recursion and self-application cannot
make the driver diverge.  `hasBody` is an oracle as well (it sees the global state, the frame and the
time): whether, when and how often `init_compute_frame` fails is quantified over, so a callee that
can never be initialised (empty CFG) cannot make the driver spin either. -/
theorem C13_frames_bound {φ : Type} {U : List Site} {B : Nat} (R : Runner U B φ) (hasBody : Glob → Frame φ → Nat → Bool)
    (mkLoc : Int → φ) (entry : Int) (G : Glob) (hG : G.cnt = fun _ => 0) :
    framesCreated (driver R hasBody mkLoc [entryFrame mkLoc entry] G 0).1 ≤ framesBound B U.length ∧
    interruptions (driver R hasBody mkLoc [entryFrame mkLoc entry] G 0).1 ≤ intrBound B U.length ∧
    driverSteps R hasBody mkLoc entry G ≤ driverBound B U.length := by
  have h1 := driver_pushes_le R hasBody mkLoc [entryFrame mkLoc entry] G 0
  have h2 := driver_intrs_le R hasBody mkLoc [entryFrame mkLoc entry] G 0
  have h3 := driver_steps_le R hasBody mkLoc [entryFrame mkLoc entry] G 0
  have hb : budget U B G.cnt = (B + 1) * U.length := by rw [hG]; exact budget_zero U B
  have hp : pendTotal [entryFrame mkLoc entry] = 0 := rfl
  have hw : stackWeight [entryFrame mkLoc entry] = 2 := rfl
  refine ⟨?_, ?_, ?_⟩
  · rw [framesCreated_eq]; unfold framesBound; omega
  · unfold intrBound; omega
  · unfold driverSteps driverBound
    unfold drank at h3
    omega

/-- the instance the harness replays: raw callee requests from an ARBITRARY oracle (it may inspect
the whole global state, the frame and the time) filtered by the modelled cut-offs. -/
theorem C13_frames_bound_any_oracle (U : List Site) (B : Nat)
    (oracle : Glob → Frame Unit → Nat → List (Int × List Int)) (hasBody : Glob → Frame Unit → Nat → Bool) (entry : Int)
    (paths : PathStore.Store Site) :
    framesCreated (driver (scriptRunner U B oracle) hasBody (fun _ => ()) [entryFrame (fun _ => ()) entry]
        { cnt := fun _ => 0, paths := paths } 0).1 ≤ framesBound B U.length :=
  (C13_frames_bound (scriptRunner U B oracle) hasBody (fun _ => ()) entry
    { cnt := fun _ => 0, paths := paths } rfl).1

/-! non-vacuity: `f` (method 1) calls itself at statement 10 and `g` (method 2) at statement 11; the
oracle repeats the recursive request for ever.  The driver stops after 5 frames. -/
def exOracle : Glob → Frame Unit → Nat → List (Int × List Int) := fun _ f _ =>
  if f.method = 1 then [(10, [1]), (11, [2])] else []
def exU : List Site := [(1, 10, 1), (1, 11, 2)]
def exDrv := driver (scriptRunner exU 2 exOracle) (fun _ _ _ => true) (fun _ => ()) [entryFrame (fun _ => ()) 1]
  { cnt := fun _ => 0, paths := PathStore.Store.empty } 0

example : framesCreated exDrv.1 = 5 ∧ interruptions exDrv.1 = 4 ∧ maxPathLen exDrv.1 = 3
    ∧ framesBound 2 exU.length = 7 := by decide +kernel

/-- **C13 (call paths).**  For every runner that only descends into call sites accepted by the
modelled cut-offs (`PathSafe`: the oracle-driven runner and the composed runner both are), every
frame initialised for an entry point has a call path with at most one cycle, made of sites of `U`,
and therefore of length at most `|M| + 1`, `M` being any list containing the callees of `U`. -/
theorem C13_path_length {φ : Type} {U : List Site} {B : Nat} (R : Runner U B φ) (hR : PathSafe R)
    (hasBody : Glob → Frame φ → Nat → Bool) (mkLoc : Int → φ) (entry : Int) (G : Glob) (M : List Int)
    (hM : ∀ u ∈ U, u.2.2 ∈ M) :
    (∀ e ∈ (driver R hasBody mkLoc [entryFrame mkLoc entry] G 0).1, ∀ m p, e = DEv.init m p →
      countCycles p ≤ 1 ∧ p.length ≤ pathLenBound M.length) ∧
    maxPathLen (driver R hasBody mkLoc [entryFrame mkLoc entry] G 0).1 ≤ pathLenBound M.length := by
  have hok : StackOk U [entryFrame mkLoc entry] := by
    refine ⟨fun h => by simp [entryFrame] at h, fun _ => ⟨rfl, trivial⟩, trivial⟩
  have hall := driver_paths_ok R hR hasBody mkLoc [entryFrame mkLoc entry] G 0 hok
  have key : ∀ e ∈ (driver R hasBody mkLoc [entryFrame mkLoc entry] G 0).1, ∀ m p, e = DEv.init m p →
      countCycles p ≤ 1 ∧ p.length ≤ pathLenBound M.length := by
    intro e he m p hep
    have := hall e he
    rw [hep] at this
    obtain ⟨hc, hU⟩ := this
    refine ⟨hc, ?_⟩
    have := path_len_le M p (fun s hs => hM s (hU s hs))
    unfold pathLenBound; omega
  refine ⟨key, ?_⟩
  apply maxPathLen_le
  intro e he
  cases e with
  | init m p => exact (key _ he m p rfl).2
  | _ => trivial

theorem C13_path_length_any_oracle (U : List Site) (B : Nat)
    (oracle : Glob → Frame Unit → Nat → List (Int × List Int)) (hasBody : Glob → Frame Unit → Nat → Bool) (entry : Int)
    (G : Glob) (M : List Int) (hM : ∀ u ∈ U, u.2.2 ∈ M) :
    maxPathLen (driver (scriptRunner U B oracle) hasBody (fun _ => ()) [entryFrame (fun _ => ()) entry] G 0).1
      ≤ pathLenBound M.length :=
  (C13_path_length (scriptRunner U B oracle) (scriptRunner_pathSafe U B oracle) hasBody (fun _ => ())
    entry G M hM).2

/-! non-vacuity for failing initialisation: the same program, but method 2 has no body (its frames
are dropped by `init_compute_frame` every time they are scheduled). -/
def exDrvFail := driver (scriptRunner exU 2 exOracle)
  (fun _ f _ => f.method != 2) (fun _ => ())
  [entryFrame (fun _ => ()) 1] { cnt := fun _ => 0, paths := PathStore.Store.empty } 0

example : (exDrvFail.1.filter (fun e => match e with | .initFail _ => true | _ => false)).length = 2 ∧
    framesCreated exDrvFail.1 = 5 ∧ framesCreated exDrvFail.1 ≤ framesBound 2 exU.length ∧
    exDrvFail.1.length ≤ driverBound 2 exU.length := by decide +kernel

/-! ## 2b. The bottom-up driver (`analyze_method`, `--enable-p2`) -/

/-- **C13 (bottom-up driver).**  For every oracle of callee requests and every outcome of frame
initialisation (`hasBody` may make any frame fail at any time), one run of `analyze_method` —
written without fuel, so it terminates — is interrupted at most once per method of the universe `M`
that is neither analysed nor on the stack when it starts, hence at most `|M|` times, and performs
at most `4·|M| + 2` driver events (initialisations, interruptions, pushes, completions).  The model marks
a method analysed when its frame is dropped by a failing initialisation, exactly as the code does;
that mark is what the ranking function needs (a dropped callee must not be requested again). -/
theorem C13_prelim_bound (M : List Int) (hasBody : List Int → List PFrame → Nat → Bool)
    (oracle : List Int → List PFrame → Nat → List (Int × List Int)) (root : Int) (analyzed : List Int) :
    pInterruptions (prelimDriver M hasBody oracle [{ method := root, inited := false }] analyzed 0).1
      ≤ M.length ∧
    (prelimDriver M hasBody oracle [{ method := root, inited := false }] analyzed 0).1.length
      ≤ 4 * M.length + 2 := by
  refine ⟨Nat.le_trans (prelim_intrs_le M hasBody oracle _ analyzed 0) (pFree_le_length M analyzed _), ?_⟩
  have h1 := prelim_steps_le M hasBody oracle [{ method := root, inited := false }] analyzed 0
  have h2 := pFree_le_length M analyzed [{ method := root, inited := false }]
  have h3 : pWeight [{ method := root, inited := false }] = 2 := rfl
  unfold prank at h1
  omega

/-! non-vacuity: `main` (1) calls the stub `hook` (2), whose frame can never be initialised, at
statement 10 on every invocation, and itself; the driver is interrupted once and stops. -/
def exPrelim := prelimDriver [1, 2] (fun _ st _ => match st with | f :: _ => f.method != 2 | [] => true)
  (fun _ _ _ => [(10, [2, 1])]) [{ method := 1, inited := false }] [] 0

example : exPrelim.1 = [.init 1, .intr 1 10 [2], .push 2, .initFail 2, .done 1] ∧ exPrelim.2 = [1, 2] := by
  decide +kernel

/-! ## 3. The taint queue (`propagate_taint`) -/

/-- **C13 (taint queue).**  From any seeded state whose queue holds node indices, one propagation
dequeues at most `(|slots|·|bits| + |nodes| + |queue₀|)·(1 + A)` nodes, `A` being the largest
number of unconditional (`SYMBOL_IS_USED`) enqueues a single node triggers. -/
theorem C13_taint_bound (T : TGraph) (st : TState) (h : queueOk T st.queue = true) :
    taintSteps T st ≤ taintBound T.slots.length T.bits.length T.n st.queue.length (wmax T) :=
  Nat.le_trans (taint_steps_le T st) (trank_le_bound T st h)

/-! non-vacuity: symbol 0 –used→ stmt 1 –defines→ symbol 2 –flows→ symbol 0 (a cycle), one bit. -/
def exT : TGraph :=
  { n := 3, slots := [0, 1], bits := [1],
    src := fun u => if u = 0 then [0] else if u = 1 then [0] else [1],
    acts := fun u => if u = 0 then [.always 1] else if u = 1 then [.grow 2 1 true] else [.grow 0 0 false] }
def exTState : TState := { tags := fun s => if s = 0 then [1] else [], queue := [0], processed := [] }

example : (taintLoop exT exTState).1 = [0, 1, 2] ∧
    taintBound exT.slots.length exT.bits.length exT.n 1 (wmax exT) = 12 := by decide +kernel

/-! ## 4. Visited-set guarded closures -/

/-- **C13 (closure).**  A worklist closure that marks a node when it first pops it and pushes only
unmarked neighbours pops at most `|worklist₀| + |E|` times, on every graph (cycles included) and for
every worklist discipline. -/
theorem C13_closure_bound {ω : Type} (D : Discipline ω) (next : Int → List Int) (N : List Int) (w : ω) :
    closureSteps D next N w ≤ closureBound (D.size w) (sumOver (fun v => (next v).length) N) := by
  have := closure_steps_le D next N w []
  rw [crank_le] at this
  exact this

example : (closureLoop fifoDiscipline (fun x => if x = 1 then [2, 3] else if x = 2 then [1] else [])
    [1, 2, 3] [1] []).pops = [1, 2, 3] := by decide +kernel

/-! ## 5. Composition: the statement loop inside the frame driver -/

/-- **C13 (total, top-down phase, one entry point).**  Plug the statement loop into the driver
(`visitRunner`): every frame runs `visitLoop` on its own worklist and counters, and ANY oracle `calls`
decides which callees each analysed statement requests.  If a fresh frame of any method has ranking
value at most `nV + R·nE` (e.g. at most `nV` initial worklist entries, `nE` CFG edges and budget `R`
per statement) and no statement has more than `dmax` successors, then the number of statement-loop
iterations of ALL frames plus the number of driver iterations is at most

    framesBound·(nV + R·nE) + intrBound·(dmax + 1) + driverBound
      = (1 + (B+1)|U|)(nV + R·nE) + (B+1)|U|(dmax + 1) + 4(B+1)|U| + 2,

a polynomial in (statements, CFG edges, call sites) for fixed `R`, `B`. -/
theorem C13_total_polynomial {ω : Type} (U : List Site) (B : Nat) (P : Prog ω) (R nV nE dmax : Nat)
    (hK : ∀ m, stmtsBound (P.succ m) (P.V m) (P.lim m) (P.init m).cnt (P.D.size (P.init m).w) ≤ nV + R * nE)
    (hd : ∀ m s, (P.succ m s).length ≤ dmax) (hasBody : Glob → Frame (VLoc ω) → Nat → Bool) (entry : Int) (G : Glob)
    (hG : G.cnt = fun _ => 0) :
    innerCost (driver (visitRunner U B P) hasBody P.init [entryFrame P.init entry] G 0).1
      + driverSteps (visitRunner U B P) hasBody P.init entry G
      ≤ entryBound R B U.length nV nE dmax := by
  have hK' : ∀ m, rank P.D (P.succ m) (P.V m) (P.lim m) (P.init m).w (P.init m).cnt ≤ nV + R * nE := by
    intro m; have := hK m; unfold stmtsBound at this; unfold rank; omega
  have h1 := innerCost_le U B P (nV + R * nE) dmax hK' hd hasBody [entryFrame P.init entry] G 0
  have h2 := (C13_frames_bound (visitRunner U B P) hasBody P.init entry G hG).2.2
  have hb : budget U B G.cnt = (B + 1) * U.length := by rw [hG]; exact budget_zero U B
  have hp : pendTotal [entryFrame P.init entry] = 0 := rfl
  have hr : sumOver (frameRank P) [entryFrame P.init entry] ≤ nV + R * nE := by
    simp only [sumOver, frameRank, entryFrame]; have := hK' entry; omega
  unfold psi at h1
  rw [hb, hp] at h1
  unfold entryBound framesBound intrBound
  generalize (B + 1) * U.length = n at *
  generalize nV + R * nE = K at *
  have e1 : (1 + n) * K = K + n * K := by rw [Nat.add_mul, Nat.one_mul]
  have e2 : (K + dmax + 1) * n = n * K + n * (dmax + 1) := by
    rw [Nat.add_assoc, Nat.add_mul, Nat.mul_comm K n, Nat.mul_comm (dmax + 1) n]
  rw [e1]
  simp only [Nat.mul_zero, Nat.add_zero] at h1
  omega

/-- the composed system also keeps call paths short -/
theorem C13_total_path_length {ω : Type} (U : List Site) (B : Nat) (P : Prog ω) (hasBody : Glob → Frame (VLoc ω) → Nat → Bool)
    (entry : Int) (G : Glob) (M : List Int) (hM : ∀ u ∈ U, u.2.2 ∈ M) :
    maxPathLen (driver (visitRunner U B P) hasBody P.init [entryFrame P.init entry] G 0).1
      ≤ pathLenBound M.length :=
  (C13_path_length (visitRunner U B P) (visitRunner_pathSafe U B P) hasBody P.init entry G M hM).2

/-! non-vacuity: two methods; method 1 has statements 10 → 11 → 12, statement 11 requests callees
[2, 1] (a call to method 2 and a recursive call); method 2 has the single statement 20. -/
def exProg : Prog (List Int) :=
  { D := fifoDiscipline,
    succ := fun m s => if m = 1 then (if s = 10 then [11] else if s = 11 then [12] else []) else [],
    V := fun m => if m = 1 then [10, 11, 12] else [20],
    lim := fun _ _ => 2,
    init := fun m => { w := if m = 1 then [10] else [20], cnt := fun _ => 0 },
    calls := fun m s _ _ => if m = 1 ∧ s = 11 then [2, 1] else [] }
def exTotU : List Site := [(1, 11, 2), (1, 11, 1)]
def exTot := driver (visitRunner exTotU 2 exProg) (fun _ _ _ => true) exProg.init [entryFrame exProg.init 1]
  { cnt := fun _ => 0, paths := PathStore.Store.empty } 0

example : innerCost exTot.1 = 15 ∧ exTot.1.length = 20 ∧ framesCreated exTot.1 = 6 ∧
    maxPathLen exTot.1 = 3 ∧ entryBound 2 2 exTotU.length 1 2 1 = 73 := by decide +kernel

/-! ## Negative results on frozen models of the pinned code -/

/-- frozen model of constant folding in `StmtStates.compute_two_states` as far as sizes go:
`util.strict_eval(f"{v1} {op} {v2}")` with CPython integer semantics and NO operand-size guard. -/
def fold0 (op : String) (a b : Nat) : Nat :=
  if op = "**" then a ^ b else if op = "<<" then a * 2 ^ b else if op = "*" then a * b else a + b

/-- the straight-line program `x0 = 10; x1 = x0 ** 10; …; xk = x(k-1) ** 10` (k+1 statements) -/
def foldChain0 : Nat → Nat
  | 0 => 10
  | k + 1 => fold0 "**" (foldChain0 k) 10

/-- **negative (C13_fold_unbounded, shared with C08).**  The constant folded for a program of `k+1`
statements has `10^k + 1` decimal digits: the size of folded values — hence the cost of one
statement analysis, and of every later `str()` of the value — is exponential in the program size;
no polynomial bound on the whole run exists while folding is unguarded. -/
theorem C13_fold_unbounded (k : Nat) : foldChain0 k = 10 ^ (10 ^ k) := by
  induction k with
  | zero => rfl
  | succ k ih =>
    simp only [foldChain0, fold0, if_true, ih]
    rw [← Nat.pow_mul, Nat.pow_succ]

/-- the witness of known finding C13/fold-crash: `a=9; b=a**9; c=b**99999` folds `c` to a value of
more than 4300 digits, which CPython refuses to convert to `str` (ValueError) in the f-string of the
next folding step. -/
theorem C13_unfixed_counterexample_fold_crash :
    fold0 "**" (fold0 "**" 9 9) 99999 ≥ 10 ^ 4300 := by
  have h1 : fold0 "**" 9 9 ≥ 10 ^ 8 := by decide +kernel
  have h2 : fold0 "**" (fold0 "**" 9 9) 99999 = (fold0 "**" 9 9) ^ 99999 := by
    simp only [fold0, if_true]
  rw [h2]
  calc 10 ^ 4300 ≤ 10 ^ (8 * 99999) := Nat.pow_le_pow_right (by decide) (by decide)
    _ = (10 ^ 8) ^ 99999 := Nat.pow_mul 10 8 99999
    _ ≤ (fold0 "**" 9 9) ^ 99999 := Nat.pow_le_pow_left h1 99999

/-- frozen model of the tail of `ControlFlowAnalysis.analyze_while_stmt` (pinned commit):
`last_stmts` = the `break`s of the body plus the loop-false exit unless the condition is the literal
`True`; with an `else` body the code executes `last_stmts.pop()` unconditionally. -/
def whileLast0 (condIsTrue : Bool) (breaks : List Nat) (loopId : Nat) (elseLast : Option (List Nat)) :
    Except String (List Nat) :=
  let lastStmts := breaks ++ (if condIsTrue then [] else [loopId])
  match elseLast with
  | none => .ok lastStmts
  | some e =>
    if lastStmts.isEmpty then .error "IndexError: pop from empty list"
    else .ok (lastStmts.dropLast ++ e)

/-- **negative (known finding C13/while-true-else).**  `while True: <no break> else: …` makes the
pinned code pop from an empty list; the exception aborts the whole semantic phase. -/
theorem C13_unfixed_counterexample_while_true_else :
    whileLast0 true [] 7 (some [9]) = .error "IndexError: pop from empty list" := rfl

end LianVerif.C13
