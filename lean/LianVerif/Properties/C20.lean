/-
C20 — Entry points and unit initialisers are selected exactly as configured.

Only property theorems, non-vacuity examples and quirk witnesses live here.
Model: LianVerif/Model/EntryPoints.lean (`select`, `runP1` mirror EntryPointGenerator and the unit loop
       of P1.run; `p3Run`, `taintRun` are the abstract consumers of the saved set).
Spec:  LianVerif/Spec/EntrySelect.lean (`Selected`, `UnitOk`, `MethodOk`, `IsRuleFile`).

Strength: the selection theorems are full strength for the model (all rule lists, all unit tables,
unbounded).  The "start set" / "flows" theorems are stated over an abstract per-entry analysis
`analyse` and an abstract per-graph flow finder `flowsOf`: they prove the *plumbing* (one root per
selected id, graphs are looked up by entry id only) and say nothing about what `analyse` and
`flowsOf` compute — that is C07 / C10 / C11.
-/
import LianVerif.Proofs.EntryPoints

namespace LianVerif.C20
open LianVerif.EntryPoints LianVerif.EntrySelect

abbrev Units := List (UnitInfo × List MethodScope)

/-! ### Selection -/

/-- **C20 (decision logic).**  The two nested loops with their `continue`/`break`, the accumulator
shared across units and the "save only when there are candidate rules" step compute exactly the
existential: a declaration id is selected iff some rule accepts the unit and the method scope. -/
theorem C20_select_iff (rules : List Rule) (units : Units) (id : Int) :
    id ∈ select rules units ↔ Selected rules units id := by
  rw [select_mem]
  unfold Selected UnitSelects
  constructor
  · rintro ⟨um, hum, m, hm, hid, r, hr, h1, h2⟩
    exact ⟨r, hr, um, hum, m, hm, hid, unitMatches_iff.1 h1, methodMatches_iff.1 h2⟩
  · rintro ⟨r, hr, um, hum, m, hm, hid, h1, h2⟩
    exact ⟨um, hum, m, hm, hid, r, hr, unitMatches_iff.2 h1, methodMatches_iff.2 h2⟩

/-- the selected set is a set: no id is stored twice -/
theorem C20_select_nodup (rules : List Rule) (units : Units) : (select rules units).Nodup :=
  select_nodup rules units

/-- what the loader holds (`saved`) and what the generator accumulated (`results`) are the same set,
although saving is skipped for units without candidate rules -/
theorem C20_saved_eq_results (rules : List Rule) (units : Units) :
    ∀ x, x ∈ (collectAll rules units).saved ↔ x ∈ (collectAll rules units).results :=
  collectAll_agree rules units

/-- **monotone**: more rules and more units select a superset -/
theorem C20_monotone {rules rules' : List Rule} {units units' : Units}
    (hr : ∀ r ∈ rules, r ∈ rules') (hu : ∀ um ∈ units, um ∈ units') :
    ∀ id ∈ select rules units, id ∈ select rules' units' := by
  intro id h
  rw [C20_select_iff] at h ⊢
  obtain ⟨r, h1, um, h2, rest⟩ := h
  exact ⟨r, hr r h1, um, hu um h2, rest⟩

/-- **empty rule set**: nothing is selected (literally the empty list) -/
theorem C20_empty (units : Units) : select [] units = [] := by
  apply List.eq_nil_iff_forall_not_mem.2
  intro id h
  rw [C20_select_iff] at h
  obtain ⟨r, hr, _⟩ := h
  exact absurd hr (by simp)

theorem C20_no_units (rules : List Rule) : select rules [] = [] := rfl

/-- the order of rules (os.walk order of the settings directory, order inside a file) and the order
of units do not matter for the selected set -/
theorem C20_order_irrelevant {rules rules' : List Rule} {units units' : Units}
    (hr : rules.Perm rules') (hu : units.Perm units') :
    ∀ id, id ∈ select rules units ↔ id ∈ select rules' units' := by
  intro id
  constructor
  · exact C20_monotone (fun r h => hr.mem_iff.1 h) (fun u h => hu.mem_iff.1 h) id
  · exact C20_monotone (fun r h => hr.mem_iff.2 h) (fun u h => hu.mem_iff.2 h) id

/-- **unit filter**: every selected id is a method scope of a unit that satisfies all unit-level
conditions (`lang`, `unit_id`, `unit_name`, `unit_path`) of one and the same rule -/
theorem C20_unit_filter {rules : List Rule} {units : Units} {id : Int} (h : id ∈ select rules units) :
    ∃ r ∈ rules, ∃ um ∈ units, (∃ m ∈ um.2, m.stmtId = id) ∧
      (r.lang ≠ [] → r.lang = um.1.lang) ∧ (0 ≤ r.unitId → r.unitId = um.1.moduleId) ∧
      r.unitName <:+: basename um.1.path ∧ r.unitPath <:+: um.1.path := by
  rw [C20_select_iff] at h
  obtain ⟨r, hr, um, hum, m, hm, hid, hu, _⟩ := h
  exact ⟨r, hr, um, hum, ⟨m, hm, hid⟩, hu⟩

/-- … and conversely a method whose units satisfy no rule's unit-level conditions is never selected -/
theorem C20_unit_filter_excludes {rules : List Rule} {units : Units} {id : Int}
    (h : ∀ um ∈ units, (∃ m ∈ um.2, m.stmtId = id) → ∀ r ∈ rules, ¬ UnitOk r um.1) :
    id ∉ select rules units := by
  intro hs
  rw [C20_select_iff] at hs
  obtain ⟨r, hr, um, hum, m, hm, hid, hu, _⟩ := hs
  exact h um hum ⟨m, hm, hid⟩ r hr hu

/-- only declaration ids of method scopes are ever selected -/
theorem C20_selected_are_methods {rules : List Rule} {units : Units} {id : Int}
    (h : id ∈ select rules units) : ∃ um ∈ units, ∃ m ∈ um.2, m.stmtId = id := by
  rw [C20_select_iff] at h
  obtain ⟨_, _, um, hum, m, hm, hid, _⟩ := h
  exact ⟨um, hum, m, hm, hid⟩

/-- **method_id short-circuit**: a rule that gives a `method_id ≥ 0` selects exactly the scopes with
that id in units passing its unit filter; its `method_list`, `attrs`, `args`, `return_type` are
never looked at -/
theorem C20_method_id_shortcircuit (r : Rule) (h : 0 ≤ r.methodId) (units : Units) (id : Int) :
    id ∈ select [r] units ↔
      (id = r.methodId ∧ ∃ um ∈ units, UnitOk r um.1 ∧ ∃ m ∈ um.2, m.stmtId = id) := by
  rw [C20_select_iff]
  unfold Selected MethodOk
  simp only [List.mem_singleton, exists_eq_left, h, if_true]
  constructor
  · rintro ⟨um, hum, m, hm, hid, hu, he⟩
    exact ⟨by rw [← hid, he], um, hum, hu, m, hm, hid⟩
  · rintro ⟨he, um, hum, hu, m, hm, hid⟩
    exact ⟨um, hum, m, hm, hid, hu, by rw [hid, he]⟩

/-- **args / return_type**: a rule (without `method_id`) that sets either never selects anything -/
theorem C20_args_never_match (r : Rule) (h : r.methodId < 0) (ha : r.args ≠ [] ∨ r.returnType ≠ [])
    (units : Units) : select [r] units = [] := by
  apply List.eq_nil_iff_forall_not_mem.2
  intro id hs
  rw [C20_select_iff] at hs
  obtain ⟨r', hr', _, _, m, _, _, _, hm⟩ := hs
  rw [List.mem_singleton] at hr'
  subst hr'
  unfold MethodOk at hm
  rw [if_neg (by omega)] at hm
  rcases ha with ha | ha
  · exact ha hm.2.2.1
  · exact ha hm.2.2.2

/-- **unit initialiser** (stated for any method scope `m` with name `nm` and empty attribute string,
whose declaration id is not shared with another scope; the synthetic initialiser is the instance
`nm = "%unit_init"`): it is selected iff some rule passes the unit filter of its file and either
gives its id, or has no `method_id` and does not exclude it — i.e. its `method_list`, if non-empty,
names it, and it sets no `attrs`, `args`, `return_type`. -/
theorem C20_init_iff (rules : List Rule) (units : Units) (u : UnitInfo) (ms : List MethodScope)
    (m : MethodScope) (nm : Text) (hu : (u, ms) ∈ units) (hm : m ∈ ms) (hname : m.name = nm)
    (hattrs : m.attrs = [])
    (huniq : ∀ um' ∈ units, ∀ m' ∈ um'.2, m'.stmtId = m.stmtId → um'.1 = u ∧ m' = m) :
    m.stmtId ∈ select rules units ↔
      ∃ r ∈ rules, UnitOk r u ∧
        ((0 ≤ r.methodId ∧ r.methodId = m.stmtId) ∨
         (r.methodId < 0 ∧ (r.methodList.avail = true → Names r.methodList nm) ∧
           r.attrs.avail = false ∧ r.args = [] ∧ r.returnType = [])) := by
  rw [C20_select_iff]
  unfold Selected
  constructor
  · rintro ⟨r, hr, um', hum', m', hm', hid, hok, hmok⟩
    obtain ⟨hu', hm''⟩ := huniq um' hum' m' hm' hid
    subst hm''
    rw [hu'] at hok
    refine ⟨r, hr, hok, ?_⟩
    unfold MethodOk at hmok
    by_cases h0 : 0 ≤ r.methodId
    · rw [if_pos h0] at hmok
      exact Or.inl ⟨h0, hmok⟩
    · rw [if_neg h0] at hmok
      obtain ⟨h1, h2, h3, h4⟩ := hmok
      refine Or.inr ⟨by omega, ?_, ?_, h3, h4⟩
      · intro ha; rw [← hname]; exact h1 ha
      · cases ha : r.attrs.avail
        · rfl
        · exact absurd hattrs (h2 ha).1
  · rintro ⟨r, hr, hok, hcase⟩
    refine ⟨r, hr, (u, ms), hu, m, hm, rfl, hok, ?_⟩
    unfold MethodOk
    rcases hcase with ⟨h0, he⟩ | ⟨h0, h1, h2, h3, h4⟩
    · rw [if_pos h0]; exact he
    · rw [if_neg (by omega)]
      refine ⟨?_, ?_, h3, h4⟩
      · intro ha; rw [hname]; exact h1 ha
      · intro ha; rw [h2] at ha; exact absurd ha (by simp)

/-- **unit initialiser, only when named.**  When every rule that has no `method_id` carries a
non-empty `method_list` (every rule "names" its methods — true of every rule of the shipped
`default_settings/entry.yaml`), the initialiser is selected iff a rule that passes the unit filter
gives its id or names it. -/
theorem C20_init_only_when_named (rules : List Rule) (units : Units) (u : UnitInfo)
    (ms : List MethodScope) (m : MethodScope) (nm : Text) (hu : (u, ms) ∈ units) (hm : m ∈ ms)
    (hname : m.name = nm) (hattrs : m.attrs = [])
    (huniq : ∀ um' ∈ units, ∀ m' ∈ um'.2, m'.stmtId = m.stmtId → um'.1 = u ∧ m' = m)
    (hnamed : ∀ r ∈ rules, r.methodId < 0 → r.methodList.avail = true) :
    m.stmtId ∈ select rules units ↔
      ∃ r ∈ rules, UnitOk r u ∧
        ((0 ≤ r.methodId ∧ r.methodId = m.stmtId) ∨
         (r.methodId < 0 ∧ Names r.methodList nm ∧
           r.attrs.avail = false ∧ r.args = [] ∧ r.returnType = [])) := by
  rw [C20_init_iff rules units u ms m nm hu hm hname hattrs huniq]
  constructor
  · rintro ⟨r, hr, hok, h | ⟨h0, h1, rest⟩⟩
    · exact ⟨r, hr, hok, Or.inl h⟩
    · exact ⟨r, hr, hok, Or.inr ⟨h0, h1 (hnamed r hr h0), rest⟩⟩
  · rintro ⟨r, hr, hok, h | ⟨h0, h1, rest⟩⟩
    · exact ⟨r, hr, hok, Or.inl h⟩
    · exact ⟨r, hr, hok, Or.inr ⟨h0, fun _ => h1, rest⟩⟩

/-! ### The unit loop of `P1.run` -/

/-- units whose path contains `{{` or whose GIR is empty are never offered to the generator; for the
others selection is as above -/
theorem C20_runP1_iff (rules : List Rule) (units : List P1Unit) (id : Int) :
    id ∈ runP1 rules units ↔
      ∃ r ∈ rules, ∃ u ∈ units, ¬ (['{', '{'] <:+: u.info.path) ∧ u.girEmpty = false ∧
        ∃ m ∈ u.methods, m.stmtId = id ∧ UnitOk r u.info ∧ MethodOk r m := by
  unfold runP1
  rw [C20_select_iff]
  unfold Selected p1Analysed
  constructor
  · rintro ⟨r, hr, um, hum, m, hm, rest⟩
    obtain ⟨u, hu, rfl⟩ := List.mem_map.1 hum
    obtain ⟨hu1, hu2⟩ := List.mem_filter.1 hu
    simp only [p1Skipped, isCookiecutter, Bool.not_eq_true', Bool.or_eq_false_iff, not_isInfix_iff] at hu2
    exact ⟨r, hr, u, hu1, hu2.1, hu2.2, m, hm, rest⟩
  · rintro ⟨r, hr, u, hu, h1, h2, m, hm, rest⟩
    refine ⟨r, hr, (u.info, u.methods), ?_, m, hm, rest⟩
    refine List.mem_map.2 ⟨u, List.mem_filter.2 ⟨hu, ?_⟩, rfl⟩
    simp only [p1Skipped, isCookiecutter, Bool.not_eq_true', Bool.or_eq_false_iff, not_isInfix_iff]
    exact ⟨h1, h2⟩

/-! ### Settings directory -/

/-- which file names are parsed as rule files -/
theorem C20_settings_file_iff (req name : Text) : fileSelected req name = true ↔ IsRuleFile req name :=
  fileSelected_iff

/-- the rule list is the union of the rules of all rule files (nothing else, nothing missing) -/
theorem C20_rules_loaded_iff (req : Text) (files : List (Text × List Rule)) (r : Rule) :
    r ∈ loadRules req files ↔ ∃ f ∈ files, IsRuleFile req f.1 ∧ r ∈ f.2 :=
  mem_loadRules

/-! ### The consumers of the saved set (abstract `analyse` / `flowsOf`) -/

/-- **start set = selected set**: `P3.run` creates one root frame per saved entry id, in order -/
theorem C20_starts_eq_selected {G : Type} (analyse : Int → G) (rules : List Rule) (units : List P1Unit) :
    p3Roots analyse (runP1 rules units) = runP1 rules units :=
  p3Roots_eq analyse _

/-- a method no rule selects is never used as a start -/
theorem C20_unselected_never_root {G : Type} (analyse : Int → G) (rules : List Rule) (units : List P1Unit)
    (id : Int) (h : id ∉ runP1 rules units) : id ∉ p3Roots analyse (runP1 rules units) := by
  rw [C20_starts_eq_selected]; exact h

/-- a selected method is a start — exactly once — whether or not anything calls it -/
theorem C20_selected_is_root_once {G : Type} (analyse : Int → G) (rules : List Rule) (units : List P1Unit)
    (id : Int) (h : id ∈ runP1 rules units) : (p3Roots analyse (runP1 rules units)).count id = 1 := by
  rw [C20_starts_eq_selected]
  have h1 := List.nodup_iff_count.1 (C20_select_nodup rules (p1Analysed units)) id
  have h2 := List.count_pos_iff.2 h
  unfold runP1 at h2 ⊢
  omega

/-- **flows come from entries only**: the taint phase reports exactly the flows found in the graphs
P3 saved under selected entry ids (restricted to ids the loader lists as methods) -/
theorem C20_flows_from_entries_only {G F : Type} (flowsOf : G → List F) (analyse : Int → G)
    (rules : List Rule) (units : List P1Unit) (allMethods : List Int) (f : F) :
    f ∈ taintRun flowsOf (p3Run analyse (runP1 rules units)) allMethods ↔
      ∃ e ∈ runP1 rules units, e ∈ allMethods ∧ f ∈ flowsOf (analyse e) :=
  mem_taintRun flowsOf analyse _ allMethods f

/-- when the loader's method-id list contains every method scope of the analysed units, no selected
entry is lost on the way to the taint phase -/
theorem C20_every_entry_reaches_taint {G F : Type} (flowsOf : G → List F) (analyse : Int → G)
    (rules : List Rule) (units : List P1Unit) (allMethods : List Int)
    (hall : ∀ um ∈ p1Analysed units, ∀ m ∈ um.2, m.stmtId ∈ allMethods) (f : F) :
    f ∈ taintRun flowsOf (p3Run analyse (runP1 rules units)) allMethods ↔
      ∃ e ∈ runP1 rules units, f ∈ flowsOf (analyse e) := by
  rw [C20_flows_from_entries_only]
  constructor
  · rintro ⟨e, he, _, hf⟩; exact ⟨e, he, hf⟩
  · rintro ⟨e, he, hf⟩
    obtain ⟨um, hum, m, hm, hid⟩ := C20_selected_are_methods he
    exact ⟨e, he, hid ▸ hall um hum m hm, hf⟩

/-! ### Non-vacuity and quirk witnesses (all by evaluation of the model) -/

def t (s : List Char) : Text := s
def pyA : UnitInfo := { lang := ['p', 'y'], moduleId := 101, path := ['s', '/', 'a', 'a', '.', 'p', 'y'] }
def pyB : UnitInfo := { lang := ['p', 'y'], moduleId := 103, path := ['s', '/', 'b', '.', 'p', 'y'] }
def init : Text := ['%', 'i']
def mA : List MethodScope := [⟨5, ['f'], []⟩, ⟨9, ['g'], ['[', 's', ']']⟩, ⟨12, init, []⟩]
def mB : List MethodScope := [⟨20, ['f'], []⟩, ⟨25, init, []⟩]
def us : Units := [(pyA, mA), (pyB, mB)]

/-- by name in every unit; initialiser only when named; language filter; overlapping rules -/
example : select [{ methodList := .list [['f']] }] us = [5, 20] := by decide
example : select [{ methodList := .list [init] }] us = [12, 25] := by decide
example : select [{ lang := ['j'], methodList := .list [['f']] }] us = [] := by decide
example : select [{ methodList := .list [['f']] }, { lang := ['p', 'y'], methodList := .list [['f'], init] }] us
    = [5, 12, 20, 25] := by decide
/-- substring semantics of `unit_name`: "a.py" matches the file "aa.py"; of `unit_path`: "s/b" -/
example : select [{ unitName := ['a', '.', 'p', 'y'], methodList := .list [['f']] }] us = [5] := by decide
example : select [{ unitPath := ['s', '/', 'b'], methodList := .list [['f']] }] us = [20] := by decide
/-- `unit_name` is tested against the basename only: a directory part never matches -/
example : select [{ unitName := ['s', '/', 'b'], methodList := .list [['f']] }] us = [] := by decide
/-- `method_id` decides alone although name list, attrs and args would all reject -/
example : select [{ methodId := 9, methodList := .list [['x']], attrs := .list [['q']], args := ['a'] }] us = [9] := by
  decide
/-- `attrs` are substrings of the attribute string; a scope without attributes never matches -/
example : select [{ attrs := .list [['s']] }] us = [9] := by decide
/-- `args` / `return_type` select nothing -/
example : select [{ methodList := .list [['f']], args := ['a'] }] us = [] := by decide
/-- a rule without any condition selects every method scope, initialisers included -/
example : select [{}] us = [5, 9, 12, 20, 25] := by decide
/-- `method_list` given as a string: substring test -/
example : select [{ methodList := .str ['x', 'f', 'y'] }] us = [5, 20] := by decide
/-- cookiecutter paths and empty GIR are skipped by P1 -/
example : runP1 [{}] [{ info := { pyA with path := ['{', '{', 'a'] }, methods := mA },
                      { info := pyB, girEmpty := true, methods := mB }, { info := pyB, methods := mB }]
    = [20, 25] := by decide
/-- rule-file names -/
example : [['e'], ['x', '-', 'e'], ['-', 'e'], ['-', 'x', '-', 'e'], ['x', 'e'], ['x', '-', 'y', '-', 'e']].map
    (fileSelected ['e']) = [true, true, false, false, false, true] := by decide
/-- the hypotheses of `C20_init_only_when_named` are satisfiable and both sides can be true -/
example : (25 : Int) ∈ select [{ unitName := ['b'], methodList := .list [init] }] us := by decide

end LianVerif.C20
