/-
Spec/Collect.lean — concrete collecting semantics of the fragment programs (the statement side of
C08/C09; a definition in the trusted base, not a model of lian).

A program branches on decision parameters that are fresh for every `if`, so every path of the
control-flow graph is an execution: `runs` returns the list of ALL executions (one per path on which
no operation raises), each with its final environment and the log of (definition key, value) pairs —
"every variable definition on every execution path" of the property text.  Values are Python data
(`PyVal`) and references to objects named by their allocation statement; binary operations are
Python's own (`PyStrLit.pyBinop`, the data-level meaning — no text is built or evaluated here).
`execC δ` is the same semantics for one fixed decision vector δ (what the CPython ground truth of the
harness executes); `execC_mem_runs` ties the two.

Core Lean only.
-/
import LianVerif.Model.Aref

namespace LianVerif.Collect
open LianVerif.PyStrLit LianVerif.Aref

inductive CVal where
  | prim (v : PyVal)
  | ref (site : Site)
deriving Repr, DecidableEq

structure CEnv where
  vars : Var → Option CVal
  heap : Site × String → Option CVal

def CEnv.empty : CEnv := { vars := fun _ => none, heap := fun _ => none }

def cupd {κ : Type} [DecidableEq κ] (m : κ → Option CVal) (k : κ) (v : CVal) : κ → Option CVal :=
  fun k' => if k' = k then some v else m k'

def CEnv.get (ρ : CEnv) (x : Var) : Option CVal := ρ.vars x
def CEnv.set (ρ : CEnv) (x : Var) (v : CVal) : CEnv := { ρ with vars := cupd ρ.vars x v }

def evalC (ρ : CEnv) : Opnd → Option CVal
  | .var x => ρ.get x
  | .const c => some (.prim c)

abbrev CLog := List (Key × CVal)

/-- Python's binary operation on two concrete values; `none` when it raises, is outside the modelled
operators, or an operand is an object. -/
def cBin (op : String) (a b : CVal) : Option CVal :=
  match Op.ofString op, a, b with
  | some o, .prim x, .prim y =>
    match pyBinop o x y with
    | .ok v => some (.prim v)
    | _ => none
  | _, _, _ => none

def evalHC (env : Var → Option CVal) : Opnd → Option CVal
  | .var y => env y
  | .const c => some (.prim c)

def execHC : List HStmt → (Var → Option CVal) → CLog → Option ((Var → Option CVal) × CLog)
  | [], env, log => some (env, log)
  | .const k x c :: rest, env, log => execHC rest (cupd env x (.prim c)) (log ++ [(k, .prim c)])
  | .bin k x op a b :: rest, env, log =>
    match evalHC env a, evalHC env b with
    | some x1, some x2 =>
      match cBin op x1 x2 with
      | some r => execHC rest (cupd env x r) (log ++ [(k, r)])
      | none => none
    | _, _ => none

def bindParamsC : List (Key × Var) → List CVal → (Var → Option CVal) × CLog
  | (k, p) :: ps, a :: as => let r := bindParamsC ps as; (cupd r.1 p a, (k, a) :: r.2)
  | _, _ => (fun _ => none, [])

def initFieldsC (site : Site) (arg : CVal) (heap : Site × String → Option CVal) :
    List (String × Option PyVal) → (Site × String → Option CVal)
  | [] => heap
  | (f, none) :: rest => cupd (initFieldsC site arg heap rest) (site, f) arg
  | (f, some c) :: rest => cupd (initFieldsC site arg heap rest) (site, f) (.prim c)

def allSome : List (Option CVal) → Option (List CVal)
  | [] => some []
  | none :: _ => none
  | some v :: rest => (allSome rest).map (v :: ·)

/-- one atomic (non-branching, non-sequencing) statement; `none` = the execution raises / is stuck. -/
def stepC (P : Prog) : Prg → CEnv → Option (CEnv × CLog)
  | .const k x c, ρ => some (ρ.set x (.prim c), [(k, .prim c)])
  | .copy k x y, ρ => (ρ.get y).map (fun v => (ρ.set x v, [(k, v)]))
  | .bin k x op a b, ρ =>
    match evalC ρ a, evalC ρ b with
    | some va, some vb => (cBin op va vb).map (fun r => (ρ.set x r, [(k, r)]))
    | _, _ => none
  | .new k x cls a, ρ =>
    match P.classes.find? (fun c => c.name = cls), evalC ρ a with
    | some c, some va =>
      some ({ vars := cupd ρ.vars x (.ref k), heap := initFieldsC k va ρ.heap c.fields }, [(k, .ref k)])
    | _, _ => none
  | .fwrite o f a, ρ =>
    match ρ.get o, evalC ρ a with
    | some (.ref s), some va => some ({ ρ with heap := cupd ρ.heap (s, f) va }, [])
    | _, _ => none
  | .fread k x o f, ρ =>
    match ρ.get o with
    | some (.ref s) => (ρ.heap (s, f)).map (fun v => (ρ.set x v, [(k, v)]))
    | _ => none
  | .call k x h args, ρ =>
    match P.helpers.find? (fun hp => hp.name = h), allSome (args.map (evalC ρ)) with
    | some hp, some vs =>
      let bp := bindParamsC hp.params vs
      match execHC hp.body bp.1 bp.2 with
      | some (env, hlog) => (env hp.ret).map (fun r => (ρ.set x r, hlog ++ [(k, r)]))
      | none => none
    | _, _ => none
  | _, _ => none

/-- ALL executions of a program fragment from `ρ`. -/
def runs (P : Prog) : Prg → CEnv → List (CEnv × CLog)
  | .skip, ρ => [(ρ, [])]
  | .seq a b, ρ => (runs P a ρ).flatMap (fun r1 => (runs P b r1.1).map (fun r2 => (r2.1, r1.2 ++ r2.2)))
  | .ite _ t e, ρ => runs P t ρ ++ runs P e ρ
  | .const k x c, ρ => (stepC P (.const k x c) ρ).toList
  | .copy k x y, ρ => (stepC P (.copy k x y) ρ).toList
  | .bin k x op a b, ρ => (stepC P (.bin k x op a b) ρ).toList
  | .new k x cls a, ρ => (stepC P (.new k x cls a) ρ).toList
  | .fwrite o f a, ρ => (stepC P (.fwrite o f a) ρ).toList
  | .fread k x o f, ρ => (stepC P (.fread k x o f) ρ).toList
  | .call k x h args, ρ => (stepC P (.call k x h args) ρ).toList

/-- the execution chosen by the decision vector δ. -/
def execC (δ : Nat → Bool) (P : Prog) : Prg → CEnv → Option (CEnv × CLog)
  | .skip, ρ => some (ρ, [])
  | .seq a b, ρ =>
    match execC δ P a ρ with
    | none => none
    | some r1 => (execC δ P b r1.1).map (fun r2 => (r2.1, r1.2 ++ r2.2))
  | .ite i t e, ρ => if δ i then execC δ P t ρ else execC δ P e ρ
  | .const k x c, ρ => stepC P (.const k x c) ρ
  | .copy k x y, ρ => stepC P (.copy k x y) ρ
  | .bin k x op a b, ρ => stepC P (.bin k x op a b) ρ
  | .new k x cls a, ρ => stepC P (.new k x cls a) ρ
  | .fwrite o f a, ρ => stepC P (.fwrite o f a) ρ
  | .fread k x o f, ρ => stepC P (.fread k x o f) ρ
  | .call k x h args, ρ => stepC P (.call k x h args) ρ

/-- the values a definition takes: over all executions of the whole program. -/
def Takes (P : Prog) (k : Key) (v : CVal) : Prop :=
  ∃ r ∈ runs P P.body CEnv.empty, (k, v) ∈ r.2

/-- an abstract value set covers a concrete value: an equal constant, a state of the object's
allocation site, or an explicit unknown. -/
def covers (A : ASet) (v : CVal) : Prop :=
  AVal.unknown ∈ A ∨
  match v with
  | .prim p => AVal.const p ∈ A
  | .ref s => AVal.obj s ∈ A

end LianVerif.Collect
