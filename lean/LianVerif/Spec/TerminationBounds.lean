/-
C13 — the closed-form bounds that the theorems of Properties/C13.lean establish for the models of
Model/Termination*.lean.  These are the statements of "bounded cost"; the harness evaluates the
same definitions (through `lvdrv`) on the sizes measured on real runs.

Core only (imported by the driver).
-/
import LianVerif.Model.Termination
import LianVerif.Model.TerminationFrames
import LianVerif.Model.TerminationTaint
import LianVerif.Model.TerminationClosure

namespace LianVerif.Termination

/-- iterations of `analyze_stmts` over the whole life of a frame that starts with `w0` worklist
entries and visit counters `cnt0`, when no analysis is interrupted:
`|worklist| + Σ_v (lim v − cnt0 v)·outdeg v`.  With all counters 0 and `lim = R` this is
`|worklist| + R·|E|`. -/
def stmtsBound (succ : Int → List Int) (V : List Int) (lim : Int → Nat) (cnt0 : Int → Nat)
    (w0 : Nat) : Nat :=
  w0 + sumOver (fun v => (lim v - cnt0 v) * (succ v).length) V

/-- extra iterations allowed by interruptions at the statements `ss` (each interrupted iteration is
itself an iteration and may re-push the successors of its statement) -/
def intrAllowance (succ : Int → List Int) (ss : List Int) : Nat :=
  sumOver (fun s => (succ s).length + 1) ss

/-- the uniform version quoted in DESIGN: `(R+1)·(|V|+|E|)` -/
def stmtsBoundUniform (R nV nE : Nat) : Nat := (R + 1) * (nV + nE)

/-- frames created for one entry point -/
def framesBound (B nU : Nat) : Nat := 1 + (B + 1) * nU

/-- interruptions for one entry point -/
def intrBound (B nU : Nat) : Nat := (B + 1) * nU

/-- iterations of the `analyze_frame_stack` loop for one entry point -/
def driverBound (B nU : Nat) : Nat := 4 * ((B + 1) * nU) + 2

/-- length of any frame's call path, `nM` = number of methods -/
def pathLenBound (nM : Nat) : Nat := nM + 1

/-- dequeues of one `propagate_taint`: `(|slots|·|bits| + |nodes| + |queue₀|)·(1 + A)`, `A` = the
largest number of unconditional (`SYMBOL_IS_USED`) enqueues a single node can trigger -/
def taintBound (nSlots nBits nNodes q0 wmax : Nat) : Nat := (nSlots * nBits + nNodes + q0) * wmax

/-- pops of a visited-set guarded closure: `|worklist₀| + |E|` -/
def closureBound (w0 nE : Nat) : Nat := w0 + nE

/-! ### Composition: one whole run

Sizes: `nEntry` entry points; `nU` call sites `(caller, stmt, callee)`; every method has at most `nV`
statements and `nE` CFG edges, out-degree at most `dmax`; `R`, `B` the two iteration constants;
for the taint phase `nSrc·nSnk` propagations over graphs with at most `nSlots` tag slots, `nNodes`
nodes, `nBits` bits, `amax` unconditional enqueues per node; closures over graphs with `cE` edges
started from `cW` entries, `nClo` of them. -/

/-- all statement-loop iterations and driver iterations of the top-down phase for one entry point -/
def entryBound (R B nU nV nE dmax : Nat) : Nat :=
  framesBound B nU * (nV + R * nE) + intrBound B nU * (dmax + 1) + driverBound B nU

def totalBound (nEntry R B nU nV nE dmax nSrc nSnk nSlots nBits nNodes amax nClo cW cE : Nat) : Nat :=
  nEntry * entryBound R B nU nV nE dmax
    + nSrc * nSnk * taintBound nSlots nBits nNodes (nNodes) (1 + amax)
    + nClo * closureBound cW cE

end LianVerif.Termination
