/-
Concrete oracles used by the negative theorems of C07 (Properties/C07.lean).  They are the per-frame
invocation tables the harness harvests from the REAL run of two corpus programs, with method ids
renamed (see the comments) and call statements named by their source line.  `lvdrv` serves the
tables (op "witness") so that the harness can compare them with what the real code does today.
-/
import LianVerif.Model.Frames

namespace LianVerif.Frames

/-- a table-driven oracle: frame `n` behaves as recorded; frames beyond the table get `dflt` -/
def tableOracle (tab : List (Nat × List Inv)) (dflt : Nat → List Inv) : Oracle := fun n m =>
  match tab[n]? with
  | some (m', script) =>
    if m' = m then { inits := true, script := script } else { inits := true, script := dflt m }
  | none => { inits := true, script := dflt m }

/-- corpus/C07/k_budget_third_context.json (methods: 9 = %unit_init, 5 = f, 4 = h, 1 = a1, 2 = b1,
3 = c1; statements = source lines) -/
def budgetTable : List (Nat × List Inv) :=
  [ (9, [⟨11, [5]⟩, ⟨11, [5]⟩, ⟨12, [5]⟩, ⟨12, [5]⟩, ⟨13, [5]⟩, ⟨13, [5]⟩]),
    (5, [⟨10, [4]⟩, ⟨10, [4]⟩]), (4, [⟨8, [1]⟩, ⟨8, [1]⟩]), (1, []),
    (5, [⟨10, [4]⟩, ⟨10, [4]⟩]), (4, [⟨8, [2]⟩, ⟨8, [2]⟩]), (2, []),
    (5, [⟨10, [4]⟩]) ]

/-- corpus/C07/k_selfrec_edge_never_recorded.json (methods: 9 = %unit_init, 5 = a, 3 = b1, 4 = b2,
2 = M) -/
def selfrecTable : List (Nat × List Inv) :=
  [ (9, [⟨18, [5]⟩, ⟨18, [5]⟩]),
    (5, [⟨14, [3]⟩, ⟨14, [3]⟩, ⟨15, [4]⟩, ⟨15, [4]⟩, ⟨16, [2]⟩]),
    (3, [⟨7, [5]⟩, ⟨7, [5]⟩]),
    (5, [⟨14, [3]⟩, ⟨15, [4]⟩, ⟨15, [4]⟩, ⟨16, [2]⟩, ⟨16, [2]⟩]),
    (4, [⟨11, [5]⟩]),
    (2, [⟨3, [2]⟩]),
    (4, [⟨11, [5]⟩, ⟨11, [5]⟩]),
    (5, [⟨14, [3]⟩, ⟨15, [4]⟩, ⟨16, [2]⟩, ⟨16, [2]⟩]),
    (2, [⟨3, [2]⟩]) ]

end LianVerif.Frames
