/-
Abstract specification for C15: the loader is a map from item id to the content most recently
saved for it ("latest save wins"); `remove_unit_id` forgets an id; every other operation leaves
the map alone.  This is the statement of the property, not a model of the code.
-/
import LianVerif.Model.Loader
import LianVerif.Model.MapLoader

namespace LianVerif.LoaderSpec
open LianVerif.Loader

variable {K R : Type} [DecidableEq K]

abbrev Spec (K R : Type) := K → Option (List R)

def Spec.empty : Spec K R := fun _ => none

def upd (m : Spec K R) (k : K) (v : Option (List R)) : Spec K R := fun k' => if k' = k then v else m k'

def specStep (m : Spec K R) : Op K R → Spec K R
  | .save k rows => upd m k (some rows)
  | .removeUnit k => upd m k none
  | _ => m

def specRun (m : Spec K R) : List (Op K R) → Spec K R
  | [] => m
  | op :: ops => specRun (specStep m op) ops

/-- what a read may return when the specification holds `expected` for the id.
An item with at least one row must come back exactly.  An item *without rows* leaves nothing in a
bundle table, so it reads as the empty item or as Python `[]` ("no row found"); after the loader was
reopened from its files (`reopened = true`) it may also read as `None`, because an item without rows
is never written anywhere (the zero-row corner of DESIGN §5 C15). -/
def GotOk (reopened : Bool) : Option (List R) → Got R → Prop
  | none, g => g = .none
  | some [], g => g = .item [] ∨ g = .notFound ∨ (reopened = true ∧ g = .none)
  | some (r :: rs), g => g = .item (r :: rs)

def OutOk (reopened : Bool) (m : Spec K R) : Op K R → Out R → Prop
  | .get k, .got g => GotOk reopened (m k) g
  | .contain k, .bool b => b = (m k).isSome
  | .removeUnit _, .removed r => r = .ok
  | .save _ _, .unit => True
  | .exp, .unit => True
  | .exportIndexing, .unit => True
  | .reopen, .unit => True
  | .restore, .unit => True
  | _, _ => False

/-- every output of a run is the one the specification prescribes -/
def RunOk (reopened : Bool) : Spec K R → List (Op K R) → List (Out R) → Prop
  | _, [], [] => True
  | m, op :: ops, o :: outs => OutOk reopened m op o ∧ RunOk reopened (specStep m op) ops outs
  | _, _, _ => False

/-- histories the theorems quantify over -/
def noRestore : List (Op K R) → Bool
  | [] => true
  | .restore :: _ => false
  | _ :: ops => noRestore ops

def noReopen : List (Op K R) → Bool
  | [] => true
  | .restore :: _ => false
  | .reopen :: _ => false
  | _ :: ops => noReopen ops

end LianVerif.LoaderSpec

/-! ### the LRU cache: a bounded, never-stale view of "latest put wins" -/
namespace LianVerif.LruSpec
open LianVerif.Lru

variable {K V : Type} [DecidableEq K]

def specStep (m : K → Option V) : Op K V → K → Option V
  | .put k v => fun k' => if k' = k then some v else m k'
  | .remove k => fun k' => if k' = k then none else m k'
  | _ => m

def specRun (m : K → Option V) : List (Op K V) → K → Option V
  | [] => m
  | op :: ops => specRun (specStep m op) ops

/-- a hit returns the value of the latest `put` for the key; a miss is always allowed (it is a cache) -/
def OutOk (m : K → Option V) : Op K V → Out V → Prop
  | .get k, .val o => o = none ∨ o = m k
  | .contain k, .bool b => b = true → (m k).isSome = true
  | .put _ _, .unit => True
  | .remove _, .unit => True
  | _, _ => False

def RunOk : (K → Option V) → List (Op K V) → List (Out V × List (K × V)) → Prop
  | _, [], [] => True
  | m, op :: ops, o :: outs => OutOk m op o.1 ∧ RunOk (specStep m op) ops outs
  | _, _, _ => False

end LianVerif.LruSpec

/-! ### the one-to-many map loader -/
namespace LianVerif.MapSpec
open LianVerif.MapLoader

variable {A B : Type} [DecidableEq A] [DecidableEq B]

/-- forward map: the list most recently saved for the id (`[]` before any save) -/
def specStep (f : A → List B) : Op A B → A → List B
  | .save a bs => fun a' => if a' = a then bs else f a'
  | _ => f

def specRun (f : A → List B) : List (Op A B) → A → List B
  | [] => f
  | op :: ops => specRun (specStep f op) ops

/-- forward lookups return the latest save; a reverse lookup never names an id whose current list
lacks the element -/
def OutOk (f : A → List B) : Op A B → Out A B → Prop
  | .oneToMany a, .many bs => bs = f a
  | .manyToOne b, .one (some a) => b ∈ f a
  | .manyToOne _, .one none => True
  | .save _ _, .unit => True
  | .exp, .unit => True
  | _, _ => False

def RunOk : (A → List B) → List (Op A B) → List (Out A B) → Prop
  | _, [], [] => True
  | f, op :: ops, o :: outs => OutOk f op o ∧ RunOk (specStep f op) ops outs
  | _, _, _ => False

def noRestore : List (Op A B) → Bool
  | [] => true
  | .restore :: _ => false
  | _ :: ops => noRestore ops

end LianVerif.MapSpec
