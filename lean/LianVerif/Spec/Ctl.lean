/-
Control-skeleton semantics of a method (`exec` / `runCtl`), the local successor function
(`first` / `req`, together "succCtl"), and the certified monitor `cfgCheck` for property C04.

This file is a *definition in the trusted base*: it fixes what "statement B executes immediately
after statement A" means for the structured statements of `Model/Cfg.lean`.  Every decision a real
execution takes from data (branch, loop test, which case, does this statement raise, which handler
catches) is read from an oracle `List Bool`; a concrete execution corresponds to one oracle.
Reading of the constructs (GIR semantics as the analyses assume it):

* `simple`, `decl`: one step.  `ifS`: the if_stmt, then one branch.
* `whileS` (while/forin/for_value): `pre` (condition_prebody), the loop statement, then the body
  and again from `pre`, or the else-body and on.  `continue` resumes at `pre`; `break` skips `els`.
  `ct` (condition literally true) has no false exit.
* `doS`: body, `pre`, the dowhile_stmt, then again or on.  `continue` resumes at `pre`.
* `forS`: init once; `pre`, the for_stmt, body, `upd`, again.  `continue` resumes at `upd`.
* `classS`: the class_decl, then its static_init, init, methods and nested blocks in sequence (the
  reading of `analyze_decl_stmt`).
* `switchS`: the switch_stmt, then a jump to any non-default case (oracle), else to the default,
  else (no default) past the switch.  The case_stmt is a step, then its body; at the end of a body
  control falls into the next body when `ft` (C/Java/JS) or the body is empty (stacked labels),
  else leaves the switch (Python `match`).  `break` leaves the switch, `continue` belongs to the
  enclosing loop.
* `tryS`: the try_stmt, then the body.  If the try has catch clauses, every step inside the body
  (any depth, not inside a nested try that has clauses of its own) may raise (oracle) and control
  moves to one of the clauses (oracle): the catch_clause is a step, then its body.  Normal
  completion of the body runs `els`; both ways then run `fin`.  Exceptions that no clause of the
  method catches end the run (no claim is made about them), and `finally` on break/continue/return
  is not modelled: `wfCtl` rejects programs where that matters.
* A run that needs a decision when the oracle is exhausted, or runs out of fuel, stops (`Out.stop`):
  its trace is a prefix of a longer run.
-/
import LianVerif.Model.Cfg

namespace LianVerif.Cfg

inductive Out
  | normal | brk | cont | ret | raise | stop
  deriving Repr, DecidableEq

structure Res where
  tr : List Int
  out : Out
  o : List Bool
  deriving Repr, DecidableEq

/-- sequencing: continue with `f` after normal completion -/
def Res.bind (r : Res) (f : List Bool → Res) : Res :=
  match r.out with
  | .normal => let r2 := f r.o; ⟨r.tr ++ r2.tr, r2.out, r2.o⟩
  | _ => r

def Res.norm (r : Res) : Res := ⟨r.tr, .normal, r.o⟩

def stopRes (o : List Bool) : Res := ⟨[], .stop, o⟩

/-- one step that may raise when `rz` -/
def tick (rz : Bool) (id : Nat) (o : List Bool) : Res :=
  if rz then
    match o with
    | [] => ⟨[(id : Int)], .stop, []⟩
    | true :: o' => ⟨[(id : Int)], .raise, o'⟩
    | false :: o' => ⟨[(id : Int)], .normal, o'⟩
  else ⟨[(id : Int)], .normal, o⟩

/-- one step that cannot raise (try_stmt, catch_clause, case_stmt) -/
def step (id : Nat) (o : List Bool) : Res := ⟨[(id : Int)], .normal, o⟩

/-- loop test: always true when `ct`, else an oracle bit -/
def choose (ct : Bool) (o : List Bool) : Option (Bool × List Bool) :=
  if ct then some (true, o)
  else match o with
    | [] => none
    | b :: o' => some (b, o')

/-- what happens after a loop body -/
def afterBody (rb : Res) (again exit : List Bool → Res) : Res :=
  match rb.out with
  | .normal => rb.norm.bind again
  | .cont => rb.norm.bind again
  | .brk => rb.norm.bind exit
  | _ => rb

def isClause : S → Bool
  | .clause _ _ _ => true
  | _ => false

def isCase : S → Bool
  | .caseS _ _ _ _ => true
  | _ => false

def hasDefault : S → Bool
  | .caseS _ d _ more => d || hasDefault more
  | _ => false

/-- choice of a non-default case by the oracle: `none` = oracle exhausted; `some (none, o)` = no
case chosen; `some (some suffix, o)` = jump to the head of `suffix`. -/
def pick : S → List Bool → Option (Option S × List Bool)
  | .caseS cid d body more, o =>
    if d then pick more o
    else match o with
      | [] => none
      | true :: o' => some (some (.caseS cid d body more), o')
      | false :: o' => pick more o'
  | _, o => some (none, o)

/-- the suffix of a case chain that starts at its default_stmt -/
def dfltSuffix : S → Option S
  | .caseS cid d body more => if d then some (.caseS cid d body more) else dfltSuffix more
  | _ => none

inductive Mode
  | stmt
  /-- dispatch of a raised exception over a chain of catch clauses -/
  | catch
  /-- running case bodies from a chosen case on; `jmp`: the head case_stmt was jumped to (it is a
  step), otherwise control fell into its body -/
  | fall (ft jmp : Bool)
  deriving Repr, DecidableEq

/-- the control-skeleton interpreter.  `rz`: steps may raise (we are inside the body of a try that
has catch clauses). -/
def exec : Nat → Mode → Bool → S → List Bool → Res
  | 0, _, _, _, o => stopRes o
  | n + 1, .stmt, rz, s, o =>
    match s with
    | .nil => ⟨[], .normal, o⟩
    | .clause _ _ _ => ⟨[], .normal, o⟩
    | .caseS _ _ _ _ => ⟨[], .normal, o⟩
    | .simple id rest => (tick rz id o).bind (exec n .stmt rz rest)
    | .decl id rest => (tick rz id o).bind (exec n .stmt rz rest)
    | .ifS id thn els rest =>
      (tick rz id o).bind fun o =>
        match o with
        | [] => stopRes []
        | b :: o' => (exec n .stmt rz (if b then thn else els) o').bind (exec n .stmt rz rest)
    | .whileS id ct pre body els rest =>
      (exec n .stmt rz pre o).bind fun o => (tick rz id o).bind fun o =>
        match choose ct o with
        | none => stopRes o
        | some (true, o') =>
          afterBody (exec n .stmt rz body o') (exec n .stmt rz (.whileS id ct pre body els rest))
            (exec n .stmt rz rest)
        | some (false, o') => (exec n .stmt rz els o').bind (exec n .stmt rz rest)
    | .doS id ct body pre rest =>
      afterBody (exec n .stmt rz body o)
        (fun o => (exec n .stmt rz pre o).bind fun o => (tick rz id o).bind fun o =>
          match choose ct o with
          | none => stopRes o
          | some (true, o') => exec n .stmt rz (.doS id ct body pre rest) o'
          | some (false, o') => exec n .stmt rz rest o')
        (exec n .stmt rz rest)
    | .forS id ct init pre upd body rest =>
      (exec n .stmt rz init o).bind fun o => (exec n .stmt rz pre o).bind fun o =>
        (tick rz id o).bind fun o =>
          match choose ct o with
          | none => stopRes o
          | some (true, o') =>
            afterBody (exec n .stmt rz body o')
              (fun o => (exec n .stmt rz upd o).bind
                (exec n .stmt rz (.forS id ct .nil pre upd body rest)))
              (exec n .stmt rz rest)
          | some (false, o') => exec n .stmt rz rest o'
    | .brk id _ => ⟨[(id : Int)], .brk, o⟩
    | .cont id _ => ⟨[(id : Int)], .cont, o⟩
    | .ret id _ => ⟨[(id : Int)], .ret, o⟩
    | .classS id _ sinit init methods nested rest =>
      (tick rz id o).bind fun o => (exec n .stmt rz sinit o).bind fun o =>
        (exec n .stmt rz init o).bind fun o => (exec n .stmt rz methods o).bind fun o =>
          (exec n .stmt rz nested o).bind (exec n .stmt rz rest)
    | .tryS id body catches els fin rest =>
      (step id o).bind fun o =>
        let rb := exec n .stmt (rz || isClause catches) body o
        let tail := fun o => (exec n .stmt rz fin o).bind (exec n .stmt rz rest)
        match rb.out with
        | .normal => rb.bind fun o => (exec n .stmt rz els o).bind tail
        | .raise =>
          if isClause catches then rb.norm.bind fun o => (exec n .catch rz catches o).bind tail
          else rb
        | _ => rb
    | .switchS id ft cases rest =>
      (tick rz id o).bind fun o =>
        let jump := fun (suf : S) (o : List Bool) =>
          let r := exec n (.fall ft true) rz suf o
          match r.out with
          | .brk => r.norm.bind (exec n .stmt rz rest)
          | _ => r.bind (exec n .stmt rz rest)
        match pick cases o with
        | none => stopRes o
        | some (some suf, o') => jump suf o'
        | some (none, o') =>
          match dfltSuffix cases with
          | some suf => jump suf o'
          | none => exec n .stmt rz rest o'
  | n + 1, .catch, rz, s, o =>
    match s with
    | .clause cid body more =>
      if isClause more then
        match o with
        | [] => stopRes []
        | true :: o' => (step cid o').bind (exec n .stmt rz body)
        | false :: o' => exec n .catch rz more o'
      else (step cid o).bind (exec n .stmt rz body)
    | _ => ⟨[], .normal, o⟩
  | n + 1, .fall ft jmp, rz, s, o =>
    match s with
    | .caseS cid _ body more =>
      (if jmp then step cid o else ⟨[], .normal, o⟩).bind fun o =>
        (exec n .stmt rz body o).bind fun o =>
          if ft || body.isNil then exec n (.fall ft false) rz more o else ⟨[], .normal, o⟩
    | _ => ⟨[], .normal, o⟩

/-! ### local successor sets -/

/-- possible first steps of block `s` when what follows it can start with any of `k`. -/
def first : S → List Int → List Int
  | .nil, k => k
  | .clause _ _ _, k => k
  | .caseS _ _ _ _, k => k
  | .simple id _, _ => [(id : Int)]
  | .decl id _, _ => [(id : Int)]
  | .ifS id _ _ _, _ => [(id : Int)]
  | .whileS id _ pre _ _ _, _ => first pre [(id : Int)]
  | .doS id _ body pre _, _ => first body (first pre [(id : Int)])
  | .forS id _ init pre _ _ _, _ => first init (first pre [(id : Int)])
  | .brk id _, _ => [(id : Int)]
  | .cont id _, _ => [(id : Int)]
  | .ret id _, _ => [(id : Int)]
  | .classS id _ _ _ _ _ _, _ => [(id : Int)]
  | .tryS id _ _ _ _ _, _ => [(id : Int)]
  | .switchS id _ _ _, _ => [(id : Int)]

/-- first steps when control falls into the bodies of a case chain -/
def fallFirst (ft : Bool) : S → List Int → List Int
  | .caseS _ _ body more, k => first body (if ft || body.isNil then fallFirst ft more k else k)
  | _, k => k

def clauseIds : S → List Int
  | .clause id _ more => (id : Int) :: clauseIds more
  | _ => []

def caseIds : S → List Int
  | .caseS id _ _ more => (id : Int) :: caseIds more
  | _ => []

/-- continuation sets: possible next steps after normal completion / break / continue / raise -/
structure K where
  nxt : List Int
  brk : List Int
  cnt : List Int
  exc : List Int
  deriving Repr

def edgesFrom (id : Nat) (succs : List Int) : List (Int × Int) := succs.map (fun j => ((id : Int), j))

/-- required out-edges of a step that may raise when `rz` -/
def node (rz : Bool) (k : K) (id : Nat) (succs : List Int) : List (Int × Int) :=
  edgesFrom id succs ++ (if rz then edgesFrom id k.exc else [])

/-- required edges: every (a, b) such that some skeleton run executes b right after a. -/
def req (rz : Bool) : S → K → List (Int × Int)
  | .nil, _ => []
  | .clause _ _ _, _ => []
  | .caseS _ _ _ _, _ => []
  | .simple id rest, k => node rz k id (first rest k.nxt) ++ req rz rest k
  | .decl id rest, k => node rz k id (first rest k.nxt) ++ req rz rest k
  | .ifS id thn els rest, k =>
    let kr := first rest k.nxt
    node rz k id (first thn kr ++ first els kr) ++ req rz thn { k with nxt := kr }
      ++ req rz els { k with nxt := kr } ++ req rz rest k
  | .whileS id ct pre body els rest, k =>
    let kr := first rest k.nxt
    let hd := first pre [(id : Int)]
    req rz pre { k with nxt := [(id : Int)] }
      ++ node rz k id (first body hd ++ (if ct then [] else first els kr))
      ++ req rz body ⟨hd, kr, hd, k.exc⟩
      ++ req rz els { k with nxt := kr } ++ req rz rest k
  | .doS id ct body pre rest, k =>
    let kr := first rest k.nxt
    let hd := first pre [(id : Int)]
    req rz body ⟨hd, kr, hd, k.exc⟩ ++ req rz pre { k with nxt := [(id : Int)] }
      ++ node rz k id (first body hd ++ (if ct then [] else kr)) ++ req rz rest k
  | .forS id ct init pre upd body rest, k =>
    let kr := first rest k.nxt
    let hd := first pre [(id : Int)]
    let uh := first upd hd
    req rz init { k with nxt := hd } ++ req rz pre { k with nxt := [(id : Int)] }
      ++ node rz k id (first body uh ++ (if ct then [] else kr))
      ++ req rz body ⟨uh, kr, uh, k.exc⟩ ++ req rz upd { k with nxt := hd } ++ req rz rest k
  | .brk id _, k => edgesFrom id k.brk
  | .cont id _, k => edgesFrom id k.cnt
  | .ret id _, _ => [((id : Int), -1)]
  | .classS id _ sinit init methods nested rest, k =>
    let kr := first rest k.nxt
    let kn := first nested kr
    let km := first methods kn
    let ki := first init km
    node rz k id (first sinit ki) ++ req rz sinit { k with nxt := ki } ++ req rz init { k with nxt := km }
      ++ req rz methods { k with nxt := kn } ++ req rz nested { k with nxt := kr } ++ req rz rest k
  | .tryS id body catches els fin rest, k =>
    let kr := first rest k.nxt
    let kf := first fin kr
    let ke := first els kf
    let hc := isClause catches
    edgesFrom id (first body ke)
      ++ req (rz || hc) body ⟨ke, k.brk, k.cnt, if hc then clauseIds catches else k.exc⟩
      ++ reqCatch catches { k with nxt := kf }
      ++ req rz els { k with nxt := kf } ++ req rz fin { k with nxt := kr } ++ req rz rest k
  | .switchS id ft cases rest, k =>
    let kr := first rest k.nxt
    node rz k id (caseIds cases ++ (if hasDefault cases then [] else kr))
      ++ reqCases ft cases { k with nxt := kr, brk := kr } ++ req rz rest k
where
  reqCatch : S → K → List (Int × Int)
    | .clause cid body more, k =>
      edgesFrom cid (first body k.nxt) ++ req rz body k ++ reqCatch more k
    | _, _ => []
  reqCases (ft : Bool) : S → K → List (Int × Int)
    | .caseS cid _ body more, k =>
      let kb := if ft || body.isNil then fallFirst ft more k.nxt else k.nxt
      edgesFrom cid (first body kb) ++ req rz body { k with nxt := kb } ++ reqCases ft more k
    | _, _ => []

/-! ### the method level -/

def K0 : K := ⟨[-1], [], [], []⟩

/-- a skeleton run of a method: parameter block, then body -/
def runCtl (n : Nat) (params body : S) (o : List Bool) : Res :=
  (exec n .stmt false params o).bind (exec n .stmt false body)

def reqM (params body : S) : List (Int × Int) :=
  req false params { K0 with nxt := first body [-1] } ++ req false body K0

/-- possible first steps of the method (`[-1]` for a method without statements) -/
def entries (params body : S) : List Int := first params (first body [-1])

/-- statement ids of the method that can be CFG nodes (bodies of nested method_decl are not part
of `S`; fields blocks are not represented) -/
def ids : S → List Int
  | .nil => []
  | .simple id rest => (id : Int) :: ids rest
  | .decl id rest => (id : Int) :: ids rest
  | .ifS id thn els rest => (id : Int) :: (ids thn ++ ids els ++ ids rest)
  | .whileS id _ pre body els rest => (id : Int) :: (ids pre ++ ids body ++ ids els ++ ids rest)
  | .doS id _ body pre rest => (id : Int) :: (ids body ++ ids pre ++ ids rest)
  | .forS id _ init pre upd body rest =>
    (id : Int) :: (ids init ++ ids pre ++ ids upd ++ ids body ++ ids rest)
  | .brk id rest => (id : Int) :: ids rest
  | .cont id rest => (id : Int) :: ids rest
  | .ret id rest => (id : Int) :: ids rest
  | .classS id _ sinit init methods nested rest =>
    (id : Int) :: (ids sinit ++ ids init ++ ids methods ++ ids nested ++ ids rest)
  | .tryS id body catches els fin rest =>
    (id : Int) :: (ids body ++ ids catches ++ ids els ++ ids fin ++ ids rest)
  | .clause id body rest => (id : Int) :: (ids body ++ ids rest)
  | .switchS id _ cases rest => (id : Int) :: (ids cases ++ ids rest)
  | .caseS id _ body rest => (id : Int) :: (ids body ++ ids rest)

/-- the edge relation a trace is checked against: an edge of `E`, or a statement repeated
(`_add_one_edge` never stores self loops; `while(c){}` repeats its header). -/
def hasE (E : List (Int × Int)) (a b : Int) : Bool := a == b || E.contains (a, b)

/-- `a` is supported by `E`: it is a possible first step of the method or has an incoming edge.
Required edges are only demanded of supported sources: the first missing edge of any run always has
a supported source, while statically dead code (which `analyze_block` partly skips) demands nothing. -/
def supported (params body : S) (E : List (Int × Int)) (a : Int) : Bool :=
  (entries params body).contains a || E.any (fun e => e.2 == a)

def missing (params body : S) (E : List (Int × Int)) : List (Int × Int) :=
  (reqM params body).filter (fun e => supported params body E e.1 && !hasE E e.1 e.2)

def badEntries (params body : S) (E : List (Int × Int)) : List Int :=
  (entries params body).filter (fun j => j != -1 && E.any (fun e => e.2 == j))

def foreign (params body : S) (E : List (Int × Int)) : List Int :=
  let own := (-1 : Int) :: (ids params ++ ids body)
  (E.map (·.1) ++ E.map (·.2)).filter (fun x => !own.contains x)

/-- **the certified monitor**: all required edges present, the first step has in-degree 0, every
node is a statement of this method or the exit node. -/
def cfgCheck (params body : S) (E : List (Int × Int)) : Bool :=
  (missing params body E).isEmpty && (badEntries params body E).isEmpty
    && (foreign params body E).isEmpty

/-! ### the fragment for which the model of the repaired builder is proved sound (`C04_sound_partial`) -/

/-- straight-line block: only simple statements and nested method declarations (what the frontends
put into condition_prebody and update_body) -/
def straight : S → Bool
  | .nil => true
  | .simple _ rest => straight rest
  | .decl _ rest => straight rest
  | _ => false

/-- fragment F₀ of DESIGN §5 C04 (after the repairs it includes `continue` bound to a for_stmt and
the condition_prebody of for_stmt; while/dowhile without condition_prebody) -/
def inF0 : S → Bool
  | .nil => true
  | .simple _ rest => inF0 rest
  | .decl _ rest => inF0 rest
  | .ifS _ thn els rest => inF0 thn && inF0 els && inF0 rest
  | .whileS _ _ pre body els rest => pre.isNil && inF0 body && inF0 els && inF0 rest
  | .doS _ _ body pre rest => pre.isNil && inF0 body && inF0 rest
  | .forS _ _ init pre upd body rest => inF0 init && straight pre && straight upd && inF0 body && inF0 rest
  | .brk _ _ => true
  | .cont _ _ => true
  | .ret _ _ => true
  | _ => false

/-! ### adequacy conditions of the skeleton semantics (checked by the harness on every generated
program; not a hypothesis of the soundness theorem) -/

/-- contains a `break` that no loop or switch inside the block binds -/
def freeBrk : S → Bool
  | .nil => false
  | .simple _ rest => freeBrk rest
  | .decl _ rest => freeBrk rest
  | .ifS _ thn els rest => freeBrk thn || freeBrk els || freeBrk rest
  | .whileS _ _ pre _ els rest => freeBrk pre || freeBrk els || freeBrk rest
  | .doS _ _ _ pre rest => freeBrk pre || freeBrk rest
  | .forS _ _ init pre upd _ rest => freeBrk init || freeBrk pre || freeBrk upd || freeBrk rest
  | .brk _ _ => true
  | .cont _ rest => freeBrk rest
  | .ret _ rest => freeBrk rest
  | .classS _ _ sinit init methods nested rest =>
    freeBrk sinit || freeBrk init || freeBrk methods || freeBrk nested || freeBrk rest
  | .tryS _ body catches els fin rest =>
    freeBrk body || freeBrk catches || freeBrk els || freeBrk fin || freeBrk rest
  | .clause _ body rest => freeBrk body || freeBrk rest
  | .switchS _ _ _ rest => freeBrk rest
  | .caseS _ _ body rest => freeBrk body || freeBrk rest

/-- contains a `continue` that no loop inside the block binds -/
def freeCont : S → Bool
  | .nil => false
  | .simple _ rest => freeCont rest
  | .decl _ rest => freeCont rest
  | .ifS _ thn els rest => freeCont thn || freeCont els || freeCont rest
  | .whileS _ _ pre _ els rest => freeCont pre || freeCont els || freeCont rest
  | .doS _ _ _ pre rest => freeCont pre || freeCont rest
  | .forS _ _ init pre upd _ rest => freeCont init || freeCont pre || freeCont upd || freeCont rest
  | .brk _ rest => freeCont rest
  | .cont _ _ => true
  | .ret _ rest => freeCont rest
  | .classS _ _ sinit init methods nested rest =>
    freeCont sinit || freeCont init || freeCont methods || freeCont nested || freeCont rest
  | .tryS _ body catches els fin rest =>
    freeCont body || freeCont catches || freeCont els || freeCont fin || freeCont rest
  | .clause _ body rest => freeCont body || freeCont rest
  | .switchS _ _ cases rest => freeCont cases || freeCont rest
  | .caseS _ _ body rest => freeCont body || freeCont rest

def hasRet : S → Bool
  | .nil => false
  | .simple _ rest => hasRet rest
  | .decl _ rest => hasRet rest
  | .ifS _ thn els rest => hasRet thn || hasRet els || hasRet rest
  | .whileS _ _ pre body els rest => hasRet pre || hasRet body || hasRet els || hasRet rest
  | .doS _ _ body pre rest => hasRet body || hasRet pre || hasRet rest
  | .forS _ _ init pre upd body rest =>
    hasRet init || hasRet pre || hasRet upd || hasRet body || hasRet rest
  | .brk _ rest => hasRet rest
  | .cont _ rest => hasRet rest
  | .ret _ _ => true
  | .classS _ _ sinit init methods nested rest =>
    hasRet sinit || hasRet init || hasRet methods || hasRet nested || hasRet rest
  | .tryS _ body catches els fin rest =>
    hasRet body || hasRet catches || hasRet els || hasRet fin || hasRet rest
  | .clause _ body rest => hasRet body || hasRet rest
  | .switchS _ _ cases rest => hasRet cases || hasRet rest
  | .caseS _ _ body rest => hasRet body || hasRet rest

def allClauses : S → Bool
  | .nil => true
  | .clause _ _ more => allClauses more
  | _ => false

def allCases : S → Bool
  | .nil => true
  | .caseS _ _ _ more => allCases more
  | _ => false

/-- no abrupt exit (break/continue leaving the block, return) -/
def noAbrupt (s : S) : Bool := !freeBrk s && !freeCont s && !hasRet s

/-- shape conditions under which the skeleton semantics is the intended one: clause/case chains are
well-formed; no break/continue/return leaves a try that has a finally block (the finally would run
first); inside the body of a try with clauses (`rz`) there is no clause-less try with a finally
(a raise would run that finally on its way out). -/
def wfS (rz : Bool) : S → Bool
  | .nil => true
  | .simple _ rest => wfS rz rest
  | .decl _ rest => wfS rz rest
  | .ifS _ thn els rest => wfS rz thn && wfS rz els && wfS rz rest
  | .whileS _ _ pre body els rest => wfS rz pre && wfS rz body && wfS rz els && wfS rz rest
  | .doS _ _ body pre rest => wfS rz body && wfS rz pre && wfS rz rest
  | .forS _ _ init pre upd body rest =>
    wfS rz init && wfS rz pre && wfS rz upd && wfS rz body && wfS rz rest
  | .brk _ rest => wfS rz rest
  | .cont _ rest => wfS rz rest
  | .ret _ rest => wfS rz rest
  | .classS _ _ sinit init methods nested rest =>
    wfS rz sinit && wfS rz init && wfS rz methods && wfS rz nested && wfS rz rest
  | .tryS _ body catches els fin rest =>
    allClauses catches
      && (fin.isNil || (noAbrupt body && noAbrupt catches && noAbrupt els
            && (isClause catches || !rz)))
      && wfS (rz || isClause catches) body && wfS rz catches && wfS rz els && wfS rz fin
      && wfS rz rest
  | .clause _ body rest => wfS rz body && wfS rz rest
  | .switchS _ _ cases rest => allCases cases && wfS rz cases && wfS rz rest
  | .caseS _ _ body rest => wfS rz body && wfS rz rest

/-- clause/case constructors do not occur in statement position at the top of a block chain -/
def stmtChain : S → Bool
  | .nil => true
  | .clause _ _ _ => false
  | .caseS _ _ _ _ => false
  | .simple _ rest => stmtChain rest
  | .decl _ rest => stmtChain rest
  | .ifS _ thn els rest => stmtChain thn && stmtChain els && stmtChain rest
  | .whileS _ _ pre body els rest => stmtChain pre && stmtChain body && stmtChain els && stmtChain rest
  | .doS _ _ body pre rest => stmtChain body && stmtChain pre && stmtChain rest
  | .forS _ _ init pre upd body rest =>
    stmtChain init && stmtChain pre && stmtChain upd && stmtChain body && stmtChain rest
  | .brk _ rest => stmtChain rest
  | .cont _ rest => stmtChain rest
  | .ret _ rest => stmtChain rest
  | .classS _ _ sinit init methods nested rest =>
    stmtChain sinit && stmtChain init && stmtChain methods && stmtChain nested && stmtChain rest
  | .tryS _ body catches els fin rest =>
    stmtChain body && clauseBodies catches && stmtChain els && stmtChain fin && stmtChain rest
  | .switchS _ _ cases rest => caseBodies cases && stmtChain rest
where
  clauseBodies : S → Bool
    | .clause _ body more => stmtChain body && clauseBodies more
    | .nil => true
    | _ => false
  caseBodies : S → Bool
    | .caseS _ _ body more => stmtChain body && caseBodies more
    | .nil => true
    | _ => false

def nodupInt : List Int → Bool
  | [] => true
  | x :: xs => !xs.contains x && nodupInt xs

/-- adequacy of the skeleton semantics for a method -/
def wfCtl (params body : S) : Bool :=
  stmtChain params && stmtChain body && wfS false params && wfS false body
    && !freeBrk params && !freeCont params && !freeBrk body && !freeCont body
    && nodupInt (ids params ++ ids body)

end LianVerif.Cfg
