/-
Specification side of C10 / C11: the one-step taint relation of the SFG and its closure.

Tags live in two tables keyed by id (`symbols_to_bv`, `states_to_bv`); a *location* is a table and
an id.  `Conseq g prm u l` says: when node `u` is dequeued carrying the tag, location `l` receives
the tag — read off `_propagate_from_symbol` / `_propagate_from_state` / `_propagate_from_stmt`
edge by edge.  `Reach g prm src l` is the least set of locations containing what
`_init_source_contamination` tags and closed under: a node whose own tag is read from reached
locations passes the tag to its consequences.  It is a relation on ids, as the tags are.

`reachSat` computes the closure by saturation (used by the driver as a cross-check of the Python
oracle and as certified checker: `Proofs/Taint.lean` shows every location it returns is `Reach`).

This is a definition of the property's vocabulary, not a model of the worklist.
-/
import LianVerif.Model.Taint

namespace LianVerif.Reach
open LianVerif.Sfg LianVerif.TaintRules LianVerif.Taint

/-- (true, i) = symbol table entry i; (false, i) = state table entry i -/
abbrev Loc := Bool × Int

def symLoc (g : Graph) (v : Nat) : Loc := (true, g.nid v)
def stLoc (g : Graph) (v : Nat) : Loc := (false, g.nid v)

inductive Conseq (g : Graph) (prm : Params) : Nat → Loc → Prop where
  /-- symbol → the states it holds -/
  | symState {u : Nat} {e : Edge} : g.kindOf u = K_SYMBOL → e ∈ g.outE u → e.etype = E_SYMSTATE →
      Conseq g prm u (stLoc g e.peer)
  /-- symbol → symbol over a (possibly indirect) SYMBOL_FLOW edge -/
  | symFlow {u : Nat} {e : Edge} : g.kindOf u = K_SYMBOL → e ∈ g.outE u →
      (e.etype = E_FLOW ∨ e.etype = E_IFLOW) → g.kindOf e.peer = K_SYMBOL →
      Conseq g prm u (symLoc g e.peer)
  /-- state → every predecessor over SYMBOL_STATE or STATE_INCLUSION, in the SYMBOL table (since the
  repair `stateUpSymOnly`: every SYMBOL predecessor) -/
  | stateUp {u : Nat} {e : Edge} : g.kindOf u = K_STATE → e ∈ g.inE u →
      (e.etype = E_SYMSTATE ∨ e.etype = E_INCL) →
      (prm.stateUpSymOnly = true → g.kindOf e.peer = K_SYMBOL) → Conseq g prm u (symLoc g e.peer)
  /-- state → included sub-states -/
  | stateDown {u : Nat} {e : Edge} : g.kindOf u = K_STATE → e ∈ g.outE u →
      g.kindOf e.peer = K_STATE → (e.etype = E_INCL ∨ e.etype = E_IINCL) →
      Conseq g prm u (stLoc g e.peer)
  /-- propagating statement → the symbols it defines -/
  | stmtDef {u : Nat} {e : Edge} : g.kindOf u = K_STMT → propagates prm (g.node u).name = true →
      e ∈ g.outE u → e.etype = E_DEFINED → Conseq g prm u (symLoc g e.peer)
  /-- object call → write-back to the receiver symbol (used at position 0) -/
  | recv {u : Nat} {e : Edge} : g.kindOf u = K_STMT → propagates prm (g.node u).name = true →
      (g.node u).name = "object_call_stmt" → e ∈ g.inE u → e.etype = E_USED → e.pos = 0 →
      g.kindOf e.peer = K_SYMBOL → Conseq g prm u (symLoc g e.peer)

inductive Reach (g : Graph) (prm : Params) (src : Nat) : Loc → Prop where
  | initSym : g.kindOf src = K_SYMBOL → Reach g prm src (symLoc g src)
  | initSymState {e : Edge} : g.kindOf src = K_SYMBOL → e ∈ g.outE src → e.etype = E_SYMSTATE →
      Reach g prm src (stLoc g e.peer)
  | initState : g.kindOf src = K_STATE → Reach g prm src (stLoc g src)
  | stepSym {u : Nat} {l : Loc} : g.kindOf u = K_SYMBOL → Reach g prm src (symLoc g u) →
      Conseq g prm u l → Reach g prm src l
  | stepState {u : Nat} {l : Loc} : g.kindOf u = K_STATE → Reach g prm src (stLoc g u) →
      Conseq g prm u l → Reach g prm src l
  | stepStmt {u : Nat} {e : Edge} {l : Loc} : g.kindOf u = K_STMT → e ∈ g.inE u → e.etype = E_USED →
      Reach g prm src (symLoc g e.peer) → Conseq g prm u l → Reach g prm src l

/-! ### the guaranteed part: nodes that are certainly dequeued while carrying the tag

Tags are per id but the worklist holds nodes: when an id is already tagged, a second node with the
same id is NOT enqueued (except by the `_processed_nodes` patch for defined symbols / receivers,
and SYMBOL_IS_USED successors, which are always enqueued).  `Live` follows only steps that are
guaranteed to enqueue their target: def-use steps unconditionally, the other steps when the
target's id has a single owner. -/

/-- no other node that could be enqueued for the SYMBOL-table entry of `v`'s id -/
def UniqueSym (g : Graph) (v : Nat) : Prop := ∀ x, g.nid x = g.nid v → symOwner g x = true → x = v
/-- no other STATE node with `v`'s id -/
def UniqueSt (g : Graph) (v : Nat) : Prop := ∀ x, g.nid x = g.nid v → g.kindOf x = K_STATE → x = v

inductive LiveInit (g : Graph) (src : Nat) : Nat → Prop where
  | srcSym : g.kindOf src = K_SYMBOL → LiveInit g src src
  | srcSymState {e : Edge} : g.kindOf src = K_SYMBOL → e ∈ g.outE src → e.etype = E_SYMSTATE →
      LiveInit g src e.peer
  | srcState : g.kindOf src = K_STATE → LiveInit g src src

inductive LiveStep (g : Graph) (prm : Params) : Nat → Nat → Prop where
  | use {u : Nat} {e : Edge} : g.kindOf u = K_SYMBOL → e ∈ g.outE u → e.etype = E_USED →
      LiveStep g prm u e.peer
  | defn {u : Nat} {e : Edge} : g.kindOf u = K_STMT → propagates prm (g.node u).name = true →
      e ∈ g.outE u → e.etype = E_DEFINED → g.kindOf e.peer = K_SYMBOL → LiveStep g prm u e.peer
  | recv {u : Nat} {e : Edge} : g.kindOf u = K_STMT → propagates prm (g.node u).name = true →
      (g.node u).name = "object_call_stmt" → e ∈ g.inE u → e.etype = E_USED → e.pos = 0 →
      g.kindOf e.peer = K_SYMBOL → LiveStep g prm u e.peer
  | symState {u : Nat} {e : Edge} : g.kindOf u = K_SYMBOL → e ∈ g.outE u → e.etype = E_SYMSTATE →
      UniqueSt g e.peer → LiveStep g prm u e.peer
  | flow {u : Nat} {e : Edge} : g.kindOf u = K_SYMBOL → e ∈ g.outE u →
      (e.etype = E_FLOW ∨ e.etype = E_IFLOW) → g.kindOf e.peer = K_SYMBOL → UniqueSym g e.peer →
      LiveStep g prm u e.peer
  | stateUp {u : Nat} {e : Edge} : g.kindOf u = K_STATE → e ∈ g.inE u →
      (e.etype = E_SYMSTATE ∨ e.etype = E_INCL) → g.kindOf e.peer = K_SYMBOL → UniqueSym g e.peer →
      LiveStep g prm u e.peer
  | stateDown {u : Nat} {e : Edge} : g.kindOf u = K_STATE → e ∈ g.outE u →
      g.kindOf e.peer = K_STATE → (e.etype = E_INCL ∨ e.etype = E_IINCL) → UniqueSt g e.peer →
      LiveStep g prm u e.peer

inductive Live (g : Graph) (prm : Params) (src : Nat) : Nat → Prop where
  | init {v : Nat} : LiveInit g src v → Live g prm src v
  | step {u v : Nat} : Live g prm src u → LiveStep g prm u v → Live g prm src v

/-- inclusion reachability between STATE nodes (what `get_state_with_inclusion_tag` walks) -/
inductive InclReach (g : Graph) (v : Nat) : Nat → Prop where
  | refl : InclReach g v v
  | step {x y : Nat} : InclReach g v x → y ∈ inclSuccs g x → InclReach g v y

/-- the locations whose tag `get_symbol_with_states_tag(p)` ORs together: the symbol's own id, the
states it holds and their (transitively) included sub-states -/
inductive Watch (g : Graph) (p : Nat) : Loc → Prop where
  | self : Watch g p (symLoc g p)
  | state {e : Edge} {x : Nat} : e ∈ g.outE p → e.etype = E_SYMSTATE → InclReach g e.peer x →
      Watch g p (stLoc g x)

/-- location `l` carries the tag in environment `s` -/
def TaggedLoc (s : PState) (l : Loc) : Prop :=
  (l.1 = true ∧ l.2 ∈ s.symT) ∨ (l.1 = false ∧ l.2 ∈ s.stT)

/-! ### computable closure -/

def actLoc (g : Graph) : Act → Option Loc
  | .tagSym v => some (symLoc g v)
  | .tagSymP v => some (symLoc g v)
  | .tagSt v => some (stLoc g v)
  | .enq _ => none

/-- the locations node `u` tags when dequeued carrying the tag -/
def conseqs (g : Graph) (prm : Params) (u : Nat) : List Loc := (actsOf g prm u).filterMap (actLoc g)

/-- `_get_node_tag(u) != 0` against a set of locations -/
def hot (g : Graph) (T : List Loc) (u : Nat) : Bool :=
  if g.kindOf u == K_SYMBOL then T.contains (symLoc g u)
  else if g.kindOf u == K_STATE then T.contains (stLoc g u)
  else if g.kindOf u == K_STMT then
    (g.inE u).any (fun e => e.etype == E_USED && T.contains (symLoc g e.peer))
  else false

def addLocs (T : List Loc) (ls : List Loc) : List Loc :=
  ls.foldl (fun acc l => if acc.contains l then acc else acc ++ [l]) T

def initLocs (g : Graph) (src : Nat) : List Loc :=
  if g.kindOf src == K_SYMBOL then
    addLocs [symLoc g src]
      (((g.outE src).filter (fun e => e.etype == E_SYMSTATE)).map (fun e => stLoc g e.peer))
  else if g.kindOf src == K_STATE then [stLoc g src]
  else []

def satRound (g : Graph) (prm : Params) (T : List Loc) : List Loc :=
  (List.range g.size).foldl (fun acc u => if hot g acc u then addLocs acc (conseqs g prm u) else acc) T

def satIter (g : Graph) (prm : Params) : Nat → List Loc → List Loc
  | 0, T => T
  | k + 1, T =>
    let T' := satRound g prm T
    -- a round only ever appends: equal length = nothing new = fixed point
    if T'.length == T.length then T else satIter g prm k T'

/-- every productive round adds one of at most 2·N locations -/
def reachSat (g : Graph) (prm : Params) (src : Nat) : List Loc :=
  satIter g prm (2 * g.size + 2) (initLocs g src)

end LianVerif.Reach
