/-
Spec/PySrc.lean — abstract syntax and REFERENCE SEMANTICS of the Python *core fragment* that the
lowering model (Model/LowerPy.lean) covers.  A definition in the trusted base: it is validated against
CPython on every generated fragment program (LEG 2 of the C01 check, driver model "evalpy").

Fragment: int/bool/str/None constants, names, binary arithmetic and two-operand comparison, unary
operators, short-circuit `and`/`or`, three-operand comparison chains, conditional expressions, calls
of module-level functions with positional arguments (and the output call `print`); statements:
assignment to a name, augmented assignment to a name, expression statement, if/else, while (with
break/continue), pass, return, `global x`.  A program (`Module`) is a list of module-level function
definitions followed by module-level statements (which run once, before the entry is called).

Values, heap, frames, operators and rendering are those of the GIR reference semantics
(`LianVerif.Gir`), so observables of both semantics are comparable by equality.
Python rules made explicit: operands are evaluated left to right; `and`/`or` evaluate the right operand
only when needed; `a op1 b op2 c` evaluates `b` once and `c` only if `a op1 b` is true; an
augmented assignment reads its target before evaluating the right-hand side; an assignment in a
function body writes the function's own frame unless the name was declared `global` there; names
are looked up in the function's frame (or, if declared `global`, the module frame), then the module
frame, then the built-ins.
-/
import LianVerif.Gir.Sem

namespace LianVerif.PySrc
open LianVerif.Gir

inductive Expr where
  | const (v : Val)
  | name (x : String)
  | bin (op : String) (l r : Expr)
  | un (op : String) (e : Expr)
  | boolop (op : String) (l r : Expr)
  | cmp3 (op1 op2 : String) (a b c : Expr)
  | ifexp (t c e : Expr)
  | call (f : String) (args : List Expr)
  deriving Repr, Inhabited

inductive PStmt where
  | assign (x : String) (e : Expr)
  | aug (x : String) (op : String) (e : Expr)
  | exprS (e : Expr)
  | ifS (c : Expr) (thn els : List PStmt)
  | whileS (c : Expr) (body : List PStmt)
  | brk
  | cont
  | pass
  | ret (e : Expr)
  | globalS (x : String)
  deriving Repr, Inhabited

structure FnDef where
  name : String
  params : List String
  body : List PStmt
  deriving Repr, Inhabited

abbrev Prog := List FnDef

structure Module where
  fns : Prog
  top : List PStmt := []
  deriving Repr, Inhabited

/-- Python assignment to a name: the module frame if the current frame declared it `global`,
otherwise the current frame. -/
def assignPy (σ : State) (x : String) (v : Val) : Res State :=
  match σ.env with
  | [] => .error "malformed:env"
  | fp :: _ =>
    match σ.frame fp with
    | none => .error "malformed:frame"
    | some f =>
      if f.globals.contains x then
        match σ.env.getLast? with
        | some u => σ.setVarAt u x v
        | none => .error "malformed:env"
      else σ.setVarAt fp x v

def findFn (fns : Prog) (f : String) : Option FnDef :=
  match fns with
  | [] => none
  | d :: rest => if d.name == f then some d else findFn rest f

def zipParams : List String → List Val → Option (List (String × Val))
  | [], [] => some []
  | p :: ps, v :: vs =>
    match zipParams ps vs with
    | some r => some ((p, v) :: r)
    | none => none
  | _, _ => none

mutual
/-- value of an expression; all recursion on the fuel argument. -/
def evalE (fns : Prog) : Nat → State → Expr → Res Val × State
  | 0, σ, _ => (.error "fuel", σ)
  | fuel+1, σ, e =>
    match e with
    | .const v => (.ok v, σ)
    | .name x => (σ.lookup x, σ)
    | .bin op l r =>
      match evalE fns fuel σ l with
      | (.error er, σ1) => (.error er, σ1)
      | (.ok a, σ1) =>
        match evalE fns fuel σ1 r with
        | (.error er, σ2) => (.error er, σ2)
        | (.ok b, σ2) =>
          match σ2.binop op a b with
          | .ok (v, σ3) => (.ok v, σ3)
          | .error er => (.error er, σ2)
    | .un op e1 =>
      match evalE fns fuel σ e1 with
      | (.error er, σ1) => (.error er, σ1)
      | (.ok a, σ1) =>
        match σ1.unop op a with
        | .ok v => (.ok v, σ1)
        | .error er => (.error er, σ1)
    | .boolop op l r =>
      match evalE fns fuel σ l with
      | (.error er, σ1) => (.error er, σ1)
      | (.ok a, σ1) =>
        if op == "and" then
          (if σ1.truthy a then evalE fns fuel σ1 r else (.ok a, σ1))
        else
          (if σ1.truthy a then (.ok a, σ1) else evalE fns fuel σ1 r)
    | .cmp3 op1 op2 a b c =>
      match evalE fns fuel σ a with
      | (.error er, σ1) => (.error er, σ1)
      | (.ok va, σ1) =>
        match evalE fns fuel σ1 b with
        | (.error er, σ2) => (.error er, σ2)
        | (.ok vb, σ2) =>
          match σ2.binop op1 va vb with
          | .error er => (.error er, σ2)
          | .ok (r1, σ3) =>
            if σ3.truthy r1 then
              match evalE fns fuel σ3 c with
              | (.error er, σ4) => (.error er, σ4)
              | (.ok vc, σ4) =>
                match σ4.binop op2 vb vc with
                | .ok (r2, σ5) => (.ok r2, σ5)
                | .error er => (.error er, σ4)
            else (.ok r1, σ3)
    | .ifexp t c e2 =>
      match evalE fns fuel σ c with
      | (.error er, σ1) => (.error er, σ1)
      | (.ok vc, σ1) => if σ1.truthy vc then evalE fns fuel σ1 t else evalE fns fuel σ1 e2
    | .call f args =>
      match evalArgs fns fuel σ args with
      | (.error er, σ1) => (.error er, σ1)
      | (.ok vs, σ1) =>
        if f == "print" then
          (.ok .none, { σ1 with out := joinWith ", " (vs.map σ1.render) :: σ1.out })
        else
          match findFn fns f with
          | none => (.error ("raise:NameError:" ++ f), σ1)
          | some d =>
            match zipParams d.params vs with
            | none => (.error "raise:TypeError:arity", σ1)
            | some vars =>
              let (fa, σ2) := σ1.allocFrame { vars := vars.map (fun p => (p.1, some p.2)) }
              let saved := σ1.env
              let unit := match σ1.env.getLast? with
                | some u => [u]
                | none => []
              match execP fns fuel { σ2 with env := fa :: unit } d.body with
              | (.ret v, σ3) => (.ok v, { σ3 with env := saved })
              | (.normal, σ3) => (.ok .none, { σ3 with env := saved })
              | (.err er, σ3) => (.error er, { σ3 with env := saved })
              | (_, σ3) => (.error "malformed:loop-control-outside-loop", { σ3 with env := saved })

def evalArgs (fns : Prog) : Nat → State → List Expr → Res (List Val) × State
  | 0, σ, _ => (.error "fuel", σ)
  | _+1, σ, [] => (.ok [], σ)
  | fuel+1, σ, a :: as =>
    match evalE fns fuel σ a with
    | (.error er, σ1) => (.error er, σ1)
    | (.ok v, σ1) =>
      match evalArgs fns fuel σ1 as with
      | (.error er, σ2) => (.error er, σ2)
      | (.ok vs, σ2) => (.ok (v :: vs), σ2)

/-- statement lists (same outcome type as the GIR semantics). -/
def execP (fns : Prog) : Nat → State → List PStmt → Outcome × State
  | 0, σ, _ => (.err "fuel", σ)
  | _+1, σ, [] => (.normal, σ)
  | fuel+1, σ, s :: rest =>
    match s with
    | .pass => execP fns fuel σ rest
    | .globalS x =>
      match σ.modFrame (fun f => { f with globals := x :: f.globals }) with
      | .ok σ1 => execP fns fuel σ1 rest
      | .error er => (.err er, σ)
    | .brk => (.brk, σ)
    | .cont => (.cont, σ)
    | .assign x e =>
      match evalE fns fuel σ e with
      | (.error er, σ1) => (.err er, σ1)
      | (.ok v, σ1) =>
        match assignPy σ1 x v with
        | .ok σ2 => execP fns fuel σ2 rest
        | .error er => (.err er, σ1)
    | .aug x op e =>
      match σ.lookup x with
      | .error er => (.err er, σ)
      | .ok old =>
        match evalE fns fuel σ e with
        | (.error er, σ1) => (.err er, σ1)
        | (.ok v, σ1) =>
          match σ1.binop op old v with
          | .error er => (.err er, σ1)
          | .ok (nv, σ2) =>
            match assignPy σ2 x nv with
            | .ok σ3 => execP fns fuel σ3 rest
            | .error er => (.err er, σ2)
    | .exprS e =>
      match evalE fns fuel σ e with
      | (.error er, σ1) => (.err er, σ1)
      | (.ok _, σ1) => execP fns fuel σ1 rest
    | .ret e =>
      match evalE fns fuel σ e with
      | (.error er, σ1) => (.err er, σ1)
      | (.ok v, σ1) => (.ret v, σ1)
    | .ifS c t e =>
      match evalE fns fuel σ c with
      | (.error er, σ1) => (.err er, σ1)
      | (.ok vc, σ1) =>
        match execP fns fuel σ1 (if σ1.truthy vc then t else e) with
        | (.normal, σ2) => execP fns fuel σ2 rest
        | r => r
    | .whileS c body =>
      match evalE fns fuel σ c with
      | (.error er, σ1) => (.err er, σ1)
      | (.ok vc, σ1) =>
        if σ1.truthy vc then
          match execP fns fuel σ1 body with
          | (.normal, σ2) => execP fns fuel σ2 (s :: rest)
          | (.cont, σ2) => execP fns fuel σ2 (s :: rest)
          | (.brk, σ2) => execP fns fuel σ2 rest
          | r => r
        else execP fns fuel σ1 rest
end

/-- run the module-level statements, then `entry(args)`, from the initial state. -/
def runModule (fuel : Nat) (m : Module) (entry : String) (args : List Val) : Obs :=
  match execP m.fns fuel State.init m.top with
  | (.normal, σ0) =>
    let argE := args.map Expr.const
    match evalE m.fns fuel σ0 (.call entry argE) with
    | (.ok v, σ) => { out := σ.out.reverse, result := "ok " ++ σ.render v }
    | (.error e, σ) => { out := σ.out.reverse, result := errClass e }
  | (.err e, σ0) => { out := σ0.out.reverse, result := errClass e }
  | (_, σ0) => { out := σ0.out.reverse, result := errClass "malformed:top-level-control" }

/-- a program without module-level statements. -/
def runProg (fuel : Nat) (fns : Prog) (entry : String) (args : List Val) : Obs :=
  runModule fuel { fns := fns } entry args

end LianVerif.PySrc
