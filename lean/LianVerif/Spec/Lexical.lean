/-
Abstract specification for C05: lexical scoping on the scope tree.

This is the statement of the property for the language-independent core, not a model of the code:
the scopes of a unit form a tree through their parent links; a name used in scope `cur` is bound to
the declaration held by the innermost scope on the path from `cur` to the unit root that declares
the name (the last declaration of that name in that scope), and is unresolved when no scope on the
path declares it.  Nothing here mentions set intersection, maxima of ids or a closure.
-/
import LianVerif.Model.Scope
import LianVerif.Model.Resolver

namespace LianVerif.Lexical
open LianVerif.Scopes LianVerif.Resolver

variable {ν : Type} [DecidableEq ν]

/-- the scope that lexically encloses scope `s`: the `scope` field of the scope entry of `s`. -/
def parentOf (recs : List ScopeRec) (s : Int) : Option Int :=
  if s ≤ 0 then none
  else (recs.find? (fun r => r.kind.isScope && ((r.stmt : Int) == s))).map (·.scope)

/-- the path from `s` to the root, innermost first. -/
def chainAux (recs : List ScopeRec) : Nat → Int → List Int
  | 0, s => [s]
  | f + 1, s =>
    match parentOf recs s with
    | none => [s]
    | some p => s :: chainAux recs f p

/-- the path from `s` to the root (`s.toNat` steps suffice when parents have smaller ids). -/
def chain (recs : List ScopeRec) (s : Int) : List Int := chainAux recs s.toNat s

/-- **lexical resolution** of name `n` used in scope `cur`. -/
def lexDecl (recs : List ScopeRec) (ds : List (Decl ν)) (cur : Int) (n : ν) : Option (Decl ν) :=
  if cur == -1 then none
  else match (chain recs cur).find? (fun s => (declScopes ds n).contains s) with
    | none => none
    | some s => symbolInfo ds s n

/-- lexical resolution followed by the def-use rule "a name resolving to its own statement is
external" (the specification counterpart of `Resolver.bind … .use`). -/
def lexBind (recs : List ScopeRec) (ds : List (Decl ν)) (cur : Int) (stmt : Nat) (n : ν) : Option (Decl ν) :=
  match lexDecl recs ds cur n with
  | some d => if d.stmt == stmt then none else some d
  | none => none

/-- lexical resolution that does not consult the scopes in `skip`.  Python instance: for an
occurrence inside a function, `skip` = the class scopes on the path (a class body is not an
enclosing scope for the functions nested in it). -/
def lexDeclSkip (skip : List Int) (recs : List ScopeRec) (ds : List (Decl ν)) (cur : Int) (n : ν) :
    Option (Decl ν) :=
  if cur == -1 then none
  else match ((chain recs cur).filter (fun s => !skip.contains s)).find? (fun s => (declScopes ds n).contains s) with
    | none => none
    | some s => symbolInfo ds s n

/-! ### decidable side conditions (evaluated by the driver on every real unit) -/

def isScopeStmt (recs : List ScopeRec) (s : Int) : Bool :=
  recs.any (fun r => r.kind.isScope && ((r.stmt : Int) == s))

/-- statement ids of the scope space strictly increase in list order. -/
def ascending : List ScopeRec → Bool
  | [] => true
  | [_] => true
  | a :: b :: rest => decide (a.stmt < b.stmt) && ascending (b :: rest)

/-- **IdOrder**: the scope space is in ascending id order and every scope's parent is the unit root
or a scope with a smaller id. -/
def idOrder (recs : List ScopeRec) : Bool :=
  ascending recs &&
  recs.all (fun r => !r.kind.isScope ||
    (decide (0 < r.stmt) && (r.scope == 0 || (decide (0 < r.scope) && decide (r.scope < (r.stmt : Int)) && isScopeStmt recs r.scope))))

def sameSet (a b : List Int) : Bool := a.all (fun x => b.contains x) && b.all (fun x => a.contains x)

/-- the visible-scope table holds, for the root and for every scope, exactly the path to the root. -/
def availOk (recs : List ScopeRec) (avail : Avail) : Bool :=
  (match avail.get 0 with
   | some v => sameSet v [0]
   | none => false) &&
  recs.all (fun r => !r.kind.isScope ||
    (match avail.get r.stmt with
     | some v => sameSet v (chain recs r.stmt)
     | none => false))

end LianVerif.Lexical
