/-
Spec/Core.lean — the small TYPED CORE LANGUAGE of property C02 and its REFERENCE SEMANTICS
`evalCore` (`runCore`).  A definition in the trusted base: it says what a program "expressed in the
constructs common to Python, JavaScript, TypeScript, Java, Go, C and PHP" means.  It is validated
against CPython on every generated program through the Python rendering (harness/lv/c02gen.py,
driver model "evalcore").

Language (the quantifier of C02): ints, strings, booleans, locals, arithmetic / comparison,
short-circuit `and`/`or`, `not`, unary minus, if/else, while, counted `for i in [lo, hi)`,
break/continue, functions, calls, return, records with (int) fields, arrays (of ints), and the
distinguished output statement `out e`.

The COMMON SUBSET where the seven languages agree is made explicit by run-time guards; a program that
trips one is outside the quantifier (result `err:domain:…` / `err:type:…`, the harness discards it):
* integers stay inside the signed 32-bit range (no overflow anywhere);
* integer division `div` and `%` only on a non-negative dividend and a positive divisor (where floor,
  truncation and Euclidean division agree); `div` exists only in the languages with an integer
  division operator (Python `//`; Java, Go, C `/`);
* operators are applied to operands of their own type only (no implicit coercion): arithmetic and
  comparison on ints, `concat` on strings, `and`/`or`/`not` and conditions on booleans;
* strings are not compared (Java/C compare references, PHP coerces numeric strings);
* array indices are in range; arrays and records are local to the function that creates them and
  are never copied, passed, returned or printed (PHP arrays and Go/C structs are values, the others
  references) — enforced syntactically: `idx`/`fld`/`setIdx`/`setFld` name the variable directly;
* the bound `hi` of a counted loop is evaluated before every test (C family) — the generator only
  uses bounds that the body cannot change, for which Python's `range(lo, hi)` agrees; the loop
  variable is scoped to the loop.

Values, heap, frames, rendering and observations (`Obs`) are those of the GIR reference semantics
(`LianVerif.Gir`), so observables of both semantics are comparable by equality.  The OPERATORS are
defined here from scratch (`binCore`, `unCore`), not through `Gir.binopH`.
-/
import LianVerif.Gir.Sem

namespace LianVerif.Core
open LianVerif.Gir

inductive Ty where
  | int | bool | str
  | arr                      -- array of ints
  | record (name : String)   -- record type, by name
  deriving Repr, BEq, DecidableEq, Inhabited

inductive BinOp where
  | add | sub | mul | div | mod | lt | le | gt | ge | eq | ne | concat
  deriving Repr, BEq, DecidableEq, Inhabited

inductive UnOp where
  | neg | not
  deriving Repr, BEq, DecidableEq, Inhabited

inductive Expr where
  | int (n : Int)
  | bool (b : Bool)
  | str (s : String)
  | var (x : String)
  | bin (op : BinOp) (l r : Expr)
  | un (op : UnOp) (e : Expr)
  | and (l r : Expr)
  | or (l r : Expr)
  | call (f : String) (args : List Expr)
  | idx (a : String) (i : Expr)
  | fld (r : String) (f : String)
  deriving Repr, Inhabited

inductive Stmt where
  /-- declaration with initialiser (`int x = e;`, `let x = e;`, `x := e`, `x = e`) -/
  | decl (x : String) (ty : Ty) (e : Expr)
  | assign (x : String) (e : Expr)
  /-- `x = [e1, …, en]` (declares x) -/
  | newArr (x : String) (elems : List Expr)
  /-- `x = R{f1: e1, …}` (declares x) -/
  | newRec (x : String) (rty : String) (fields : List (String × Expr))
  | setIdx (a : String) (i e : Expr)
  | setFld (r f : String) (e : Expr)
  | ifS (c : Expr) (thn els : List Stmt)
  | whileS (c : Expr) (body : List Stmt)
  /-- `for i in [lo, hi)`, step 1 -/
  | forS (i : String) (lo hi : Expr) (body : List Stmt)
  /-- internal: a counted loop in progress (the loop variable holds the current value) -/
  | forIter (i : String) (hi : Expr) (body : List Stmt)
  | brk
  | cont
  | ret (e : Expr)
  /-- the distinguished output call `output(e)` -/
  | out (e : Expr)
  /-- expression statement (a call for its effects) -/
  | exprS (e : Expr)
  deriving Repr, Inhabited

structure FnDef where
  name : String
  params : List (String × Ty)
  ret : Ty
  body : List Stmt
  deriving Repr, Inhabited

structure Program where
  /-- record types: name, field names (all fields are ints) -/
  recs : List (String × List String) := []
  fns : List FnDef
  deriving Repr, Inhabited

/-! ## Operators (defined from scratch) -/

def int32Min : Int := -2147483648
def int32Max : Int := 2147483647

def chkInt (n : Int) : Res Val :=
  if int32Min ≤ n ∧ n ≤ int32Max then .ok (.int n) else .error "domain:overflow"

def binCore (op : BinOp) (a b : Val) : Res Val :=
  match op, a, b with
  | .add, .int x, .int y => chkInt (x + y)
  | .sub, .int x, .int y => chkInt (x - y)
  | .mul, .int x, .int y => chkInt (x * y)
  | .div, .int x, .int y =>
    if x < 0 ∨ y ≤ 0 then .error "domain:div" else .ok (.int (x / y))
  | .mod, .int x, .int y =>
    if x < 0 ∨ y ≤ 0 then .error "domain:mod" else .ok (.int (x % y))
  | .lt, .int x, .int y => .ok (.bool (x < y))
  | .le, .int x, .int y => .ok (.bool (x ≤ y))
  | .gt, .int x, .int y => .ok (.bool (x > y))
  | .ge, .int x, .int y => .ok (.bool (x ≥ y))
  | .eq, .int x, .int y => .ok (.bool (x == y))
  | .ne, .int x, .int y => .ok (.bool (x != y))
  | .concat, .str x, .str y => .ok (.str (x ++ y))
  | _, _, _ => .error "type:binop"

def unCore (op : UnOp) (a : Val) : Res Val :=
  match op, a with
  | .neg, .int x => chkInt (-x)
  | .not, .bool b => .ok (.bool (!b))
  | _, _ => .error "type:unop"

def asBool : Val → Res Bool
  | .bool b => .ok b
  | _ => .error "type:condition"

/-! ## Store -/

/-- assignment to a local: always the current frame. -/
def assignLocal (σ : State) (x : String) (v : Val) : Res State :=
  match σ.env with
  | [] => .error "malformed:env"
  | fp :: _ => σ.setVarAt fp x v

def findFn (fns : List FnDef) (f : String) : Option FnDef :=
  match fns with
  | [] => none
  | d :: rest => if d.name == f then some d else findFn rest f

def zipParams : List (String × Ty) → List Val → Option (List (String × Val))
  | [], [] => some []
  | p :: ps, v :: vs =>
    match zipParams ps vs with
    | some r => some ((p.1, v) :: r)
    | none => none
  | _, _ => none

def listOf (σ : State) (a : String) : Res (Nat × List Val) :=
  match σ.lookup a with
  | .error e => .error e
  | .ok (.ref p) =>
    match σ.obj p with
    | some (.list xs) => .ok (p, xs)
    | _ => .error "type:array"
  | .ok _ => .error "type:array"

def dictOf (σ : State) (r : String) : Res (Nat × List (Val × Val)) :=
  match σ.lookup r with
  | .error e => .error e
  | .ok (.ref p) =>
    match σ.obj p with
    | some (.dict kvs) => .ok (p, kvs)
    | _ => .error "type:record"
  | .ok _ => .error "type:record"

def fieldGet (kvs : List (Val × Val)) (f : String) : Option Val :=
  match kvs with
  | [] => none
  | (k, v) :: rest => if k == .str f then some v else fieldGet rest f

def fieldSet (kvs : List (Val × Val)) (f : String) (v : Val) : Option (List (Val × Val)) :=
  match kvs with
  | [] => none
  | (k, w) :: rest =>
    if k == .str f then some ((k, v) :: rest)
    else match fieldSet rest f v with
      | some r => some ((k, w) :: r)
      | none => none

def inRange (n : Nat) (i : Int) : Option Nat :=
  if 0 ≤ i ∧ i < n then some i.toNat else none

/-! ## The interpreter (all recursion on the fuel argument) -/

mutual
def evalE (fns : List FnDef) : Nat → State → Expr → Res Val × State
  | 0, σ, _ => (.error "fuel", σ)
  | fuel+1, σ, e =>
    match e with
    | .int n => (.ok (.int n), σ)
    | .bool b => (.ok (.bool b), σ)
    | .str s => (.ok (.str s), σ)
    | .var x => (σ.lookup x, σ)
    | .bin op l r =>
      match evalE fns fuel σ l with
      | (.error er, σ1) => (.error er, σ1)
      | (.ok a, σ1) =>
        match evalE fns fuel σ1 r with
        | (.error er, σ2) => (.error er, σ2)
        | (.ok b, σ2) => (binCore op a b, σ2)
    | .un op e1 =>
      match evalE fns fuel σ e1 with
      | (.error er, σ1) => (.error er, σ1)
      | (.ok a, σ1) => (unCore op a, σ1)
    | .and l r =>
      match evalE fns fuel σ l with
      | (.error er, σ1) => (.error er, σ1)
      | (.ok a, σ1) =>
        match asBool a with
        | .error er => (.error er, σ1)
        | .ok false => (.ok (.bool false), σ1)
        | .ok true =>
          match evalE fns fuel σ1 r with
          | (.error er, σ2) => (.error er, σ2)
          | (.ok b, σ2) =>
            match asBool b with
            | .error er => (.error er, σ2)
            | .ok bb => (.ok (.bool bb), σ2)
    | .or l r =>
      match evalE fns fuel σ l with
      | (.error er, σ1) => (.error er, σ1)
      | (.ok a, σ1) =>
        match asBool a with
        | .error er => (.error er, σ1)
        | .ok true => (.ok (.bool true), σ1)
        | .ok false =>
          match evalE fns fuel σ1 r with
          | (.error er, σ2) => (.error er, σ2)
          | (.ok b, σ2) =>
            match asBool b with
            | .error er => (.error er, σ2)
            | .ok bb => (.ok (.bool bb), σ2)
    | .idx a i =>
      match evalE fns fuel σ i with
      | (.error er, σ1) => (.error er, σ1)
      | (.ok (.int n), σ1) =>
        match listOf σ1 a with
        | .error er => (.error er, σ1)
        | .ok (_, xs) =>
          match inRange xs.length n with
          | some p => (.ok (xs.getD p .none), σ1)
          | none => (.error "domain:index", σ1)
      | (.ok _, σ1) => (.error "type:index", σ1)
    | .fld r f =>
      match dictOf σ r with
      | .error er => (.error er, σ)
      | .ok (_, kvs) =>
        match fieldGet kvs f with
        | some v => (.ok v, σ)
        | none => (.error "type:field", σ)
    | .call f args =>
      match evalArgs fns fuel σ args with
      | (.error er, σ1) => (.error er, σ1)
      | (.ok vs, σ1) =>
        match findFn fns f with
        | none => (.error ("type:unknown-function:" ++ f), σ1)
        | some d =>
          match zipParams d.params vs with
          | none => (.error "type:arity", σ1)
          | some vars =>
            let (fa, σ2) := σ1.allocFrame { vars := vars.map (fun p => (p.1, some p.2)) }
            let saved := σ1.env
            let unit := match σ1.env.getLast? with
              | some u => [u]
              | none => []
            match execS fns fuel { σ2 with env := fa :: unit } d.body with
            | (.ret v, σ3) => (.ok v, { σ3 with env := saved })
            | (.normal, σ3) => (.error "type:missing-return", { σ3 with env := saved })
            | (.err er, σ3) => (.error er, { σ3 with env := saved })
            | (_, σ3) => (.error "malformed:loop-control-outside-loop", { σ3 with env := saved })

def evalArgs (fns : List FnDef) : Nat → State → List Expr → Res (List Val) × State
  | 0, σ, _ => (.error "fuel", σ)
  | _+1, σ, [] => (.ok [], σ)
  | fuel+1, σ, a :: as =>
    match evalE fns fuel σ a with
    | (.error er, σ1) => (.error er, σ1)
    | (.ok v, σ1) =>
      match evalArgs fns fuel σ1 as with
      | (.error er, σ2) => (.error er, σ2)
      | (.ok vs, σ2) => (.ok (v :: vs), σ2)

def execS (fns : List FnDef) : Nat → State → List Stmt → Outcome × State
  | 0, σ, _ => (.err "fuel", σ)
  | _+1, σ, [] => (.normal, σ)
  | fuel+1, σ, s :: rest =>
    match s with
    | .brk => (.brk, σ)
    | .cont => (.cont, σ)
    | .decl x _ e =>
      match evalE fns fuel σ e with
      | (.error er, σ1) => (.err er, σ1)
      | (.ok v, σ1) =>
        match assignLocal σ1 x v with
        | .ok σ2 => execS fns fuel σ2 rest
        | .error er => (.err er, σ1)
    | .assign x e =>
      match evalE fns fuel σ e with
      | (.error er, σ1) => (.err er, σ1)
      | (.ok v, σ1) =>
        match assignLocal σ1 x v with
        | .ok σ2 => execS fns fuel σ2 rest
        | .error er => (.err er, σ1)
    | .newArr x es =>
      match evalArgs fns fuel σ es with
      | (.error er, σ1) => (.err er, σ1)
      | (.ok vs, σ1) =>
        let (p, σ2) := σ1.alloc (.list vs)
        match assignLocal σ2 x (.ref p) with
        | .ok σ3 => execS fns fuel σ3 rest
        | .error er => (.err er, σ2)
    | .newRec x _ fs =>
      match evalArgs fns fuel σ (fs.map (·.2)) with
      | (.error er, σ1) => (.err er, σ1)
      | (.ok vs, σ1) =>
        let (p, σ2) := σ1.alloc (.dict ((fs.map (fun f => Val.str f.1)).zip vs))
        match assignLocal σ2 x (.ref p) with
        | .ok σ3 => execS fns fuel σ3 rest
        | .error er => (.err er, σ2)
    | .setIdx a i e =>
      match evalE fns fuel σ i with
      | (.error er, σ1) => (.err er, σ1)
      | (.ok (.int n), σ1) =>
        match evalE fns fuel σ1 e with
        | (.error er, σ2) => (.err er, σ2)
        | (.ok v, σ2) =>
          match listOf σ2 a with
          | .error er => (.err er, σ2)
          | .ok (p, xs) =>
            match inRange xs.length n with
            | some k => execS fns fuel (σ2.setObj p (.list (xs.set k v))) rest
            | none => (.err "domain:index", σ2)
      | (.ok _, σ1) => (.err "type:index", σ1)
    | .setFld r f e =>
      match evalE fns fuel σ e with
      | (.error er, σ1) => (.err er, σ1)
      | (.ok v, σ1) =>
        match dictOf σ1 r with
        | .error er => (.err er, σ1)
        | .ok (p, kvs) =>
          match fieldSet kvs f v with
          | some kvs' => execS fns fuel (σ1.setObj p (.dict kvs')) rest
          | none => (.err "type:field", σ1)
    | .exprS e =>
      match evalE fns fuel σ e with
      | (.error er, σ1) => (.err er, σ1)
      | (.ok _, σ1) => execS fns fuel σ1 rest
    | .out e =>
      match evalE fns fuel σ e with
      | (.error er, σ1) => (.err er, σ1)
      | (.ok v, σ1) => execS fns fuel { σ1 with out := σ1.render v :: σ1.out } rest
    | .ret e =>
      match evalE fns fuel σ e with
      | (.error er, σ1) => (.err er, σ1)
      | (.ok v, σ1) => (.ret v, σ1)
    | .ifS c t e =>
      match evalE fns fuel σ c with
      | (.error er, σ1) => (.err er, σ1)
      | (.ok vc, σ1) =>
        match asBool vc with
        | .error er => (.err er, σ1)
        | .ok b =>
          match execS fns fuel σ1 (if b then t else e) with
          | (.normal, σ2) => execS fns fuel σ2 rest
          | r => r
    | .whileS c body =>
      match evalE fns fuel σ c with
      | (.error er, σ1) => (.err er, σ1)
      | (.ok vc, σ1) =>
        match asBool vc with
        | .error er => (.err er, σ1)
        | .ok false => execS fns fuel σ1 rest
        | .ok true =>
          match execS fns fuel σ1 body with
          | (.normal, σ2) => execS fns fuel σ2 (s :: rest)
          | (.cont, σ2) => execS fns fuel σ2 (s :: rest)
          | (.brk, σ2) => execS fns fuel σ2 rest
          | r => r
    | .forS i lo hi body =>
      match evalE fns fuel σ lo with
      | (.error er, σ1) => (.err er, σ1)
      | (.ok v, σ1) =>
        match assignLocal σ1 i v with
        | .ok σ2 => execS fns fuel σ2 (.forIter i hi body :: rest)
        | .error er => (.err er, σ1)
    | .forIter i hi body =>
      match evalE fns fuel σ hi with
      | (.error er, σ1) => (.err er, σ1)
      | (.ok vh, σ1) =>
        match σ1.lookup i with
        | .error er => (.err er, σ1)
        | .ok vi =>
          match binCore .lt vi vh with
          | .error er => (.err er, σ1)
          | .ok (.bool false) => execS fns fuel σ1 rest
          | .ok _ =>
            let next (σ2 : State) : Outcome × State :=
              match σ2.lookup i with
              | .error er => (.err er, σ2)
              | .ok cur =>
                match binCore .add cur (.int 1) with
                | .error er => (.err er, σ2)
                | .ok nv =>
                  match assignLocal σ2 i nv with
                  | .ok σ3 => execS fns fuel σ3 (s :: rest)
                  | .error er => (.err er, σ2)
            match execS fns fuel σ1 body with
            | (.normal, σ2) => next σ2
            | (.cont, σ2) => next σ2
            | (.brk, σ2) => execS fns fuel σ2 rest
            | r => r
end

/-- `evalCore`: run `entry(args)` from the initial state; outputs + rendered return value. -/
def runCore (fuel : Nat) (p : Program) (entry : String) (args : List Val) : Obs :=
  match evalE p.fns fuel State.init (.call entry (args.map (fun v =>
      match v with
      | .int n => Expr.int n
      | .bool b => Expr.bool b
      | .str s => Expr.str s
      | _ => Expr.int 0))) with
  | (.ok v, σ) => { out := σ.out.reverse, result := "ok " ++ σ.render v }
  | (.error e, σ) => { out := σ.out.reverse, result := errClass e }

abbrev evalCore := @runCore

/-! ## Static fragment predicates used by the theorems -/

/-- constants, variables, arithmetic / comparison / concat (not `div`: its operator is `/` in the rows of
Java, Go and C, whose meaning on integers the token alone does not fix), unary operators. -/
def pureE : Expr → Bool
  | .int _ => true
  | .bool _ => true
  | .str _ => true
  | .var _ => true
  | .bin op l r => op != .div && pureE l && pureE r
  | .un _ e => pureE e
  | _ => false

end LianVerif.Core
