/-
Concrete SFGs and rule sets used by the non-vacuity examples and the negative theorems of
Properties/C10.lean and Properties/C11.lean.  Each graph is what lian builds for the quoted program
(checked against the real code by the corpus files corpus/C10/*.json, corpus/C11/*.json).
-/
import LianVerif.Model.Taint

namespace LianVerif.TaintWitness
open LianVerif.Sfg LianVerif.TaintRules LianVerif.Taint

/-- the literal list of `apply_propagation_rules` at the pinned commit -/
def prm0 : Params :=
  { propOps := ["assign_stmt", "call_stmt", "object_call_stmt", "new_object", "forin_stmt",
      "field_read", "field_write", "record_write", "record_extend", "array_write", "array_extend",
      "array_append", "array_read"] }

def py (n : Node) : Node := { n with unitPath := "/w/a.py", unitLang := "python" }

/-- `y = req.get(); sink(…y…)` with `y` used by the call at position `p`
(`sink(y)`: p = 1; `sink(0, y)`: p = 2).
0 = object_call_stmt, 1 = its target (symbol id 11), 2 = call_stmt `sink`, 3 = symbol `sink`
(id -2) used at position 0, 4 = state of 3 with access path ['sink']. -/
def gObjCall (p : Int) : Graph :=
  { nodes := [
      py { kind := 1, defStmt := 10, name := "object_call_stmt", lineNo := 0,
           operation := "%vv1 = req.get()", sField := "get", sReceiver := "req", startRow := 0 },
      py { kind := 2, defStmt := 10, index := 1, nodeId := 11, name := "%vv1" },
      py { kind := 1, defStmt := 12, name := "call_stmt", lineNo := 1,
           operation := "%vv2 = sink(['%vv1'])", sName := "sink", startRow := 1 },
      py { kind := 2, defStmt := 12, index := 2, nodeId := -2, name := "sink" },
      py { kind := 3, defStmt := 12, index := 3, nodeId := 101, name := "ep", ap := [⟨true, "sink"⟩] }],
    out := [[⟨1, 1, -1⟩], [⟨2, 2, p⟩], [], [⟨2, 2, 0⟩, ⟨4, 5, -1⟩], []],
    inn := [[], [⟨0, 1, -1⟩], [⟨1, 2, p⟩, ⟨3, 2, 0⟩], [], [⟨3, 5, -1⟩]] }

def srcObjCall (lang : String) : Rule :=
  { lang := lang, name := some "req.get", operation := some "object_call_stmt" }

def sinkCall (lang : String) (t : RTarget) : Rule :=
  { lang := lang, name := some "sink", operation := some "call_stmt", target := t, vulnType := some "v" }

/-- `w = src(); sink(w)`: 0 = call_stmt `w = src()`, 1 = `w` (id 11), 2 = symbol `src` (id -3) used
at position 0, 3 = its state ['src'], 4 = call_stmt `sink`, 5 = symbol `sink`, 6 = its state. -/
def gCallSrc : Graph :=
  { nodes := [
      py { kind := 1, defStmt := 10, name := "call_stmt", lineNo := 0, operation := "w = src()",
           sName := "src", startRow := 0 },
      py { kind := 2, defStmt := 10, index := 1, nodeId := 11, name := "w" },
      py { kind := 2, defStmt := 10, index := 2, nodeId := -3, name := "src" },
      py { kind := 3, defStmt := 10, index := 3, nodeId := 100, name := "ep", ap := [⟨true, "src"⟩] },
      py { kind := 1, defStmt := 12, name := "call_stmt", lineNo := 1,
           operation := "%vv2 = sink(['w'])", sName := "sink", startRow := 1 },
      py { kind := 2, defStmt := 12, index := 4, nodeId := -2, name := "sink" },
      py { kind := 3, defStmt := 12, index := 5, nodeId := 101, name := "ep", ap := [⟨true, "sink"⟩] }],
    out := [[⟨1, 1, -1⟩], [⟨4, 2, 1⟩], [⟨0, 2, 0⟩, ⟨3, 5, -1⟩], [], [], [⟨4, 2, 0⟩, ⟨6, 5, -1⟩], []],
    inn := [[⟨2, 2, 0⟩], [⟨0, 1, -1⟩], [], [⟨2, 5, -1⟩], [⟨1, 2, 1⟩, ⟨5, 2, 0⟩], [], [⟨5, 5, -1⟩]] }

def srcCall : Rule := { lang := "python", name := some "src", operation := some "call_stmt" }

/-- `z = cfg.secret; sink(z)`: 0 = field_read, 1 = `z` (id 11), 2 = its state ['cfg','secret'],
3 = call_stmt `sink`, 4 = symbol `sink`, 5 = its state. -/
def gFieldRead : Graph :=
  { nodes := [
      py { kind := 1, defStmt := 10, name := "field_read", lineNo := 0, operation := "z = cfg.secret",
           sField := "secret", sReceiver := "cfg", startRow := 0 },
      py { kind := 2, defStmt := 10, index := 1, nodeId := 11, name := "z" },
      py { kind := 3, defStmt := 10, index := 2, nodeId := 100, name := "ep",
           ap := [⟨true, "cfg"⟩, ⟨true, "secret"⟩] },
      py { kind := 1, defStmt := 12, name := "call_stmt", lineNo := 1,
           operation := "%vv2 = sink(['z'])", sName := "sink", startRow := 1 },
      py { kind := 2, defStmt := 12, index := 3, nodeId := -2, name := "sink" },
      py { kind := 3, defStmt := 12, index := 4, nodeId := 101, name := "ep", ap := [⟨true, "sink"⟩] }],
    out := [[⟨1, 1, -1⟩], [⟨2, 5, -1⟩, ⟨3, 2, 1⟩], [], [], [⟨3, 2, 0⟩, ⟨5, 5, -1⟩], []],
    inn := [[], [⟨0, 1, -1⟩], [⟨1, 5, -1⟩], [⟨1, 2, 1⟩, ⟨4, 2, 0⟩], [], [⟨4, 5, -1⟩]] }

/-- two symbol nodes with the same id (two definitions of one variable): the source 0 (id 1) flows
into A = 1 and B = 2 (both id 2); only B is used, by the assignment 3 that defines C = 4 (id 3),
which the sink 5 uses.  Tagging A marks id 2, so B is never enqueued and C never tagged. -/
def gAlias : Graph :=
  { nodes := [
      py { kind := 2, defStmt := 10, index := 0, nodeId := 1, name := "s" },
      py { kind := 2, defStmt := 11, index := 1, nodeId := 2, name := "a" },
      py { kind := 2, defStmt := 12, index := 2, nodeId := 2, name := "a" },
      py { kind := 1, defStmt := 13, name := "assign_stmt", lineNo := 3, operation := "c = a", startRow := 3 },
      py { kind := 2, defStmt := 13, index := 3, nodeId := 3, name := "c" },
      py { kind := 1, defStmt := 14, name := "call_stmt", lineNo := 4, operation := "%vv = sink(['c'])",
           sName := "sink", startRow := 4 }],
    out := [[⟨1, 3, -1⟩, ⟨2, 3, -1⟩], [], [⟨3, 2, 0⟩], [⟨4, 1, -1⟩], [⟨5, 2, 1⟩], []],
    inn := [[], [⟨0, 3, -1⟩], [⟨0, 3, -1⟩], [⟨2, 2, 0⟩], [⟨3, 1, -1⟩], [⟨4, 2, 1⟩]] }

/-- `w = src(); sink(x)` where the value of `w` (state 7, id 50) is included in a container state
(node 8) whose STATE id 20 happens to equal the SYMBOL id of the unrelated variable `x` (node 9):
the reduced form of the graph lian built for a generated program (`out.secret_field = y` gave the
receiver's state the id of the variable `cr0`).
0 = call_stmt `w = src()`, 1 = `w` (id 11), 2 = symbol `src`, 3 = its state, 4 = call_stmt `sink`,
5 = symbol `sink`, 6 = its state, 7 = state of `w`, 8 = containing state, 9 = `x`. -/
def gStateId : Graph :=
  { nodes := [
      py { kind := 1, defStmt := 10, name := "call_stmt", lineNo := 0, operation := "w = src()",
           sName := "src", startRow := 0 },
      py { kind := 2, defStmt := 10, index := 1, nodeId := 11, name := "w" },
      py { kind := 2, defStmt := 10, index := 2, nodeId := -3, name := "src" },
      py { kind := 3, defStmt := 10, index := 3, nodeId := 100, name := "ep", ap := [⟨true, "src"⟩] },
      py { kind := 1, defStmt := 12, name := "call_stmt", lineNo := 1,
           operation := "%vv2 = sink(['x'])", sName := "sink", startRow := 1 },
      py { kind := 2, defStmt := 12, index := 4, nodeId := -2, name := "sink" },
      py { kind := 3, defStmt := 12, index := 5, nodeId := 101, name := "ep", ap := [⟨true, "sink"⟩] },
      py { kind := 3, defStmt := 10, index := 6, nodeId := 50, name := "ep" },
      py { kind := 3, defStmt := 9, index := 7, nodeId := 20, name := "ep" },
      py { kind := 2, defStmt := 8, index := 8, nodeId := 20, name := "x" }],
    out := [[⟨1, 1, -1⟩], [⟨7, 5, -1⟩], [⟨0, 2, 0⟩, ⟨3, 5, -1⟩], [], [], [⟨4, 2, 0⟩, ⟨6, 5, -1⟩], [],
            [], [⟨7, 7, -1⟩], [⟨4, 2, 1⟩]],
    inn := [[⟨2, 2, 0⟩], [⟨0, 1, -1⟩], [], [⟨2, 5, -1⟩], [⟨9, 2, 1⟩, ⟨5, 2, 0⟩], [], [⟨5, 5, -1⟩],
            [⟨1, 5, -1⟩, ⟨8, 7, -1⟩], [], []] }

/-- `w = src(); sink(7)` where the literal's STATE node (7, state id 11) is a STATE_IS_USED
predecessor (edge kind 11) of the sink and happens to have the id of the SYMBOL `w` (node 1, id 11).
0 = call_stmt `w = src()`, 1 = `w`, 2 = symbol `src`, 3 = its state, 4 = call_stmt `sink`,
5 = symbol `sink`, 6 = its state, 7 = state of the literal. -/
def gCodeLit : Graph :=
  { nodes := [
      py { kind := 1, defStmt := 10, name := "call_stmt", lineNo := 0, operation := "w = src()",
           sName := "src", startRow := 0 },
      py { kind := 2, defStmt := 10, index := 1, nodeId := 11, name := "w" },
      py { kind := 2, defStmt := 10, index := 2, nodeId := -3, name := "src" },
      py { kind := 3, defStmt := 10, index := 3, nodeId := 100, name := "ep", ap := [⟨true, "src"⟩] },
      py { kind := 1, defStmt := 12, name := "call_stmt", lineNo := 1,
           operation := "%vv2 = sink([7])", sName := "sink", startRow := 1 },
      py { kind := 2, defStmt := 12, index := 4, nodeId := -2, name := "sink" },
      py { kind := 3, defStmt := 12, index := 5, nodeId := 101, name := "ep", ap := [⟨true, "sink"⟩] },
      py { kind := 3, defStmt := 12, index := 6, nodeId := 11, name := "ep" }],
    out := [[⟨1, 1, -1⟩], [], [⟨0, 2, 0⟩, ⟨3, 5, -1⟩], [], [], [⟨4, 2, 0⟩, ⟨6, 5, -1⟩], [], [⟨4, 11, 1⟩]],
    inn := [[⟨2, 2, 0⟩], [⟨0, 1, -1⟩], [], [⟨2, 5, -1⟩], [⟨5, 2, 0⟩, ⟨7, 11, 1⟩], [], [⟨5, 5, -1⟩], []] }

/-! ### the witnesses of the findings: graph, rule set, frozen single-flag variant of the pinned code

The driver serialises these cases (`{"m":"taintrules","op":"witnesses"}`) so that every run replays
them on the REAL functions: the code as it is now must answer what `current` answers. -/

structure WCase where
  name : String
  g : Graph
  rs : RuleSet
  frozen : Variant
  /-- the engine parameters of the pinned code where they differ from the current ones -/
  frozenPrm : Params → Params := fun p => p

def rsPy : RuleSet :=
  { sources := [srcObjCall "python"], sinks := [sinkCall "python" (.list [some KW_ARG0])] }

/-- `w = src(); sink(w)` with a call_stmt source rule -/
def wCallSrc : WCase :=
  { name := "call-source-pos", g := gCallSrc,
    rs := { sources := [srcCall], sinks := [sinkCall "python" (.list [some KW_ARG0])] },
    frozen := { current with callSrcPos := -1 } }

/-- `y = req.get(); sink(y)` with all rules under `lang: java` -/
def wLang : WCase :=
  { name := "lang-ignored", g := gObjCall 1,
    rs := { sources := [srcObjCall "java"], sinks := [sinkCall "java" (.list [some KW_ARG0])] },
    frozen := { current with checkLang := false } }

/-- the sink rule's first target is an unknown keyword -/
def wTargetPos : WCase :=
  { name := "stale-target-pos", g := gObjCall 1,
    rs := { rsPy with sinks := [sinkCall "python" (.list [some "%bogus"])] },
    frozen := { current with resetTargetPos := false } }

/-- `sink(0, y)` and a sink_from_code rule of another file on the same line -/
def wCodeSink : WCase :=
  { name := "code-sink-other-file", g := gObjCall 2,
    rs := { rsPy with sinkCode := [{ unitPath := "other/project/file.py", lineNum := 2,
                                     symbolName := "sink", lang := "python" }] },
    frozen := { current with codeSinkUnit := false } }

/-- `sink(0, y)` on line 2; rules: line 2 ↦ `\\%arg0`, line 9 ↦ `\\%arg1` -/
def wSinkLoc : WCase :=
  { name := "sink-rule-location", g := gObjCall 2,
    rs := { rsPy with sinks := [{ sinkCall "python" (.list [some KW_ARG0]) with lineNum := some 2 },
                                { sinkCall "python" (.list [some KW_ARG1]) with lineNum := some 9 }] },
    frozen := { current with sinkTagLoc := false } }

/-- `z = cfg.secret; sink(z)` with a field_read rule restricted to line 7 of other.py -/
def wFieldRead : WCase :=
  { name := "field-read-location", g := gFieldRead,
    rs := { sources := [{ lang := "python", name := some "cfg.secret", operation := some "field_read",
                          unitName := some "other.py", lineNum := some 7 }],
            sinks := [sinkCall "python" (.list [some KW_ARG0])] },
    frozen := { current with fieldReadLoc := false } }

/-- two symbol nodes sharing an id (open finding: nothing is frozen, `frozen = current`) -/
def wAlias : WCase :=
  { name := "alias-node-not-enqueued", g := gAlias,
    rs := { srcCode := [], sinks := [sinkCall "python" (.list [some KW_ARG0])] },
    frozen := current }

/-- the id of a containing STATE written into the SYMBOL table (engine parameter, not a rule variant) -/
def wStateId : WCase :=
  { name := "state-id-tagged-as-symbol", g := gStateId,
    rs := { sources := [srcCall], sinks := [sinkCall "python" (.list [some KW_ARG0])] },
    frozen := current, frozenPrm := fun p => { p with stateUpSymOnly := false } }

/-- a sink_from_code rule on the line of `sink(7)`: every predecessor counted, also the literal's state -/
def wCodeLit : WCase :=
  { name := "code-sink-state-operand", g := gCodeLit,
    rs := { sources := [srcCall],
            sinkCode := [{ unitPath := "/w/a.py", lineNum := 2, symbolName := "sink", lang := "python" }] },
    frozen := { current with codeSinkSymOnly := false } }

def allCases : List WCase :=
  [wCallSrc, wLang, wTargetPos, wCodeSink, wSinkLoc, wFieldRead, wAlias, wStateId, wCodeLit]

end LianVerif.TaintWitness
