/-
Abstract POSIX-like file system used by the C18 model (trusted base: a *definition*, validated by
the same snapshot diff that validates the model built on it, and by a direct differential test of
`realpath / exists / isdir / isfile / islink / listdir` against `os.path` on random trees).

* A file system is a flat association list `physical path ↦ node`.  A physical path is the list of
  its components from the root (`[]` is the root, always a directory).  Nodes are regular files
  (content = an opaque number), directories and symbolic links (target = a raw path).
* A raw path (`RPath`) is what a Python string path denotes after splitting on '/': an `abs` flag
  and the list of components, which may contain "", "." and "..".
* `resolveDir` / `resolve` follow the kernel's path walk: components are consumed left to right,
  ".." pops the *physical* parent, a symbolic link is expanded in place.  `fuel` bounds the nesting of
  link expansions (the kernel bounds their number by 40; ELOOP either way for cycles).
* Mutations (`setNode`, `remove`, `removeTree`) act on physical paths only.

Assumed, not modelled: permissions, hard links, special files, PATH_MAX / NAME_MAX, mount points,
concurrent modification by other processes, "//" at the start of a path.

Core Lean only (linked into `lvdrv`).
-/
namespace LianVerif.Fs

abbrev Path := List String

structure RPath where
  abs : Bool
  comps : List String
deriving Repr, DecidableEq, Inhabited

inductive Node where
  | file (content : Nat)
  | dir
  | link (target : RPath)
deriving Repr, DecidableEq, Inhabited

abbrev FS := List (Path × Node)

inductive Err where
  | noent | notdir | loop | exist | isdir | same
deriving Repr, DecidableEq, Inhabited

/-! ### lookup and physical mutations -/

def lookup (fs : FS) (p : Path) : Option Node :=
  match p with
  | [] => some .dir
  | _ => (fs.find? (fun e => e.1 == p)).map (·.2)

def remove (fs : FS) (p : Path) : FS := fs.filter (fun e => !(e.1 == p))

def setNode (fs : FS) (p : Path) (n : Node) : FS := remove fs p ++ [(p, n)]

/-- `shutil.rmtree` of a real directory: the directory and everything below it (links inside are
unlinked, never followed). -/
def removeTree (fs : FS) (p : Path) : FS := fs.filter (fun e => !(p.isPrefixOf e.1))

/-- insertion into a sorted duplicate-free list of names (code-point order, as Python's `sorted`) -/
def insertName (n : String) : List String → List String
  | [] => [n]
  | m :: r => if n == m then m :: r else if n < m then n :: m :: r else m :: insertName n r

/-- names of the entries directly below the physical directory `p`, sorted -/
def childNames (fs : FS) (p : Path) : List String :=
  fs.foldl (fun acc e =>
    if p.isPrefixOf e.1 && e.1.length == p.length + 1 then
      match e.1.getLast? with
      | some n => insertName n acc
      | none => acc
    else acc) []

/-! ### kernel path walk -/

def trivialComp (c : String) : Bool := c == "" || c == "."

/-- a plain name: not "", ".", ".." -/
def plain (c : String) : Bool := !trivialComp c && !(c == "..")

/-- one component of a walk in which every component must lead to a directory -/
def stepDir (fs : FS) (rec : Path → List String → Except Err Path)
    (acc : Except Err Path) (c : String) : Except Err Path :=
  match acc with
  | .error e => .error e
  | .ok cur =>
    if trivialComp c then .ok cur
    else if c == ".." then .ok cur.dropLast
    else match lookup fs (cur ++ [c]) with
      | none => .error .noent
      | some .dir => .ok (cur ++ [c])
      | some (.file _) => .error .notdir
      | some (.link t) => rec (if t.abs then [] else cur) t.comps

/-- walk `comps` from the physical directory `cur`; every component must be (or link to) a directory -/
def resolveDir (fs : FS) : Nat → Path → List String → Except Err Path
  | 0, _, _ => .error .loop
  | fuel + 1, cur, comps => comps.foldl (stepDir fs (resolveDir fs fuel)) (.ok cur)

/-- full resolution: physical location of the last component and what is there (`none` = nothing,
but the parent directory exists, i.e. the name can be created).  `follow` = follow a final link. -/
def resolve (fs : FS) : Nat → Bool → Path → List String → Except Err (Path × Option Node)
  | 0, _, _, _ => .error .loop
  | fuel + 1, follow, cur, comps =>
    match comps.getLast? with
    | none => .ok (cur, some .dir)
    | some c =>
      match resolveDir fs (fuel + 1) cur comps.dropLast with
      | .error e => .error e
      | .ok d =>
        if trivialComp c then .ok (d, some .dir)
        else if c == ".." then .ok (d.dropLast, some .dir)
        else match lookup fs (d ++ [c]) with
          | some (.link t) =>
            if follow then resolve fs fuel follow (if t.abs then [] else d) t.comps
            else .ok (d ++ [c], some (.link t))
          | n => .ok (d ++ [c], n)

def linkFuelPred : Nat := 39

/-- nesting bound for symbolic-link expansion (the kernel allows 40 expansions per walk) -/
def linkFuel : Nat := linkFuelPred + 1

/-- where a walk of the raw path `p` starts; a relative walk needs the working directory to exist -/
def startOf (fs : FS) (cwd : Path) (p : RPath) : Except Err Path :=
  if p.abs then .ok []
  else match lookup fs cwd with
    | some .dir => .ok cwd
    | _ => .error .noent

def stat (fs : FS) (cwd : Path) (p : RPath) : Except Err (Path × Option Node) :=
  match startOf fs cwd p with
  | .error e => .error e
  | .ok s => resolve fs linkFuel true s p.comps

def lstat (fs : FS) (cwd : Path) (p : RPath) : Except Err (Path × Option Node) :=
  match startOf fs cwd p with
  | .error e => .error e
  | .ok s => resolve fs linkFuel false s p.comps

/-! ### `os.path` predicates and `os.listdir` -/

def exists_ (fs : FS) (cwd : Path) (p : RPath) : Bool :=
  match stat fs cwd p with
  | .ok (_, some _) => true
  | _ => false

def isDir (fs : FS) (cwd : Path) (p : RPath) : Bool :=
  match stat fs cwd p with
  | .ok (_, some .dir) => true
  | _ => false

def isFile (fs : FS) (cwd : Path) (p : RPath) : Bool :=
  match stat fs cwd p with
  | .ok (_, some (.file _)) => true
  | _ => false

def isLink (fs : FS) (cwd : Path) (p : RPath) : Bool :=
  match lstat fs cwd p with
  | .ok (_, some (.link _)) => true
  | _ => false

/-- `os.listdir` / `os.scandir` (sorted): the physical directory and the names in it -/
def listDir (fs : FS) (cwd : Path) (p : RPath) : Except Err (Path × List String) :=
  match stat fs cwd p with
  | .error e => .error e
  | .ok (q, some .dir) => .ok (q, childNames fs q)
  | .ok (_, some _) => .error .notdir
  | .ok (_, none) => .error .noent

/-! ### `os.path` string functions on raw paths -/

def dropTrailingEmpty (l : List String) : List String :=
  match l.getLast? with
  | some "" => l.dropLast
  | _ => l

/-- `os.path.join(a, b)` -/
def join (a b : RPath) : RPath :=
  if b.abs then b else { abs := a.abs, comps := dropTrailingEmpty a.comps ++ b.comps }

def joinName (a : RPath) (n : String) : RPath := join a { abs := false, comps := [n] }

/-- `os.path.basename` -/
def basename (p : RPath) : String := p.comps.getLast?.getD ""

/-- lexical normalisation of a component list below an absolute prefix (`os.path.normpath`) -/
def normLex (acc : Path) : List String → Path
  | [] => acc
  | c :: r =>
    if trivialComp c then normLex acc r
    else if c == ".." then normLex acc.dropLast r
    else normLex (acc ++ [c]) r

/-- `os.path.abspath`: purely textual -/
def abspath (cwd : Path) (p : RPath) : Path :=
  if p.abs then normLex [] p.comps else normLex cwd p.comps

def ofPath (p : Path) : RPath := { abs := true, comps := p }

def commonPrefixLen : List String → List String → Nat
  | a :: as, b :: bs => if a == b then commonPrefixLen as bs + 1 else 0
  | _, _ => 0

/-- `os.path.relpath(path, start)` -/
def relpath (cwd : Path) (path start : RPath) : RPath :=
  let s := abspath cwd start
  let p := abspath cwd path
  let i := commonPrefixLen s p
  let rel := List.replicate (s.length - i) ".." ++ p.drop i
  { abs := false, comps := if rel.isEmpty then ["."] else rel }

/-- `posixpath._joinrealpath`, non-strict: used only when the kernel walk fails (missing or
non-directory intermediate components, link cycles).  `active` are the links being expanded. -/
def lenientReal (fs : FS) : Nat → List Path → Path → List String → Path × Bool
  | 0, _, path, rest => (normLex path rest, false)
  | _ + 1, _, path, [] => (path, true)
  | fuel + 1, active, path, c :: rest =>
    if trivialComp c then lenientReal fs fuel active path rest
    else if c == ".." then lenientReal fs fuel active path.dropLast rest
    else
      let newpath := path ++ [c]
      match lookup fs newpath with
      | some (.link t) =>
        if active.contains newpath then (normLex newpath rest, false)
        else
          match lenientReal fs fuel (newpath :: active) (if t.abs then [] else path) t.comps with
          | (p2, false) => (normLex p2 rest, false)
          | (p2, true) => lenientReal fs fuel active p2 rest
      | _ => lenientReal fs fuel active newpath rest

/-- `os.path.realpath` (non-strict).  When the kernel walk succeeds the canonical path is the
physical location it reaches (also for a final component that does not exist yet); otherwise
Python continues textually. -/
def realpath (fs : FS) (cwd : Path) (p : RPath) : Path :=
  match stat fs cwd p with
  | .ok (q, _) => q
  | .error _ => (lenientReal fs 4096 [] (if p.abs then [] else cwd) p.comps).1

/-! ### small text helpers -/

def isInfixChars (needle : List Char) : List Char → Bool
  | [] => needle.isEmpty
  | c :: r => needle.isPrefixOf (c :: r) || isInfixChars needle r

/-- `needle in hay` for Python strings -/
def strContains (hay needle : String) : Bool := isInfixChars needle.toList hay.toList

/-- `needle in "/".join(comps)` for a needle without '/' -/
def compsContain (comps : List String) (needle : String) : Bool :=
  comps.any (fun c => strContains c needle)

def lowerAscii (s : String) : String :=
  String.ofList (s.toList.map (fun c => if 'A' ≤ c ∧ c ≤ 'Z' then Char.ofNat (c.toNat + 32) else c))

/-- `os.path.splitext(name)[1]`: from the last dot, unless only dots precede it -/
def splitExt (name : String) : String :=
  let cs := name.toList
  let rev := cs.reverse
  match rev.findIdx? (· == '.') with
  | none => ""
  | some k =>
    let dotPos := cs.length - 1 - k
    if (cs.take dotPos).all (· == '.') then "" else String.ofList (cs.drop dotPos)

end LianVerif.Fs
