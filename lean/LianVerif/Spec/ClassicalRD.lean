/-
Specification for C06: classical (path-based) reaching definitions over a CFG.
This is the statement of the property, not a model of the code.

`E` is the edge relation, `defs s` the symbol ids statement `s` defines, a definition is
`(symbol_id, stmt_id)`.

* `ReachOut E defs d u` — `d` is generated at `d.2` and survives to the *exit* of `u` along some CFG
  path on which no statement after `d.2` (up to and including `u`) defines `d.1`.
* `ReachIn E defs d u`  — `d` reaches the *entry* of `u`: it survives to the exit of a predecessor.
  "`d` is overwritten on every control-flow path from it to `u`" is exactly `¬ ReachIn … d u`.
* `onceWitness` — a checkable certificate that `d` reaches the entry of `u` in an execution from the
  method entry in which no loop body runs more than once (every `LOOP_TRUE` edge taken at most once).
-/
import LianVerif.Model.ReachDef

namespace LianVerif.ClassicalRD
open LianVerif.ReachDef

inductive ReachOut (E : Int → Int → Prop) (defs : Int → List Int) : Def → Int → Prop
  | gen {sym s : Int} : sym ∈ defs s → ReachOut E defs (sym, s) s
  | step {d : Def} {p u : Int} : ReachOut E defs d p → E p u → d.1 ∉ defs u → ReachOut E defs d u

def ReachIn (E : Int → Int → Prop) (defs : Int → List Int) (d : Def) (u : Int) : Prop :=
  ∃ p, ReachOut E defs d p ∧ E p u

/-- the edge relation of a cleaned edge list -/
def EdgeOf (E : List (Int × Int)) : Int → Int → Prop := fun p u => (p, u) ∈ E

/-- consecutive elements of `path` are edges -/
def isPath (E : List (Int × Int)) : List Int → Bool
  | [] => true
  | [_] => true
  | a :: b :: rest => E.contains (a, b) && isPath E (b :: rest)

/-- number of times the edge `(a, b)` is traversed by `path` -/
def countEdge (a b : Int) : List Int → Nat
  | [] => 0
  | [_] => 0
  | x :: y :: rest => (if x == a && y == b then 1 else 0) + countEdge a b (y :: rest)

/-- no statement of `seg` defines `sym` -/
def clearSeg (defs : List (Int × List Int)) (sym : Int) (seg : List Int) : Bool :=
  seg.all (fun n => !(defsOf defs n).contains sym)

/-- Certificate for "definition `d` reaches the entry of `u` in an execution in which no loop body
runs more than once": the execution prefix is `pre ++ [d.2] ++ mid ++ [u]`, it starts at `entry`,
follows CFG edges, takes every edge listed in `loopTrue` at most once, `d.2` defines `d.1`, and no
statement of `mid` defines `d.1`. -/
def onceWitness (E : List (Int × Int)) (defs : List (Int × List Int)) (loopTrue : List (Int × Int))
    (entry : Int) (d : Def) (u : Int) (pre mid : List Int) : Bool :=
  let path := pre ++ [d.2] ++ mid ++ [u]
  path.head? == some entry && isPath E path &&
  loopTrue.all (fun e => countEdge e.1 e.2 path ≤ 1) &&
  (defsOf defs d.2).contains d.1 && clearSeg defs d.1 mid

def ReachInOnce (E : List (Int × Int)) (defs : List (Int × List Int)) (loopTrue : List (Int × Int))
    (entry : Int) (d : Def) (u : Int) : Prop :=
  ∃ pre mid, onceWitness E defs loopTrue entry d u pre mid = true

end LianVerif.ClassicalRD
