/-
Abstract specification for C19: the store is a duplicate-free list of paths standing for a set.
This is the statement of the property, not a model of the code.
-/
import LianVerif.Model.PathStore

namespace LianVerif.MaxPaths
open LianVerif.PathStore

variable {α : Type} [DecidableEq α]

/-- add `p`: refused when invalid, already stored, or a proper prefix of a stored path; otherwise
the stored proper prefixes of `p` are evicted and `p` is stored. -/
def specAdd (valid : α → Bool) (S : List (List α)) (p : List α) : List (List α) × Bool :=
  if !(p.all valid) || S.contains p || S.any (fun q => strictPrefix p q) then (S, false)
  else (S.filter (fun q => !strictPrefix q p) ++ [p], true)

def specRemove (S : List (List α)) (p : List α) : List (List α) × Bool :=
  if S.contains p then (S.filter (fun t => t != p), true) else (S, false)

def specStep (valid : α → Bool) (S : List (List α)) : Op α → List (List α) × Bool
  | .add p => specAdd valid S p
  | .remove p => specRemove S p
  | .exist p => (S, S.contains p)

def specRun (valid : α → Bool) : List (List α) → List (Op α) → List (List α) × List (Bool × List (List α))
  | S, [] => (S, [])
  | S, op :: ops =>
    let (S', b) := specStep valid S op
    let (Sf, outs) := specRun valid S' ops
    (Sf, (b, S') :: outs)

/-- `p` is maximal in `X`: no element of `X` properly extends it. -/
def maximalIn (X : List (List α)) (p : List α) : Bool := !X.any (fun q => strictPrefix p q)

end LianVerif.MaxPaths
