/-
Abstract specification for C20: *which* methods the entry rules select, stated as a proposition
(no loops, no `break`/`continue`, no accumulator).  This is the statement of the property, not a
model of the code.  Substring tests are `List.IsInfix` (`p <:+: s` ⇔ `∃ a b, a ++ p ++ b = s`).

Reading of the rule fields (this is how the code defines "matched on …"; see the module header of
Model/EntryPoints.lean for the quirks):
* `lang`        — equal to the unit's language, when given;
* `unit_id`     — equal to the unit's module id, when ≥ 0;
* `unit_name`   — a substring of the file name (the path after its last `/`);
* `unit_path`   — a substring of the unit path;
  (an empty string is a substring of everything, so "when given" needs no separate clause)
* `method_id`   — when ≥ 0 it alone decides: the method's declaration id must be equal;
* otherwise: `method_list` (when non-empty) names the method, `attrs` (when non-empty) are all
  substrings of the method's non-empty attribute string, and neither `args` nor `return_type` is set.
-/
import LianVerif.Model.EntryPoints

namespace LianVerif.EntrySelect
open LianVerif.EntryPoints

/-- Python `x in v` for a YAML value that is a list of names or a single string -/
def Names (v : StrOrList) (x : Text) : Prop :=
  match v with
  | .str s => x <:+: s
  | .list l => x ∈ l

def UnitOk (r : Rule) (u : UnitInfo) : Prop :=
  (r.lang ≠ [] → r.lang = u.lang) ∧
  (0 ≤ r.unitId → r.unitId = u.moduleId) ∧
  r.unitName <:+: basename u.path ∧
  r.unitPath <:+: u.path

def MethodOk (r : Rule) (m : MethodScope) : Prop :=
  if 0 ≤ r.methodId then r.methodId = m.stmtId
  else
    (r.methodList.avail = true → Names r.methodList m.name) ∧
    (r.attrs.avail = true → m.attrs ≠ [] ∧ ∀ a ∈ r.attrs.items, a <:+: m.attrs) ∧
    r.args = [] ∧ r.returnType = []

/-- the selected set, as a predicate on declaration ids -/
def Selected (rules : List Rule) (units : List (UnitInfo × List MethodScope)) (id : Int) : Prop :=
  ∃ r ∈ rules, ∃ um ∈ units, ∃ m ∈ um.2, m.stmtId = id ∧ UnitOk r um.1 ∧ MethodOk r m

/-- `b` is the file name of path `p`: the part after the last `/` (all of `p` if there is none) -/
def IsBasename (b p : Text) : Prop :=
  '/' ∉ b ∧ (b = p ∨ ∃ d, p = d ++ '/' :: b)

/-- which file names under the settings directory are rule files for `requirement` (= "entry.yaml"):
the name itself, or `<x>-…-entry.yaml` with a non-empty `<x>` before the first `-` -/
def IsRuleFile (requirement name : Text) : Prop :=
  name = requirement ∨ (('-' :: requirement) <:+ name ∧ name.head? ≠ some '-')

end LianVerif.EntrySelect
