/-
Vocabulary of the C17 statement (not a model of the code): which handlers the statement says run,
what data they see, and what "the union of the flags returned" means.
-/
import LianVerif.Model.Events

namespace LianVerif.Events

variable {L D : Type}

/-- the handler itself requests blocking: its own return value has bit 2 (`None` has no bits). -/
def blocksRet : Option Nat → Bool
  | none => false
  | some r => blocksOthers r

/-- `l` up to and including its first element satisfying `p` (all of `l` when there is none). -/
def takeThrough {α : Type} (p : α → Bool) : List α → List α
  | [] => []
  | a :: as => if p a then [a] else a :: takeThrough p as

/-- The run the statement describes when nobody blocks: every handler of `rs` is called, in list
order; the first one sees `in_data = i`, `out_data = o`; each later one sees as `in_data` the
`out_data` left by the previous handler if that one "processed" the event (`processedRet`), else the
`in_data` the previous one saw, and as `out_data` what the previous one left. -/
def fullRun (beh : Beh D) : List (Reg L) → D → D → List (Entry D)
  | [], _, _ => []
  | r :: rs, i, o =>
    let cur := beh r.h i o
    { h := r.h, inSeen := i, outSeen := o, ret := cur.1, outLeft := cur.2 } ::
      fullRun beh rs (if processedRet cur.1 then cur.2 else i) cur.2

/-- what a call leaves as `data.in_data` when it is the last one: unchanged if the handler blocks or
returned UNPROCESSED, else the `out_data` it left. -/
def finalIn (e : Entry D) : D :=
  if blocksRet e.ret then e.inSeen else if processedRet e.ret then e.outLeft else e.inSeen

/-- The flags a single return value contributes: nothing for `None`; otherwise SUCCESS iff non-zero,
and its bits 2, 4, 8. -/
def norm : Option Nat → Nat
  | none => 0
  | some r =>
    (if isProcessed r then SUCCESS else 0) ||| (if blocksOthers r then STOP_OTHER_EVENT_HANDLERS else 0) |||
    (if blocksRequester r then STOP_REQUESTERS else 0) ||| (if interruptsCall r then INTERRUPTION_CALL else 0)

/-- bitwise union of the normalised returns -/
def unionNorm (rets : List (Option Nat)) : Nat := rets.foldl (fun a r => a ||| norm r) 0

/-- plain bitwise union of the integer returns (`None` contributes nothing) -/
def unionRaw (rets : List (Option Nat)) : Nat := rets.foldl (fun a r => a ||| r.getD 0) 0

/-- the handler returned a non-zero integer -/
def nonZeroRet : Option Nat → Bool
  | some r => r != 0
  | none => false

/-- some handler returned a non-zero integer -/
def anyNonZero (rets : List (Option Nat)) : Bool := rets.any nonZeroRet

/-- the documented return values: UNPROCESSED, or SUCCESS possibly combined with the three other
flags (every non-zero value carries SUCCESS and nothing outside bits 1, 2, 4, 8). -/
def documented : Option Nat → Bool
  | none => false
  | some r => r == 0 || (r < 16 && r % 2 == 1)

end LianVerif.Events
