/-
Spec/PyStrLit.lean — a small model of the part of Python's lexical and expression syntax that
`util.strict_eval` (compile + eval) is handed by `StmtStates.compute_two_states`: string literals with
their escape sequences, decimal integers, `True`/`False`, parentheses, unary `+`/`-`, the binary
operators `+ - * // % ** << < <= == !=`, `#` comments; plus Python's `repr(str)` and `str(int)`.

This is a *reference definition* (trusted base, DESIGN §3 "CPython eval/compile is modelled, not
verified").  It is three-valued: `ok v` (CPython yields v), `err` (CPython raises: SyntaxError at
compile time or an exception at run time — `compute_two_states` catches both with a bare `except`),
`unmodelled` (outside the modelled subset; the model makes no claim and the harness skips the case).
It is validated against CPython itself on every run of the C08 check (adversarial string stream).

Text is a list of Unicode code points (`Nat`), not `List Char`: a Python `str` is a sequence of code
points below 0x110000 (surrogates included), and kernel evaluation (`decide`) on `Nat` is cheap where
`Char` is not.  The driver converts with `Char.toNat` / `Char.ofNat`.

Core Lean only (linked into `lvdrv`).
-/
namespace LianVerif.PyStrLit

abbrev Ch := Nat
abbrev Str := List Nat

/-! code points used below: 9 TAB, 10 LF, 13 CR, 32 space, 33 !, 34 ", 35 #, 37 %, 39 ', 40 (, 41 ),
42 *, 43 +, 45 -, 46 ., 47 /, 48–57 digits, 60 <, 61 =, 62 >, 65–90 A–Z, 92 backslash, 95 _,
97–122 a–z. -/

inductive R (α : Type) where
  | ok (a : α)
  | err
  | unmodelled
deriving Repr, DecidableEq

def R.bind {α β : Type} (r : R α) (f : α → R β) : R β :=
  match r with
  | .ok a => f a
  | .err => .err
  | .unmodelled => .unmodelled

def R.map {α β : Type} (f : α → β) (r : R α) : R β := r.bind (fun a => .ok (f a))

/-! ### hexadecimal and decimal digits -/

def hexDigit (d : Nat) : Ch := if d < 10 then 48 + d else 87 + d

def hexVal (c : Ch) : Option Nat :=
  if 48 ≤ c ∧ c ≤ 57 then some (c - 48)
  else if 97 ≤ c ∧ c ≤ 102 then some (c - 87)
  else if 65 ≤ c ∧ c ≤ 70 then some (c - 55)
  else none

def isDigit (c : Ch) : Bool := decide (48 ≤ c) && decide (c ≤ 57)

/-- decimal digits of `n`, least significant first (`fuel` > number of digits). -/
def natDigitsRev : (fuel : Nat) → Nat → Str
  | 0, _ => []
  | fuel + 1, n => if n < 10 then [48 + n] else (48 + n % 10) :: natDigitsRev fuel (n / 10)

/-- Python `str(n)` for a natural number. -/
def natDigits (n : Nat) : Str := (natDigitsRev (n + 1) n).reverse

/-- value of a digit list given least significant digit first. -/
def valRev : Str → Nat
  | [] => 0
  | c :: cs => (c - 48) + 10 * valRev cs

/-- Python `str(n)` for an integer. -/
def intStr (n : Int) : Str :=
  if n < 0 then 45 :: natDigits n.natAbs else natDigits n.natAbs

/-! ### `repr(str)` -/

/-- the quote `repr` chooses: double quotes iff the string has a single quote and no double quote. -/
def reprQuote (s : Str) : Ch := if s.contains 39 && !s.contains 34 then 34 else 39

def hex2 (n : Nat) : Str := [hexDigit (n / 16 % 16), hexDigit (n % 16)]
def hex4 (n : Nat) : Str :=
  [hexDigit (n / 4096 % 16), hexDigit (n / 256 % 16), hexDigit (n / 16 % 16), hexDigit (n % 16)]
def hex8 (n : Nat) : Str :=
  [hexDigit (n / 268435456 % 16), hexDigit (n / 16777216 % 16), hexDigit (n / 1048576 % 16),
   hexDigit (n / 65536 % 16), hexDigit (n / 4096 % 16), hexDigit (n / 256 % 16), hexDigit (n / 16 % 16),
   hexDigit (n % 16)]

/-- one character of `repr`'s output.  `printable` stands for `str.isprintable` (Unicode database,
not modelled): the theorems hold for every such predicate. -/
def reprChar (printable : Ch → Bool) (q : Ch) (c : Ch) : Str :=
  if c = q ∨ c = 92 then [92, c]
  else if c = 10 then [92, 110]
  else if c = 13 then [92, 114]
  else if c = 9 then [92, 116]
  else if printable c then [c]
  else if c < 256 then 92 :: 120 :: hex2 c
  else if c < 65536 then 92 :: 117 :: hex4 c
  else 92 :: 85 :: hex8 c

def reprBody (printable : Ch → Bool) (q : Ch) : Str → Str
  | [] => []
  | c :: cs => reprChar printable q c ++ reprBody printable q cs

def pyRepr (printable : Ch → Bool) (s : Str) : Str :=
  reprQuote s :: (reprBody printable (reprQuote s) s ++ [reprQuote s])

/-- ASCII approximation of `str.isprintable` used by the driver (the folded value does not depend on it). -/
def asciiPrintable (c : Ch) : Bool := decide (32 ≤ c) && decide (c < 127)

/-! ### string literal lexing -/

/-- a code point of a Python `str`. -/
def scalar (n : Nat) : R Ch := if n < 0x110000 then .ok n else .err

def consR (c : Ch) (r : R (Str × Str)) : R (Str × Str) :=
  r.map (fun p => (c :: p.1, p.2))

def consR2 (a b : Ch) (r : R (Str × Str)) : R (Str × Str) :=
  r.map (fun p => (a :: b :: p.1, p.2))

def hexAcc (acc : Option Nat) (c : Ch) : Option Nat :=
  match acc, hexVal c with
  | some a, some d => some (a * 16 + d)
  | _, _ => none

def hexEsc (ds : Str) : R Ch :=
  match ds.foldl hexAcc (some 0) with
  | some n => scalar n
  | none => .err

/-- Body of a non-raw string literal opened with quote `q` (`triple`: opened with three of them).
Returns the decoded code points and the input after the closing quote(s). -/
def lexBody (q : Ch) (triple : Bool) : Str → R (Str × Str)
  | [] => .err
  | c :: rest =>
    if c = q then
      if triple then
        match rest with
        | a :: b :: rest' => if a = q ∧ b = q then .ok ([], rest') else consR c (lexBody q triple rest)
        | _ => consR c (lexBody q triple rest)
      else .ok ([], rest)
    else if c = 10 ∨ c = 13 then
      if triple then (if c = 13 then .unmodelled else consR c (lexBody q triple rest)) else .err
    else if c = 92 then
      match rest with
      | [] => .err
      | e :: rest' =>
        if e = 92 ∨ e = 39 ∨ e = 34 then consR e (lexBody q triple rest')
        else if e = 110 then consR 10 (lexBody q triple rest')
        else if e = 114 then consR 13 (lexBody q triple rest')
        else if e = 116 then consR 9 (lexBody q triple rest')
        else if e = 97 then consR 7 (lexBody q triple rest')
        else if e = 98 then consR 8 (lexBody q triple rest')
        else if e = 102 then consR 12 (lexBody q triple rest')
        else if e = 118 then consR 11 (lexBody q triple rest')
        else if e = 10 then lexBody q triple rest'
        else if e = 120 then
          match rest' with
          | a :: b :: r => (hexEsc [a, b]).bind (fun ch => consR ch (lexBody q triple r))
          | _ => .err
        else if e = 117 then
          match rest' with
          | a :: b :: c' :: d :: r => (hexEsc [a, b, c', d]).bind (fun ch => consR ch (lexBody q triple r))
          | _ => .err
        else if e = 85 then
          match rest' with
          | a :: b :: c' :: d :: a' :: b' :: c'' :: d' :: r =>
            (hexEsc [a, b, c', d, a', b', c'', d']).bind (fun ch => consR ch (lexBody q triple r))
          | _ => .err
        else if e = 78 ∨ e = 13 ∨ (48 ≤ e ∧ e ≤ 55) then .unmodelled
        else consR2 92 e (lexBody q triple rest')
    else consR c (lexBody q triple rest)

/-- a whole string literal whose opening quote `q` has just been read. -/
def lexString (q : Ch) (afterQuote : Str) : R (Str × Str) :=
  match afterQuote with
  | a :: b :: rest => if a = q ∧ b = q then lexBody q true rest else lexBody q false afterQuote
  | _ => lexBody q false afterQuote

/-! ### tokens -/

inductive Op where
  | add | sub | mul | floordiv | mod | pow | shl | lt | le | eq | ne
deriving Repr, DecidableEq

def Op.ofString : String → Option Op
  | "+" => some .add | "-" => some .sub | "*" => some .mul | "//" => some .floordiv
  | "%" => some .mod | "**" => some .pow | "<<" => some .shl | "<" => some .lt
  | "<=" => some .le | "==" => some .eq | "!=" => some .ne | _ => none

def Op.text : Op → Str
  | .add => [43] | .sub => [45] | .mul => [42] | .floordiv => [47, 47] | .mod => [37]
  | .pow => [42, 42] | .shl => [60, 60] | .lt => [60] | .le => [60, 61] | .eq => [61, 61]
  | .ne => [33, 61]

inductive Tok where
  | num (n : Nat)
  | str (s : Str)
  | bool (b : Bool)
  | op (o : Op)
  | lpar
  | rpar
deriving Repr, DecidableEq

def spanDigits : Str → Str × Str
  | [] => ([], [])
  | c :: cs => if isDigit c then ((c :: (spanDigits cs).1), (spanDigits cs).2) else ([], c :: cs)

def isIdentChar (c : Ch) : Bool :=
  (decide (97 ≤ c) && decide (c ≤ 122)) || (decide (65 ≤ c) && decide (c ≤ 90)) || c == 95 ||
  decide (128 ≤ c) || isDigit c

def dropLine : Str → Str
  | [] => []
  | c :: cs => if c = 10 ∨ c = 13 then c :: cs else dropLine cs

/-- does an identifier character, a dot or a quote follow? (then a number / keyword is part of
something that is not modelled) -/
def gluedNext : Str → Bool
  | [] => false
  | d :: _ => isIdentChar d || d == 46 || d == 34 || d == 39

/-- Tokeniser (`fuel` > input length).  Anything outside the modelled subset — identifiers other than
`True`/`False`, string prefixes, floats, other operators, line breaks outside literals, backslash
continuation — is `unmodelled`. -/
def tokenize : (fuel : Nat) → Str → R (List Tok)
  | _, [] => .ok []
  | 0, _ :: _ => .unmodelled
  | fuel + 1, c :: rest =>
    if c = 32 ∨ c = 9 then tokenize fuel rest
    else if c = 35 then tokenize fuel (dropLine rest)
    else if c = 34 ∨ c = 39 then
      (lexString c rest).bind (fun p => (tokenize fuel p.2).map (fun ts => Tok.str p.1 :: ts))
    else if isDigit c then
      if gluedNext (spanDigits (c :: rest)).2 then .unmodelled
      else if c = 48 ∧ (spanDigits (c :: rest)).1.length > 1 ∧ ¬ ((spanDigits (c :: rest)).1.all (· == 48)) then .err
      else (tokenize fuel (spanDigits (c :: rest)).2).map (Tok.num (valRev (spanDigits (c :: rest)).1.reverse) :: ·)
    else if c = 40 then (tokenize fuel rest).map (Tok.lpar :: ·)
    else if c = 41 then (tokenize fuel rest).map (Tok.rpar :: ·)
    else if c = 43 then
      match rest with
      | 61 :: _ => .unmodelled
      | _ => (tokenize fuel rest).map (Tok.op .add :: ·)
    else if c = 45 then
      match rest with
      | 61 :: _ => .unmodelled
      | 62 :: _ => .unmodelled
      | _ => (tokenize fuel rest).map (Tok.op .sub :: ·)
    else if c = 37 then
      match rest with
      | 61 :: _ => .unmodelled
      | _ => (tokenize fuel rest).map (Tok.op .mod :: ·)
    else if c = 42 then
      match rest with
      | 42 :: 61 :: _ => .unmodelled
      | 42 :: rest' => (tokenize fuel rest').map (Tok.op .pow :: ·)
      | 61 :: _ => .unmodelled
      | _ => (tokenize fuel rest).map (Tok.op .mul :: ·)
    else if c = 47 then
      match rest with
      | 47 :: 61 :: _ => .unmodelled
      | 47 :: rest' => (tokenize fuel rest').map (Tok.op .floordiv :: ·)
      | _ => .unmodelled
    else if c = 60 then
      match rest with
      | 60 :: 61 :: _ => .unmodelled
      | 60 :: rest' => (tokenize fuel rest').map (Tok.op .shl :: ·)
      | 61 :: rest' => (tokenize fuel rest').map (Tok.op .le :: ·)
      | 62 :: _ => .unmodelled
      | _ => (tokenize fuel rest).map (Tok.op .lt :: ·)
    else if c = 61 then
      match rest with
      | 61 :: rest' => (tokenize fuel rest').map (Tok.op .eq :: ·)
      | _ => .unmodelled
    else if c = 33 then
      match rest with
      | 61 :: rest' => (tokenize fuel rest').map (Tok.op .ne :: ·)
      | _ => .err
    else if c = 84 then                                          -- True
      match rest with
      | 114 :: 117 :: 101 :: rest' =>
        if gluedNext rest' then .unmodelled else (tokenize fuel rest').map (Tok.bool true :: ·)
      | _ => .unmodelled
    else if c = 70 then                                          -- False
      match rest with
      | 97 :: 108 :: 115 :: 101 :: rest' =>
        if gluedNext rest' then .unmodelled else (tokenize fuel rest').map (Tok.bool false :: ·)
      | _ => .unmodelled
    else .unmodelled

/-! ### values, expressions, parser -/

inductive PyVal where
  | int (n : Int)
  | bool (b : Bool)
  | str (s : Str)
deriving Repr, DecidableEq

inductive Expr where
  | lit (v : PyVal)
  | neg (e : Expr)
  | pos (e : Expr)
  | bin (o : Op) (a b : Expr)
deriving Repr

def Op.prec : Op → Nat
  | .lt | .le | .eq | .ne => 1
  | .shl => 2
  | .add | .sub => 3
  | .mul | .floordiv | .mod => 4
  | .pow => 6

def Op.isCmp : Op → Bool
  | .lt | .le | .eq | .ne => true
  | _ => false

/-- adjacent string literals are concatenated. -/
def takeStrs (acc : Str) : List Tok → Str × List Tok
  | .str s :: ts => takeStrs (acc ++ s) ts
  | ts => (acc, ts)

mutual
/-- atom, or a unary `+`/`-` applied to a power-level expression. -/
def parseAtom : Nat → List Tok → R (Expr × List Tok)
  | 0, _ => .unmodelled
  | fuel + 1, toks =>
    match toks with
    | [] => .err
    | .num n :: ts => .ok (.lit (.int n), ts)
    | .bool b :: ts => .ok (.lit (.bool b), ts)
    | .str s :: ts => .ok (.lit (.str (takeStrs s ts).1), (takeStrs s ts).2)
    | .lpar :: ts =>
      (parseExpr fuel 0 ts).bind (fun p =>
        match p.2 with
        | .rpar :: ts' => .ok (p.1, ts')
        | _ => .err)
    | .op .sub :: ts => (parseExpr fuel 6 ts).map (fun p => (.neg p.1, p.2))
    | .op .add :: ts => (parseExpr fuel 6 ts).map (fun p => (.pos p.1, p.2))
    | _ => .err
/-- precedence climbing: an expression all of whose top-level binary operators bind at least `minPrec`. -/
def parseExpr : Nat → Nat → List Tok → R (Expr × List Tok)
  | 0, _, _ => .unmodelled
  | fuel + 1, minPrec, toks => (parseAtom fuel toks).bind (fun p => parseLoop fuel minPrec p.1 false p.2)
def parseLoop : Nat → Nat → Expr → Bool → List Tok → R (Expr × List Tok)
  | 0, _, _, _, _ => .unmodelled
  | fuel + 1, minPrec, lhs, lastCmp, toks =>
    match toks with
    | .op o :: ts =>
      if o.prec < minPrec then .ok (lhs, toks)
      else if o.isCmp && lastCmp then .unmodelled            -- chained comparison a < b < c
      else
        (parseExpr fuel (if o = .pow then 6 else o.prec + 1) ts).bind (fun p =>
          parseLoop fuel minPrec (.bin o lhs p.1) o.isCmp p.2)
    | _ => .ok (lhs, toks)
end

/-! ### evaluation (Python's data-level meaning of the operators) -/

def PyVal.asInt? : PyVal → Option Int
  | .int n => some n
  | .bool b => some (if b then 1 else 0)
  | .str _ => none

/-- lexicographic order on code points. -/
def strLt : Str → Str → Bool
  | [], [] => false
  | [], _ :: _ => true
  | _ :: _, [] => false
  | a :: as, b :: bs => if a < b then true else if b < a then false else strLt as bs

def strRepeat (s : Str) : Nat → Str
  | 0 => []
  | n + 1 => s ++ strRepeat s n

/-- Python `int.bit_length()`. -/
def bitLength (n : Int) : Nat := if n.natAbs = 0 then 0 else Nat.log2 n.natAbs + 1

/-- The model does not follow CPython into astronomically large numbers: a power or shift whose result
could exceed this many bits, or a string repetition above this many characters, is `unmodelled`
(keeps the driver and kernel evaluation cheap; CPython itself has no such bound). -/
def modelBitLimit : Nat := 1000000

def intBinop (o : Op) (a b : Int) : R PyVal :=
  match o with
  | .add => .ok (.int (a + b))
  | .sub => .ok (.int (a - b))
  | .mul => .ok (.int (a * b))
  | .floordiv => if b = 0 then .err else .ok (.int (Int.fdiv a b))
  | .mod => if b = 0 then .err else .ok (.int (Int.fmod a b))
  | .pow =>
    if b < 0 then (if a = 0 then .err else .unmodelled)
    else if modelBitLimit < b.toNat ∨ modelBitLimit < bitLength a * b.toNat then .unmodelled
    else .ok (.int (a ^ b.toNat))
  | .shl =>
    if b < 0 then .err
    else if modelBitLimit < bitLength a + b.toNat then .unmodelled
    else .ok (.int (a * 2 ^ b.toNat))
  | .lt => .ok (.bool (decide (a < b)))
  | .le => .ok (.bool (decide (a ≤ b)))
  | .eq => .ok (.bool (decide (a = b)))
  | .ne => .ok (.bool (decide (a ≠ b)))

/-- Python's `a o b` on int / bool / str values. -/
def pyBinop (o : Op) (a b : PyVal) : R PyVal :=
  match a, b with
  | .str s, .str t =>
    match o with
    | .add => .ok (.str (s ++ t))
    | .lt => .ok (.bool (strLt s t))
    | .le => .ok (.bool (!strLt t s))
    | .eq => .ok (.bool (decide (s = t)))
    | .ne => .ok (.bool (decide (s ≠ t)))
    | .mod => .unmodelled                                  -- printf-style formatting
    | _ => .err
  | .str s, b =>
    match b.asInt? with
    | none => .err
    | some n =>
      match o with
      | .mul => if modelBitLimit < s.length * n.toNat then .unmodelled else .ok (.str (strRepeat s n.toNat))
      | .eq => .ok (.bool false)
      | .ne => .ok (.bool true)
      | .mod => .unmodelled
      | _ => .err
  | a, .str t =>
    match a.asInt? with
    | none => .err
    | some n =>
      match o with
      | .mul => if modelBitLimit < t.length * n.toNat then .unmodelled else .ok (.str (strRepeat t n.toNat))
      | .eq => .ok (.bool false)
      | .ne => .ok (.bool true)
      | _ => .err
  | a, b =>
    match a.asInt?, b.asInt? with
    | some x, some y => intBinop o x y
    | _, _ => .err

def evalExpr : Expr → R PyVal
  | .lit v => .ok v
  | .neg e => (evalExpr e).bind (fun v => match v.asInt? with | some n => .ok (.int (-n)) | none => .err)
  | .pos e => (evalExpr e).bind (fun v => match v.asInt? with | some n => .ok (.int n) | none => .err)
  | .bin o a b => (evalExpr a).bind (fun x => (evalExpr b).bind (fun y => pyBinop o x y))

/-- `eval(compile(text, "", "eval"))` restricted to the modelled subset. -/
def pyEval (text : Str) : R PyVal :=
  (tokenize (text.length + 1) text).bind (fun toks =>
    (parseExpr (4 * toks.length + 4) 0 toks).bind (fun p =>
      match p.2 with
      | [] => evalExpr p.1
      | _ => .err))

end LianVerif.PyStrLit
