/-
Specification for C16: the table is nothing but its current frame (column names, row labels, rows —
the "naive list of dicts"); every query is answered by scanning that frame.  There is no cache, no
dirty flag and no index here.  Mutations are the pandas reference definitions of `Model/Frame.lean`
(the property is about queries agreeing with the *current contents*, whatever pandas made them).

This is the statement of the property, not a model of the code.
-/
import LianVerif.Model.Table
import LianVerif.Model.TableAlias

namespace LianVerif.Scan
open LianVerif.Table

/-- positions `start + i` with `col[i] = v`, in increasing order -/
def scanFrom (start : Nat) : List Cell → Cell → List Nat
  | [], _ => []
  | c :: cs, v => if c = v then start :: scanFrom (start + 1) cs v else scanFrom (start + 1) cs v

/-- equality query on a column by scan: a missing value (`None`, NaN, `""`) matches nothing -/
def scanEq (col : List Cell) (v : Cell) : List Nat :=
  if v.isna then [] else scanFrom 0 col v

/-- `query_index_column_value_indices` by scan; an unknown column is `error_and_quit` -/
def queryIdx (f : Frame) (c : String) (v : Cell) : Except Err (List Nat) :=
  if v.isna then .ok []
  else match f.column c with
    | some col => .ok (scanFrom 0 col v)
    | none => .error .quit

/-- `search_block_start_end_indics` by scan -/
def searchBlock (f : Frame) (id : Cell) : Except Err (Option (List Nat)) :=
  if id.isna then .ok none
  else match queryIdx f "stmt_id" id with
    | .ok l => .ok (some l)
    | .error e => .error e

/-- the `Row` at position `i`: its cells, the column names, its label -/
def rowAt (f : Frame) (i : Int) : Except Err (Option RowV) :=
  if 0 ≤ i ∧ i < f.rows.length then
    match f.labels[i.toNat]? with
    | some l => .ok (some { cells := f.rows.getD i.toNat [], schema := f.cols, index := l })
    | none => .error .index
  else .ok none

def rowsAt (f : Frame) : List Int → Except Err (List (Option RowV))
  | [] => .ok []
  | i :: is =>
    match rowAt f i with
    | .error e => .error e
    | .ok r =>
      match rowsAt f is with
      | .error e => .error e
      | .ok l => .ok (r :: l)

def boundaryLoop (f : Frame) (acc : Int) : List Cell → Except Err Int
  | [] => .ok acc
  | id :: ids =>
    if id.isna then boundaryLoop f acc ids
    else
      match searchBlock f id with
      | .error e => .error e
      | .ok none => boundaryLoop f acc ids
      | .ok (some l) => boundaryLoop f (l.foldl (fun m p => max m (Int.ofNat p)) acc) ids

def resetIf (f : Frame) (reset : Bool) : Frame := if reset then f.resetIndex else f

/-- a mutation: the new frame, or the exception and the frame unchanged -/
def mutated (f : Frame) (r : Except Err Frame) : Frame × Out × Option Frame :=
  match r with
  | .ok f' => (f', .unit, none)
  | .error e => (f, .err e, none)

/-- one public method call on the specification: frame afterwards, answer, frame of the new table -/
def specStep (f : Frame) : Op → Frame × Out × Option Frame
  | .len => (f, .int f.nrows, none)
  | .isEmpty => (f, .bool (f.nrows == 0), none)
  | .getRows => (f, .matrix f.rows, none)
  | .iter =>
    match rowsAt f ((List.range f.rows.length).map Int.ofNat) with
    | .ok l => (f, .rows l, none)
    | .error e => (f, .err e, none)
  | .accessPos i =>
    match rowAt f i with
    | .ok (some r) => (f, .row r, none)
    | .ok none => (f, .none, none)
    | .error e => (f, .err e, none)
  | .accessList is =>
    match rowsAt f is with
    | .ok l => (f, .rows l, none)
    | .error e => (f, .err e, none)
  | .accessLoc label col =>
    match f.labelPos label, f.colPos col with
    | some r, some p => (f, .cell (Frame.cellAt (f.rows.getD r []) p), none)
    | _, _ => (f, .err .key, none)
  | .column col =>
    match f.column col with
    | some cs => (f, .cells cs, none)
    | none => (f, .err .key, none)
  | .queryIdx col v =>
    match queryIdx f col v with
    | .ok l => (f, .positions l, none)
    | .error e => (f, .err e, none)
  | .queryTable col v =>
    match queryIdx f col v with
    | .error e => (f, .err e, none)
    | .ok [] => (f, .emptyList, none)
    | .ok l =>
      match f.ilocTake l with
      | some g => (f, .frame g, some g)
      | none => (f, .err .index, none)
  | .queryFirst col v =>
    match queryIdx f col v with
    | .error e => (f, .err e, none)
    | .ok [] => (f, .none, none)
    | .ok (pos :: _) =>
      match f.rows[pos]? with
      | some r => (f, .row { cells := r, schema := f.cols, index := Int.ofNat pos }, none)
      | none => (f, .err .index, none)
  | .searchBlock id =>
    match searchBlock f id with
    | .ok (some l) => (f, .positions l, none)
    | .ok none => (f, .none, none)
    | .error e => (f, .err e, none)
  | .readBlock id reset =>
    match searchBlock f id with
    | .error e => (f, .err e, none)
    | .ok none => (f, .emptyList, none)
    | .ok (some [p, q]) =>
      let g := resetIf (f.ilocSlice (Int.ofNat p + 1) (Int.ofNat q)) reset
      (f, .frame g, some g)
    | .ok (some _) => (f, .err .quit, none)
  | .readBlockWith id reset =>
    match searchBlock f id with
    | .error e => (f, .err e, none)
    | .ok none => (f, .emptyList, none)
    | .ok (some (p :: q :: _)) =>
      let g := resetIf (f.ilocSlice (Int.ofNat p) (Int.ofNat q + 1)) reset
      (f, .frame g, some g)
    | .ok (some _) => (f, .emptyList, none)
  | .boundary ids =>
    match boundaryLoop f (-1) ids with
    | .ok m => (f, .int m, none)
    | .error e => (f, .err e, none)
  | .slowQueryEq col v outCol reset =>
    match f.column col with
    | none => (f, .err .key, none)
    | some cs =>
      let g := f.maskTake (cs.map (fun x => Frame.maskEq x v))
      match outCol with
      | some oc =>
        match g.column oc with
        | some out => (f, .cells out, none)
        | none => (f, .err .key, none)
      | none => let g' := resetIf g reset; (f, .frame g', some g')
  | .slowQueryIsin col vs reset =>
    match f.column col with
    | none => (f, .err .key, none)
    | some cs =>
      let g := resetIf (f.maskTake (Frame.isinMask cs vs)) reset
      (f, .frame g, some g)
  | .slowQueryLabels ls reset =>
    if !reset && ls.eraseDups.length != ls.length then (f, .err .unmodelled, none) else
    match f.locTake ls with
    | none => (f, .err .key, none)
    | some g => let g' := resetIf g reset; (f, .frame g', some g')
  | .toDicts => (f, .dicts f.toDicts, none)
  | .slice a b => let g := f.ilocSlice a b; (f, .frame g, some g)
  | .clone => (f, .frame f, some f)
  | .modifyRow i newRow stop =>
    match f.setIloc i newRow stop with
    | (f', none) => (f', .unit, none)
    | (f', some e) => (f', .err e, none)
  | .modifyColumn col v => mutated f (f.setCol col (List.replicate f.nrows v))
  | .modifyColumnList col vs => mutated f (f.setCol col vs)
  | .modifyElement label col v refused =>
    match f.setLoc label col v refused with
    | (f', none) => (f', .unit, none)
    | (f', some e) => (f', .err e, none)
  | .renameColumn old new =>
    if old != new && f.cols.contains old && f.cols.contains new then (f, .err .unmodelled, none)
    else (f.renameCol old new, .unit, none)
  | .append g =>
    if g.cols.eraseDups.length != g.cols.length then (f, .err .unmodelled, none)
    else (f.concat g, .unit, none)
  | .removeRows col v =>
    match f.filterNe col v with
    | some f' => (f', .unit, none)
    | none => (f, .err .key, none)
  | .resetIndex move =>
    if move then mutated f f.resetIndexMove else (f.resetIndex, .unit, none)
  | .fillna v => (f.fillna v, .unit, none)
  | .setColumns names =>
    if names.eraseDups.length != names.length then (f, .err .unmodelled, none)
    else mutated f (f.setColumns names)
  | .saveLoad ok =>
    let f' := f.resetIndex
    if ok then (f', .frame f', some f') else (f', .none, none)

structure SWorld where
  cur : Frame
  other : Option Frame
deriving DecidableEq, Repr

def specStepW (w : SWorld) : WOp → SWorld × Out
  | .on op enter =>
    match specStep w.cur op with
    | (f', out, some c) => if enter then ({ cur := c, other := some f' }, out) else ({ w with cur := f' }, out)
    | (f', out, none) => ({ w with cur := f' }, out)
  | .swap =>
    match w.other with
    | some o => ({ cur := o, other := some w.cur }, .unit)
    | none => (w, .none)
  | .appendOther =>
    match w.other with
    | some o =>
      match specStep w.cur (.append o) with
      | (f', out, _) => ({ w with cur := f' }, out)
    | none => (w, .none)

def specInit : Ctor → SWorld
  | .rows cs rs reset =>
    { cur := if reset then (Frame.ofRows cs rs).resetIndex else Frame.ofRows cs rs, other := none }
  | .dicts ds => { cur := Frame.ofDicts ds, other := none }
  | .frame f reset => { cur := if reset then f.resetIndex else f, other := none }
  | .load f => { cur := f, other := none }

def specRun : SWorld → List WOp → SWorld × List (Out × Frame)
  | w, [] => (w, [])
  | w, op :: ops =>
    let (w', out) := specStepW w op
    let (wf, outs) := specRun w' ops
    (wf, (out, w'.cur) :: outs)


/-! ### two wrappers over one frame (`DataModel(other)`): what each of them should answer

Each wrapper's "current contents" is the frame object its `_data` refers to: the same object for
both until one of them assigns a new frame (`remove_rows`, `append_data_model`). -/

structure SDuo where
  f0 : Frame
  f1 : Frame
  aFr : Bool
  bFr : Bool
deriving DecidableEq, Repr

def SDuo.frame (d : SDuo) (s : Bool) : Frame := if s then d.f1 else d.f0
def SDuo.ptr (d : SDuo) (who : Bool) : Bool := if who then d.bFr else d.aFr
def SDuo.share (f : Frame) : SDuo := { f0 := f, f1 := Frame.empty, aFr := false, bFr := false }

def specStepD (d : SDuo) (who : Bool) (op : Op) : SDuo × Out :=
  let x := d.ptr who
  let y := d.ptr (!who)
  match specStep (d.frame x) op with
  | (f', out, _) =>
    let x' := if op.rebinds && out == Out.unit && x == y then !x else x
    let d1 : SDuo := if x' then { d with f1 := f' } else { d with f0 := f' }
    ((if who then { d1 with bFr := x' } else { d1 with aFr := x' }), out)

def specRunD : SDuo → List (Bool × Op) → SDuo × List (Out × Frame)
  | d, [] => (d, [])
  | d, (who, op) :: ops =>
    let (d', out) := specStepD d who op
    let (df, outs) := specRunD d' ops
    (df, (out, d'.frame (d'.ptr who)) :: outs)

end LianVerif.Scan
