/-
The control-flow graph, worklist priorities and interruption answers of the `%unit_init` frame of
corpus/C07/k_resume_wrong_statement.json, harvested from the REAL run (statement ids renamed to
1..9 in id order, CFG exit = 0).  Source lines: 7 = `t = q16(3)` (line 10, in the for loop 5),
8 = `t = f4(3)` (line 11), 9 = `t = f4(1)` (line 12).  Used by `C07_unfixed_resume_skips_statement`;
`lvdrv` serves the table (model "sched", op "witness") and the harness compares it with the real run.
-/
import LianVerif.Model.Sched

namespace LianVerif.Sched

def resumeCfg : Cfg :=
  { succ := [(1, [2]), (2, [3]), (3, [4]), (4, [5]), (5, [7, 8]), (7, [5]), (8, [9]), (9, [0]), (0, [])],
    prio := [(1, 0), (2, 1), (3, 2), (4, 3), (5, 4), (8, 5), (9, 6), (0, 7), (7, 8)],
    stmts := [1, 2, 3, 4, 5, 6, 7, 8, 9],
    first := [1],
    maxRound := 3 }

/-- did `compute_stmt_states` interrupt the frame, visit by visit (from the real run) -/
def resumeOracle : List Bool :=
  [false, false, false, false, false, true, false, true, false, true, false, true, false, true, false,
   false, false, false]

end LianVerif.Sched
