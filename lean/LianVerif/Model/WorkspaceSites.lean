/-
Write-site inventory for C18 (DESIGN §5 C18): every place in src/lian that can create, modify or delete
something on disk, as (file below src/lian, enclosing class.function, call).  The harness repeats the
textual scan on every run (`harness/lv/c18_sites.py`) and reports a site that is not listed here as a
correspondence break: the model of C18 covers `WorkspaceBuilder.{prepare_directory, manage_directory,
copytree_with_extension, run}`.  The other sites are not modelled and are judged by the snapshot oracle
only: `backup_workspace` / `cleanup_directory` (--incremental) and `preprocess_c_like_file` (-I, with a
stub clang) by the flag family of in-process placements and a few subprocess runs; `DataModel.save`
(← Loader paths built from `options.workspace`), the taint output and the SFG dot files by the complete
subprocess runs; `BasicGraph.save_png` is never called.
-/
namespace LianVerif.WorkspaceSites

def writeSites : List (String × String × String) := [
  ("common_structs.py", "BasicGraph.save_png", ".savefig"),
  ("core/sfg_dumper.py", "SFGDumper.dump_to_file", "open(w)"),
  ("preparation.py", "WorkspaceBuilder.backup_workspace", "os.makedirs"),
  ("preparation.py", "WorkspaceBuilder.backup_workspace", "os.symlink"),
  ("preparation.py", "WorkspaceBuilder.backup_workspace", "shutil.copy2"),
  ("preparation.py", "WorkspaceBuilder.backup_workspace", "shutil.copytree"),
  ("preparation.py", "WorkspaceBuilder.cleanup_directory", "os.unlink"),
  ("preparation.py", "WorkspaceBuilder.cleanup_directory", "shutil.rmtree"),
  ("preparation.py", "WorkspaceBuilder.copytree_with_extension", "os.makedirs"),
  ("preparation.py", "WorkspaceBuilder.copytree_with_extension", "shutil.copy2"),
  ("preparation.py", "WorkspaceBuilder.manage_directory", "os.unlink"),
  ("preparation.py", "WorkspaceBuilder.manage_directory", "shutil.rmtree"),
  ("preparation.py", "WorkspaceBuilder.prepare_directory", "os.makedirs"),
  ("preparation.py", "WorkspaceBuilder.preprocess_c_like_file", "open(w)"),
  ("preparation.py", "WorkspaceBuilder.preprocess_c_like_file", "subprocess.run"),
  ("preparation.py", "WorkspaceBuilder.run", "os.makedirs"),
  ("taint/taint_analysis.py", "TaintAnalysis.print_and_write_flows", "json.dump"),
  ("taint/taint_analysis.py", "TaintAnalysis.print_and_write_flows", "open(w)"),
  ("taint/taint_analysis.py", "TaintAnalysis.print_and_write_flows", "os.makedirs"),
  ("util/data_model.py", "DataModel.save", ".to_feather"),
  ("util/util.py", "replace_weight_to_label_in_dot", "open(w)")]

end LianVerif.WorkspaceSites
