/-
Model of `OneToManyMapLoader` (src/lian/util/loader.py): two plain dicts `one_to_many` /
`many_to_one`, `save`, the two lookups, `export` (whole map → one feather file, skipped when the map
is empty) and `restore` (a fresh loader reading that file back).

Two variants of `save`:
* `save`  — the code as it is in /repo now (after the `fix:` commit): a later save for the same id
            replaces the earlier one in both directions, also when the new list is empty;
* `save0` — the pinned commit (frozen; documents the finding): an empty list is ignored and reverse
            entries of the previous list are never removed.

The feather round trip of the `many` column (list → numpy array) is outside the model; the harness
canonicalises both to lists.  No imports outside `LianVerif.Model.*`.
-/
import LianVerif.Model.Lru

namespace LianVerif.MapLoader
open LianVerif.Lru

variable {A B : Type} [DecidableEq A] [DecidableEq B]

structure M (A B : Type) where
  one2many : List (A × List B)
  many2one : List (B × A)
  file : Option (List (A × List B))

def M.init : M A B := { one2many := [], many2one := [], file := none }

/-- `for each_id in many: self.many_to_one[each_id] = one` -/
def link (a : A) (bs : List B) (m2o : List (B × A)) : List (B × A) :=
  bs.foldl (fun acc b => aset b a acc) m2o

/-- `for each_id in previous: if self.many_to_one.get(each_id) == one: del self.many_to_one[each_id]` -/
def unlink (a : A) (bs : List B) (m2o : List (B × A)) : List (B × A) :=
  bs.foldl (fun acc b => if alookup b acc = some a then aerase b acc else acc) m2o

/-- `save(one, many)` — repaired code. -/
def save (s : M A B) (a : A) (bs : List B) : M A B :=
  match alookup a s.one2many with
  | none =>
    if bs.isEmpty then s
    else { s with one2many := aset a bs s.one2many, many2one := link a bs s.many2one }
  | some old =>
    { s with one2many := aset a bs s.one2many, many2one := link a bs (unlink a old s.many2one) }

/-- `save(one, many)` — pinned commit. -/
def save0 (s : M A B) (a : A) (bs : List B) : M A B :=
  if bs.isEmpty then s
  else { s with one2many := aset a bs s.one2many, many2one := link a bs s.many2one }

/-- `convert_one_to_many(one)` (default `[]`). -/
def oneToMany (s : M A B) (a : A) : List B := (alookup a s.one2many).getD []

/-- `convert_many_to_one(x)`; `none` is the Python default `-1`. -/
def manyToOne (s : M A B) (b : B) : Option A := alookup b s.many2one

/-- `export()`: nothing is written for an empty map. -/
def doExport (s : M A B) : M A B :=
  if s.one2many.isEmpty then s else { s with file := some s.one2many }

/-- a fresh loader on the same path followed by `restore()`; `none` when the file does not exist
(`FileNotFoundError`). -/
def restore (s : M A B) : Option (M A B) :=
  match s.file with
  | none => none
  | some rows =>
    some (rows.foldl (fun (acc : M A B) p =>
      { acc with one2many := aset p.1 p.2 acc.one2many, many2one := link p.1 p.2 acc.many2one })
      { M.init with file := s.file })

inductive Op (A B : Type) where
  | save (a : A) (bs : List B)
  | oneToMany (a : A)
  | manyToOne (b : B)
  | exp
  | restore
deriving Repr

inductive Out (A B : Type) where
  | unit
  | many (bs : List B)
  | one (a : Option A)
  | fileNotFound
deriving Repr, DecidableEq

def stepWith (sv : M A B → A → List B → M A B) (s : M A B) : Op A B → M A B × Out A B
  | .save a bs => (sv s a bs, .unit)
  | .oneToMany a => (s, .many (oneToMany s a))
  | .manyToOne b => (s, .one (manyToOne s b))
  | .exp => (doExport s, .unit)
  | .restore =>
    match restore s with
    | some s' => (s', .unit)
    | none => ({ M.init with file := s.file }, .fileNotFound)

def step : M A B → Op A B → M A B × Out A B := stepWith save
def step0 : M A B → Op A B → M A B × Out A B := stepWith save0

def run (stp : M A B → Op A B → M A B × Out A B) : M A B → List (Op A B) → M A B × List (Out A B)
  | s, [] => (s, [])
  | s, op :: ops =>
    let r := stp s op
    let rest := run stp r.1 ops
    (rest.1, r.2 :: rest.2)

def trace (stp : M A B → Op A B → M A B × Out A B) : M A B → List (Op A B) → List (Out A B × M A B)
  | _, [] => []
  | s, op :: ops =>
    let r := stp s op
    (r.2, r.1) :: trace stp r.1 ops

end LianVerif.MapLoader
