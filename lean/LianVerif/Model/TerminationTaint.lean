/-
C13 — abstract termination models, part 3: the taint propagation queue.

Mirrors the loop of `PathFinder.propagate_taint` (src/lian/taint/taint_analysis.py): a FIFO queue
with a membership set (`_enqueue`), a monotone tag map, and three ways for a node to (re-)enter the
queue while node `u` with a non-empty tag `u_tag` is processed:

* growth  — `if (u_tag | v_tag) != v_tag: set…tag(v.node_id, u_tag | v_tag); _enqueue(v)`
* forced  — the `else` branch of two growth tests in `_propagate_from_stmt`: enqueue `v` once if it
            "was never processed in this propagation" (`v not in self._processed_nodes`)
* always  — a `SYMBOL_IS_USED` edge from a symbol to a statement: `_enqueue(v)` unconditionally.

The state-flow graph is abstracted to what the loop consults.  Tags live in *slots* (the taint
manager keys them by `node_id`, separately for symbols and states, so several graph nodes share a
slot); a tag is a duplicate-free list of bit positions drawn from the finite universe `bits`.  For
each node the graph fixes, statically, `src u` (the slots whose union is `_get_node_tag(u)`) and the
list `acts u` of actions its processing performs, in order.  Deriving `acts` from the typed
multigraph (edge kinds, `apply_propagation_rules`, the receiver `break`) is done by the harness for
real graphs; builder C10 owns the detailed model of that part.

The `always` action is the only one not paid for by tag growth.  The code performs it along
`SYMBOL_IS_USED` edges, which the SFG builders only create from a symbol node to a statement node,
and statement nodes have no `always` actions of their own.  The model makes that typing explicit:
an `always v` is carried out only if `v` itself has no `always` action (`alwaysDeg v = 0`).  On a
graph violating the typing the real loop may spin forever (symbol –used→ symbol –used→ back); the
harness checks the typing of every real SFG it replays.

Written without fuel.  No imports outside LianVerif.Model.
-/
import LianVerif.Model.Termination

namespace LianVerif.Termination

inductive Act where
  | grow (v : Nat) (slot : Nat) (force : Bool)
  | always (v : Nat)
deriving Repr

structure TGraph where
  n : Nat                          -- nodes are 0 … n-1
  slots : List Nat                 -- universe of tag slots
  bits : List Nat                  -- universe of tag bits
  src : Nat → List Nat             -- slots read by `_get_node_tag`
  acts : Nat → List Act

structure TState where
  tags : Nat → List Nat            -- slot ↦ set of bits
  queue : List Nat                 -- `worklist` (its members are `in_worklist`)
  processed : List Nat             -- `_processed_nodes`

def isAlways : Act → Bool
  | .always _ => true
  | _ => false

def alwaysDeg (T : TGraph) (u : Nat) : Nat := ((T.acts u).filter isAlways).length

/-- `1 +` the largest number of `always` actions of a node -/
def wmax (T : TGraph) : Nat := 1 + (List.range T.n).foldl (fun m u => max m (alwaysDeg T u)) 0

/-- `_enqueue` -/
def enqueue (st : TState) (v : Nat) : TState :=
  if st.queue.contains v then st else { st with queue := st.queue ++ [v] }

/-- `u_tag | v_tag` restricted to the universe; returns the bits that are new in the slot -/
def newBits (T : TGraph) (utag : List Nat) (old : List Nat) : List Nat :=
  utag.filter (fun b => !old.contains b && T.bits.contains b)

def setTag (tags : Nat → List Nat) (slot : Nat) (t : List Nat) : Nat → List Nat :=
  fun s => if s = slot then t else tags s

def applyAct (T : TGraph) (utag : List Nat) (st : TState) : Act → TState
  | .grow v slot force =>
    if v < T.n && T.slots.contains slot then
      let old := st.tags slot
      let nb := newBits T utag old
      if !nb.isEmpty then enqueue { st with tags := setTag st.tags slot (old ++ nb) } v
      else if force && !st.processed.contains v then enqueue st v
      else st
    else st
  | .always v =>
    if v < T.n && alwaysDeg T v == 0 then enqueue st v else st

def applyActs (T : TGraph) (utag : List Nat) (st : TState) (acts : List Act) : TState :=
  acts.foldl (applyAct T utag) st

def unionTags (tags : Nat → List Nat) : List Nat → List Nat
  | [] => []
  | s :: rest =>
    let r := unionTags tags rest
    (tags s).filter (fun b => !r.contains b) ++ r

/-! ranking function -/

def ind (b : Bool) : Nat := if b then 1 else 0

/-- unset (slot, bit) pairs -/
def unsetPairs (T : TGraph) (tags : Nat → List Nat) : Nat :=
  sumOver (fun s => sumOver (fun b => ind (!(tags s).contains b)) T.bits) T.slots

/-- nodes neither processed nor queued -/
def dormant (T : TGraph) (st : TState) : Nat :=
  sumOver (fun v => ind (!st.processed.contains v && !st.queue.contains v)) (List.range T.n)

def qweight (T : TGraph) (q : List Nat) : Nat := sumOver (fun u => 1 + alwaysDeg T u) q

def trank (T : TGraph) (st : TState) : Nat :=
  (unsetPairs T st.tags + dormant T st) * wmax T + qweight T st.queue

/-- the queue holds node indices only -/
def queueOk (T : TGraph) (q : List Nat) : Bool := q.all (fun v => v < T.n)

theorem foldl_max_ge (f : Nat → Nat) : ∀ (l : List Nat) (m : Nat),
    m ≤ l.foldl (fun m u => max m (f u)) m ∧ ∀ u ∈ l, f u ≤ l.foldl (fun m u => max m (f u)) m := by
  intro l
  induction l with
  | nil => intro m; simp
  | cons x l ih =>
    intro m
    simp only [List.foldl_cons]
    obtain ⟨h1, h2⟩ := ih (max m (f x))
    refine ⟨by omega, ?_⟩
    intro u hu
    rcases List.mem_cons.1 hu with rfl | hu
    · omega
    · exact h2 u hu

theorem alwaysDeg_lt_wmax (T : TGraph) {u : Nat} (h : u < T.n) : 1 + alwaysDeg T u ≤ wmax T := by
  unfold wmax
  have := (foldl_max_ge (alwaysDeg T) (List.range T.n) 0).2 u (List.mem_range.2 h)
  omega

theorem qweight_append (T : TGraph) (a b : List Nat) : qweight T (a ++ b) = qweight T a + qweight T b := by
  induction a with
  | nil => simp [qweight, sumOver]
  | cons x a ih => simp only [qweight, List.cons_append, sumOver] at ih ⊢; omega

theorem ind_le_one (b : Bool) : ind b ≤ 1 := by cases b <;> simp [ind]

/-- enqueuing never wakes a node up; a node that was dormant stops being so -/
theorem dormant_enqueue (T : TGraph) (st : TState) (v : Nat) :
    dormant T (enqueue st v) ≤ dormant T st := by
  unfold dormant enqueue
  apply sumOver_le
  intro x
  split
  · exact Nat.le_refl _
  · simp only [List.contains_append, List.contains_cons, List.contains_nil]
    generalize st.processed.contains x = p
    generalize st.queue.contains x = q
    generalize (x == v) = e
    cases p <;> cases q <;> cases e <;> decide

theorem dormant_enqueue_drop (T : TGraph) (st : TState) (v : Nat) (hv : v < T.n)
    (hp : st.processed.contains v = false) (hq : st.queue.contains v = false) :
    dormant T (enqueue st v) + 1 ≤ dormant T st := by
  unfold dormant enqueue
  rw [if_neg (by rw [hq]; decide)]
  apply sumOver_drop (List.mem_range.2 hv)
  · intro x
    simp only [List.contains_append, List.contains_cons, List.contains_nil]
    generalize st.processed.contains x = p
    generalize st.queue.contains x = q
    generalize (x == v) = e
    cases p <;> cases q <;> cases e <;> decide
  · simp only [List.contains_append, List.contains_cons, List.contains_nil, hp, hq, beq_self_eq_true]
    decide

theorem qweight_enqueue (T : TGraph) (st : TState) (v : Nat) :
    qweight T (enqueue st v).queue ≤ qweight T st.queue + (1 + alwaysDeg T v) := by
  unfold enqueue
  split
  · omega
  · simp only [qweight_append]; simp [qweight, sumOver]

theorem enqueue_tags (st : TState) (v : Nat) : (enqueue st v).tags = st.tags := by
  unfold enqueue; split <;> rfl

theorem enqueue_processed (st : TState) (v : Nat) : (enqueue st v).processed = st.processed := by
  unfold enqueue; split <;> rfl

/-- enqueuing `v` in a state where it is queued already changes nothing; otherwise the rank grows by
at most the weight of `v`. -/
theorem trank_enqueue (T : TGraph) (st : TState) (v : Nat) :
    trank T (enqueue st v) ≤ trank T st + (1 + alwaysDeg T v) := by
  unfold trank
  have h1 := dormant_enqueue T st v
  have h2 := qweight_enqueue T st v
  rw [enqueue_tags]
  have := Nat.mul_le_mul_right (wmax T) (Nat.add_le_add_left h1 (unsetPairs T st.tags))
  omega

/-- writing `old ++ nb` with a non-empty `nb` of universe bits not in `old` sets ≥ 1 unset pair -/
theorem unsetPairs_grow (T : TGraph) (tags : Nat → List Nat) (slot : Nat) (utag : List Nat)
    (hs : T.slots.contains slot = true) (hne : (newBits T utag (tags slot)).isEmpty = false) :
    unsetPairs T (setTag tags slot (tags slot ++ newBits T utag (tags slot))) + 1 ≤ unsetPairs T tags := by
  have hpt : ∀ b', ind (!(setTag tags slot (tags slot ++ newBits T utag (tags slot)) slot).contains b')
      ≤ ind (!(tags slot).contains b') := by
    intro b'
    unfold setTag
    rw [if_pos rfl]
    simp only [List.contains_append]
    generalize (tags slot).contains b' = p
    generalize (newBits T utag (tags slot)).contains b' = q
    cases p <;> cases q <;> decide
  unfold unsetPairs
  apply sumOver_drop (List.contains_iff_mem.1 hs)
  · intro s
    by_cases h : s = slot
    · subst h; exact sumOver_le _ hpt
    · apply sumOver_le
      intro b
      unfold setTag
      rw [if_neg h]
      exact Nat.le_refl _
  · -- pick a new bit
    cases hnb : newBits T utag (tags slot) with
    | nil => rw [hnb] at hne; simp at hne
    | cons b rest =>
      have hb : b ∈ newBits T utag (tags slot) := by rw [hnb]; exact List.mem_cons_self
      have hb' := (List.mem_filter.1 hb).2
      simp only [Bool.and_eq_true, Bool.not_eq_true'] at hb'
      obtain ⟨hold, huni⟩ := hb'
      rw [← hnb]
      apply sumOver_drop (List.contains_iff_mem.1 huni) hpt
      unfold setTag
      rw [if_pos rfl]
      have hc : (newBits T utag (tags slot)).contains b = true := List.contains_iff_mem.2 hb
      simp only [List.contains_append, hold, hc]
      decide

/-- one action: the rank does not grow, except by 1 for an effective `always`. -/
theorem trank_applyAct (T : TGraph) (utag : List Nat) (st : TState) (a : Act) :
    trank T (applyAct T utag st a) ≤ trank T st + ind (isAlways a) := by
  cases a with
  | always v =>
    simp only [applyAct, isAlways, ind, if_true]
    split
    · rename_i h
      simp only [Bool.and_eq_true, decide_eq_true_eq, beq_iff_eq] at h
      have := trank_enqueue T st v
      omega
    · omega
  | grow v slot force =>
    simp only [applyAct, isAlways, ind, Bool.false_eq_true, if_false, Nat.add_zero]
    split
    · rename_i h
      simp only [Bool.and_eq_true, decide_eq_true_eq] at h
      obtain ⟨hv, hs⟩ := h
      have hw := alwaysDeg_lt_wmax T hv
      split
      · -- growth
        rename_i hne
        have hne' : (newBits T utag (st.tags slot)).isEmpty = false := by simpa using hne
        have hg := unsetPairs_grow T st.tags slot utag hs hne'
        have he := trank_enqueue T { st with tags := setTag st.tags slot (st.tags slot ++ newBits T utag (st.tags slot)) } v
        unfold trank at he ⊢
        simp only at he ⊢
        have hd : dormant T { st with tags := setTag st.tags slot (st.tags slot ++ newBits T utag (st.tags slot)) }
            = dormant T st := rfl
        rw [hd] at he
        have hmul : (unsetPairs T (setTag st.tags slot (st.tags slot ++ newBits T utag (st.tags slot))) + dormant T st) * wmax T
            + wmax T ≤ (unsetPairs T st.tags + dormant T st) * wmax T := by
          have : (unsetPairs T (setTag st.tags slot (st.tags slot ++ newBits T utag (st.tags slot))) + dormant T st + 1)
              ≤ unsetPairs T st.tags + dormant T st := by omega
          have := Nat.mul_le_mul_right (wmax T) this
          rw [Nat.add_mul, Nat.one_mul] at this
          exact this
        omega
      · split
        · -- forced
          rename_i _ hf
          simp only [Bool.and_eq_true, Bool.not_eq_true'] at hf
          by_cases hq : st.queue.contains v = true
          · have : enqueue st v = st := by unfold enqueue; rw [if_pos hq]
            rw [this]; exact Nat.le_refl _
          · have hq' : st.queue.contains v = false := by simpa using hq
            have hd := dormant_enqueue_drop T st v hv hf.2 hq'
            have hqw := qweight_enqueue T st v
            unfold trank
            rw [enqueue_tags]
            have hmul : (unsetPairs T st.tags + dormant T (enqueue st v)) * wmax T + wmax T
                ≤ (unsetPairs T st.tags + dormant T st) * wmax T := by
              have : unsetPairs T st.tags + dormant T (enqueue st v) + 1
                  ≤ unsetPairs T st.tags + dormant T st := by omega
              have := Nat.mul_le_mul_right (wmax T) this
              rw [Nat.add_mul, Nat.one_mul] at this
              exact this
            omega
        · exact Nat.le_refl _
    · exact Nat.le_refl _

theorem trank_foldl (T : TGraph) (utag : List Nat) (acts : List Act) :
    ∀ st, trank T (acts.foldl (applyAct T utag) st) ≤ trank T st + (acts.filter isAlways).length := by
  induction acts with
  | nil => intro st; simp
  | cons a acts ih =>
    intro st
    simp only [List.foldl_cons]
    have h1 := ih (applyAct T utag st a)
    have h2 := trank_applyAct T utag st a
    simp only [List.filter_cons]
    cases ha : isAlways a <;> simp only [ha, ind, if_true, Bool.false_eq_true, if_false, List.length_cons] at h2 ⊢ <;> omega

/-- removing the head `u` from the queue and recording it as processed -/
theorem trank_dequeue (T : TGraph) (tags : Nat → List Nat) (u : Nat) (q : List Nat) (processed : List Nat) :
    trank T { tags := tags, queue := q, processed := u :: processed } + (1 + alwaysDeg T u)
      ≤ trank T { tags := tags, queue := u :: q, processed := processed } := by
  unfold trank
  simp only [qweight, sumOver]
  have : dormant T { tags := tags, queue := q, processed := u :: processed }
      ≤ dormant T { tags := tags, queue := u :: q, processed := processed } := by
    unfold dormant
    apply sumOver_le
    intro x
    simp only [List.contains_cons]
    generalize (x == u) = e
    generalize processed.contains x = p
    generalize q.contains x = q'
    cases e <;> cases p <;> cases q' <;> decide
  have := Nat.mul_le_mul_right (wmax T) (Nat.add_le_add_left this (unsetPairs T tags))
  omega

/--
`propagate_taint` from the point where the queue has been seeded.  Returns the dequeued nodes in
order (the length of that list is the step count) and the final state.
-/
def taintLoop (T : TGraph) (st : TState) : List Nat × TState :=
  match hq : st.queue with
  | [] => ([], st)
  | u :: q =>
    let st1 : TState := { tags := st.tags, queue := q, processed := u :: st.processed }
    let utag := unionTags st.tags (T.src u)
    if utag.isEmpty then                                   -- `if u_tag == 0: continue`
      let r := taintLoop T st1
      (u :: r.1, r.2)
    else
      let r := taintLoop T (applyActs T utag st1 (T.acts u))
      (u :: r.1, r.2)
termination_by trank T st
decreasing_by
  · have := trank_dequeue T st.tags u q st.processed
    have hst : st = { tags := st.tags, queue := u :: q, processed := st.processed } := by
      cases st; simp_all
    rw [hst]; simp only; omega
  · have h1 := trank_dequeue T st.tags u q st.processed
    have h2 := trank_foldl T (unionTags st.tags (T.src u)) (T.acts u)
      { tags := st.tags, queue := q, processed := u :: st.processed }
    have hst : st = { tags := st.tags, queue := u :: q, processed := st.processed } := by
      cases st; simp_all
    rw [hst]; simp only
    unfold alwaysDeg at h1
    unfold applyActs
    omega

def taintSteps (T : TGraph) (st : TState) : Nat := (taintLoop T st).1.length

end LianVerif.Termination
