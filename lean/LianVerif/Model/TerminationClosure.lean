/-
C13 — abstract termination models, part 4: worklist closure guarded by a visited set.

Shape shared by `P1BasicSemanticAnalysis.search_impacted_parent_nodes`
(src/lian/basics/basic_analysis.py: which methods reach a dynamic/erroneous callee in the basic call
graph — the loop that has to survive recursive and mutually recursive call graphs),
`ImportHierarchy.search_public_symbols_from_scope_hierarchy` and
`TaintAnalysis.get_state_with_inclusion_tag`:

    while worklist: x = worklist.pop(); if x in visited: continue
                    visited.add(x); for y in next(x): if y not in visited: worklist.add(y)

NOT of this shape, and therefore not covered by the theorem about this model: the inner loop of
`ScopeHierarchy.summarize_symbol_decls`, whose `visited_set` only holds the scopes whose own outer
iteration is complete; it terminates because scope nesting is acyclic (see `scopeClosure` below for
a faithful executable copy made total by an explicit "ids strictly decrease" guard).

Written without fuel.  No imports outside LianVerif.Model.
-/
import LianVerif.Model.Termination

namespace LianVerif.Termination

/-- unmarked out-degree mass + worklist size -/
def crank {ω : Type} (D : Discipline ω) (next : Int → List Int) (N : List Int) (w : ω)
    (visited : List Int) : Nat :=
  sumOver (fun v => if visited.contains v then 0 else (next v).length) N + D.size w

structure COut where
  pops : List Int          -- the popped nodes in order (its length is the step count)
  visited : List Int       -- marked nodes, most recent first

/-- `util.graph_predecessors(graph, x)`: `[]` for a node that is not in the graph -/
def nbrs (next : Int → List Int) (N : List Int) (x : Int) : List Int :=
  cond (N.contains x) (next x) []

/-- what is pushed after marking `x`: the neighbours not yet marked -/
def fresh (next : Int → List Int) (N : List Int) (visited : List Int) (x : Int) : List Int :=
  (nbrs next N x).filter (fun y => !(x :: visited).contains y)

theorem unmarked_le (next : Int → List Int) (x : Int) (visited : List Int) (v : Int) :
    (if (x :: visited).contains v then 0 else (next v).length)
      ≤ (if visited.contains v then 0 else (next v).length) := by
  simp only [List.contains_cons]
  cases visited.contains v <;> cases (v == x) <;> simp

theorem crank_mark {ω : Type} (D : Discipline ω) (next : Int → List Int) (N : List Int) (w : ω)
    (visited : List Int) (x : Int) (h0 : D.size w ≠ 0) (hv : visited.contains x = false) :
    crank D next N ((fresh next N visited x).foldl D.push (D.pop w)) (x :: visited)
      < crank D next N w visited := by
  have hpop := D.pop_lt w h0
  have hpush := D.foldl_push_le (fresh next N visited x) (D.pop w)
  have hfl : (fresh next N visited x).length ≤ (nbrs next N x).length := List.length_filter_le _ _
  unfold crank
  cases hN : N.contains x with
  | true =>
    have hnb : (nbrs next N x).length = (next x).length := by unfold nbrs; rw [hN]; rfl
    have hdrop : sumOver (fun v => if (x :: visited).contains v then 0 else (next v).length) N
          + (next x).length
        ≤ sumOver (fun v => if visited.contains v then 0 else (next v).length) N := by
      apply sumOver_drop (List.contains_iff_mem.1 hN) (unmarked_le next x visited)
      have h1 : (x :: visited).contains x = true := by simp
      rw [h1, hv]; simp
    omega
  | false =>
    have hnb : (nbrs next N x).length = 0 := by unfold nbrs; rw [hN]; rfl
    have hle := sumOver_le N (unmarked_le next x visited)
    omega

set_option linter.unusedVariables false in
/-- `N` — the nodes of the graph (`next x` is only consulted for `x ∈ N`). -/
def closureLoop {ω : Type} (D : Discipline ω) (next : Int → List Int) (N : List Int) (w : ω)
    (visited : List Int) : COut :=
  if h0 : D.size w = 0 then { pops := [], visited := visited }
  else
    let x := D.peek w                                      -- `x = worklist.pop()`
    if hv : visited.contains x = true then                 -- `if x in visited: continue`
      let r := closureLoop D next N (D.pop w) visited
      { r with pops := x :: r.pops }
    else                                                   -- mark, push the unmarked neighbours
      let r := closureLoop D next N ((fresh next N visited x).foldl D.push (D.pop w)) (x :: visited)
      { r with pops := x :: r.pops }
termination_by crank D next N w visited
decreasing_by
  · unfold crank; have := D.pop_lt w h0; omega
  · exact crank_mark D next N w visited _ h0 (by simpa using hv)

def closureSteps {ω : Type} (D : Discipline ω) (next : Int → List Int) (N : List Int) (w : ω) : Nat :=
  (closureLoop D next N w []).pops.length

/-- plain Python list used as a queue: `append` without de-duplication, `pop(0)`. -/
def bagDiscipline : Discipline (List Int) where
  size w := w.length
  peek w := w.headD 0
  push w x := w ++ [x]
  pop w := w.drop 1
  push_le w x := by simp
  push_ge w x := by simp
  pop_lt w h := by simp only [List.length_drop]; omega

/-- a stack: push in front, pop from the front.  With `next` = the successors in REVERSE order,
`closureLoop lifoDiscipline` marks the nodes in exactly the pre-order of the recursive visited-set DFS
of `PathFinder.reconstruct_define_use_path` (mark on entry, recurse into the successors in order),
minus its early exit at the sink; the early exit only shortens the run, so `C13_closure_bound`
bounds the real search: at most `1 + |E|` stack pops, every node expanded at most once. -/
def lifoDiscipline : Discipline (List Int) where
  size w := w.length
  peek w := w.headD 0
  push w x := x :: w
  pop w := w.drop 1
  push_le w x := by simp
  push_ge w x := by simp
  pop_lt w h := by simp only [List.length_drop]; omega

/-! ### `summarize_symbol_decls`: a faithful copy of its closure loops

`avail` is `scope_id_to_available_scope_ids` as an insertion-ordered association list (key =
`stmt_id` of a scope-opening statement, value = the scope ids available from it; initially the
single enclosing scope).  Set iteration order is taken to be the list order.

The real inner loop has NO guard that makes it terminate on a cyclic table.  To stay fuel-free the
copy only pushes ids strictly smaller than the popped one (`y < x`): on every table in which a
scope's id is larger than the ids of the scopes that enclose it — true for tables produced by the
GIR flattener, and asserted by the harness on every real table before it trusts the comparison —
the guard never fires and the copy performs exactly the pops of the code. -/

def availGet (avail : List (Int × List Int)) (k : Int) : Option (List Int) :=
  (avail.find? (fun p => p.1 == k)).map (·.2)

def unionInto (a b : List Int) : List Int := b.foldl (fun acc y => if acc.contains y then acc else acc ++ [y]) a

def availSet (avail : List (Int × List Int)) (k : Int) (v : List Int) : List (Int × List Int) :=
  avail.map (fun p => if p.1 == k then (k, v) else p)

/-- ranking function of the inner loop: `Σ_{x ∈ wl} 2^x` over the non-negative part of the ids. -/
def pow2Sum (w : List Int) : Nat := sumOver (fun x => 2 ^ x.toNat) w

theorem pow2Sum_append (a b : List Int) : pow2Sum (a ++ b) = pow2Sum a + pow2Sum b := by
  induction a with
  | nil => simp [pow2Sum, sumOver]
  | cons x a ih => simp only [pow2Sum, List.cons_append, sumOver] at ih ⊢; omega

theorem pow2Sum_cons (y : Int) (ys : List Int) : pow2Sum (y :: ys) = 2 ^ y.toNat + pow2Sum ys := rfl

/-- pushing (FIFO, de-duplicated) only adds terms of the pushed elements -/
theorem pow2Sum_foldl_push (ys : List Int) :
    ∀ w : List Int, pow2Sum (ys.foldl fifoDiscipline.push w) ≤ pow2Sum w + pow2Sum ys := by
  induction ys with
  | nil => intro w; simp [pow2Sum, sumOver]
  | cons y ys ih =>
    intro w
    simp only [List.foldl_cons]
    have h1 := ih (fifoDiscipline.push w y)
    have h2 : pow2Sum (fifoDiscipline.push w y) ≤ pow2Sum w + 2 ^ y.toNat := by
      simp only [fifoDiscipline]
      split
      · exact Nat.le_add_right _ _
      · rw [pow2Sum_append, pow2Sum_cons]; simp [pow2Sum, sumOver]
    rw [pow2Sum_cons]
    generalize 2 ^ y.toNat = e at h2 ⊢
    omega

/-- a duplicate-free list of ids in `[0, x)` weighs less than `2^x` -/
theorem pow2Sum_lt (x : Nat) : ∀ (ys : List Int), ys.Nodup → (∀ y ∈ ys, 0 ≤ y ∧ y.toNat < x) →
    pow2Sum ys < 2 ^ x := by
  induction x with
  | zero =>
    intro ys _ h
    cases ys with
    | nil => simp [pow2Sum, sumOver]
    | cons y ys => have := (h y (by simp)).2; omega
  | succ n ih =>
    intro ys hnd h
    -- split off the (at most one) element equal to n
    have hsplit : pow2Sum ys ≤ pow2Sum (ys.filter (fun y => y.toNat != n)) + 2 ^ n := by
      clear ih
      induction ys with
      | nil => simp [pow2Sum, sumOver]
      | cons y ys ihy =>
        have hnd' := (List.nodup_cons.1 hnd)
        have ih' := ihy hnd'.2 (fun z hz => h z (List.mem_cons_of_mem _ hz))
        by_cases hy : y.toNat = n
        · -- no other element equals n
          have hnone : ys.filter (fun z => z.toNat != n) = ys := by
            apply List.filter_eq_self.2
            intro z hz
            have hzpos := (h z (List.mem_cons_of_mem _ hz)).1
            have hypos := (h y (by simp)).1
            have : z ≠ y := fun e => hnd'.1 (e ▸ hz)
            simp only [bne_iff_ne, ne_eq]
            intro hzn
            apply this
            omega
          simp only [List.filter_cons, hy, bne_self_eq_false, Bool.false_eq_true, if_false, hnone]
          simp only [pow2Sum, sumOver, hy]
          omega
        · have : (y.toNat != n) = true := by simp [hy]
          simp only [List.filter_cons, this, if_true]
          simp only [pow2Sum, sumOver] at ih' ⊢
          omega
    have hrec := ih (ys.filter (fun y => y.toNat != n)) (hnd.filter _) (by
      intro y hy
      obtain ⟨hy1, hy2⟩ := List.mem_filter.1 hy
      have := h y hy1
      simp only [bne_iff_ne, ne_eq] at hy2
      omega)
    rw [Nat.pow_succ]
    omega

def dedupInt : List Int → List Int
  | [] => []
  | y :: ys => if ys.contains y then dedupInt ys else y :: dedupInt ys

theorem dedupInt_mem {y : Int} : ∀ {ys : List Int}, y ∈ dedupInt ys → y ∈ ys := by
  intro ys
  induction ys with
  | nil => simp [dedupInt]
  | cons z ys ih =>
    simp only [dedupInt]
    split
    · intro h; exact List.mem_cons_of_mem _ (ih h)
    · intro h
      rcases List.mem_cons.1 h with rfl | h
      · simp
      · exact List.mem_cons_of_mem _ (ih h)

theorem dedupInt_nodup : ∀ (ys : List Int), (dedupInt ys).Nodup := by
  intro ys
  induction ys with
  | nil => simp [dedupInt]
  | cons z ys ih =>
    simp only [dedupInt]
    split
    · exact ih
    · rename_i hc
      refine List.nodup_cons.2 ⟨?_, ih⟩
      intro hm
      exact hc (List.contains_iff_mem.2 (dedupInt_mem hm))

set_option linter.unusedVariables false in
/-- inner loop for one `scope_id`: `w` is the worklist, `mine` is `avail[scope_id]`; returns the
popped ids in order and the final `avail[scope_id]`.  `avail` is the table as it was when the
outer iteration started, except that the entry of `scope_id` itself is read from `mine` (the code
updates it in place while iterating). -/
def scopeInner (avail : List (Int × List Int)) (self : Int) (visited : List Int) (w : List Int)
    (mine : List Int) : List Int × List Int :=
  match hw : w with
  | [] => ([], mine)
  | x :: w1 =>
    if hx : x ≤ 0 then                                        -- `if tmp_id <= 0: continue`
      let r := scopeInner avail self visited w1 mine
      (x :: r.1, r.2)
    else
      match cond (x == self) (some mine) (availGet avail x) with
      | none =>                                               -- `if tmp_id in …` fails
        let r := scopeInner avail self visited w1 mine
        (x :: r.1, r.2)
      | some ax =>
        let mine' := unionInto mine ax                        -- `avail[scope_id] |= avail[tmp_id]`
        let ax' := cond (x == self) mine' ax
        let pushes := dedupInt (ax'.filter (fun y => !visited.contains y && decide (0 ≤ y) && decide (y < x)))
        let w2 := pushes.foldl fifoDiscipline.push w1
        let r := scopeInner avail self visited w2 mine'
        (x :: r.1, r.2)
termination_by pow2Sum w
decreasing_by
  · simp only [pow2Sum, sumOver]
    have : 0 < 2 ^ x.toNat := Nat.two_pow_pos _
    omega
  · simp only [pow2Sum, sumOver]
    have : 0 < 2 ^ x.toNat := Nat.two_pow_pos _
    omega
  · have h1 := pow2Sum_foldl_push
      (dedupInt ((cond (x == self) (unionInto mine ax) ax).filter
        (fun y => !visited.contains y && decide (0 ≤ y) && decide (y < x)))) w1
    have h2 := pow2Sum_lt x.toNat
      (dedupInt ((cond (x == self) (unionInto mine ax) ax).filter
        (fun y => !visited.contains y && decide (0 ≤ y) && decide (y < x))))
      (dedupInt_nodup _) (by
        intro y hy
        have := (List.mem_filter.1 (dedupInt_mem hy)).2
        simp only [Bool.and_eq_true, decide_eq_true_eq] at this
        omega)
    rw [pow2Sum_cons]
    generalize 2 ^ x.toNat = e at h2 ⊢
    omega

/-- the outer loop `for scope_id in scope_id_to_available_scope_ids` (keys in insertion order) -/
def scopeOuter : List Int → List (Int × List Int) → List Int → List (List Int) →
    List (List Int) × List (Int × List Int)
  | [], avail, _, acc => (acc.reverse, avail)
  | k :: keys, avail, visited, acc =>
    let mine := (availGet avail k).getD []
    let w0 := mine.foldl fifoDiscipline.push []               -- `SimpleWorkList().add(avail[scope_id])`
    let r := scopeInner avail k visited w0 mine
    scopeOuter keys (availSet avail k r.2) (k :: visited) (r.1 :: acc)

/-- whole closure: per key the list of popped ids; and the final table -/
def scopeClosure (avail : List (Int × List Int)) : List (List Int) × List (Int × List Int) :=
  scopeOuter (avail.map (·.1)) avail [] []

/-- every available id is non-negative and smaller than the key it is available from: the
condition under which the `y < x` guard of `scopeInner` never fires. -/
def scopeTableOk (avail : List (Int × List Int)) : Bool :=
  avail.all (fun p => p.2.all (fun y => decide (0 ≤ y) && decide (y < p.1)))

end LianVerif.Termination
