/-
Model of `DataModel` (src/lian/util/data_model.py): a pandas frame (`Model/Frame.lean`) wrapped with
three caches and one dirty flag,

  `_schema`            column name → position         (here: the list of names, position = index)
  `_rows`              `self._data.values`            (`none` = Python `None`, never read before a refresh)
  `_column_indexer`    column → value → [positions]   (insertion-ordered association lists, like the dicts)
  `_need_refresh_rows` dirty flag

written method by method after the Python.  `Variant` selects between the code as it is in the
repository now (`current`, after the `fix:` commits) and the code at the pinned commit (`pinned`,
frozen — it documents the findings and carries the negative theorems).

Not modelled (see NOTES-C16.md): `Row.__setattr__` writing through the cached numpy row, `Column.
bundle_search`, `unique_values_of_column`, `slow_query_first`, `display/__repr__`, the `DataModel(None)`
object before `load`, `reset_index(directly_modify_current_dataframe=False)`; `sorted(...)` around the
positions returned by the indexer (the positions are produced by `enumerate` and already increasing).

No imports outside `LianVerif.Model.*`: this file is linked into the `lvdrv` executable.
-/
import LianVerif.Model.Frame

namespace LianVerif.Table

abbrev ValueIndex := List (Cell × List Nat)
abbrev Indexer := List (String × ValueIndex)

structure T where
  data : Frame
  schema : List String
  dirty : Bool
  rows : Option (List (List Cell))
  idx : Indexer
  /-- ghost (Python object identity): `self._column_indexer` was bound to a *new* dict since the flag
  was last cleared.  Only `Model/TableAlias.lean` reads it. -/
  idxRebound : Bool := false
deriving DecidableEq, Repr

/-- which repairs are present in the code being modelled -/
structure Variant where
  /-- `set_refresh_flag` resets `_column_indexer` -/
  clearIdxOnFlag : Bool
  /-- `modify_row` / `modify_element` invalidate the caches also when pandas raises after a partial
  write -/
  flagOnFailedWrite : Bool
  /-- `fillna` calls `set_refresh_flag` -/
  flagOnFillna : Bool
  /-- `set_columns` calls `set_refresh_flag` -/
  flagOnSetColumns : Bool
  /-- `reset_index(move_index_to_column=True)` calls `set_refresh_flag` -/
  flagOnResetMove : Bool
deriving DecidableEq, Repr

/-- the code in the repository now -/
def current : Variant := ⟨true, true, true, true, true⟩
/-- the code at the pinned commit (frozen) -/
def pinned : Variant := ⟨false, false, false, false, false⟩

/-- a `Row` object as the caller sees it: the numpy row, the schema dict it carries, `get_index()` -/
structure RowV where
  cells : List Cell
  schema : List String
  index : Int
deriving DecidableEq, Repr

inductive Out where
  | unit
  | none
  | emptyList
  | err (e : Err)
  | bool (b : Bool)
  | int (i : Int)
  | cell (c : Cell)
  | cells (l : List Cell)
  | positions (l : List Nat)
  | row (r : RowV)
  | rows (l : List (Option RowV))
  | matrix (m : List (List Cell))
  | frame (f : Frame)
  | dicts (l : List (List (String × Cell)))
deriving DecidableEq, Repr

/-! ### cache maintenance -/

/-- `refresh_schema`: `util.list_to_dict_with_index(self._data.columns)` -/
def refreshSchema (t : T) : T := { t with schema := t.data.cols }

/-- `set_refresh_flag` -/
def setRefreshFlag (v : Variant) (t : T) : T :=
  refreshSchema { t with dirty := true, idx := if v.clearIdxOnFlag then [] else t.idx,
                         idxRebound := v.clearIdxOnFlag || t.idxRebound }

/-- `refresh_rows` -/
def refreshRows (t : T) : T :=
  if !t.dirty then t
  else { t with dirty := false, rows := some t.data.rows, idx := [], idxRebound := true }

/-- `DataModel(df)` / `DataModel(rows, columns=…)` after the frame has been built -/
def construct (f : Frame) (reset : Bool) : T :=
  let t : T := refreshSchema { data := f, schema := [], dirty := true, rows := Option.none, idx := [] }
  if reset then { t with data := t.data.resetIndex } else t

/-- `DataModel().load(path)` once `pd.read_feather` has produced `f` -/
def loadT (v : Variant) (f : Frame) : T :=
  setRefreshFlag v { data := f, schema := [], dirty := true, rows := Option.none, idx := [] }

/-! ### the equality index -/

/-- `if value not in target: target[value] = []` ; `target[value].append(i)` -/
def bump : ValueIndex → Cell → Nat → ValueIndex
  | [], v, i => [(v, [i])]
  | (k, l) :: rest, v, i => if k = v then (k, l ++ [i]) :: rest else (k, l) :: bump rest v i

/-- the loop of `_indexing_column`: `for idx_label, value in enumerate(column_data)` -/
def indexFrom (m : ValueIndex) (start : Nat) : List Cell → ValueIndex
  | [] => m
  | v :: vs => indexFrom (if v.isna then m else bump m v start) (start + 1) vs

def buildIndex (col : List Cell) : ValueIndex := indexFrom [] 0 col

/-- `target.get(value, set())` -/
def lookupValue (m : ValueIndex) (v : Cell) : List Nat :=
  match m.find? (fun kv => kv.1 = v) with
  | some kv => kv.2
  | Option.none => []

def lookupCol (ix : Indexer) (c : String) : Option ValueIndex :=
  match ix.find? (fun kv => kv.1 = c) with
  | some kv => some kv.2
  | Option.none => Option.none

/-- `query_index_column_value_indices`.  Note what it does *not* do: it never calls `refresh_rows`,
so whatever is in `_column_indexer` is believed. -/
def queryIdx (t : T) (c : String) (v : Cell) : T × Except Err (List Nat) :=
  if v.isna then (t, .ok [])
  else if !t.schema.contains c then (t, .error .quit)
  else
    match lookupCol t.idx c with
    | some m => (t, .ok (lookupValue m v))
    | Option.none =>
      -- `_indexing_column`: `column_data = self._data[column_name]`
      match t.data.column c with
      | Option.none => (t, .error .key)
      | some col =>
        let m := buildIndex col
        ({ t with idx := t.idx ++ [(c, m)] }, .ok (lookupValue m v))

/-- `search_block_start_end_indics`; `ok none` is Python `None` -/
def searchBlock (t : T) (id : Cell) : T × Except Err (Option (List Nat)) :=
  if id.isna then (t, .ok Option.none)
  else
    match queryIdx t "stmt_id" id with
    | (t', .ok l) => (t', .ok (some l))
    | (t', .error e) => (t', .error e)

/-! ### reads -/

def mkRow (t : T) (rs : List (List Cell)) (i : Int) : Except Err (Option RowV) :=
  if 0 ≤ i ∧ i < rs.length then
    match t.data.labels[i.toNat]? with
    | some l => .ok (some { cells := rs.getD i.toNat [], schema := t.schema, index := l })
    | Option.none => .error .index
  else .ok Option.none

def mkRows (t : T) (rs : List (List Cell)) : List Int → Except Err (List (Option RowV))
  | [] => .ok []
  | i :: is =>
    match mkRow t rs i with
    | .error e => .error e
    | .ok r =>
      match mkRows t rs is with
      | .error e => .error e
      | .ok l => .ok (r :: l)

/-- `__iter__`: `Row(row, self._schema, index[counter])` for every cached row -/
def iterRows (t : T) (rs : List (List Cell)) : Except Err (List (Option RowV)) :=
  mkRows t rs ((List.range rs.length).map Int.ofNat)

def sliceT (t : T) (a b : Int) : T := construct (t.data.ilocSlice a b) false

def resetChild (c : T) (reset : Bool) : T :=
  if reset then { c with data := c.data.resetIndex } else c

/-! ### operations -/

inductive Op where
  | len | isEmpty | getRows | iter
  | accessPos (i : Int)
  | accessList (is : List Int)
  | accessLoc (label : Int) (col : String)
  | column (col : String)
  | queryIdx (col : String) (v : Cell)
  | queryTable (col : String) (v : Cell)
  | queryFirst (col : String) (v : Cell)
  | searchBlock (id : Cell)
  | readBlock (id : Cell) (reset : Bool)
  | readBlockWith (id : Cell) (reset : Bool)
  | boundary (ids : List Cell)
  | slowQueryEq (col : String) (v : Cell) (outCol : Option String) (reset : Bool)
  | slowQueryIsin (col : String) (vs : List Cell) (reset : Bool)
  | slowQueryLabels (ls : List Int) (reset : Bool)
  | toDicts
  | slice (a b : Int)
  | clone
  | modifyRow (i : Int) (newRow : List Cell) (stop : Option Nat)
  | modifyColumn (col : String) (v : Cell)
  | modifyColumnList (col : String) (vs : List Cell)
  | modifyElement (label : Int) (col : String) (v : Cell) (refused : Bool)
  | renameColumn (old new : String)
  | append (g : Frame)
  | removeRows (col : String) (v : Cell)
  | resetIndex (move : Bool)
  | fillna (v : Cell)
  | setColumns (names : List String)
  | saveLoad (ok : Bool)
deriving DecidableEq, Repr

/-- `<pandas statement>; self.set_refresh_flag()` -/
def mutate (v : Variant) (t : T) (r : Except Err Frame) : T × Out × Option T :=
  match r with
  | .ok f => (setRefreshFlag v { t with data := f }, .unit, Option.none)
  | .error e => (t, .err e, Option.none)

/-- the loop of `boundary_of_multi_blocks` -/
def boundaryLoop (t : T) (acc : Int) : List Cell → T × Except Err Int
  | [] => (t, .ok acc)
  | id :: ids =>
    if id.isna then boundaryLoop t acc ids
    else
      match searchBlock t id with
      | (t', .error e) => (t', .error e)
      | (t', .ok Option.none) => boundaryLoop t' acc ids
      | (t', .ok (some l)) => boundaryLoop t' (l.foldl (fun m p => max m (Int.ofNat p)) acc) ids

/-- one public method call.  Result: the table afterwards, what the caller gets back, and the new
`DataModel` object when the method creates one. -/
def step (v : Variant) (t : T) : Op → T × Out × Option T
  | .len => (t, .int t.data.nrows, Option.none)
  | .isEmpty => (t, .bool (t.data.nrows == 0), Option.none)
  | .getRows =>
    let t := refreshRows t
    match t.rows with
    | some rs => (t, .matrix rs, Option.none)
    | Option.none => (t, .err .type, Option.none)
  | .iter =>
    let t := refreshRows t
    match t.rows with
    | some rs =>
      match iterRows t rs with
      | .ok l => (t, .rows l, Option.none)
      | .error e => (t, .err e, Option.none)
    | Option.none => (t, .err .type, Option.none)
  | .accessPos i =>
    let t := refreshRows t
    match t.rows with
    | some rs =>
      match mkRow t rs i with
      | .ok (some r) => (t, .row r, Option.none)
      | .ok Option.none => (t, .none, Option.none)
      | .error e => (t, .err e, Option.none)
    | Option.none => (t, .err .type, Option.none)
  | .accessList is =>
    let t := refreshRows t
    match t.rows with
    | some rs =>
      match mkRows t rs is with
      | .ok l => (t, .rows l, Option.none)
      | .error e => (t, .err e, Option.none)
    | Option.none => (t, .err .type, Option.none)
  | .accessLoc label col =>
    -- `self._data.loc[row_index, column_name]`
    match t.data.labelPos label, t.data.colPos col with
    | some r, some p => (t, .cell (Frame.cellAt (t.data.rows.getD r []) p), Option.none)
    | _, _ => (t, .err .key, Option.none)
  | .column col =>
    match t.data.column col with
    | some cs => (t, .cells cs, Option.none)
    | Option.none => (t, .err .key, Option.none)
  | .queryIdx col val =>
    match queryIdx t col val with
    | (t', .ok l) => (t', .positions l, Option.none)
    | (t', .error e) => (t', .err e, Option.none)
  | .queryTable col val =>
    match queryIdx t col val with
    | (t', .error e) => (t', .err e, Option.none)
    | (t', .ok []) => (t', .emptyList, Option.none)
    | (t', .ok l) =>
      match t'.data.ilocTake l with
      | some f => let c := construct f false; (t', .frame c.data, some c)
      | Option.none => (t', .err .index, Option.none)
  | .queryFirst col val =>
    match queryIdx t col val with
    | (t', .error e) => (t', .err e, Option.none)
    | (t', .ok []) => (t', .none, Option.none)
    | (t', .ok (pos :: _)) =>
      match t'.data.rows[pos]? with
      | some r => (t', .row { cells := r, schema := t'.schema, index := Int.ofNat pos }, Option.none)
      | Option.none => (t', .err .index, Option.none)
  | .searchBlock id =>
    match searchBlock t id with
    | (t', .ok (some l)) => (t', .positions l, Option.none)
    | (t', .ok Option.none) => (t', .none, Option.none)
    | (t', .error e) => (t', .err e, Option.none)
  | .readBlock id reset =>
    match searchBlock t id with
    | (t', .error e) => (t', .err e, Option.none)
    | (t', .ok Option.none) => (t', .emptyList, Option.none)
    | (t', .ok (some [p, q])) =>
      let c := resetChild (sliceT t' (Int.ofNat p + 1) (Int.ofNat q)) reset
      (t', .frame c.data, some c)
    | (t', .ok (some _)) => (t', .err .quit, Option.none)
  | .readBlockWith id reset =>
    match searchBlock t id with
    | (t', .error e) => (t', .err e, Option.none)
    | (t', .ok Option.none) => (t', .emptyList, Option.none)
    | (t', .ok (some (p :: q :: _))) =>
      let c := resetChild (sliceT t' (Int.ofNat p) (Int.ofNat q + 1)) reset
      (t', .frame c.data, some c)
    | (t', .ok (some _)) => (t', .emptyList, Option.none)
  | .boundary ids =>
    match boundaryLoop t (-1) ids with
    | (t', .ok m) => (t', .int m, Option.none)
    | (t', .error e) => (t', .err e, Option.none)
  | .slowQueryEq col val outCol reset =>
    -- `self.slow_query(self.<col> == val, column_name, reset_index)`
    match t.data.column col with
    | Option.none => (t, .err .key, Option.none)
    | some cs =>
      let f := t.data.maskTake (cs.map (fun x => Frame.maskEq x val))
      match outCol with
      | some oc =>
        match f.column oc with
        | some out => (t, .cells out, Option.none)
        | Option.none => (t, .err .key, Option.none)
      | Option.none => let c := construct f reset; (t, .frame c.data, some c)
  | .slowQueryIsin col vs reset =>
    match t.data.column col with
    | Option.none => (t, .err .key, Option.none)
    | some cs =>
      let c := construct (t.data.maskTake (Frame.isinMask cs vs)) reset
      (t, .frame c.data, some c)
  | .slowQueryLabels ls reset =>
    -- duplicate labels in the result (a repeated label without `reset_index`) are outside the model:
    -- pandas' `.loc[label, col] = v` then writes several rows
    if !reset && ls.eraseDups.length != ls.length then (t, .err .unmodelled, Option.none) else
    match t.data.locTake ls with
    | Option.none => (t, .err .key, Option.none)
    | some f => let c := construct f reset; (t, .frame c.data, some c)
  | .toDicts => (t, .dicts t.data.toDicts, Option.none)
  | .slice a b => let c := sliceT t a b; (t, .frame c.data, some c)
  | .clone => let c := construct t.data false; (t, .frame c.data, some c)
  | .modifyRow i newRow stop =>
    match t.data.setIloc i newRow stop with
    | (f, Option.none) => (setRefreshFlag v { t with data := f }, .unit, Option.none)
    | (f, some e) =>
      ((if v.flagOnFailedWrite then setRefreshFlag v { t with data := f } else { t with data := f }),
        .err e, Option.none)
  | .modifyColumn col val => mutate v t (t.data.setCol col (List.replicate t.data.nrows val))
  | .modifyColumnList col vs => mutate v t (t.data.setCol col vs)
  | .modifyElement label col val refused =>
    match t.data.setLoc label col val refused with
    | (f, Option.none) => (setRefreshFlag v { t with data := f }, .unit, Option.none)
    | (f, some e) =>
      ((if v.flagOnFailedWrite then setRefreshFlag v { t with data := f } else { t with data := f }),
        .err e, Option.none)
  | .renameColumn old new =>
    if old != new && t.data.cols.contains old && t.data.cols.contains new then
      (t, .err .unmodelled, Option.none)
    else mutate v t (.ok (t.data.renameCol old new))
  | .append g =>
    if g.cols.eraseDups.length != g.cols.length then (t, .err .unmodelled, Option.none)
    else mutate v t (.ok (t.data.concat g))
  | .removeRows col val =>
    match t.data.filterNe col val with
    | some f => mutate v t (.ok f)
    | Option.none => (t, .err .key, Option.none)
  | .resetIndex move =>
    if move then
      match t.data.resetIndexMove with
      | .ok f =>
        let t' := { t with data := f }
        ((if v.flagOnResetMove then setRefreshFlag v t' else t'), .unit, Option.none)
      | .error e => (t, .err e, Option.none)
    else ({ t with data := t.data.resetIndex }, .unit, Option.none)
  | .fillna val =>
    let t' := { t with data := t.data.fillna val }
    ((if v.flagOnFillna then setRefreshFlag v t' else t'), .unit, Option.none)
  | .setColumns names =>
    if names.eraseDups.length != names.length then (t, .err .unmodelled, Option.none)
    else
      match t.data.setColumns names with
      | .ok f =>
        let t' := { t with data := f }
        ((if v.flagOnSetColumns then setRefreshFlag v t' else t'), .unit, Option.none)
      | .error e => (t, .err e, Option.none)
  | .saveLoad ok =>
    -- `self.save(path)` = `self.reset_index()._data.to_feather(path)`; then `DataModel().load(path)`
    let t' := { t with data := t.data.resetIndex }
    if ok then let c := loadT v t'.data; (t', .frame c.data, some c)
    else (t', .none, Option.none)

/-! ### a small world: the table under test and one other table object

Derived tables (`slice`, `clone`, query results, blocks) are independent objects under pandas'
copy-on-write; `enter = true` makes the derived table the current one and keeps its parent as
`other`, so that histories can go on mutating the parent and querying the child (and vice versa). -/

structure World where
  cur : T
  other : Option T
deriving DecidableEq, Repr

inductive WOp where
  | on (op : Op) (enter : Bool)
  | swap
  | appendOther
deriving DecidableEq, Repr

def stepW (v : Variant) (w : World) : WOp → World × Out
  | .on op enter =>
    match step v w.cur op with
    | (t', out, some c) => if enter then ({ cur := c, other := some t' }, out) else ({ w with cur := t' }, out)
    | (t', out, Option.none) => ({ w with cur := t' }, out)
  | .swap =>
    match w.other with
    | some o => ({ cur := o, other := some w.cur }, .unit)
    | Option.none => (w, .none)
  | .appendOther =>
    -- `cur.append_data_model(other)` with a `DataModel` argument: `extra_data._data`
    match w.other with
    | some o =>
      match step v w.cur (.append o.data) with
      | (t', out, _) => ({ w with cur := t' }, out)
    | Option.none => (w, .none)

/-- constructors -/
inductive Ctor where
  | rows (cols : List String) (rows : List (List Cell)) (reset : Bool)
  | dicts (ds : List (List (String × Cell)))
  | frame (f : Frame) (reset : Bool)
  | load (f : Frame)
deriving DecidableEq, Repr

def Ctor.frameOf : Ctor → Frame
  | .rows cs rs _ => Frame.ofRows cs rs
  | .dicts ds => Frame.ofDicts ds
  | .frame f _ => f
  | .load f => f

def init (v : Variant) : Ctor → World
  | .rows cs rs reset => { cur := construct (Frame.ofRows cs rs) reset, other := Option.none }
  | .dicts ds => { cur := construct (Frame.ofDicts ds) false, other := Option.none }
  | .frame f reset => { cur := construct f reset, other := Option.none }
  | .load f => { cur := loadT v f, other := Option.none }

/-- run a history; per operation: what the caller got back and the frame of the current table
afterwards -/
def run (v : Variant) : World → List WOp → World × List (Out × Frame)
  | w, [] => (w, [])
  | w, op :: ops =>
    let (w', out) := stepW v w op
    let (wf, outs) := run v w' ops
    (wf, (out, w'.cur.data) :: outs)

end LianVerif.Table
