/-
Model of `util.LRUCache` (src/lian/util/util.py) and of the insertion-ordered Python `dict`
operations the loaders use.

Representation: the doubly linked list `head ⇄ … ⇄ tail` together with the `cache` dict is the list
of its `(id, data)` nodes, least recently used first (`head.next` is the list head, `tail.prev` the
last element).  The dict and the linked list are changed in lock-step by every method, so one list
stands for both; the faithfulness of that reading is what the "lru" op-sequence diff checks
(returned values *and* the full recency order after every operation).

No imports: this file is linked into the `lvdrv` executable.
-/
namespace LianVerif.Lru

variable {K V : Type} [DecidableEq K]

/-! ### association lists standing for insertion-ordered dicts -/

/-- `d.get(k)` — first binding of `k`. -/
def alookup (k : K) : List (K × V) → Option V
  | [] => none
  | (k', v) :: l => if k' = k then some v else alookup k l

/-- `d[k] = v` — replaces in place when the key exists (order kept), appends otherwise. -/
def aset (k : K) (v : V) : List (K × V) → List (K × V)
  | [] => [(k, v)]
  | (k', v') :: l => if k' = k then (k, v) :: l else (k', v') :: aset k v l

/-- `del d[k]` / `d.pop(k, None)`. -/
def aerase (k : K) (l : List (K × V)) : List (K × V) := l.filter (fun p => decide (p.1 ≠ k))

def akeys (l : List (K × V)) : List K := l.map (·.1)

/-! ### the cache -/

structure Lru (K V : Type) where
  cap : Nat
  items : List (K × V)
deriving Repr

def Lru.empty (cap : Nat) : Lru K V := { cap := cap, items := [] }

/-- the node `self.cache[_id]` holds, if any (no effect on recency). -/
def Lru.lookup (c : Lru K V) (k : K) : Option V := alookup k c.items

/-- `contain(_id)`: `_id in self.cache`. -/
def Lru.contain (c : Lru K V) (k : K) : Bool := (c.lookup k).isSome

/-- `get(_id)`: on a hit the node is unlinked and re-linked before `tail` (most recent). -/
def Lru.get (c : Lru K V) (k : K) : Lru K V × Option V :=
  match c.lookup k with
  | some v => ({ c with items := aerase k c.items ++ [(k, v)] }, some v)
  | none => (c, none)

/-- `put(_id, _data)`: unlink an existing node for the id, link a new node before `tail`, then evict
`head.next` when the dict has more than `capacity` entries. -/
def Lru.put (c : Lru K V) (k : K) (v : V) : Lru K V :=
  let items := aerase k c.items ++ [(k, v)]
  if items.length > c.cap then { c with items := items.drop 1 } else { c with items := items }

/-- `remove(_id)`. -/
def Lru.remove (c : Lru K V) (k : K) : Lru K V := { c with items := aerase k c.items }

/-! ### op-sequence runner used by the driver and by `C15_lru_*` -/

inductive Op (K V : Type) where
  | get (k : K)
  | contain (k : K)
  | put (k : K) (v : V)
  | remove (k : K)
deriving Repr

inductive Out (V : Type) where
  | unit
  | bool (b : Bool)
  | val (v : Option V)
deriving Repr, DecidableEq

def step (c : Lru K V) : Op K V → Lru K V × Out V
  | .get k => let r := c.get k; (r.1, .val r.2)
  | .contain k => (c, .bool (c.contain k))
  | .put k v => (c.put k v, .unit)
  | .remove k => (c.remove k, .unit)

/-- per operation: (output, recency order after the operation). -/
def run : Lru K V → List (Op K V) → Lru K V × List (Out V × List (K × V))
  | c, [] => (c, [])
  | c, op :: ops =>
    let r := step c op
    let rest := run r.1 ops
    (rest.1, (r.2, r.1.items) :: rest.2)

end LianVerif.Lru
