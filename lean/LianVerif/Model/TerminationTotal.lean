/-
C13 — abstract termination models, part 5: composition.  The statement loop of part 1 is plugged
into the frame driver of part 2 as its `Runner`: every frame carries its own worklist and visit
counters; when the loop analyses a statement, an ARBITRARY oracle `calls` says which callees that
statement requests (empty for a statement that is not a call), the request goes through the modelled
cut-offs (`request`), and the loop is interrupted exactly when a callee survives them — as in
`GlobalStmtStates.compute_target_method_states`.

No fuel anywhere: `visitRunner.run` is `visitLoop`, the driver is `driver`.
No imports outside LianVerif.Model.
-/
import LianVerif.Model.TerminationFrames

namespace LianVerif.Termination

/-- the frame-local state of the statement loop -/
structure VLoc (ω : Type) where
  w : ω
  cnt : Int → Nat

/-- a program as the two loops see it -/
structure Prog (ω : Type) where
  D : Discipline ω
  succ : Int → Int → List Int              -- method ↦ CFG successors
  V : Int → List Int                       -- method ↦ its statements (`stmt_counters` keys)
  lim : Int → Int → Nat                    -- method ↦ statement ↦ visit budget
  init : Int → VLoc ω                      -- fresh frame of a method: first statements, counters
  calls : Int → Int → Glob → Nat → List Int -- ANY behaviour: callees requested at (method, stmt)

/-- analysis state threaded through the loop: global state + the pending interruption -/
abbrev VG := Glob × Option (Int × List Int)

def analyseCall {ω : Type} (U : List Site) (B : Nat) (P : Prog ω) (f : Frame (VLoc ω)) (tick : Nat)
    (s : Int) (g : VG) : VG × Bool :=
  let ks := P.calls f.method s g.1 tick
  let r := request U B f s ks g.1 []
  if r.2.isEmpty then ((settle f s ks r.1, none), false) else ((r.1, some (s, r.2)), true)

def visitRun {ω : Type} (U : List Site) (B : Nat) (P : Prog ω) (G : Glob) (f : Frame (VLoc ω))
    (tick : Nat) : RunOut (VLoc ω) :=
  let out := visitLoop P.D (P.succ f.method) (P.V f.method) (P.lim f.method)
    (analyseCall U B P f tick) f.loc.w f.loc.cnt (G, none)
  { glob := out.g.1, loc := { w := out.w, cnt := out.cnt },
    intr := if out.interrupted then out.g.2 else none, cost := out.events.length }

end LianVerif.Termination
