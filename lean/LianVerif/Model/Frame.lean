/-
Reference definitions for the fragment of pandas (3.x, copy-on-write) that `DataModel`
(src/lian/util/data_model.py) relies on.  TRUSTED BASE: these are definitions, not theorems; they
are validated by the same op-sequence diff that validates `Model/Table.lean` (after every operation
the harness compares the model's frame with a direct scan of the real `DataFrame`).

A frame is dtype-free: a cell is `None/NaN`, an integer or a string (the harness canonicalises
integral floats to integers and NaN/None/pd.NA to `none`; anything else is a harness error).  The one
place where pandas' dtypes are observable — a write of a string into a numeric column (or of an
integer into a `str` column) is refused with `TypeError: Invalid value …` — enters the model as a
parameter of the operation (`stop`, `refused`) that the harness computes from the real dtypes; the
model says what the table looks like given that pandas refused at that point.

Column labels are assumed duplicate-free (pandas allows duplicates, `DataModel` does not survive
them); the table model refuses the operations that would create duplicates (`Err.unmodelled`).

No imports: this file is linked into the `lvdrv` executable.
-/
namespace LianVerif.Table

inductive Cell where
  | none
  | int (n : Int)
  | str (s : String)
deriving DecidableEq, Repr, Inhabited

/-- `util.isna`: `None`, NaN and every falsy non-number (`""`); `0` is *not* missing because the
`isinstance(element, (int, float))` branch returns `math.isnan(element)` first. -/
def Cell.isna : Cell → Bool
  | .none => true
  | .int _ => false
  | .str s => s.isEmpty

/-- `pd.notnull` on a scalar. -/
def Cell.notnull : Cell → Bool
  | .none => false
  | _ => true

/-- Python exception classes that the modelled operations can raise. `quit` is `util.error_and_quit`
(`SystemExit`); `unmodelled` marks an operation the model refuses to describe (duplicate column
labels) — the harness never generates such an operation. -/
inductive Err where
  | key | index | value | type | quit | unmodelled
deriving DecidableEq, Repr

structure Frame where
  cols : List String
  labels : List Int
  rows : List (List Cell)
deriving DecidableEq, Repr

namespace Frame

def empty : Frame := { cols := [], labels := [], rows := [] }

def nrows (f : Frame) : Nat := f.rows.length
def ncols (f : Frame) : Nat := f.cols.length

/-- `RangeIndex(n)` -/
def rangeLabels (n : Nat) : List Int := (List.range n).map Int.ofNat

/-- `pd.DataFrame(list_of_lists, columns=cols)` for rectangular data. -/
def ofRows (cols : List String) (rows : List (List Cell)) : Frame :=
  { cols := cols, labels := rangeLabels rows.length, rows := rows }

/-- keys of a list of dicts in first-seen order -/
def dictKeys : List (List (String × Cell)) → List String → List String
  | [], acc => acc
  | d :: ds, acc => dictKeys ds (d.foldl (fun a kv => if a.contains kv.1 then a else a ++ [kv.1]) acc)

def dictGet (d : List (String × Cell)) (k : String) : Cell :=
  match d.find? (fun kv => kv.1 == k) with
  | some kv => kv.2
  | none => .none

/-- `pd.DataFrame(list_of_dicts)`: columns are the keys in first-seen order, absent keys are NaN. -/
def ofDicts (ds : List (List (String × Cell))) : Frame :=
  let cols := dictKeys ds []
  { cols := cols, labels := rangeLabels ds.length, rows := ds.map (fun d => cols.map (dictGet d)) }

def colPos (f : Frame) (c : String) : Option Nat :=
  let i := f.cols.idxOf c
  if i < f.cols.length then some i else none

def labelPos (f : Frame) (l : Int) : Option Nat :=
  let i := f.labels.idxOf l
  if i < f.labels.length then some i else none

def cellAt (row : List Cell) (p : Nat) : Cell := row.getD p .none

/-- `df[c]` as a list; `none` is `KeyError`. -/
def column (f : Frame) (c : String) : Option (List Cell) :=
  match f.colPos c with
  | some p => some (f.rows.map (fun r => cellAt r p))
  | none => none

/-- scalar positional index of `iloc` (negative indices wrap, out of range is `IndexError`). -/
def normPos (n : Nat) (i : Int) : Option Nat :=
  if 0 ≤ i then (if i < n then some i.toNat else none)
  else (if -(n : Int) ≤ i then some (i + n).toNat else none)

/-- one bound of a Python slice over a sequence of length `n`. -/
def clampBound (n : Nat) (a : Int) : Nat :=
  if a < 0 then (a + n).toNat else min a.toNat n

/-- `df.iloc[a:b]` (labels are kept). -/
def ilocSlice (f : Frame) (a b : Int) : Frame :=
  let s := clampBound f.nrows a
  let e := clampBound f.nrows b
  { f with labels := (f.labels.drop s).take (e - s), rows := (f.rows.drop s).take (e - s) }

/-- `df.iloc[list_of_positions]`; `none` is `IndexError` (a position out of bounds). -/
def ilocTake (f : Frame) (ps : List Nat) : Option Frame :=
  if ps.all (fun p => p < f.nrows) then
    some { f with labels := ps.map (fun p => f.labels.getD p 0), rows := ps.map (fun p => f.rows.getD p []) }
  else none

/-- `df.loc[list_of_labels]`; `none` is `KeyError` (a label that is not in the index). -/
def locTake (f : Frame) (ls : List Int) : Option Frame :=
  if ls.all (fun l => (f.labelPos l).isSome) then
    some { f with labels := ls,
                  rows := ls.map (fun l => f.rows.getD ((f.labelPos l).getD 0) []) }
  else none

/-- `df.loc[boolean_mask]` for a mask of the right length. -/
def maskTake (f : Frame) (m : List Bool) : Frame :=
  { f with labels := ((f.labels.zip m).filter (fun x => x.2)).map (fun x => x.1),
           rows := ((f.rows.zip m).filter (fun x => x.2)).map (fun x => x.1) }

/-- `df.iloc[i] = new_row` for a row of the right length (for other lengths pandas' behaviour depends
on the block layout — a one-element list is broadcast on single-dtype frames — and is not modelled).
pandas checks the position, then assigns column by column from the left; a column whose dtype refuses
its value stops the assignment with `TypeError` *after* the columns to its left have been written.
`stop = some k`: column `k` refuses. -/
def setIloc (f : Frame) (i : Int) (newRow : List Cell) (stop : Option Nat) : Frame × Option Err :=
  if newRow.length != f.ncols then (f, some .unmodelled)
  else match normPos f.nrows i with
  | none => (f, some .index)
  | some r =>
      let k := match stop with | some k => k | none => newRow.length
      let old := f.rows.getD r []
      let row' := (List.range old.length).map (fun p => if p < k then cellAt newRow p else cellAt old p)
      ({ f with rows := f.rows.set r row' }, match stop with | some _ => some .type | none => none)

/-- `df[c] = vals` for a list: replaces the column or appends a new one; a wrong length is
`ValueError` — except on a frame without rows, which pandas lets grow to the length of the list
(fresh `RangeIndex`, NaN in the other columns). -/
def setCol (f : Frame) (c : String) (vals : List Cell) : Except Err Frame :=
  if f.nrows == 0 && f.labels.length == 0 then
    match f.colPos c with
    | some p => .ok { f with labels := rangeLabels vals.length,
                             rows := vals.map (fun v => (List.replicate f.ncols Cell.none).set p v) }
    | none => .ok { cols := f.cols ++ [c], labels := rangeLabels vals.length,
                    rows := vals.map (fun v => List.replicate f.ncols Cell.none ++ [v]) }
  else if vals.length != f.nrows then .error .value
  else match f.colPos c with
    | some p => .ok { f with rows := (f.rows.zip vals).map (fun x => x.1.set p x.2) }
    | none => .ok { f with cols := f.cols ++ [c], rows := (f.rows.zip vals).map (fun x => x.1 ++ [x.2]) }

/-- `df.loc[label, c] = v` with pandas' setting-with-enlargement.  `refused`: the dtype of column
`c` refuses `v` (`TypeError`).  When the label is new pandas appends the all-NaN row *before* it
tries to write the value, so a refused write to a new label leaves that row behind. -/
def setLoc (f : Frame) (label : Int) (c : String) (v : Cell) (refused : Bool) : Frame × Option Err :=
  match f.labelPos label, f.colPos c with
  | some r, some p =>
    if refused then (f, some .type)
    else ({ f with rows := f.rows.set r ((f.rows.getD r []).set p v) }, none)
  | none, some p =>
    if refused then
      ({ f with labels := f.labels ++ [label], rows := f.rows ++ [List.replicate f.ncols Cell.none] },
        some .type)
    else
      ({ f with labels := f.labels ++ [label],
                rows := f.rows ++ [(List.replicate f.ncols Cell.none).set p v] }, none)
  | some r, none =>
    ({ f with cols := f.cols ++ [c],
              rows := (f.rows.zip (List.range f.nrows)).map
                        (fun x => x.1 ++ [if x.2 = r then v else Cell.none]) }, none)
  | none, none =>
    ({ cols := f.cols ++ [c], labels := f.labels ++ [label],
       rows := f.rows.map (fun r => r ++ [Cell.none]) ++ [List.replicate f.ncols Cell.none ++ [v]] },
      none)

/-- `df.rename(columns={old: new}, inplace=True)`; an absent `old` is ignored. -/
def renameCol (f : Frame) (old new : String) : Frame :=
  { f with cols := f.cols.map (fun c => if c = old then new else c) }

/-- `pd.concat([f, g], ignore_index=True)`: union of the columns (those of `f` first), NaN where a
frame lacks a column, fresh `RangeIndex`. -/
def concat (f g : Frame) : Frame :=
  let extra := g.cols.filter (fun c => !f.cols.contains c)
  let cols := f.cols ++ extra
  let rowsF := f.rows.map (fun r => r ++ List.replicate extra.length Cell.none)
  let rowsG := g.rows.map (fun r => cols.map (fun c =>
    match g.colPos c with
    | some p => cellAt r p
    | none => Cell.none))
  { cols := cols, labels := rangeLabels (f.nrows + g.nrows), rows := rowsF ++ rowsG }

/-- element of the mask `df[c] != v`: NaN/None cells compare unequal to everything and a `None`
operand compares unequal to everything. -/
def keepNe (cell v : Cell) : Bool := cell == Cell.none || v == Cell.none || cell != v

/-- element of the mask `df[c] == v` -/
def maskEq (cell v : Cell) : Bool := !(keepNe cell v)

/-- `df[df[c] != v]` (labels are kept); `none` is `KeyError`. -/
def filterNe (f : Frame) (c : String) (v : Cell) : Option Frame :=
  match f.column c with
  | some col => some (f.maskTake (col.map (fun x => keepNe x v)))
  | none => none

/-- `df.reset_index(drop=True)` -/
def resetIndex (f : Frame) : Frame := { f with labels := rangeLabels f.nrows }

/-- `df.reset_index(drop=False)`: the old labels become a new first column called `index`
(`level_0` when `index` is taken; `ValueError` when both are). -/
def resetIndexMove (f : Frame) : Except Err Frame :=
  let name? := if !f.cols.contains "index" then some "index"
               else if !f.cols.contains "level_0" then some "level_0" else none
  match name? with
  | none => .error .value
  | some name =>
    .ok { cols := name :: f.cols, labels := rangeLabels f.nrows,
          rows := (f.rows.zip f.labels).map (fun x => Cell.int x.2 :: x.1) }

/-- `df.fillna(v, inplace=True)` when no column refuses `v` (the harness only issues such calls). -/
def fillna (f : Frame) (v : Cell) : Frame :=
  { f with rows := f.rows.map (fun r => r.map (fun c => if c == Cell.none then v else c)) }

/-- `df.columns = names`; a wrong length is `ValueError`. -/
def setColumns (f : Frame) (names : List String) : Except Err Frame :=
  if names.length != f.ncols then .error .value else .ok { f with cols := names }

/-- `df.to_dict(orient="records")` followed by dropping the null values of every record (a frame
without columns has no records, however many labels it has). -/
def toDicts (f : Frame) : List (List (String × Cell)) :=
  if f.ncols == 0 then []
  else f.rows.map (fun r => ((f.cols.zip (List.range f.ncols)).map (fun x => (x.1, cellAt r x.2))).filter
    (fun kv => kv.2.notnull))

/-- `np.isin(df[c], vals)` for a kind-homogeneous list of non-missing values. -/
def isinMask (col : List Cell) (vals : List Cell) : List Bool :=
  col.map (fun x => x != Cell.none && vals.contains x)

end Frame
end LianVerif.Table
