/-
Model of constant folding in `src/lian/core/stmt_states.py`:

* `fold`  / `fold0`  — `StmtStates.compute_two_states`: builds a text from the two operand states,
  hands it to `util.strict_eval` (modelled by `PyStrLit.pyEval`), stores the result;
* `binStates` / `binStates0` — the two-operand part of `StmtStates.assign_stmt_state`: folds every
  pair of operand states and decides when the defined symbol gets an ANYTHING (unknown) state.

`…0` = the code at the pinned commit (frozen; documents the findings), without suffix = the code in
/repo now (after the `fix:` commits "repr quoting", "digit strings", "parenthesised operands",
"size guard", "falsy results", "unknown operand states").

Restrictions of the model (reported as `unmodelled`, never guessed): operators other than
`+ - * // % ** << < <= == !=` (so `and`/`or`, `/`, `>`…), data types other than %int / %string among the
builtin ones (floats…), and whatever `PyStrLit.pyEval` does not model.

Imports only `LianVerif.Spec.PyStrLit` (core Lean): linked into `lvdrv`.
-/
import LianVerif.Spec.PyStrLit

namespace LianVerif.Fold
open LianVerif.PyStrLit

/-- the Python object in `State.value`: source constants are kept as text (`"7"`, `"ab"`), folded
results as the objects `eval` returned. -/
inductive Obj where
  | str (s : Str)
  | int (n : Int)
  | bool (b : Bool)
deriving Repr, DecidableEq

/-- `State.data_type`, as far as `compute_two_states` distinguishes it. -/
inductive DT where
  | int            -- LIAN_INTERNAL.INT
  | string         -- LIAN_INTERNAL.STRING
  | otherBuiltin   -- %float, %bool, … (in `type_table.built_data_types`, not modelled further)
  | nonBuiltin     -- class names, "", %method_decl, …
deriving Repr, DecidableEq

structure St where
  val : Obj
  dt : DT
deriving Repr, DecidableEq

inductive Out where
  | none                            -- `return set()`: no state is created
  | state (v : PyVal) (dt : DT)     -- one new REGULAR state
  | crash                           -- an exception leaves compute_two_states (the analysis run aborts)
  | unmodelled
deriving Repr, DecidableEq

/-- `str(value)` / `f"{value}"`. -/
def pyStr : Obj → Str
  | .str s => s
  | .int n => intStr n
  | .bool true => [84, 114, 117, 101]
  | .bool false => [70, 97, 108, 115, 101]

/-- Python truthiness (`if value:`). -/
def truthy : Obj → Bool
  | .str s => !s.isEmpty
  | .int n => n != 0
  | .bool b => b

/-- `util.is_available(value)` for str / int / bool objects: only the empty string is unavailable. -/
def avail : Obj → Bool
  | .str s => !s.isEmpty
  | _ => true

def PyVal.toObj : PyVal → Obj
  | .int n => .int n
  | .bool b => .bool b
  | .str s => .str s

def isBuiltin : DT → Bool
  | .nonBuiltin => false
  | _ => true

/-- CPython refuses to format an int of more than 4300 digits (`sys.int_info.default_max_str_digits`). -/
def unprintable : Obj → Bool
  | .int n => decide (10 ^ 4300 ≤ n.natAbs)
  | _ => false

/-- `str.isdigit()`; `none` when the answer depends on the Unicode database (non-ASCII characters). -/
def isdigit? (s : Str) : Option Bool :=
  if s.isEmpty then some false
  else if s.any (fun c => decide (c < 128) && !isDigit c) then some false
  else if s.any (fun c => decide (128 ≤ c)) then none
  else some true

def sp (o : Op) : Str := 32 :: (o.text ++ [32])

/-- the value stored when `strict_eval` raises: `str(value1) + str(operator) + str(value2)`. -/
def fallback (o : Op) (v1 v2 : Obj) : Str := pyStr v1 ++ (o.text ++ pyStr v2)

/-! ### pinned commit -/

/-- `is_string` of the pinned code: a %string operand counts as a string only if its text is not all digits. -/
def isString0 (s1 s2 : St) : Option Bool :=
  let a : Option Bool := if s1.dt = .string then (isdigit? (pyStr s1.val)).map (!·) else some false
  match a with
  | none => none
  | some true => some true
  | some false => if s2.dt = .string then (isdigit? (pyStr s2.val)).map (!·) else some false

def fold0 (opText : String) (s1 s2 : St) : Out :=
  if !(truthy s1.val && isBuiltin s1.dt && truthy s2.val && isBuiltin s2.dt) then .none
  else
    match Op.ofString opText with
    | none => .unmodelled
    | some o =>
      if s1.dt = .otherBuiltin ∨ s2.dt = .otherBuiltin then .unmodelled
      else
        match isString0 s1 s2 with
        | none => .unmodelled
        | some isStr =>
          if unprintable s1.val || unprintable s2.val then .crash
          else
            let text : Str :=
              if isStr then (34 :: (pyStr s1.val ++ [34])) ++ (sp o ++ (34 :: (pyStr s2.val ++ [34])))
              else pyStr s1.val ++ (sp o ++ pyStr s2.val)
            let dt : DT := if isStr then .string else .int
            match pyEval text with
            | .ok v => if truthy (PyVal.toObj v) then .state v dt else .none
            | .err => .state (.str (fallback o s1.val s2.val)) .string
            | .unmodelled => .unmodelled

/-! ### current code -/

/-- `config.MAX_FOLDED_CONSTANT_BITS`, `config.STRING_MAX_LEN` (extracted from the live module by the
harness and checked against these values on every run). -/
def maxBits : Nat := 4096
def maxStrLen : Nat := 2000000

/-- Python `int(value)` as used by the guard: `some (some n)` = n, `some none` = raises ValueError,
`none` = not modelled (signs, blanks, underscores, non-ASCII digits). -/
def pyInt? : Obj → Option (Option Int)
  | .int n => some (some n)
  | .bool b => some (some (if b then 1 else 0))
  | .str s =>
    if !s.isEmpty && s.all isDigit then some (some (Int.ofNat (valRev s.reverse)))
    else if s.any (fun c => decide (c < 128) && !(isDigit c || c == 43 || c == 45 || c == 95 || c == 32 ||
                                                   (decide (9 ≤ c) && decide (c ≤ 13)) || (decide (28 ≤ c) && decide (c ≤ 31)))) then some none
    else if s.isEmpty then some none
    else none

/-- `StmtStates.is_folding_too_large`. -/
def overLimit : Obj → Bool
  | .int n => decide (maxBits < bitLength n)
  | _ => false

def tooLarge (o : Op) (v1 v2 : Obj) (isStr : Bool) : Option Bool :=
  if overLimit v1 || overLimit v2 then some true
  else if isStr then some (o == .mod)
  else if !(o == .mul || o == .pow || o == .shl) then some false
  else
    match pyInt? v1, pyInt? v2 with
    | none, _ => none
    | some none, _ => some false
    | some (some _), none => none
    | some (some _), some none => some false
    | some (some n1), some (some n2) =>
      match o with
      | .mul => some (decide (maxBits < bitLength n1 + bitLength n2))
      | .shl => some (decide (0 < n2) && decide (maxBits < bitLength n1 + n2.toNat))
      | _ => some (decide (0 < n2) && decide (1 < n1.natAbs) && decide (maxBits < bitLength n1 * n2.toNat))

/-- post-check: a folded constant above the size limits is not stored. -/
def oversized : PyVal → Bool
  | .int n => decide (maxBits < bitLength n)
  | .str s => decide (maxStrLen < s.length)
  | .bool _ => false

def fold (printable : Ch → Bool) (opText : String) (s1 s2 : St) : Out :=
  if !(avail s1.val && isBuiltin s1.dt && avail s2.val && isBuiltin s2.dt) then .none
  else
    match Op.ofString opText with
    | none => .unmodelled
    | some o =>
      if s1.dt = .otherBuiltin ∨ s2.dt = .otherBuiltin then .unmodelled
      else
        let isStr : Bool := decide (s1.dt = .string) || decide (s2.dt = .string)
        match tooLarge o s1.val s2.val isStr with
        | none => .unmodelled
        | some true => .none
        | some false =>
          if unprintable s1.val || unprintable s2.val then .crash       -- formatting; unreachable after the guard
          else
            let text : Str :=
              if isStr then pyRepr printable (pyStr s1.val) ++ (sp o ++ pyRepr printable (pyStr s2.val))
              else (40 :: (pyStr s1.val ++ [41])) ++ (sp o ++ (40 :: (pyStr s2.val ++ [41])))
            let dt : DT := if isStr then .string else .int
            match pyEval text with
            | .ok v => if oversized v then .none else if avail (PyVal.toObj v) then .state v dt else .none
            | .err =>
              if oversized (.str (fallback o s1.val s2.val)) then .none
              else .state (.str (fallback o s1.val s2.val)) .string
            | .unmodelled => .unmodelled

/-! ### the two-operand part of `assign_stmt_state` -/

/-- an operand state: REGULAR with value and data type, or any other state type (ANYTHING, UNSOLVED…). -/
inductive AState where
  | reg (s : St)
  | nonreg
deriving Repr, DecidableEq

/-- a state of the defined symbol after the statement. -/
inductive OState where
  | val (v : PyVal) (dt : DT)
  | anything
deriving Repr, DecidableEq

inductive BinRes where
  | states (l : List OState)
  | crash
  | unmodelled
deriving Repr, DecidableEq

/-- all (s1, s2) pairs of REGULAR operand states, in loop order. -/
def regPairs (S1 S2 : List AState) : List (St × St) :=
  S1.flatMap (fun a => match a with
    | .nonreg => []
    | .reg s1 => S2.filterMap (fun b => match b with
      | .nonreg => none
      | .reg s2 => some (s1, s2)))

def outState? : Out → Option OState
  | .state v dt => some (.val v dt)
  | _ => none

def collect (outs : List Out) : BinRes :=
  if outs.contains .crash then .crash
  else if outs.contains .unmodelled then .unmodelled
  else .states (outs.filterMap outState?)

/-- pinned: an ANYTHING state is added only when *nothing* was folded. -/
def binStates0 (opText : String) (S1 S2 : List AState) : BinRes :=
  match collect ((regPairs S1 S2).map (fun p => fold0 opText p.1 p.2)) with
  | .states [] => .states [.anything]
  | r => r

/-- is some combination of operand states not covered by a folded constant? -/
def someSkipped (S1 S2 : List AState) (outs : List Out) : Bool :=
  S1.contains .nonreg || (S1.any (· != .nonreg) && S2.contains .nonreg) || outs.contains .none

/-- current: the ANYTHING state is added whenever some combination was skipped. -/
def binStates (printable : Ch → Bool) (opText : String) (S1 S2 : List AState) : BinRes :=
  let outs := (regPairs S1 S2).map (fun p => fold printable opText p.1 p.2)
  match collect outs with
  | .states l => if l.isEmpty || someSkipped S1 S2 outs then .states (l ++ [.anything]) else .states l
  | r => r

end LianVerif.Fold
