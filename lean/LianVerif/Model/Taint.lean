/-
Model of the taint engine (src/lian/taint/taint_analysis.py): `PathFinder.propagate_taint` with
`_init_source_contamination`, `_get_node_tag`, `_enqueue` and the three `_propagate_from_*`
functions, `TaintAnalysis.get_state_with_inclusion_tag`, `get_symbol_with_states_tag`,
part 2 of `TaintRuleApplier.get_sink_tag_by_rules`, and `TaintAnalysis.find_flows`.

Tags.  `find_flows` runs every (source, sink) pair in a FRESH `TaintEnv`; `propagate_taint`
allocates exactly one tag in it (`TagBitVectorManager.counter` starts at 1, so the tag is the
integer 2) and nothing else allocates tags during a pair.  Hence every stored tag is 0 or 2 and
`a | b`, `a & b != 0` are Boolean or / and.  The model stores the two dictionaries
`symbols_to_bv` / `states_to_bv` as the lists of ids whose tag is set (the harness checks that
every real value is exactly 2).  Tags are per symbol id / state id, NOT per node: several nodes
share an id (one symbol node per definition site of a variable, per use of an external name).

Worklist.  `in_worklist` always equals `set(worklist)`, so `_enqueue` is "append unless present".
The body of each `_propagate_from_*` is a loop over out-edges or in-edges whose iterations only
(1) test the current tag of the edge's peer id, (2) set it, (3) enqueue the peer; `actsOf` lists
these iterations as `Act`s in loop order and `applyAct` performs one against the current state.
`u_tag` is read once before the loop and is non-zero there, so `(u_tag | v_tag) != v_tag` is
"`v`'s tag is not set".

Quirks kept: before the repair recorded as C11/state-id-tagged-as-symbol (`Params.stateUpSymOnly`)
`_propagate_from_state` wrote the tag of a STATE_INCLUSION *predecessor* (a state node) into the
SYMBOL table under the state's id; SYMBOL_IS_USED successors are enqueued
unconditionally; the `_processed_nodes` patch re-enqueues a defined symbol / receiver that already
carries the tag but was never dequeued; the `break` after the receiver write-back only leaves the
one-element inner loop.

No imports outside LianVerif.Model: linked into `lvdrv`.
-/
import LianVerif.Model.TaintRules

namespace LianVerif.Taint
open LianVerif.Sfg LianVerif.TaintRules

/-- worklist + `_processed_nodes` + the two tag dictionaries. -/
structure PState where
  wl : List Nat := []
  processed : List Nat := []
  symT : List Int := []
  stT : List Int := []
deriving Repr, Inhabited

inductive Act where
  /-- `if tag(sym id of v) unset: set it; enqueue v` -/
  | tagSym (v : Nat)
  /-- same, `else: if v not in _processed_nodes: enqueue v` -/
  | tagSymP (v : Nat)
  /-- `if tag(state id of v) unset: set it; enqueue v` -/
  | tagSt (v : Nat)
  /-- `enqueue v` -/
  | enq (v : Nat)
deriving Repr, DecidableEq, Inhabited

def addId (l : List Int) (i : Int) : List Int := if l.contains i then l else i :: l
def addNode (l : List Nat) (i : Nat) : List Nat := if l.contains i then l else i :: l

/-- `_enqueue` -/
def enqueue (s : PState) (v : Nat) : PState :=
  if s.wl.contains v then s else { s with wl := s.wl ++ [v] }

def applyAct (g : Graph) (s : PState) : Act → PState
  | .tagSym v =>
    if s.symT.contains (g.nid v) then s
    else enqueue { s with symT := g.nid v :: s.symT } v
  | .tagSymP v =>
    if s.symT.contains (g.nid v) then
      (if s.processed.contains v then s else enqueue s v)
    else enqueue { s with symT := g.nid v :: s.symT } v
  | .tagSt v =>
    if s.stT.contains (g.nid v) then s
    else enqueue { s with stT := g.nid v :: s.stT } v
  | .enq v => enqueue s v

/-- `_propagate_from_symbol`, one `Act` per out-edge that does something. -/
def actsSymbol (g : Graph) (u : Nat) : List Act :=
  (g.outE u).filterMap (fun e =>
    if e.etype == E_SYMSTATE then some (.tagSt e.peer)
    else if e.etype == E_USED then some (.enq e.peer)
    else if e.etype == E_FLOW || e.etype == E_IFLOW then
      (if g.kindOf e.peer == K_SYMBOL then some (.tagSym e.peer) else none)
    else none)

/-- `_propagate_from_state`: first the predecessors (SYMBOL_STATE or STATE_INCLUSION edge into `u`:
the peer's id is tagged in the SYMBOL table — whatever the peer's kind before the repair
(`prm.stateUpSymOnly = false`), only for SYMBOL peers after it), then the STATE-kind
successors over (indirect) inclusion edges. -/
def actsState (g : Graph) (prm : Params) (u : Nat) : List Act :=
  (g.inE u).filterMap (fun e =>
    if (e.etype == E_SYMSTATE || e.etype == E_INCL) &&
        (!prm.stateUpSymOnly || g.kindOf e.peer == K_SYMBOL) then some (.tagSym e.peer) else none) ++
  (g.outE u).filterMap (fun e =>
    if g.kindOf e.peer == K_STATE && (e.etype == E_INCL || e.etype == E_IINCL)
    then some (.tagSt e.peer) else none)

/-- `_propagate_from_stmt`. -/
def actsStmt (g : Graph) (prm : Params) (u : Nat) : List Act :=
  if propagates prm (g.node u).name then
    (g.outE u).filterMap (fun e => if e.etype == E_DEFINED then some (.tagSymP e.peer) else none) ++
    (if (g.node u).name == "object_call_stmt" then
      (g.inE u).filterMap (fun e =>
        if e.etype == E_USED && e.pos == 0 && g.kindOf e.peer == K_SYMBOL
        then some (.tagSymP e.peer) else none)
     else [])
  else []

def actsOf (g : Graph) (prm : Params) (u : Nat) : List Act :=
  if g.kindOf u == K_SYMBOL then actsSymbol g u
  else if g.kindOf u == K_STATE then actsState g prm u
  else if g.kindOf u == K_STMT then actsStmt g prm u
  else []

/-- `_get_node_tag(u) != 0` -/
def nodeTag (g : Graph) (s : PState) (u : Nat) : Bool :=
  if g.kindOf u == K_SYMBOL then s.symT.contains (g.nid u)
  else if g.kindOf u == K_STATE then s.stT.contains (g.nid u)
  else if g.kindOf u == K_STMT then
    (g.inE u).any (fun e => e.etype == E_USED && s.symT.contains (g.nid e.peer))
  else false

/-- one iteration of the `while worklist:` loop. -/
def step (g : Graph) (prm : Params) (s : PState) : PState :=
  match s.wl with
  | [] => s
  | u :: rest =>
    let s1 := { s with wl := rest, processed := addNode s.processed u }
    if nodeTag g s1 u then (actsOf g prm u).foldl (applyAct g) s1 else s1

def run (g : Graph) (prm : Params) : Nat → PState → PState
  | 0, s => s
  | fuel + 1, s => if s.wl.isEmpty then s else run g prm fuel (step g prm s)

/-- `_init_source_contamination` on a fresh environment. -/
def initState (g : Graph) (src : Nat) : PState :=
  if g.kindOf src == K_SYMBOL then
    (g.outE src).foldl (fun s e =>
      if e.etype == E_SYMSTATE then enqueue { s with stT := addId s.stT (g.nid e.peer) } e.peer
      else s) { wl := [src], symT := [g.nid src] }
  else if g.kindOf src == K_STATE then { wl := [src], stT := [g.nid src] }
  else if g.kindOf src == K_STMT then { wl := [src] }
  else {}

/-- number of loop iterations granted: 4·N² + 8·N + 1, written as the bound of the potential used
in Proofs/TaintTerm.lean (`propagate_terminates`: on a consistently serialised, edge-typed graph
this many iterations empty the worklist).  The driver reports a non-empty final worklist. -/
def fuelFor (g : Graph) : Nat :=
  g.size + (g.size + 1) * g.size + (g.size + 2) * (g.size + g.size + g.size) + 1

/-- `propagate_taint(source)`: the final environment. -/
def propagate (g : Graph) (prm : Params) (src : Nat) : PState :=
  run g prm (fuelFor g) (initState g src)

/-! ### sink side -/

def inclSuccs (g : Graph) (u : Nat) : List Nat :=
  ((g.outE u).filter (fun e =>
    g.kindOf e.peer == K_STATE && (e.etype == E_INCL || e.etype == E_IINCL))).map (·.peer)

/-- the BFS of `get_state_with_inclusion_tag`: all states visited from the queue. -/
def inclBfs (g : Graph) : Nat → List Nat → List Nat → List Nat
  | 0, _, vis => vis
  | _ + 1, [], vis => vis
  | fuel + 1, u :: q, vis =>
    let new := (inclSuccs g u).foldl (fun (acc : List Nat) v =>
      if vis.contains v || acc.contains v then acc else acc ++ [v]) []
    inclBfs g fuel (q ++ new) (vis ++ new)

/-- `get_state_with_inclusion_tag(v) != 0` -/
def stateInclTag (g : Graph) (s : PState) (v : Nat) : Bool :=
  (inclBfs g (g.size + 1) [v] [v]).any (fun x => s.stT.contains (g.nid x))

/-- `get_symbol_with_states_tag(p) != 0` -/
def symWithStatesTag (g : Graph) (s : PState) (p : Nat) : Bool :=
  s.symT.contains (g.nid p) ||
  (g.outE p).any (fun e => e.etype == E_SYMSTATE && stateInclTag g s e.peer)

/-- result of `get_sink_tag_by_rules`: `err` = the statement `target_pos != …` was reached with
`target_pos` unbound (UnboundLocalError; only possible when `resetTargetPos = false`). -/
structure SinkTag where
  tag : Bool
  vuln : Option String
  err : Bool
deriving Repr, Inhabited

/-- part 2 for one target; `st = (target_pos as left by earlier iterations, tag, err)`. -/
def sinkTagTarget (vr : Variant) (g : Graph) (s : PState) (op : String) (used : List Edge)
    (st : Option Int × Bool × Bool) (t : Option String) : Option Int × Bool × Bool :=
  let tp : Option Int :=
    if vr.resetTargetPos then some ((targetPos? t).getD (-1))
    else match targetPos? t with
      | some p => some p
      | none => st.1
  match tp with
  | none => (none, st.2.1, st.2.2 || !used.isEmpty)
  | some p => (some p, st.2.1 || used.any (fun e => posHit op t p e && symWithStatesTag g s e.peer), st.2.2)

/-- `get_sink_tag_by_rules(node)` against the environment `s`. -/
def sinkTag (vr : Variant) (g : Graph) (rs : RuleSet) (s : PState) (n : Nat) : SinkTag :=
  let nd := g.node n
  if nd.kind != K_STMT then { tag := false, vuln := none, err := false }
  else
    let rules := sinkMatching vr g rs n
    let used := (g.inE n).filter (fun e => e.etype == E_USED)
    let r := rules.foldl (fun st r => (targetsOf r).foldl (sinkTagTarget vr g s nd.name used) st)
      ((none : Option Int), false, false)
    let codeHit := rs.sinkCode.any (fun c =>
      (!vr.codeSinkUnit || strIn c.unitPath nd.unitPath) &&
      langOk vr c.lang nd && nd.lineNo + 1 == c.lineNum && strIn c.symbolName nd.operation)
    { tag := r.2.1 || (codeHit && (g.inE n).any (fun e =>
        (!vr.codeSinkSymOnly || g.kindOf e.peer == K_SYMBOL) && symWithStatesTag g s e.peer)),
      vuln := (rules.getLast?).bind (·.vulnType),
      err := r.2.2 }

structure Flow where
  src : Nat
  sink : Nat
  vuln : Option String
deriving Repr, DecidableEq, Inhabited

/-- `find_flows(sources, sinks)` for sources that are nodes (a `None` source makes the real code
raise as soon as there is a sink; the driver reports that case separately). -/
def findFlows (vr : Variant) (g : Graph) (prm : Params) (rs : RuleSet)
    (sources sinks : List Nat) : List Flow :=
  sources.flatMap (fun src =>
    let env := propagate g prm src
    sinks.filterMap (fun snk =>
      let t := sinkTag vr g rs env snk
      if t.tag then some { src := src, sink := snk, vuln := t.vuln } else none))

/-- some pair reaches the unbound `target_pos`. -/
def flowsErr (vr : Variant) (g : Graph) (prm : Params) (rs : RuleSet)
    (sources sinks : List Nat) : Bool :=
  sources.any (fun src =>
    let env := propagate g prm src
    sinks.any (fun snk => (sinkTag vr g rs env snk).err))

/-- what `TaintAnalysis.run` computes for one entry point. -/
def analyze (vr : Variant) (g : Graph) (prm : Params) (rs : RuleSet) : List Flow :=
  findFlows vr g prm rs ((findSources vr g rs).filterMap id) (findSinks vr g rs)

/-- graphs on which the real code cannot raise for reasons the model does not track: consistent
serialisation and every `parameter_decl` statement has a successor. -/
def typed (g : Graph) : Bool :=
  g.wf && (List.range g.size).all (fun n =>
    !(g.kindOf n == K_STMT && (g.node n).name == "parameter_decl") || !(g.outE n).isEmpty)

/-- edge typing assumed by the completeness theorem: SYMBOL_STATE edges lead from a symbol to a
state, SYMBOL_IS_USED edges lead to a statement.  (On an ill-typed graph the real worklist can even
run forever: a SYMBOL_IS_USED edge from a symbol to itself re-enqueues the symbol each time.) -/
def edgeTyped (g : Graph) : Bool :=
  (List.range g.size).all (fun u => (g.outE u).all (fun e =>
    (e.etype != E_SYMSTATE || (g.kindOf u == K_SYMBOL && g.kindOf e.peer == K_STATE)) &&
    (e.etype != E_USED || g.kindOf e.peer == K_STMT)))

/-- node `x` can be the node that is enqueued when the SYMBOL table entry of its id is first set:
a symbol, a STATE_INCLUSION predecessor (the state-id-as-symbol-id quirk), or the target of a
SYMBOL_IS_DEFINED edge -/
def symOwner (g : Graph) (x : Nat) : Bool :=
  g.kindOf x == K_SYMBOL || (g.outE x).any (fun e => e.etype == E_INCL) ||
  (g.inE x).any (fun e => e.etype == E_DEFINED)

end LianVerif.Taint
