/-
Model of `UnitScopeHierarchyAnalysis` (src/lian/basics/scope_hierarchy.py):
`discover_scopes` / `determine_scope` / `correct_scopes` / `summarize_symbol_decls`, and of
`Loader.convert_stmt_id_to_scope_id` + `Resolver.resolve_implicit_root_scopes`.

Input: the flattened GIR rows of ONE unit, in table order (block_start / block_end rows share an id).
Quirks mirrored on purpose:
* `discover_scopes` walks `get_all_stmt_ids()`, i.e. the statement ids in ASCENDING order, not in
  table order, while `all_scope_ids` grows and `determine_scope` memoises.  The statements that
  `add_main_func` moved into `%unit_init` have smaller ids than `%unit_init` itself, so they (and the
  blocks directly under them) are memoised to scope 0 before `%unit_init` becomes a scope.
* `correct_scopes` re-homes *every* `variable_decl` / `parameter_decl` / `class_decl` row lying
  anywhere inside the fields / parameters / nested / init_body block range, but only the *direct*
  `method_decl` children of the methods block.
* the transitive closure of `scope_id_to_available_scope_ids` is the worklist loop of the code,
  which does not expand nodes that are already `visited` (their sets are assumed closed).
* last declaration of a name in a scope wins (dict overwrite in scope-space order).

Names never influence the scope structure except through "is the name present"; the structure
functions therefore work on the name-free `Shape` of a row, which is what makes the renaming
theorems of C05 short.

No imports: this file is linked into the `lvdrv` executable.
-/
namespace LianVerif.Scopes

/-! ### operation classes (config/constants.py), sent by the harness from the live module -/

structure OpTable where
  importOps : List String
  varOps : List String
  caseOps : List String
  paramOps : List String
  exportOps : List String
  methodOps : List String
  forOps : List String
  withOps : List String
  classOps : List String
  nsOps : List String
deriving Repr

/-- the operation classes of `config/constants.py` as they are at the pinned commit and now; the
harness sends the live values with every request and the driver reports whether they still equal
these (theorems about concrete witnesses are stated for these values). -/
def defaultOps : OpTable :=
  { importOps := ["from_export_stmt", "from_import_stmt", "import_stmt"],
    varOps := ["variable_decl"],
    caseOps := ["case_stmt"],
    paramOps := ["parameter_decl"],
    exportOps := ["export_stmt", "from_export_stmt"],
    methodOps := ["method_decl", "method_header"],
    forOps := ["for_stmt", "forin_stmt"],
    withOps := ["with_stmt"],
    classOps := ["class_decl", "enum_decl", "implement_decl", "interface_decl", "record_decl",
                 "struct_decl", "trait_decl", "type_alias_decl", "union_decl"],
    nsOps := ["module_decl", "namespace_decl"] }

def OpTable.same (a b : OpTable) : Bool :=
  a.importOps == b.importOps && a.varOps == b.varOps && a.caseOps == b.caseOps &&
  a.paramOps == b.paramOps && a.exportOps == b.exportOps && a.methodOps == b.methodOps &&
  a.forOps == b.forOps && a.withOps == b.withOps && a.classOps == b.classOps && a.nsOps == b.nsOps

inductive Kind where
  | package | import_ | varDecl | caseAs | paramDecl | export_ | method | for_ | with_
  | class_ | ns | block | other
deriving DecidableEq, Repr

/-- the `if … elif …` chain of `discover_scopes`, in its order. -/
def classify (t : OpTable) (op : String) : Kind :=
  if op == "package_stmt" then .package
  else if t.importOps.contains op then .import_
  else if t.varOps.contains op then .varDecl
  else if t.caseOps.contains op then .caseAs
  else if t.paramOps.contains op then .paramDecl
  else if t.exportOps.contains op then .export_
  else if t.methodOps.contains op then .method
  else if t.forOps.contains op then .for_
  else if t.withOps.contains op then .with_
  else if t.classOps.contains op then .class_
  else if t.nsOps.contains op then .ns
  else if op == "block_start" then .block
  else .other

/-! ### rows -/

/-- the name-free part of a GIR row. `hasName` = `util.is_available(row.name)`. -/
structure Shape where
  op : String
  id : Nat
  parent : Nat
  hasName : Bool
  fields : Option Nat
  methods : Option Nat
  nested : Option Nat
  parameters : Option Nat
  initBody : Option Nat
  body : Option Nat
deriving Repr

/-- a GIR row; `ν` is the type of identifiers. Empty / NaN names are `none`. -/
structure Row (ν : Type) where
  op : String
  id : Nat
  parent : Nat
  name : Option ν
  alias : Option ν
  fields : Option Nat
  methods : Option Nat
  nested : Option Nat
  parameters : Option Nat
  initBody : Option Nat
  body : Option Nat
deriving Repr

def Row.shape {ν : Type} (r : Row ν) : Shape :=
  { op := r.op, id := r.id, parent := r.parent, hasName := r.name.isSome, fields := r.fields,
    methods := r.methods, nested := r.nested, parameters := r.parameters, initBody := r.initBody,
    body := r.body }

def Row.map {ν μ : Type} (σ : ν → μ) (r : Row ν) : Row μ :=
  { op := r.op, id := r.id, parent := r.parent, name := r.name.map σ, alias := r.alias.map σ,
    fields := r.fields, methods := r.methods, nested := r.nested, parameters := r.parameters,
    initBody := r.initBody, body := r.body }

/-! ### scope space -/

/-- `LIAN_SYMBOL_KIND` values used by the scope space. -/
inductive SKind where
  | unit | package | import_ | varDecl | paramDecl | export_ | method | for_ | with_ | class_ | ns | block
deriving DecidableEq, Repr

/-- one `Scope` entry of `ScopeSpace` (name / alias / attrs are read back from the rows). -/
structure ScopeRec where
  stmt : Nat
  scope : Int
  parent : Int
  kind : SKind
deriving Repr, DecidableEq

/-- kinds whose entry declares a symbol in `summarize_symbol_decls`. -/
def SKind.declares : SKind → Bool
  | .import_ | .varDecl | .paramDecl | .class_ | .method | .ns => true
  | _ => false

/-- kinds whose entry is a scope in `summarize_symbol_decls`. -/
def SKind.isScope : SKind → Bool
  | .class_ | .method | .block | .ns | .for_ | .with_ => true
  | _ => false

abbrev Cache := List (Nat × Nat)

def Cache.get (c : Cache) (k : Nat) : Option Nat := (c.find? (fun p => p.1 == k)).map (·.2)

/-- first row carrying the id (`GIRBlockViewer.get_stmt_by_id`: the block_start row for blocks). -/
def rowOf (rows : List Shape) (id : Nat) : Option Shape := rows.find? (fun r => r.id == id)

/-- `determine_scope` with its memo table. `fuel` bounds the parent chain (rows + 1 suffices on
acyclic parent links; the Python recursion does not terminate on a cycle). -/
def determine (rows : List Shape) (all : List Nat) : Nat → Cache → Nat → Nat × Cache
  | 0, c, _ => (0, c)
  | f + 1, c, stmt =>
    if stmt == 0 then (0, c)
    else match c.get stmt with
      | some r => (r, c)
      | none =>
        match rowOf rows stmt with
        | none => (0, c)
        | some row =>
          if all.contains row.id then (row.id, (stmt, row.id) :: c)
          else
            let (r, c') := determine rows all f c row.parent
            (r, (stmt, r) :: c')

structure DState where
  recs : List ScopeRec      -- scope space, in insertion order
  all : List Nat            -- all_scope_ids
  cache : Cache             -- stmt_id_to_scope_id_cache (latest entry first)
deriving Repr

def insertSorted (x : Nat) : List Nat → List Nat
  | [] => [x]
  | y :: ys => if x < y then x :: y :: ys else if x == y then y :: ys else y :: insertSorted x ys

/-- `sorted(set(ids))` -/
def sortedIds (rows : List Shape) : List Nat := rows.foldl (fun acc r => insertSorted r.id acc) []

/-- one iteration of the loop of `discover_scopes`. -/
def discoverStep (t : OpTable) (rows : List Shape) (fuel : Nat) (st : DState) (id : Nat) : DState :=
  match rowOf rows id with
  | none => st
  | some row =>
    let simple (k : SKind) (isScope : Bool) : DState :=
      let (sc, c) := determine rows st.all fuel st.cache row.parent
      { recs := st.recs ++ [{ stmt := id, scope := sc, parent := row.parent, kind := k }],
        all := if isScope then st.all ++ [id] else st.all,
        cache := c }
    match classify t row.op with
    | .package => simple .package false
    | .import_ => simple .import_ false
    | .varDecl => simple .varDecl false
    | .caseAs =>
      if row.hasName then
        match row.body with
        | some b => { st with recs := st.recs ++ [{ stmt := id, scope := b, parent := id, kind := .varDecl }] }
        | none => { st with recs := st.recs ++ [{ stmt := id, scope := -2, parent := id, kind := .varDecl }] }
      else st
    | .paramDecl => simple .paramDecl false
    | .export_ => simple .export_ false
    | .method =>
      -- `method_stmt_ids.add` precedes `determine_scope`, `all_scope_ids.add` follows it
      simple .method true
    | .for_ => simple .for_ true
    | .with_ => simple .with_ true
    | .class_ => simple .class_ true
    | .ns => simple .ns true
    | .block => simple .block true
    | .other =>
      let (sc, c) := determine rows st.all fuel st.cache row.parent
      { st with cache := (id, sc) :: c }

def rootRec : ScopeRec := { stmt := 0, scope := -1, parent := -1, kind := .unit }

def discover (t : OpTable) (rows : List Shape) : DState :=
  (sortedIds rows).foldl (discoverStep t rows (rows.length + 1))
    { recs := [rootRec], all := [0], cache := [] }

/-! ### correct_scopes -/

/-- rows strictly between the `block_start` and the `block_end` row of block `b`
(`read_block`); empty when the block does not exist. -/
def blockRows (rows : List Shape) (b : Nat) : List Shape :=
  let after := (rows.dropWhile (fun r => !(r.id == b && r.op == "block_start"))).drop 1
  if (rows.any (fun r => r.id == b && r.op == "block_start")) &&
     (after.any (fun r => r.id == b && r.op == "block_end")) then
    after.takeWhile (fun r => !(r.id == b && r.op == "block_end"))
  else []

/-- `item = scope_space.find_first_by_id(id); item.scope_id = sc` -/
def setScope (recs : List ScopeRec) (id : Nat) (sc : Nat) : List ScopeRec :=
  match recs with
  | [] => []
  | r :: rs => if r.stmt == id then { r with scope := sc } :: rs else r :: setScope rs id sc

/-- re-home the statements `ids` to scope `sc` (scope entry and memo table). -/
def rehome (st : DState) (ids : List Nat) (sc : Nat) : DState :=
  ids.foldl (fun s id => { s with recs := setScope s.recs id sc, cache := (id, sc) :: s.cache }) st

def idsWithOp (rs : List Shape) (op : String) : List Nat :=
  (rs.filter (fun r => r.op == op)).map (·.id)

/-- `direct = true` is the code as it is now: only the DIRECT `class_decl` children of the nested
block are re-homed (repair of the finding C05/nested-class-in-method-rehomed); `direct = false` is
the pinned commit, which re-homed every `class_decl` row inside the block range. -/
def correctClassG (direct : Bool) (rows : List Shape) (st : DState) (cid : Nat) : DState :=
  match rowOf rows cid with
  | none => st
  | some c =>
    let st1 := match c.fields with
      | some b => rehome st (idsWithOp (blockRows rows b) "variable_decl") cid
      | none => st
    let st2 := match c.methods with
      | some b => rehome st1 (((blockRows rows b).filter (fun r => r.op == "method_decl" && r.parent == b)).map (·.id)) cid
      | none => st1
    match c.nested with
      | some b => rehome st2 (((blockRows rows b).filter (fun r => r.op == "class_decl" && (!direct || r.parent == b))).map (·.id)) cid
      | none => st2

def correctMethod (rows : List Shape) (st : DState) (mid : Nat) : DState :=
  match rowOf rows mid with
  | none => st
  | some m =>
    match m.parameters with
    | some b => rehome st (idsWithOp (blockRows rows b) "parameter_decl") mid
    | none => st

def correctInit (rows : List Shape) (st : DState) (sid : Nat) : DState :=
  match rowOf rows sid with
  | none => st
  | some s =>
    match s.initBody with
    | some b => rehome st (idsWithOp (blockRows rows b) "variable_decl") sid
    | none => st

def stmtsOfKind (st : DState) (k : SKind) : List Nat := (st.recs.filter (fun r => r.kind == k)).map (·.stmt)

/-- `correct_scopes`; the Python iterates `set`s of ids, the model iterates them in ascending order
(= scope-space order). -/
def correctG (direct : Bool) (rows : List Shape) (st : DState) : DState :=
  let classes := stmtsOfKind st .class_
  let methods := stmtsOfKind st .method
  let fors := stmtsOfKind st .for_
  let withs := stmtsOfKind st .with_
  let st1 := classes.foldl (correctClassG direct rows) st
  let st2 := methods.foldl (correctMethod rows) st1
  let st3 := fors.foldl (correctInit rows) st2
  withs.foldl (correctInit rows) st3

/-- the scope space and memo table after `discover_scopes(); correct_scopes()` — code as it is now. -/
def scopeTable (t : OpTable) (rows : List Shape) : DState := correctG true rows (discover t rows)

/-- the same at the pinned commit (frozen; documents the finding). -/
def scopeTable0 (t : OpTable) (rows : List Shape) : DState := correctG false rows (discover t rows)

/-! ### summarize_symbol_decls: the visible-scope table -/

abbrev Avail := List (Nat × List Int)

def Avail.get (a : Avail) (k : Nat) : Option (List Int) := (a.find? (fun p => p.1 == k)).map (·.2)

def Avail.set (a : Avail) (k : Nat) (v : List Int) : Avail :=
  match a with
  | [] => [(k, v)]
  | p :: ps => if p.1 == k then (k, v) :: ps else p :: Avail.set ps k v

def addNew (xs : List Int) (x : Int) : List Int := if xs.contains x then xs else xs ++ [x]

def union (xs ys : List Int) : List Int := ys.foldl addNew xs

/-- `scope_id_to_available_scope_ids[row.stmt_id].add(row.scope_id)` over the scope rows. -/
def initStep (a : Avail) (r : ScopeRec) : Avail :=
  if r.kind.isScope then
    match a.get r.stmt with
    | some v => a.set r.stmt (addNew v r.scope)
    | none => a ++ [(r.stmt, [r.scope])]
  else a

def availInit (recs : List ScopeRec) : Avail := recs.foldl initStep []

/-- `if _id not in visited_set: wl.add(_id)` (`SimpleWorkList.add` skips ids already queued). -/
def pushNew (V : List Nat) (w : List Int) (i : Int) : List Int :=
  if (decide (0 ≤ i) && V.contains i.toNat) || w.contains i then w else w ++ [i]

/-- the inner `while len(wl) != 0` loop for scope `s`; `acc` is `avail[s]`, `wl` the worklist,
`V` the visited set. Returns the final `avail[s]` and whether the fuel sufficed. -/
def expand (A : Avail) (V : List Nat) (s : Nat) : Nat → List Int → List Int → List Int × Bool
  | 0, wl, acc => (acc, wl.isEmpty)
  | _ + 1, [], acc => (acc, true)
  | f + 1, t :: wl, acc =>
    if t ≤ 0 then expand A V s f wl acc
    else
      let cur : Option (List Int) := if t.toNat == s then some acc else A.get t.toNat
      match cur with
      | none => expand A V s f wl acc
      | some at_ =>
        expand A V s f (at_.foldl (pushNew V) wl) (union acc at_)

structure CState where
  avail : Avail
  visited : List Nat
  ok : Bool

def closeStep (fuel : Nat) (st : CState) (s : Nat) : CState :=
  match st.avail.get s with
  | none => st
  | some v =>
    let (acc, ok) := expand st.avail st.visited s fuel v v
    { avail := st.avail.set s acc, visited := st.visited ++ [s], ok := st.ok && ok }

/-- the whole closure loop + `add(scope_id)` + `avail[0] = {0}`.  The Boolean says that no inner
loop ran out of fuel (always true on acyclic scope links). -/
def closure (a : Avail) : Avail × Bool :=
  let fuel := (a.length + 2) * (a.length + 2) + 8
  let st := (a.map (·.1)).foldl (closeStep fuel) { avail := a, visited := [], ok := true }
  let withSelf := st.avail.map (fun p => (p.1, addNew p.2 (p.1 : Int)))
  (Avail.set withSelf 0 [0], st.ok)

/-! ### lookups used by the resolver -/

/-- `Loader.convert_stmt_id_to_scope_id`: memo table first, else the statement's own scope entry. -/
def stmtScope (st : DState) (stmt : Nat) : Int :=
  match st.cache.get stmt with
  | some r => r
  | none =>
    if stmt == 0 then -1
    else match st.recs.find? (fun r => r.stmt == stmt) with
      | some r => r.scope
      | none => -1

/-- `Resolver.resolve_implicit_root_scopes`: block entries whose scope is the unit root. -/
def implicitRoots (recs : List ScopeRec) : List Int :=
  (recs.filter (fun r => r.scope == 0 && r.kind == .block)).map (fun r => (r.stmt : Int))

end LianVerif.Scopes
