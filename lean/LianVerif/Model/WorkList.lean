/-
Model of `SimpleWorkList` (src/lian/common_structs.py), statement by statement, quirks included.

* `work_list` is a Python list.  When `priority_dict` is non-empty every entry is a tuple
  `(priority, item)` inserted with `heapq.heappush` (append, then `_siftdown(heap, 0, len-1)`);
  otherwise items are appended as they are.
* `pop()` is `work_list.pop(0)` — it removes index 0 of the *list* and shifts the rest left; it is
  **not** `heapq.heappop`, so after one `pop()` the list is in general no longer a heap.
* `peek()` reads `work_list[0]`.
* `all_data` is the set of items currently in the list (`add` ignores items that are in it).

`heappop` (what `heapq.heappop` would do) is modelled too; it is used only by the candidate repair
variant of `ReachDef` and by the idealised models, never by the pinned/live variant.

No imports: this file is linked into the `lvdrv` executable.
-/
namespace LianVerif.WorkList

/-- a list entry: `(priority, item)`; Python compares the tuples lexicographically. -/
abbrev Entry := Nat × Int

def Entry.lt (a b : Entry) : Bool := a.1 < b.1 || (a.1 == b.1 && a.2 < b.2)

/-- `heapq._siftdown(heap, 0, pos)` with `newitem` already read from `heap[pos]`.
`fuel` bounds the number of parent hops (`pos` itself is enough). -/
def siftdown (newitem : Entry) : Nat → List Entry → Nat → List Entry
  | 0, heap, pos => heap.set pos newitem
  | fuel + 1, heap, pos =>
    if pos > 0 then
      let parentpos := (pos - 1) / 2
      let parent := heap.getD parentpos newitem
      if Entry.lt newitem parent then
        siftdown newitem fuel (heap.set pos parent) parentpos
      else heap.set pos newitem
    else heap.set pos newitem

/-- `heapq.heappush(heap, e)` -/
def heappush (heap : List Entry) (e : Entry) : List Entry :=
  let h := heap ++ [e]
  siftdown e h.length h (h.length - 1)

/-- `heapq._siftup(heap, pos)`: move the smaller child up until a leaf is hit, then `_siftdown`. -/
def siftupHole (endpos : Nat) : Nat → List Entry → Nat → List Entry × Nat
  | 0, heap, pos => (heap, pos)
  | fuel + 1, heap, pos =>
    let childpos := 2 * pos + 1
    if childpos < endpos then
      let rightpos := childpos + 1
      let c :=
        if rightpos < endpos &&
            !(Entry.lt (heap.getD childpos (0, 0)) (heap.getD rightpos (0, 0))) then rightpos
        else childpos
      siftupHole endpos fuel (heap.set pos (heap.getD c (0, 0))) c
    else (heap, pos)

/-- `heapq.heappop(heap)`: returns the remaining heap (the popped element is the old index 0). -/
def heappop (heap : List Entry) : List Entry :=
  match heap.getLast? with
  | none => []
  | some last =>
    let rest := heap.dropLast
    match rest with
    | [] => []
    | _ :: _ =>
      let (h, pos) := siftupHole rest.length rest.length rest 0
      -- `_siftup` ends with `heap[pos] = newitem; _siftdown(heap, startpos, pos)`
      siftdown last rest.length (h.set pos last) pos

structure WL where
  /-- `work_list` -/
  heap : List Entry
  /-- `all_data` -/
  all : List Int
deriving Repr

def WL.empty : WL := { heap := [], all := [] }

/-- `priority_dict.get(item, 0)` -/
def prioOf (prio : List (Int × Nat)) (item : Int) : Nat :=
  match prio.lookup item with
  | some p => p
  | none => 0

/-- `_add_with_priority` behind the `item not in all_data` test of `add`. -/
def WL.add1 (prio : List (Int × Nat)) (w : WL) (item : Int) : WL :=
  if w.all.contains item then w
  else if prio.isEmpty then { heap := w.heap ++ [(0, item)], all := item :: w.all }
  else { heap := heappush w.heap (prioOf prio item, item), all := item :: w.all }

/-- `add(data)` for an iterable. -/
def WL.add (prio : List (Int × Nat)) (w : WL) (items : List Int) : WL :=
  items.foldl (WL.add1 prio) w

/-- `peek()` -/
def WL.peek (w : WL) : Option Int :=
  match w.heap with
  | [] => none
  | e :: _ => some e.2

/-- `pop()` as it is in the code: `work_list.pop(0)`; the removed item leaves `all_data`. -/
def WL.pop0 (w : WL) : WL :=
  match w.heap with
  | [] => w
  | e :: rest => { heap := rest, all := w.all.filter (fun x => x != e.2) }

/-- what `pop()` would be with `heapq.heappop` (candidate repair; not the code). -/
def WL.popMin (w : WL) : WL :=
  match w.heap with
  | [] => w
  | e :: _ => { heap := heappop w.heap, all := w.all.filter (fun x => x != e.2) }

end LianVerif.WorkList
