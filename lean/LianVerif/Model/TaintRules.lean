/-
Model of the rule side of the taint phase: `Rule` / `SourceCodeRule` (taint/rule_manager.py) and the
matchers of `TaintRuleApplier` plus `TaintAnalysis.find_sources` / `find_sinks`
(taint/taint_analysis.py), statement by statement, quirks included:

* `apply_parameter_source_rules` accepts a rule of ANY operation whose name equals the parameter
  name as long as the rule has no `attr`; it never compares `unit_path`.
* `apply_field_read_source_rules` ignored `unit_*` and `line_num` at the pinned commit.
* `apply_object_call_stmt_source_rules` / `should_apply_object_call_stmt_sink_rules` never look at
  `rule.operation`; the sink variant looks the receiver up at `pos = -1`.
* `should_apply_call_stmt_sink_rules` never compares `unit_path`.
* part 1 of `get_sink_tag_by_rules` re-matches the sink rules with different logic (no unit / line
  filters, callee looked up at `pos = -1`, hence normally `rule.name == stmt.name`), has no branch
  for `record_write`, and for `field_write` uses a substring test on the printed GIR.
* `apply_propagation_rules`: the loop over the propagation rules is dead code (see `propagates`).

`Variant` selects between the code as pinned (`pinned`) and as it is in the repo now (`current`):
  callSrcPos      — `pos` passed by `apply_call_stmt_source_rules` (pinned: default -1; fixed: 0)
  checkLang       — whether `rule.lang` is compared with the unit's language (pinned: never)
  resetTargetPos  — whether `target_pos` is re-initialised per target (pinned: stale / unbound)
  codeSinkUnit    — whether the `sink_from_code` rules consulted by `get_sink_tag_by_rules` compare
                    `unit_path` (pinned: line and symbol text only)
  sinkTagLoc      — whether part 1 of `get_sink_tag_by_rules` applies the unit / line restrictions of
                    the sink rules, as the `find_sinks` matchers do (pinned: by name only)
  fieldReadLoc    — whether `apply_field_read_source_rules` applies the unit / line restrictions
                    (pinned: access path only)
  codeSinkSymOnly — whether the `sink_from_code` branch of `get_sink_tag_by_rules` consults SYMBOL
                    predecessors only (pinned: every predecessor, so the state id of a literal
                    operand — a STATE_IS_USED predecessor — was looked up in the SYMBOL table)

No imports outside LianVerif.Model: linked into `lvdrv`.
-/
import LianVerif.Model.Sfg

namespace LianVerif.TaintRules
open LianVerif.Sfg

def ANY_LANG : String := "%"
def KW_ARG0 : String := "\\%arg0"
def KW_ARG1 : String := "\\%arg1"
def KW_ARG2 : String := "\\%arg2"
def KW_ARG3 : String := "\\%arg3"
def KW_ARG4 : String := "\\%arg4"
def KW_TARGET : String := "\\%target"
def KW_RECEIVER : String := "\\%receiver"
def KW_ANYNAME : String := "\\%anyname"

/-- `rule.target` as YAML delivers it: absent, a scalar, or a list. -/
inductive RTarget where
  | none
  | str (s : String)
  | list (l : List (Option String))
deriving Repr, Inhabited

structure Rule where
  lang : String := ANY_LANG
  name : Option String := none
  operation : Option String := none
  target : RTarget := .none
  attr : Option String := none
  unitPath : Option String := none
  unitName : Option String := none
  lineNum : Option Int := none
  key : Option String := none
  vulnType : Option String := none
deriving Repr, Inhabited

structure CodeRule where
  unitPath : String
  lineNum : Int
  symbolName : String
  lang : String := ANY_LANG
deriving Repr, Inhabited

structure RuleSet where
  sources : List Rule := []
  sinks : List Rule := []
  srcCode : List CodeRule := []
  sinkCode : List CodeRule := []
deriving Repr, Inhabited

structure Variant where
  callSrcPos : Int
  checkLang : Bool
  resetTargetPos : Bool
  codeSinkUnit : Bool
  sinkTagLoc : Bool
  fieldReadLoc : Bool
  codeSinkSymOnly : Bool
deriving Repr, Inhabited

/-- the pinned commit (frozen; documents the findings). -/
def pinned : Variant :=
  { callSrcPos := -1, checkLang := false, resetTargetPos := false, codeSinkUnit := false,
    sinkTagLoc := false, fieldReadLoc := false, codeSinkSymOnly := false }
/-- the code as it is in the repo now (after the `fix:` commits). -/
def current : Variant :=
  { callSrcPos := 0, checkLang := true, resetTargetPos := true, codeSinkUnit := true,
    sinkTagLoc := true, fieldReadLoc := true, codeSinkSymOnly := true }

/-- extracted from the live code: the literal list in `apply_propagation_rules`. -/
structure Params where
  propOps : List String
  /-- `_propagate_from_state` writes into the SYMBOL table only for SYMBOL predecessors (the repair
  of the state-id-as-symbol-id collision); `false` = the code before the repair, which also wrote
  the id of a containing STATE (STATE_INCLUSION predecessor) into the SYMBOL table -/
  stateUpSymOnly : Bool := true
deriving Repr, Inhabited

/-- Python truthiness of an optional string attribute (`None` and `""` are falsy). -/
def truthy (o : Option String) : Bool :=
  match o with
  | some s => s != ""
  | none => false

/-- the language filter added by the repair: a rule applies when it names no language, the
any-language marker, or the language of the unit that contains the statement. -/
def langOk (vr : Variant) (lang : String) (nd : Node) : Bool :=
  !vr.checkLang || lang == "" || lang == ANY_LANG || lang == nd.unitLang

def failUnitPath (r : Rule) (nd : Node) : Bool := truthy r.unitPath && r.unitPath != some nd.unitPath
def failUnitName (r : Rule) (nd : Node) : Bool :=
  truthy r.unitName && r.unitName != some (basename nd.unitPath)
def failLine (r : Rule) (line : Int) : Bool :=
  match r.lineNum with
  | some l => l != 0 && l != line
  | none => false

/-- `apply_parameter_source_rules`.  (`list(successors(node))[0]` raises on a parameter_decl node
without successor; such graphs are outside the modelled fragment, see `typed` in Model/Taint.) -/
def paramSource (vr : Variant) (g : Graph) (rs : RuleSet) (n : Nat) : Bool :=
  match (g.outE n).head? with
  | none => false
  | some e0 =>
    let pname := (g.node e0.peer).name
    let nd := g.node n
    rs.sources.any (fun r =>
      langOk vr r.lang nd && !failUnitName r nd && !failLine r (nd.startRow + 1) &&
      ((!truthy r.attr && r.name == some pname) ||
       (r.operation == some "parameter_decl" && r.name == some pname)))

/-- `apply_field_read_source_rules`. -/
def fieldReadSource (vr : Variant) (g : Graph) (rs : RuleSet) (n : Nat) : Bool :=
  let d := defSym g n
  let sts := defStates g d
  if d.isNone || sts.isEmpty then false
  else
    let nd := g.node n
    rs.sources.any (fun r =>
      langOk vr r.lang nd && r.operation == some "field_read" &&
      (!vr.fieldReadLoc ||
        (!failUnitPath r nd && !failUnitName r nd && !failLine r (nd.lineNo + 1))) &&
      sts.any (fun s => some (apFmtDrop (g.node s).ap) == r.name))

/-- `apply_call_stmt_source_rules` (the tag bookkeeping it does goes to a `TaintEnv` that
`find_flows` replaces before any propagation, so only the Boolean result matters). -/
def callSource (vr : Variant) (g : Graph) (rs : RuleSet) (n : Nat) : Bool :=
  let (ms, mstates) := usedByPos g n vr.callSrcPos
  match ms, defSym g n with
  | some m, some _ =>
    let nd := g.node n
    rs.sources.any (fun r =>
      langOk vr r.lang nd && !failUnitPath r nd && !failUnitName r nd && !failLine r (nd.lineNo + 1) &&
      r.operation == some "call_stmt" &&
      mstates.any (fun s =>
        let ap := apFmtDrop (g.node s).ap
        let ap := if ap == "" then (g.node m).name else ap
        some ap == r.name))
  | _, _ => false

/-- the `names` list of the two object-call matchers. -/
def objCallNames (g : Graph) (n : Nat) (pos : Int) (withInit : Bool) : List String :=
  let nd := g.node n
  let (_, ms) := usedByPos g n pos
  ms.map (fun s => apFmtAll (g.node s).ap ++ "." ++ nd.sField) ++
    [nd.sReceiver ++ "." ++ nd.sField] ++
    (if withInit && nd.sField == "__init__" then ["__init__"] else [])

def nameIn (o : Option String) (names : List String) : Bool :=
  match o with
  | some x => names.contains x
  | none => false

/-- `apply_object_call_stmt_source_rules`. -/
def objCallSource (vr : Variant) (g : Graph) (rs : RuleSet) (n : Nat) : Bool :=
  let nd := g.node n
  nd.kind == K_STMT && nd.name == "object_call_stmt" &&
  rs.sources.any (fun r =>
    langOk vr r.lang nd && !failUnitPath r nd && !failUnitName r nd && !failLine r (nd.lineNo + 1) &&
    nameIn r.name (objCallNames g n 0 false))

/-- `should_apply_object_call_stmt_sink_rules` (receiver looked up at the default `pos = -1`). -/
def objCallSink (vr : Variant) (g : Graph) (rs : RuleSet) (n : Nat) : Bool :=
  let nd := g.node n
  nd.kind == K_STMT && nd.name == "object_call_stmt" &&
  rs.sinks.any (fun r =>
    langOk vr r.lang nd && !failUnitPath r nd && !failUnitName r nd && !failLine r (nd.lineNo + 1) &&
    nameIn r.name (objCallNames g n (-1) true))

/-- `check_method_name`: the dotted rule name must be a suffix of the access path, `\%anyname`
matching any key. -/
def checkMethodName (ruleName : String) (ap : List APKey) : Bool :=
  let parts := (splitOnChar ruleName '.').reverse
  if ap.length < parts.length then false
  else (parts.zip ap.reverse).all (fun pk => pk.1 == KW_ANYNAME || (pk.2.isStr && pk.1 == pk.2.text))

/-- `should_apply_call_stmt_sink_rules`. -/
def callSink (vr : Variant) (g : Graph) (rs : RuleSet) (n : Nat) : Bool :=
  let nd := g.node n
  nd.kind == K_STMT && nd.name == "call_stmt" &&
  (let (_, ms) := usedByPos g n 0
   rs.sinks.any (fun r =>
    langOk vr r.lang nd && r.operation == some "call_stmt" && !failUnitName r nd &&
    !failLine r (nd.lineNo + 1) &&
    ms.any (fun s => checkMethodName (r.name.getD "") (g.node s).ap)))

/-- `apply_rules_from_code`. -/
def codeMatch (vr : Variant) (nd : Node) (rules : List CodeRule) : Bool :=
  rules.any (fun r =>
    langOk vr r.lang nd && strIn r.unitPath nd.unitPath && nd.lineNo + 1 == r.lineNum &&
    strIn r.symbolName nd.operation)

/-- `apply_record_write_sink_rules`. -/
def recordSink (vr : Variant) (g : Graph) (rs : RuleSet) (n : Nat) : Bool :=
  let nd := g.node n
  nd.kind == K_STMT && nd.name == "record_write" &&
  rs.sinks.any (fun r =>
    langOk vr r.lang nd && r.operation == some "record_write" && !failUnitPath r nd &&
    !failUnitName r nd && !failLine r (nd.lineNo + 1) && truthy r.key && r.key == some nd.sKey)

/-- `apply_field_write_sink_rules` (substring test on the printed GIR of the statement). -/
def fieldSink (vr : Variant) (g : Graph) (rs : RuleSet) (n : Nat) : Bool :=
  let nd := g.node n
  nd.kind == K_STMT && nd.name == "field_write" &&
  rs.sinks.any (fun r =>
    langOk vr r.lang nd && r.operation == some "field_write" && !failUnitPath r nd &&
    !failUnitName r nd && !failLine r (nd.lineNo + 1) &&
    (match r.name with
     | some x => x != "" && strIn x nd.operation
     | none => false))

/-- `apply_propagation_rules`.  After the membership test the real function loops over the
propagation rules whose operation equals the statement's, but the loop body has only two branches,
guarded by `operation == "field_read"` and `operation == "call_stmt"`; both operations are members
of the literal list and have already returned True, so the loop can never return True.  The driver
refuses parameter sets in which either of the two is missing from `propOps`. -/
def propagates (prm : Params) (op : String) : Bool := prm.propOps.contains op

def paramsOk (prm : Params) : Bool := prm.propOps.contains "field_read" && prm.propOps.contains "call_stmt"

/-- the element `find_sources` appends for a statement node (`none` = not a source; `some none` =
source whose statement defines no symbol: the code appends `None`). -/
def sourceOf (vr : Variant) (g : Graph) (rs : RuleSet) (n : Nat) : Option (Option Nat) :=
  let nd := g.node n
  if nd.kind != K_STMT then none
  else if nd.name == "call_stmt" && callSource vr g rs n then some (defSym g n)
  else if nd.name == "object_call_stmt" && objCallSource vr g rs n then some (defSym g n)
  else if nd.name == "parameter_decl" && paramSource vr g rs n then some (defSym g n)
  else if nd.name == "field_read" && fieldReadSource vr g rs n then some (defSym g n)
  else if codeMatch vr nd rs.srcCode then some (defSym g n)
  else none

/-- `find_sources`: in `sfg.nodes` order. -/
def findSources (vr : Variant) (g : Graph) (rs : RuleSet) : List (Option Nat) :=
  (List.range g.size).filterMap (sourceOf vr g rs)

def isSink (vr : Variant) (g : Graph) (rs : RuleSet) (n : Nat) : Bool :=
  callSink vr g rs n || objCallSink vr g rs n || recordSink vr g rs n || fieldSink vr g rs n ||
  codeMatch vr (g.node n) rs.sinkCode

/-- `find_sinks`: in `sfg.nodes` order, nodes of every kind are offered to the matchers. -/
def findSinks (vr : Variant) (g : Graph) (rs : RuleSet) : List Nat :=
  (List.range g.size).filter (isSink vr g rs)

/-! ### part 1 of `get_sink_tag_by_rules`: which sink rules are consulted for a sink statement -/

def sinkMatching (vr : Variant) (g : Graph) (rs : RuleSet) (n : Nat) : List Rule :=
  let nd := g.node n
  let op := nd.name
  if op == "call_stmt" then
    let (_, ms) := usedByPos g n (-1)
    rs.sinks.filter (fun r =>
      langOk vr r.lang nd && r.operation == some "call_stmt" &&
      (!vr.sinkTagLoc || (!failUnitName r nd && !failLine r (nd.lineNo + 1))) &&
      (if ms.isEmpty then r.name == some nd.sName
       else ms.any (fun s => checkMethodName (r.name.getD "") (g.node s).ap)))
  else if op == "object_call_stmt" then
    let (_, ms) := usedByPos g n (-1)
    let name : Option String :=
      match ms with
      | [] => none
      | s :: _ => some (apFmtAll (g.node s).ap ++ "." ++ nd.sField)
    let name1 := nd.sReceiver ++ "." ++ nd.sField
    rs.sinks.filter (fun r =>
      langOk vr r.lang nd &&
      (!vr.sinkTagLoc ||
        (!failUnitPath r nd && !failUnitName r nd && !failLine r (nd.lineNo + 1))) &&
      (r.name == name || r.name == some name1 || r.name == some nd.sField))
  else if op == "field_write" then
    rs.sinks.filter (fun r =>
      langOk vr r.lang nd && r.operation == some "field_write" &&
      (!vr.sinkTagLoc ||
        (!failUnitPath r nd && !failUnitName r nd && !failLine r (nd.lineNo + 1))) &&
      (match r.name with
       | some x => strIn x nd.operation
       | none => false))
  else []

/-- `targets = rule.target if isinstance(rule.target, list) else [rule.target]`. -/
def targetsOf (r : Rule) : List (Option String) :=
  match r.target with
  | .list l => l
  | .str s => [some s]
  | .none => [none]

/-- the `if / elif` chain over the TAG keywords; `none` = no branch taken. -/
def targetPos? (t : Option String) : Option Int :=
  if t == some KW_ARG0 then some 1
  else if t == some KW_ARG1 then some 2
  else if t == some KW_ARG2 then some 3
  else if t == some KW_ARG3 then some 4
  else if t == some KW_ARG4 then some 5
  else if t == some KW_RECEIVER || t == some KW_TARGET then some 0
  else none

/-- the innermost condition of part 2 for one SYMBOL_IS_USED in-edge. -/
def posHit (op : String) (t : Option String) (tp : Int) (e : Edge) : Bool :=
  let wp := if op == "object_call_stmt" && tp != 0 then e.pos - 1 else e.pos
  (tp != -1 && wp == tp) || t == some KW_TARGET || !truthy t

/-- rule sets on which the real matchers cannot raise: call_stmt and field_write sink rules have a
name (`rule.name.split('.')`, `rule.name in node.operation`). -/
def rulesWf (rs : RuleSet) : Bool :=
  rs.sinks.all (fun r =>
    !(r.operation == some "call_stmt" || r.operation == some "field_write") || r.name.isSome)

end LianVerif.TaintRules
