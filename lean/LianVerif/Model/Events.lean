/-
Model of the event plugin mechanism (src/lian/events/event_return.py, event_manager.py,
handler_template.py): the flag algebra, `EventManager.register` / `register_list` / `add_handler`
on the per-event handler table, and `EventManager.notify`.

Mirrors the Python statement by statement, quirks included:

* `sync_event_return(None, g)` returns `g` unchanged; any non-zero return sets SUCCESS (bit 1) and
  only bits 2, 4, 8 are copied (bit 16 and above are dropped);
* `notify` tests the *accumulated* value for STOP_OTHER_EVENT_HANDLERS, and tests the handler's own
  return with `current != UNPROCESSED` — for a handler that returned `None` this is `None != 0`,
  i.e. true, so its `out_data` is forwarded although no flag is set;
* `data.out_data = data.in_data` is executed before the event is looked up, so it also happens for
  unknown events, and a handler that does not assign `out_data` forwards what the previous handler
  left;
* when the loop stops because of blocking, `data.in_data` is *not* advanced;
* `register` ignores events that are not keys of `event_handlers`, wraps a `str` into a one-element
  list, turns a `set` into a list, and stores every other container as it is.

Handler contract assumed by the model (it is what every handler in the tree does): a handler reads
`data.in_data` / `data.out_data`, may assign `data.out_data`, returns `None` or a non-negative
`int`, does not assign `data.in_data`, does not raise and does not re-enter the event manager.
Such a handler is a function `(in_data seen, out_data seen) ↦ (return value, out_data left)`.

No imports: this file is linked into the `lvdrv` executable.
-/
namespace LianVerif.Events

/-! ### event_return.py -/

def UNPROCESSED : Nat := 0
def SUCCESS : Nat := 1
def STOP_OTHER_EVENT_HANDLERS : Nat := 2
def STOP_REQUESTERS : Nat := 4
def INTERRUPTION_CALL : Nat := 8

/-- `is_event_successfully_processed(r)` for an `int` argument: `r != UNPROCESSED`. -/
def isProcessed (r : Nat) : Bool := r != UNPROCESSED

/-- truthiness of `should_block_other_event_handlers(r)` = `r & 2`. -/
def blocksOthers (r : Nat) : Bool := r &&& STOP_OTHER_EVENT_HANDLERS != 0

/-- truthiness of `should_block_event_requester(r)` = `r & 4`. -/
def blocksRequester (r : Nat) : Bool := r &&& STOP_REQUESTERS != 0

/-- truthiness of `should_interrupt_call(r)` = `r & 8`. -/
def interruptsCall (r : Nat) : Bool := r &&& INTERRUPTION_CALL != 0

/-- `sync_event_return(local, global)`; `none` is Python's `None`. -/
def sync (loc : Option Nat) (glob : Nat) : Nat :=
  match loc with
  | none => glob
  | some l =>
    let g1 := if isProcessed l then glob ||| SUCCESS else glob
    let g2 := if blocksOthers l then g1 ||| STOP_OTHER_EVENT_HANDLERS else g1
    let g3 := if blocksRequester l then g2 ||| STOP_REQUESTERS else g2
    let g4 := if interruptsCall l then g3 ||| INTERRUPTION_CALL else g3
    g4

/-- `is_event_successfully_processed(current_return)` as `notify` calls it, i.e. on the raw handler
return: `None != 0` is `True`. -/
def processedRet : Option Nat → Bool
  | none => true
  | some r => isProcessed r

/-! ### handlers, registrations, the table -/

/-- One element of a per-event list: `(langs, handler)`; the handler is identified by a number. -/
structure Reg (L : Type) where
  langs : List L
  h : Nat
deriving Repr, DecidableEq

/-- A handler call as observed from outside: which handler, the `in_data` / `out_data` it found,
what it returned and the `out_data` it left. -/
structure Entry (D : Type) where
  h : Nat
  inSeen : D
  outSeen : D
  ret : Option Nat
  outLeft : D
deriving Repr, DecidableEq

/-- Behaviour of the handlers: handler number, `in_data` seen, `out_data` seen ↦ return value and
`out_data` left (equal to the `out_data` seen when the handler does not assign it). -/
abbrev Beh (D : Type) := Nat → D → D → Option Nat × D

/-- What `notify` leaves behind: the returned flags, `data.in_data`, `data.out_data`, and the
handler calls in the order they happened. -/
structure Result (D : Type) where
  flags : Nat
  inD : D
  outD : D
  trace : List (Entry D)
deriving Repr, DecidableEq

variable {L D E : Type} [DecidableEq L] [DecidableEq E]

/-- `data.lang in langs or config.ANY_LANG in langs` -/
def matchesLang (anyL lang : L) (r : Reg L) : Bool := r.langs.contains lang || r.langs.contains anyL

/-- the `for langs, handler in all_handlers:` loop of `notify`; `acc` is `event_return`, `i` / `o`
are `data.in_data` / `data.out_data`. -/
def loop (anyL lang : L) (beh : Beh D) : List (Reg L) → Nat → D → D → Result D
  | [], acc, i, o => { flags := acc, inD := i, outD := o, trace := [] }
  | r :: rs, acc, i, o =>
    if matchesLang anyL lang r then
      let cur := beh r.h i o                      -- current_return = handler(data)
      let acc' := sync cur.1 acc                  -- event_return = sync_event_return(current, event_return)
      let e : Entry D := { h := r.h, inSeen := i, outSeen := o, ret := cur.1, outLeft := cur.2 }
      if blocksOthers acc' then                   -- should_block_other_event_handlers(event_return)
        { flags := acc', inD := i, outD := cur.2, trace := [e] }
      else
        let i' := if processedRet cur.1 then cur.2 else i   -- data.in_data = data.out_data
        let res := loop anyL lang beh rs acc' i' cur.2
        { res with trace := e :: res.trace }
    else loop anyL lang beh rs acc i o

/-- `EventManager.notify` given the result of `self.event_handlers.get(data.event, None)`. -/
def notifyList (anyL lang : L) (beh : Beh D) (all : Option (List (Reg L))) (d : D) : Result D :=
  match all with
  | none => { flags := UNPROCESSED, inD := d, outD := d, trace := [] }
  | some rs => loop anyL lang beh rs UNPROCESSED d d

/-- `self.event_handlers`: a dict from event kind to the list of registrations, as an association
list (lookup and update act on the first entry with the key, like a dict with unique keys). -/
abbrev Table (E L : Type) := List (E × List (Reg L))

def Table.get : Table E L → E → Option (List (Reg L))
  | [], _ => none
  | (k, v) :: t, e => if k = e then some v else Table.get t e

/-- the table right after `self.event_handlers = {…}` in `__init__`: every known event kind maps to
an empty list -/
def emptyTable (keys : List E) : Table E L := keys.map (fun k => (k, []))

/-- `self.event_handlers[event].append((langs, func))` -/
def Table.append : Table E L → E → Reg L → Table E L
  | [], _, _ => []
  | (k, v) :: t, e, r => if k = e then (k, v ++ [r]) :: t else (k, v) :: Table.append t e r

/-- the `langs` argument of `register` as the caller wrote it -/
inductive LangArg (L : Type) where
  | str (s : L)             -- a single `str`
  | set (l : List L)        -- a `set`, given as the list `list(langs)` produces
  | other (l : List L)      -- a list / tuple, stored as it is
deriving Repr

def normLangs : LangArg L → List L
  | .str s => [s]
  | .set l => l
  | .other l => l

/-- `EventManager.register(event, handler, langs)`; the boolean says whether the "Unknown event"
warning was printed. -/
def register (t : Table E L) (e : E) (h : Nat) (la : LangArg L) : Table E L × Bool :=
  match t.get e with
  | none => (t, true)
  | some _ => (t.append e { langs := normLangs la, h := h }, false)

/-- `register_list` -/
def registerList (t : Table E L) : List (E × Nat × LangArg L) → Table E L
  | [] => t
  | (e, h, la) :: rest => registerList (register t e h la).1 rest

/-- `EventManager.notify(data)` on a table -/
def notify (anyL : L) (beh : Beh D) (t : Table E L) (e : E) (lang : L) (d : D) : Result D :=
  notifyList anyL lang beh (t.get e) d

/-! ### histories (what the driver runs) -/

inductive Op (E L D : Type) where
  | reg (e : E) (h : Nat) (la : LangArg L)
  | notify (e : E) (lang : L) (d : D)

inductive Out (D : Type) where
  | reg (warned : Bool)
  | notify (r : Result D)

def runOps (anyL : L) (beh : Beh D) : Table E L → List (Op E L D) → Table E L × List (Out D)
  | t, [] => (t, [])
  | t, .reg e h la :: ops =>
    let (t', w) := register t e h la
    let (tf, outs) := runOps anyL beh t' ops
    (tf, .reg w :: outs)
  | t, .notify e lang d :: ops =>
    let r := notify anyL beh t e lang d
    let (tf, outs) := runOps anyL beh t ops
    (tf, .notify r :: outs)

end LianVerif.Events
