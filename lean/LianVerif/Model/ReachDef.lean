/-
Model of the reaching-definitions part of `analyze_stmts` / `analyze_reachable_symbols`
(src/lian/core/prelim_semantics.py, inherited unchanged by P3 in global_semantics.py), on a CFG given
as the ordered edge list of `semantic_p1/cfg.bundle*`.

What is mirrored (statement by statement; see NOTES-C06.md for the reading):

* graph: `CFGLoader.unflatten_item_dataframe_when_loading` rebuilds a `networkx.MultiDiGraph` with
  `ControlFlowGraph.add_edge` → `_add_one_edge` (self loops and negative sources dropped, duplicate
  edges dropped); node / successor / predecessor order = insertion order.
* `SimpleWorkList(graph = cfg)`: entry node = smallest node of in-degree 0 (`if entry_node:` — `0`
  is falsy), `priority_dict` = index in `reversed(nx.dfs_postorder_nodes(cfg, entry))` (networkx's
  iterative DFS: children in adjacency order), then `add(find_cfg_first_nodes(cfg))`.
* `analyze_stmts`: `peek`; drop ids `<= 0` or without a counter; if `counter < max_analysis_round`
  push the CFG successors (**before** analysing), else drop; `analyze_reachable_symbols`;
  `pop()` (= `work_list.pop(0)`, whatever is at index 0 *now*); `counter += 1`.
  `loop_total_rounds` is never written anywhere in lian, so that branch is dead and not modelled.
* `analyze_reachable_symbols` (GLOBAL_SEMANTICS phase: no early return): in = ∪ out of the selected
  predecessors; for loop statements the selection reads `util.get_graph_edge_weight`, which on the
  loaded `MultiDiGraph` returns `None` for every edge (`get_edge_data` is keyed by edge key there):
  parameter `weightWorks = false` reproduces that (round 0: all predecessors, later rounds: none);
  `weightWorks = true` is the behaviour the code was written for (round 0: non-`LOOP_BACK`
  predecessors, later: only `LOOP_BACK` ones).  The value is *extracted* by probing the live function.
* gen/kill: for every defined symbol of the statement, in order: `if key in current_bits: continue`
  (the kill is **skipped** when the statement's own definition already arrived — counted in `skips`),
  else kill every definition of that symbol id and gen `(symbol_id, stmt_id)`.

Not modelled (the harness only compares methods where these do not occur and says how many were
skipped): interruption by unresolved callees, `implicitly_defined_symbols` added by the state
computation (`rerun_analyze_reachable_symbols`), the PRELIM phase's unchanged-in-set shortcut.

Variants: `pinned` is the code at the pinned commit (and, no repair having been committed, the code
as it is now); `r1` is the candidate repair that was tried and rejected (remove the analysed
statement with `heappop` *before* pushing its successors); see NOTES-C06.md.

The idealised solvers `sweep` / `ideal` (all predecessors, kill always, round-robin to a checked
fixpoint) are what the theorems `C06_dag_exact` / `C06_sound` are about and what the model-predicted
matcher uses as "repaired model".

No imports outside `LianVerif.Model.*`: this file is linked into the `lvdrv` executable.
-/
import LianVerif.Model.WorkList

namespace LianVerif.ReachDef
open LianVerif.WorkList

/-- a definition: `(symbol_id, stmt_id)` (`SymbolDefNode` without the space index). -/
abbrev Def := Int × Int

/-! ### graph -/

/-- `_add_one_edge` over the bundle rows: drop self loops, negative sources and duplicates. -/
def cleanEdges : List (Int × Int) → List (Int × Int) → List (Int × Int)
  | acc, [] => acc
  | acc, (u, v) :: es =>
    if u == v || u < 0 || acc.contains (u, v) then cleanEdges acc es
    else cleanEdges (acc ++ [(u, v)]) es

/-- nodes in networkx insertion order -/
def nodesOf : List Int → List (Int × Int) → List Int
  | acc, [] => acc
  | acc, (u, v) :: es =>
    let acc1 := if acc.contains u then acc else acc ++ [u]
    let acc2 := if acc1.contains v then acc1 else acc1 ++ [v]
    nodesOf acc2 es

def succs (E : List (Int × Int)) (u : Int) : List Int := (E.filter (fun e => e.1 == u)).map (·.2)
def preds (E : List (Int × Int)) (v : Int) : List Int := (E.filter (fun e => e.2 == v)).map (·.1)

/-- networkx `dfs_postorder_nodes`, iterative, already reversed: the result is
`list(reversed(list(nx.dfs_postorder_nodes(G, source))))` once the stack is empty. -/
def dfsRPO (E : List (Int × Int)) : Nat → List (Int × List Int) → List Int → List Int → List Int × List Int
  | 0, _, vis, post => (post, vis)
  | _ + 1, [], vis, post => (post, vis)
  | fuel + 1, (p, []) :: rest, vis, post => dfsRPO E fuel rest vis (p :: post)
  | fuel + 1, (p, c :: cs) :: rest, vis, post =>
    if vis.contains c then dfsRPO E fuel ((p, cs) :: rest) vis post
    else dfsRPO E fuel ((c, succs E c) :: (p, cs) :: rest) (c :: vis) post

def dfsFuel (E : List (Int × Int)) (nodes : List Int) : Nat := 2 * (E.length + nodes.length) + 2

def minOf : List Int → Option Int
  | [] => none
  | x :: xs => match minOf xs with
    | none => some x
    | some m => some (if x < m then x else m)

def enumFrom : Nat → List Int → List (Int × Nat)
  | _, [] => []
  | i, x :: xs => (x, i) :: enumFrom (i + 1) xs

structure Graph where
  E : List (Int × Int)
  nodes : List Int
  /-- `find_cfg_first_nodes`: in-degree 0, node order -/
  first : List Int
  /-- `priority_dict` as an association list (empty = list mode) -/
  prio : List (Int × Nat)
deriving Repr

def mkGraph (rawEdges : List (Int × Int)) : Graph :=
  let E := cleanEdges [] rawEdges
  let nodes := nodesOf [] E
  let first := nodes.filter (fun n => (preds E n).isEmpty)
  let prio :=
    match minOf first with
    | none => []
    | some entry =>
      if entry == 0 then []
      else enumFrom 0 (dfsRPO E (dfsFuel E nodes) [(entry, succs E entry)] [entry] []).1
  { E := E, nodes := nodes, first := first, prio := prio }

/-! ### sets of definitions (lists, duplicate-free by construction) -/

def union (a b : List Def) : List Def := b.foldl (fun acc d => if acc.contains d then acc else acc ++ [d]) a

def unionAll (f : Int → List Def) (ps : List Int) : List Def := ps.foldl (fun acc p => union acc (f p)) []

def upd {β : Type} (f : Int → β) (k : Int) (v : β) : Int → β := fun x => if x == k then v else f x

/-- gen/kill of `analyze_reachable_symbols` for the defined symbols `syms` of statement `s`;
second component: how often the `if key in current_bits: continue` shortcut was taken. -/
def transfer (s : Int) : List Int → List Def → List Def × Nat
  | [], cur => (cur, 0)
  | sym :: rest, cur =>
    if cur.contains (sym, s) then
      let r := transfer s rest cur
      (r.1, r.2 + 1)
    else transfer s rest (cur.filter (fun d => d.1 != sym) ++ [(sym, s)])

/-- gen/kill without the shortcut (idealised). -/
def transferIdeal (s : Int) : List Int → List Def → List Def
  | [], cur => cur
  | sym :: rest, cur => transferIdeal s rest (cur.filter (fun d => d.1 != sym) ++ [(sym, s)])

/-! ### the analysed code -/

inductive Variant where
  /-- the code: push successors, analyse, `work_list.pop(0)` -/
  | pinned
  /-- candidate repair R1 (tried, rejected): `heappop` the analysed statement, then push successors -/
  | r1
deriving Repr, DecidableEq

structure Input where
  /-- rows of cfg.bundle for the method: (src, dst, kind) in file order -/
  edges : List (Int × Int × Nat)
  /-- statements that have a counter / a status -/
  stmts : List Int
  /-- statements whose operation is in `LOOP_OPERATIONS` -/
  loops : List Int
  /-- defined symbol ids per statement: `[defined_symbol] + implicitly_defined_symbols` that are Symbols -/
  defs : List (Int × List Int)
  /-- `self.max_analysis_round` -/
  maxRound : Nat
  /-- does `util.get_graph_edge_weight` return the stored kind on the loaded CFG? (probed) -/
  weightWorks : Bool
  /-- `CONTROL_FLOW_KIND.LOOP_BACK` -/
  loopBack : Nat
deriving Repr

def Input.rawEdges (I : Input) : List (Int × Int) := I.edges.map (fun e => (e.1, e.2.1))

def defsOf (defs : List (Int × List Int)) (s : Int) : List Int :=
  match defs.lookup s with
  | some l => l
  | none => []

/-- kind of the first stored edge `p → s` (what `get_edge_data(...)['weight']` would be) -/
def kindOf (edges : List (Int × Int × Nat)) (p s : Int) : Option Nat :=
  match edges.find? (fun e => e.1 == p && e.2.1 == s) with
  | some e => some e.2.2
  | none => none

structure St where
  wl : WL
  counters : Int → Nat
  ins : Int → List Def
  outs : Int → List Def
  /-- statement ids in the order `analyze_reachable_symbols` was entered, newest first -/
  visits : List Int
  skips : Nat
  /-- statements at whose visit the `if key in current_bits: continue` shortcut was taken, newest first -/
  skipStmts : List Int
  /-- the in set computed at every visit (parallel to `visits`), newest first: what
  `update_used_symbols_to_symbol_graph` / `get_used_symbol_indexes` project at the use sites -/
  inTrace : List (List Def)

/-- predecessor selection of `analyze_reachable_symbols` -/
def selectPreds (I : Input) (G : Graph) (counter : Nat) (s : Int) : List Int :=
  let ps := preds G.E s
  if I.loops.contains s then
    ps.filter (fun p =>
      let w : Option Nat := if I.weightWorks then kindOf I.edges p s else none
      if counter == 0 then w != some I.loopBack else w == some I.loopBack)
  else ps

/-- `analyze_reachable_symbols` on the in/out tables; returns (in, out, skips). -/
def analyse (I : Input) (G : Graph) (st : St) (s : Int) : List Def × List Def × Nat :=
  let ps := (selectPreds I G (st.counters s) s).filter (fun p => I.stmts.contains p)
  let inS := unionAll st.outs ps
  let r := transfer s (defsOf I.defs s) inS
  (inS, r.1, r.2)

/-- `frame.stmt_worklist.pop()` under the two variants -/
def popV (v : Variant) (G : Graph) (w : WL) : WL :=
  match v with
  | .pinned => w.pop0
  | .r1 => if G.prio.isEmpty then w.pop0 else w.popMin

/-- one iteration of the `while len(frame.stmt_worklist) != 0` loop. -/
def step (v : Variant) (I : Input) (G : Graph) (st : St) : St :=
  match st.wl.peek with
  | none => st
  | some s =>
    if s ≤ 0 || !(I.stmts.contains s) then { st with wl := popV v G st.wl }
    else if st.counters s < I.maxRound then
      let a := analyse I G st s
      let wl1 :=
        match v with
        | .pinned => (st.wl.add G.prio (succs G.E s)).pop0
        | .r1 => (popV .r1 G st.wl).add G.prio (succs G.E s)
      { wl := wl1, counters := upd st.counters s (st.counters s + 1),
        ins := upd st.ins s a.1, outs := upd st.outs s a.2.1,
        visits := s :: st.visits, skips := st.skips + a.2.2,
        skipStmts := if a.2.2 == 0 then st.skipStmts else s :: st.skipStmts,
        inTrace := a.1 :: st.inTrace }
    else { st with wl := popV v G st.wl }

def run (v : Variant) (I : Input) (G : Graph) : Nat → St → St
  | 0, st => st
  | fuel + 1, st => run v I G fuel (step v I G st)

def init (G : Graph) : St :=
  { wl := WL.empty.add G.prio G.first, counters := fun _ => 0, ins := fun _ => [], outs := fun _ => [],
    visits := [], skips := 0, skipStmts := [], inTrace := [] }

/-- every iteration removes one list entry; entries are only added by the at most
`maxRound` analysed visits of each statement. -/
def runFuel (I : Input) (G : Graph) : Nat := G.nodes.length + I.maxRound * (G.E.length + 1) * 1 + I.maxRound * G.nodes.length + 2

structure Result where
  ins : Int → List Def
  outs : Int → List Def
  visits : List Int
  skips : Nat
  skipStmts : List Int
  inTrace : List (List Def)
  /-- the work list was empty when the fuel ran out (must be true; reported by the driver) -/
  finished : Bool

def rdWith (v : Variant) (I : Input) : Result :=
  let G := mkGraph I.rawEdges
  let st := run v I G (runFuel I G) (init G)
  { ins := st.ins, outs := st.outs, visits := st.visits.reverse, skips := st.skips,
    skipStmts := st.skipStmts.reverse, inTrace := st.inTrace.reverse, finished := st.wl.heap.isEmpty }

/-- live model: the code as it is in the repository now. -/
def rd (I : Input) : Result := rdWith .pinned I

/-- frozen model `ReachDef0`: the code at the pinned commit (never regenerated). -/
def rd0 (I : Input) : Result := rdWith .pinned I

/-! ### the use-site layer -/

/-- the register `frame.defined_symbols`: every `(symbol, statement)` the defined-symbol table knows -/
def register (I : Input) : List Def :=
  I.defs.flatMap (fun e => e.2.map (fun sym => (sym, e.1)))

/-- `check_reachable_symbol_defs` for a symbol the method defines:
`available_symbol_defs & frame.defined_symbols[used_symbol_id]` -/
def useSite (reg : List Def) (available : List Def) (sym : Int) : List Def :=
  available.filter (fun d => d.1 == sym && reg.contains d)

/-! ### idealised solvers (not the code) -/

structure Sol where
  ins : Int → List Def
  outs : Int → List Def

def Sol.empty : Sol := { ins := fun _ => [], outs := fun _ => [] }

def visitIdeal (E : List (Int × Int)) (defs : List (Int × List Int)) (sol : Sol) (u : Int) : Sol :=
  let inU := unionAll sol.outs (preds E u)
  { ins := upd sol.ins u inU, outs := upd sol.outs u (transferIdeal u (defsOf defs u) inU) }

/-- one pass over `order` -/
def sweep (E : List (Int × Int)) (defs : List (Int × List Int)) (order : List Int) (sol : Sol) : Sol :=
  order.foldl (visitIdeal E defs) sol

def subset (a b : List Def) : Bool := a.all (fun d => b.contains d)

/-- post-fixpoint check of the reaching-definitions equations on the nodes `nodes`. -/
def chkFix (E : List (Int × Int)) (defs : List (Int × List Int)) (nodes : List Int) (sol : Sol) : Bool :=
  E.all (fun e => nodes.contains e.1 && nodes.contains e.2 && subset (sol.outs e.1) (sol.ins e.2)) &&
  nodes.all (fun u =>
    (sol.ins u).all (fun d => (defsOf defs u).contains d.1 || (sol.outs u).contains d) &&
    (defsOf defs u).all (fun sym => (sol.outs u).contains (sym, u)))

/-- the exit node `-1` has no status row: give it the union of its predecessors' out sets, so that
tables of the statements alone can be put to the post-fixpoint check. -/
def patchExit (E : List (Int × Int)) (sol : Sol) : Sol :=
  { ins := upd sol.ins (-1) (unionAll sol.outs (preds E (-1))),
    outs := upd sol.outs (-1) (unionAll sol.outs (preds E (-1))) }

/-- every edge goes forward in `order`, `order` has no duplicates and contains every node. -/
def posOf (order : List Int) (x : Int) : Nat := order.idxOf x

def isTopo (E : List (Int × Int)) (order : List Int) : Bool :=
  E.all (fun e => order.contains e.1 && order.contains e.2 && posOf order e.1 < posOf order e.2)

def nodupB : List Int → Bool
  | [] => true
  | x :: xs => !xs.contains x && nodupB xs

/-- reverse post-order of the DFS forest over all nodes (first nodes first) -/
def fullOrder (G : Graph) : List Int :=
  (G.first ++ G.nodes).foldl
    (fun (acc : List Int × List Int) r =>
      if acc.2.contains r then acc
      else dfsRPO G.E (dfsFuel G.E G.nodes) [(r, succs G.E r)] (r :: acc.2) acc.1)
    ([], []) |>.1

/-- round-robin sweeps until the post-fixpoint check passes (or the fuel runs out). -/
def iterate (E : List (Int × Int)) (defs : List (Int × List Int)) (order : List Int) : Nat → Sol → Nat → Sol × Bool × Nat
  | 0, sol, n => (sol, chkFix E defs order sol, n)
  | fuel + 1, sol, n =>
    if chkFix E defs order sol then (sol, true, n)
    else iterate E defs order fuel (sweep E defs order sol) (n + 1)

structure IdealResult where
  sol : Sol
  converged : Bool
  sweeps : Nat
  order : List Int
  topo : Bool

def ideal (I : Input) : IdealResult :=
  let G := mkGraph I.rawEdges
  let order := fullOrder G
  let r := iterate G.E I.defs order (G.nodes.length * ((I.defs.map (fun d => d.2.length)).foldl (· + ·) 0 + 1) + 2) Sol.empty 0
  { sol := r.1, converged := r.2.1, sweeps := r.2.2, order := order,
    topo := isTopo G.E order && nodupB order }

end LianVerif.ReachDef
