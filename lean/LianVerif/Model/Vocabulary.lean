/-
Model/Vocabulary.lean — the SHARED INSTRUCTION VOCABULARY of lian's language-independent analyses and
the decidable check that a set of emitted GIR rows stays inside it (property C02, second sentence).

The vocabulary is not written down here: it is EXTRACTED AT RUN TIME by the harness
(harness/lv/c02.py, `extract_vocab`) from the live code and sent to the driver with every request:
* `defuse`, `cfg` — the keys of the two tables the property names; `handled` — the keys of
  `StmtDefUseAnalysis.def_use_analysis_handlers`,
  `ControlFlowAnalysis.stmt_handlers` and `StmtStates.state_analysis_handlers` (an operation that is in
  none of them falls into `empty_def_use` / straight-line CFG wiring / no state transfer: whatever it
  carries is invisible), plus the structural markers written by `GIRProcessing.flatten_block`;
* `reads op` — the attributes `stmt.<a>` those handlers read for `op` (ast walk over
  `inspect.getsource` of the handler and of the helpers it passes the statement to);
* `doc op`   — the attributes the instruction table docs/en/03.frontend/3-2.gir.md lists for `op`;
* `book`     — bookkeeping columns every row has (ids, positions).
The only part fixed here is `required`: per operation, the attributes that carry the elements the
property names (returned values, call arguments, loop conditions, branch conditions, declarations,
field and element accesses) and that a row of that operation cannot legitimately omit.

Core Lean only (linked into lvdrv).
-/
namespace LianVerif.Vocabulary

structure Row where
  op : String
  /-- names of the attributes the row sets (non-null cells), bookkeeping columns included or not -/
  attrs : List String
  deriving Repr, BEq, DecidableEq, Inhabited

abbrev Rows := List Row

structure Vocab where
  handled : List String
  /-- keys of `StmtDefUseAnalysis.def_use_analysis_handlers` -/
  defuse : List String := []
  /-- keys of `ControlFlowAnalysis.stmt_handlers` -/
  cfg : List String := []
  reads : List (String × List String)
  doc : List (String × List String)
  book : List String
  deriving Repr, Inhabited

def lookupL (t : List (String × List String)) (op : String) : List String :=
  match t with
  | [] => []
  | (k, v) :: rest => if k == op then v ++ lookupL rest op else lookupL rest op

/-- attributes a row of `op` must set: they carry the elements named by C02. -/
def required : List (String × List String) :=
  [ ("assign_stmt", ["target", "operand"]),
    ("call_stmt", ["name"]),
    ("object_call_stmt", ["receiver_object", "field"]),
    ("if_stmt", ["condition"]),
    ("while_stmt", ["condition"]),
    ("dowhile_stmt", ["condition"]),
    ("forin_stmt", ["receiver"]),
    ("array_read", ["target", "array", "index"]),
    ("array_write", ["array", "index", "source"]),
    ("field_read", ["target", "receiver_object", "field"]),
    ("field_write", ["receiver_object", "field", "source"]),
    ("variable_decl", ["name"]),
    ("parameter_decl", ["name"]),
    ("method_decl", ["name"]),
    ("class_decl", ["name"]),
    ("new_array", ["target"]),
    ("new_object", ["target"]),
    ("new_record", ["target"]) ]

/-- operations whose definitions and uses the def-use analysis must compute (an operation missing from
its table falls into `empty_def_use`): the carriers of the elements named by C02. -/
def mustDefUse : List String :=
  required.map (·.1) ++ ["return_stmt", "for_stmt"]

/-- operations that transfer control: the CFG builder wires every other operation as straight-line code. -/
def mustCfg : List String :=
  ["if_stmt", "while_stmt", "dowhile_stmt", "for_stmt", "forin_stmt", "break_stmt", "continue_stmt", "return_stmt"]

def Vocab.isHandled (V : Vocab) (op : String) : Bool := V.handled.contains op

/-- the two tables the property names know the operation where they must. -/
def Vocab.tablesOk (V : Vocab) (op : String) : Bool :=
  (!mustDefUse.contains op || V.defuse.contains op) && (!mustCfg.contains op || V.cfg.contains op)

/-- `a` is in the vocabulary of `op`: an analysis reads it, the documentation declares it, or it is a
bookkeeping column. -/
def Vocab.isKnown (V : Vocab) (op a : String) : Bool :=
  (lookupL V.reads op).contains a || (lookupL V.doc op).contains a || V.book.contains a

def rowOk (V : Vocab) (r : Row) : Bool :=
  V.isHandled r.op && V.tablesOk r.op && r.attrs.all (V.isKnown r.op) && (lookupL required r.op).all r.attrs.contains

/-- the check evaluated by lvdrv on the REAL rows. -/
def vocabCheck (V : Vocab) (rows : Rows) : Bool := rows.all (rowOk V)

/-- what is wrong with a row (for the report): `("op", "")`, `("table", "")`, `("attr", a)`, `("missing", a)`. -/
def rowDefects (V : Vocab) (r : Row) : List (String × String) :=
  (if V.isHandled r.op then [] else [("op", "")]) ++
  (if V.isHandled r.op && !V.tablesOk r.op then [("table", "")] else []) ++
  (if V.isHandled r.op then (r.attrs.filter (fun a => !V.isKnown r.op a)).map (fun a => ("attr", a)) else []) ++
  ((lookupL required r.op).filter (fun a => !r.attrs.contains a)).map (fun a => ("missing", a))

end LianVerif.Vocabulary
