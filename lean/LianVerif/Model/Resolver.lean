/-
Model of the declaration tables built by `summarize_symbol_decls` (scope_hierarchy.py) and of
`Resolver.resolve_symbol_source_decl` / `organize_return_value` (core/resolver.py), plus the two
lines of `StmtDefUseAnalysis.add_status_with_symbol_id_sync` that turn a resolver answer into the
`symbol_id` stored in `s2space_p1`.

Representation (DESIGN §4.4): the two dicts `symbol_name_to_scope_ids` and
`scope_id_to_symbol_info` are one list of declarations in scope-space order;
`symbol_name_to_scope_ids[n]` is the set of scopes of the declarations named `n`, and
`scope_id_to_symbol_info[s][n]` is the LAST declaration of `n` in `s` (dict overwrite).

The model is polymorphic in the identifier type `ν` and uses identifiers only through `==`.
Identifiers are inspected once in the code: an import without alias declares the last dotted
segment of its name (`row.name.split(".")[-1]`, nothing when that segment is empty); that function
is the parameter `lastSeg`.

Imports: this model stops at "the nearest declaration is the import statement `i`"; the redirection
through the import graph (`get_import_node_with_name`) is monitored by the harness, not modelled.
-/
import LianVerif.Model.Scope

namespace LianVerif.Resolver
open LianVerif.Scopes

variable {ν : Type} [DecidableEq ν]

structure Decl (ν : Type) where
  name : ν
  scope : Int
  stmt : Nat
  isImport : Bool
deriving Repr, DecidableEq

def Decl.map {ν μ : Type} (σ : ν → μ) (d : Decl ν) : Decl μ :=
  { name := σ d.name, scope := d.scope, stmt := d.stmt, isImport := d.isImport }

/-- the symbol a scope entry declares: `row.name`, for imports the alias or the last dotted
segment of the name; `none` when empty. -/
def declName (lastSeg : ν → Option ν) (k : SKind) (r : Row ν) : Option ν :=
  if k == .import_ then
    match r.alias with
    | some a => some a
    | none => r.name.bind lastSeg
  else r.name

/-- the declarations of `summarize_symbol_decls`, in scope-space order. -/
def decls (lastSeg : ν → Option ν) (rows : List (Row ν)) (recs : List ScopeRec) : List (Decl ν) :=
  recs.filterMap (fun rec =>
    if rec.kind.declares then
      match rows.find? (fun r => r.id == rec.stmt) with
      | some r =>
        match declName lastSeg rec.kind r with
        | some n => some { name := n, scope := rec.scope, stmt := rec.stmt, isImport := rec.kind == .import_ }
        | none => none
      | none => none
    else none)

/-- what the resolver reads: declarations, visible-scope table, implicit root blocks. -/
structure Summary (ν : Type) where
  decls : List (Decl ν)
  avail : Avail
  implicit : List Int

/-- `symbol_name_to_scope_ids[n]` -/
def declScopes (ds : List (Decl ν)) (n : ν) : List Int := (ds.filter (fun d => d.name == n)).map (·.scope)

/-- `scope_id_to_symbol_info[sc][n]`: the last declaration of `n` in `sc`. -/
def symbolInfo (ds : List (Decl ν)) (sc : Int) (n : ν) : Option (Decl ν) :=
  (ds.filter (fun d => d.scope == sc && d.name == n)).getLast?

def maxInt : List Int → Option Int
  | [] => none
  | x :: xs => match maxInt xs with
    | none => some x
    | some m => some (if m < x then x else m)

/-- `(implicit_root_scope_ids | available_scope_ids) & symbol_decl_scope_ids` -/
def targets (S : Summary ν) (cur : Int) (n : ν) : List Int :=
  let visible := S.implicit ++ (if 0 ≤ cur then (S.avail.get cur.toNat).getD [] else [])
  visible.filter (fun s => (declScopes S.decls n).contains s)

/-- the declaration `resolve_symbol_source_decl` selects for name `n` used in scope `cur`
(non-global mode), before import redirection. -/
def resolveDecl (S : Summary ν) (cur : Int) (n : ν) : Option (Decl ν) :=
  if cur == -1 then none
  else match maxInt (targets S cur n) with
    | none => none
    | some m => symbolInfo S.decls m n

/-- `source_symbol_must_be_global = True`: only the unit root is consulted. -/
def resolveGlobal (S : Summary ν) (n : ν) : Option (Decl ν) :=
  if (declScopes S.decls n).contains 0 then symbolInfo S.decls 0 n else none

inductive Mode where
  | use      -- a used symbol, or the defined symbol of an ordinary (non-declaration) statement
  | global   -- the symbol of a `global_stmt`
deriving DecidableEq, Repr

/-- the `symbol_id` that `add_status_with_symbol_id_sync` stores, up to the identity of negative
ids: `some d` = bound to declaration statement `d`, `none` = unresolved (a negative id).
A name that resolves to the very statement it occurs in is treated as external by the code.
(The defined symbol of a declaration statement gets the statement's own id without consulting the
resolver; that case is not routed through this function.) -/
def bind (S : Summary ν) (stmtScope : Nat → Int) (stmt : Nat) (n : ν) : Mode → Option (Decl ν)
  | .global => resolveGlobal S n
  | .use =>
    match resolveDecl S (stmtScope stmt) n with
    | some d => if d.stmt == stmt then none else some d
    | none => none

/-- `name.split(".")[-1]`, nothing when that segment is empty — the instance of `lastSeg` for the
identifiers of real programs. -/
def lastSegStr (n : String) : Option String :=
  let s := (n.splitOn ".").getLastD n
  if s.isEmpty then none else some s

/-- the summary `summarize_symbol_decls` hands to the resolver, for a scope space `recs` and the
declarations `ds` read off it. -/
def summaryOf (ds : List (Decl ν)) (recs : List ScopeRec) : Summary ν :=
  { decls := ds, avail := (closure (availInit recs)).1, implicit := implicitRoots recs }

/-- the whole per-unit pipeline on GIR rows: `discover_scopes`, `correct_scopes`,
`summarize_symbol_decls`, then the binding of name `n` occurring in statement `stmt`. -/
def bindRows (lastSeg : ν → Option ν) (t : OpTable) (rows : List (Row ν)) (stmt : Nat) (n : ν)
    (mode : Mode) : Option (Decl ν) :=
  let st := scopeTable t (rows.map Row.shape)
  bind (summaryOf (decls lastSeg rows st.recs) st.recs) (stmtScope st) stmt n mode

/-- the same pipeline with `correct_scopes` as at the pinned commit (frozen). -/
def bindRows0 (lastSeg : ν → Option ν) (t : OpTable) (rows : List (Row ν)) (stmt : Nat) (n : ν)
    (mode : Mode) : Option (Decl ν) :=
  let st := scopeTable0 t (rows.map Row.shape)
  bind (summaryOf (decls lastSeg rows st.recs) st.recs) (stmtScope st) stmt n mode

/-- renaming of ONE declaration (the one made by statement `d0`) to `n'`. -/
def renameDecl (ds : List (Decl ν)) (d0 : Nat) (n' : ν) : List (Decl ν) :=
  ds.map (fun d => if d.stmt == d0 then { d with name := n' } else d)

end LianVerif.Resolver
