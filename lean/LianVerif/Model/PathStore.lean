/-
Model of `PathTrie` / `PathManager` (src/lian/common_structs.py).

Representation (DESIGN §4.4): the dict-of-dicts trie is the *set of its non-root nodes*, each node
identified by the path that leads to it from the root; `elem in node.children` while walking the
path `p` is membership of `p.take (i+1)` in that set.  `terms` is the set of terminal nodes, which
the Python keeps in lock-step with `PathTrie.paths` / `PathManager.paths` (every statement that
changes one changes the other).  The root always exists; it is terminal iff `[] ∈ terms`.

Two variants are kept side by side:
* `add` / `remove`      — the code as it is in /repo now (after the `fix:` commit that prunes
                           dead branches and evicts a stored empty path);
* `add0` / `remove0`    — the code as it was at the pinned commit (frozen; documents the finding).

No imports: this file is linked into the `lvdrv` executable.
-/
namespace LianVerif.PathStore

variable {α : Type} [DecidableEq α]

structure Store (α : Type) where
  nodes : List (List α)
  terms : List (List α)
deriving Repr

def Store.empty : Store α := { nodes := [], terms := [] }

/-- `q` is a strict (proper) prefix of `p`. -/
def strictPrefix (q p : List α) : Bool := q.isPrefixOf p && q.length != p.length

/-- every element of the walk exists: the `for … else` branch of step 1 is taken. -/
def present (s : Store α) (p : List α) : Bool := p.isEmpty || s.nodes.contains p

/-- `node.children` is non-empty for the node at `p`. -/
def hasChild (nodes : List (List α)) (p : List α) : Bool :=
  nodes.any (fun q => p.isPrefixOf q && q.length == p.length + 1)

/-- `p.take 0 … p.take (len-1)`: the nodes strictly above the end node, root first. -/
def strictPrefixes (p : List α) : List (List α) := (List.range p.length).map (fun i => p.take i)

/-- `p.take 1 … p.take len`: the nodes step 3 creates when missing. -/
def nodePrefixes (p : List α) : List (List α) := (List.range p.length).map (fun i => p.take (i + 1))

def addNodes (nodes : List (List α)) (qs : List (List α)) : List (List α) :=
  qs.foldl (fun acc q => if acc.contains q then acc else acc ++ [q]) nodes

/-- The upward pruning loop added to `_mark_non_terminal` by the repair: starting at the node that
was just un-marked, delete nodes while they are childless and non-terminal.  `q` is the current
node; the root (`[]`) is never deleted. -/
def prune (terms : List (List α)) : (fuel : Nat) → List (List α) → List α → List (List α)
  | 0, nodes, _ => nodes
  | fuel + 1, nodes, q =>
    if q.isEmpty then nodes
    else if hasChild nodes q || terms.contains q then nodes
    else prune terms fuel (nodes.filter (fun n => n != q)) q.dropLast

/-- `paths.discard(q); _mark_non_terminal(q)` — repaired. -/
def unmark (s : Store α) (q : List α) : Store α :=
  let terms' := s.terms.filter (fun t => t != q)
  if present s q then { nodes := prune terms' (q.length + 1) s.nodes q, terms := terms' }
  else { s with terms := terms' }

/-- `paths.discard(q); _mark_non_terminal(q)` — pinned commit: flags only, nodes stay. -/
def unmark0 (s : Store α) (q : List α) : Store α :=
  { s with terms := s.terms.filter (fun t => t != q) }

/-- `PathTrie.add_path`, repaired. -/
def add (s : Store α) (p : List α) : Store α × Bool :=
  if present s p && (s.terms.contains p || hasChild s.nodes p) then (s, false)
  else
    let rm := (strictPrefixes p).filter (fun q => s.terms.contains q)
    let s1 := rm.foldl unmark s
    ({ nodes := addNodes s1.nodes (nodePrefixes p), terms := s1.terms ++ [p] }, true)

/-- `PathTrie.add_path`, pinned commit: the root's terminal flag is never consulted in step 2 and
un-marking keeps the nodes. -/
def add0 (s : Store α) (p : List α) : Store α × Bool :=
  if present s p && (s.terms.contains p || hasChild s.nodes p) then (s, false)
  else
    let rm := (strictPrefixes p).filter (fun q => !q.isEmpty && s.terms.contains q)
    let s1 := rm.foldl unmark0 s
    ({ nodes := addNodes s1.nodes (nodePrefixes p), terms := s1.terms ++ [p] }, true)

def remove (s : Store α) (p : List α) : Store α × Bool :=
  if s.terms.contains p then (unmark s p, true) else (s, false)

def remove0 (s : Store α) (p : List α) : Store α × Bool :=
  if s.terms.contains p then (unmark0 s p, true) else (s, false)

/-- `PathManager.add_path` for a `CallPath` argument (`valid e = ¬ e.has_negative()`). -/
def mgrAdd (valid : α → Bool) (s : Store α) (p : List α) : Store α × Bool :=
  if !(p.all valid) then (s, false)
  else if s.terms.contains p then (s, false)
  else add s p

def mgrAdd0 (valid : α → Bool) (s : Store α) (p : List α) : Store α × Bool :=
  if !(p.all valid) then (s, false)
  else if s.terms.contains p then (s, false)
  else add0 s p

inductive Op (α : Type) where
  | add (p : List α)
  | remove (p : List α)
  | exist (p : List α)
deriving Repr

def step (valid : α → Bool) (s : Store α) : Op α → Store α × Bool
  | .add p => mgrAdd valid s p
  | .remove p => remove s p
  | .exist p => (s, s.terms.contains p)

def step0 (valid : α → Bool) (s : Store α) : Op α → Store α × Bool
  | .add p => mgrAdd0 valid s p
  | .remove p => remove0 s p
  | .exist p => (s, s.terms.contains p)

/-- Run a history; returns the final store and, per operation, (return value, stored paths after
the operation). -/
def run (stp : Store α → Op α → Store α × Bool) : Store α → List (Op α) → Store α × List (Bool × List (List α))
  | s, [] => (s, [])
  | s, op :: ops =>
    let (s', b) := stp s op
    let (sf, outs) := run stp s' ops
    (sf, (b, s'.terms) :: outs)

end LianVerif.PathStore
