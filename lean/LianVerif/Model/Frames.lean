/-
Model of the phase-III frame-stack DRIVER of lian:

* `P3GlobalSemanticAnalysis.analyze_frame_stack / init_compute_frame / init_frame_stack / run`
  (src/lian/core/global_semantics.py),
* `GlobalStmtStates.compute_target_method_states` (src/lian/core/global_stmt_states.py) — the callee
  cut-offs, in the order the code tests them,
* `CallPath.count_cycles`, `CallPath.__contains__`, `CallSite` (src/lian/common_structs.py),
* the path store is `LianVerif.PathStore` (the model behind C19), used through `mgrAdd`.

What is NOT modelled: statement analysis (stmt_states.py, 4 000 lines).  It appears as an ORACLE
`Nat → Nat → FrameInfo`: for the frame with creation serial `n` and method `m` it says whether
`init_compute_frame` succeeds and which sequence of `compute_target_method_states` invocations
(call statement, callee ids in iteration order) `analyze_stmts` performs in that frame.  An invocation
that interrupts the frame is followed, after the callees are done, by the next invocation of the list
(in the real code that is the re-analysis of the same call statement).  The harness harvests the
oracle from the real run; the theorems quantify over all oracles.

Quirks mirrored on purpose:
* `each_callee_id in self.frame.call_path` compares an `int` with `CallSite` objects and is therefore
  always `False` (`CallSite.__eq__` returns False for non-CallSite); the test is dead and absent here.
* the call-site counter is incremented once when a callee is selected for descent and once more for
  every callee of the invocation that finally runs through without interruption.
* when nothing is to be descended the path `call_path + site` is recorded only if caller ≠ callee.
* `content_already_analyzed` is replaced (not merged) at every interruption.
* the counter is keyed by the call site only (not by the call path) and is reset per entry point; the
  path store is shared by all entry points.

Granularity: the Python pushes a new frame in one loop iteration and initialises it at the start of
the next one (nothing happens in between, the new frame is on top); the model fuses the two, so every
frame on the model's stack is an initialised one.  A frame whose `init_compute_frame` returns None is
created, logged and popped within the same model step.  The logged event sequence is the real one.

No imports outside LianVerif.Model: this file is linked into `lvdrv`.
-/
import LianVerif.Model.PathStore

namespace LianVerif.Frames
open LianVerif.PathStore

/-- `CallSite(caller_id, call_stmt_id, callee_id)` -/
abbrev Site := Nat × Nat × Nat

def Site.caller (s : Site) : Nat := s.1
def Site.stmt (s : Site) : Nat := s.2.1
def Site.callee (s : Site) : Nat := s.2.2

/-- one invocation of `compute_target_method_states` -/
structure Inv where
  stmt : Nat
  callees : List Nat
deriving Repr, DecidableEq

/-- what statement analysis does in one frame -/
structure FrameInfo where
  inits : Bool
  script : List Inv
deriving Repr

abbrev Oracle := Nat → Nat → FrameInfo

abbrev Counter := List (Site × Nat)

def ctrGet (c : Counter) (s : Site) : Nat :=
  match c with
  | [] => 0
  | (k, v) :: rest => if k = s then v else ctrGet rest s

def ctrInc (c : Counter) (s : Site) : Counter :=
  match c with
  | [] => [(s, 1)]
  | (k, v) :: rest => if k = s then (k, v + 1) :: rest else (k, v) :: ctrInc rest s

abbrev Caa := List (Site × Bool)

/-- `content_already_analyzed.get(site, False)` -/
def caaGet (c : Caa) (s : Site) : Bool :=
  match c with
  | [] => false
  | (k, v) :: rest => if k = s then v else caaGet rest s

def caaHas (c : Caa) (s : Site) : Bool :=
  match c with
  | [] => false
  | (k, _) :: rest => if k = s then true else caaHas rest s

/-- the `for key, value in content_already_analyzed.items(): if not value: …; break` scan:
first key whose value is False, and the dict with that value set to True. -/
def firstFalse : Caa → Option (Site × Caa)
  | [] => none
  | (k, v) :: rest =>
    if v then
      match firstFalse rest with
      | none => none
      | some (s, rest') => some (s, (k, v) :: rest')
    else some (k, (k, true) :: rest)

/-- `CallPath.count_cycles` -/
def countCyclesAux : List Site → List Nat → Nat
  | [], _ => 0
  | s :: rest, visited =>
    (if visited.contains s.callee then 1 else 0) + countCyclesAux rest (s.callee :: s.caller :: visited)

def countCycles (p : List Site) : Nat := countCyclesAux p []

structure Frame where
  serial : Nat
  method : Nat
  callStmt : Nat
  path : List Site
  caa : Caa
  todo : List Inv
deriving Repr

inductive Event where
  | create (serial : Nat) (site : Site)
  | init (serial : Nat) (method : Nat) (path : List Site) (ok : Bool)
  | cts (serial : Nat) (method : Nat) (stmt : Nat) (callees : List Nat) (descend : List Nat) (reasons : List Nat)
  | pop (serial : Nat)
deriving Repr, DecidableEq

structure St where
  stack : List Frame            -- head = top of the stack; the meta frame is implicit
  store : Store Site
  counter : Counter
  created : Nat                 -- number of ComputeFrame objects created so far (next serial)
  log : List Event
deriving Repr

def allValid : Site → Bool := fun _ => true

/-- the cut-off test of `compute_target_method_states`, in the order of the code:
`path_exists(callee_path) or count_cycles() > 1 or (dead test) or content_already_analyzed.get(site)
or counter.get(site, 0) > MAX`; `true` = the callee is selected for descent. -/
def descendOk (max : Nat) (store : Store Site) (f : Frame) (ctr : Counter) (stmt c : Nat) : Bool :=
  let site : Site := (f.method, stmt, c)
  let cp := f.path ++ [site]
  !(store.terms.contains cp || decide (countCycles cp > 1) || caaGet f.caa site ||
    decide (ctrGet ctr site > max))

/-- which test decides (diagnostic, logged with every invocation): 0 = descend, 1 = path exists,
2 = second cycle, 3 = content_already_analyzed, 4 = call-site counter over budget. -/
def reasonOf (max : Nat) (store : Store Site) (f : Frame) (ctr : Counter) (stmt c : Nat) : Nat :=
  let site : Site := (f.method, stmt, c)
  let cp := f.path ++ [site]
  if store.terms.contains cp then 1
  else if countCycles cp > 1 then 2
  else if caaGet f.caa site then 3
  else if ctrGet ctr site > max then 4
  else 0

def reasons (max : Nat) (store : Store Site) (f : Frame) (stmt : Nat) : List Nat → Counter → List Nat
  | [], _ => []
  | c :: cs, ctr =>
    let r := reasonOf max store f ctr stmt c
    r :: reasons max store f stmt cs (if r == 0 then ctrInc ctr (f.method, stmt, c) else ctr)

/-- first loop of `compute_target_method_states`: select callees, bump their counters. -/
def firstLoop (max : Nat) (store : Store Site) (f : Frame) (stmt : Nat) :
    List Nat → Counter → List Nat → Counter × List Nat
  | [], ctr, acc => (ctr, acc)
  | c :: cs, ctr, acc =>
    if descendOk max store f ctr stmt c then
      firstLoop max store f stmt cs (ctrInc ctr (f.method, stmt, c)) (acc ++ [c])
    else firstLoop max store f stmt cs ctr acc

/-- second loop (nothing to descend): bump every counter, record the path unless caller = callee. -/
def secondLoop (f : Frame) (stmt : Nat) : List Nat → Counter → Store Site → Counter × Store Site
  | [], ctr, st => (ctr, st)
  | c :: cs, ctr, st =>
    let site : Site := (f.method, stmt, c)
    let st' := if f.method != c then (mgrAdd allValid st (f.path ++ [site])).1 else st
    secondLoop f stmt cs (ctrInc ctr site) st'

inductive Outcome where
  | finished
  | interrupt (stmt : Nat) (callees : List Nat)
deriving Repr

structure AResult where
  outcome : Outcome
  todo : List Inv
  store : Store Site
  counter : Counter
  log : List Event
deriving Repr

/-- `analyze_stmts` seen through the oracle: run the remaining invocations until one interrupts. -/
def analyze (max : Nat) (f : Frame) : List Inv → Store Site → Counter → List Event → AResult
  | [], st, ctr, log => { outcome := .finished, todo := [], store := st, counter := ctr, log := log }
  | inv :: rest, st, ctr, log =>
    let fl := firstLoop max st f inv.stmt inv.callees ctr []
    let rs := reasons max st f inv.stmt inv.callees ctr
    if fl.2.isEmpty then
      let sl := secondLoop f inv.stmt inv.callees fl.1 st
      analyze max f rest sl.2 sl.1 (log ++ [.cts f.serial f.method inv.stmt inv.callees [] rs])
    else
      { outcome := .interrupt inv.stmt fl.2, todo := rest, store := st, counter := fl.1,
        log := log ++ [.cts f.serial f.method inv.stmt inv.callees fl.2 rs] }

/-- `frame.content_already_analyzed = {}; for callee_id in data.callee_ids: if key not in …: … = False` -/
def newCaa (method stmt : Nat) (callees : List Nat) : Caa :=
  callees.foldl (fun d c => if caaHas d (method, stmt, c) then d else d ++ [((method, stmt, c), false)]) []

/-- one iteration of the `while len(frame_stack) >= 2` loop of `analyze_frame_stack` that ends in a
push (fused with the `init_compute_frame` of the pushed frame), an interruption, or a pop. -/
def step (max : Nat) (oracle : Oracle) (s : St) : St :=
  match s.stack with
  | [] => s
  | f :: below =>
    match firstFalse f.caa with
    | some (key, caa') =>
      let n := s.created
      let info := oracle n key.callee
      if info.inits then
        let p := f.path ++ [(f.method, key.stmt, key.callee)]
        let child : Frame := { serial := n, method := key.callee, callStmt := key.stmt, path := p,
                               caa := [], todo := info.script }
        { s with stack := child :: { f with caa := caa' } :: below,
                 store := (mgrAdd allValid s.store p).1, created := n + 1,
                 log := s.log ++ [.create n key, .init n key.callee p true] }
      else
        { s with stack := { f with caa := caa' } :: below, created := n + 1,
                 log := s.log ++ [.create n key, .init n key.callee [] false, .pop n] }
    | none =>
      let r := analyze max f f.todo s.store s.counter s.log
      match r.outcome with
      | .finished =>
        { s with stack := below, store := r.store, counter := r.counter, log := r.log ++ [.pop f.serial] }
      | .interrupt stmt acc =>
        { s with stack := { f with todo := r.todo, caa := newCaa f.method stmt acc } :: below,
                 store := r.store, counter := r.counter, log := r.log }

def drive (max : Nat) (oracle : Oracle) : Nat → St → St
  | 0, s => s
  | fuel + 1, s => if s.stack.isEmpty then s else drive max oracle fuel (step max oracle s)

/-- `init_frame_stack`, the `init_compute_frame` of the entry frame, and the per-entry reset of
`call_site_analyze_counter` in `run`.  The entry frame keeps the empty call path. -/
def initSt (oracle : Oracle) (entry : Nat) (store : Store Site) (created : Nat) (log : List Event) : St :=
  let info := oracle created entry
  if info.inits then
    { stack := [{ serial := created, method := entry, callStmt := 0, path := [], caa := [],
                  todo := info.script }],
      store := store, counter := [], created := created + 1,
      log := log ++ [.init created entry [] true] }
  else
    { stack := [], store := store, counter := [], created := created + 1,
      log := log ++ [.init created entry [] false, .pop created] }

/-- one entry point from an empty store: the state the theorems talk about. -/
def runEntry (max : Nat) (oracle : Oracle) (fuel : Nat) (entry : Nat) : St :=
  drive max oracle fuel (initSt oracle entry Store.empty 0 [])

/-- `run`: all entry points in order; returns per entry the final state (store and serials are
threaded, counters are per entry). -/
def runEntries (max : Nat) (oracle : Oracle) (fuel : Nat) :
    List Nat → Store Site → Nat → List Event → List St
  | [], _, _, _ => []
  | e :: es, store, created, log =>
    let s := drive max oracle fuel (initSt oracle e store created log)
    s :: runEntries max oracle fuel es s.store s.created s.log

/-- frames created for a call site, read off the log -/
def createdFor (log : List Event) (site : Site) : Bool :=
  log.any (fun e => match e with | .create _ s => s == site | _ => false)

/-- the edge set of the stored call paths -/
def edgeInStore (store : Store Site) (site : Site) : Bool :=
  store.terms.any (fun p => p.contains site)

end LianVerif.Frames
