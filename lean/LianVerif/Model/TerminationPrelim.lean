/-
C13 — abstract termination models, part 6: the frame-stack driver of the bottom-up phase.

Mirrors `P2PrelimSemanticAnalysis.analyze_method` (src/lian/core/prelim_semantics.py) and the callee
test of `StmtStates.compute_target_method_states` (src/lian/core/stmt_states.py):

* a callee requested by a statement is descended into iff it is neither in `analyzed_method_list`
  nor the method of a frame on the stack (`frame_stack.has_method_id`);
* on an interruption every callee to be analysed gets a frame, pushed in order (`callee_method_ids`
  is a Python `set` at both call sites, so a request never names a callee twice; the model keeps the
  first occurrence of each id);
* a frame whose `init_compute_frame` fails is popped AND its method is added to
  `analyzed_method_list` — that is what keeps a caller from asking for it again: were the mark
  missing, the caller's next invocation would interrupt on the same call statement for ever;
* a frame that runs to the end is popped and its method marked analysed.

Everything else is an oracle: `oracle` gives, per invocation of `analyze_stmts`, the raw requests
`(call statement, callee ids)` it issues in order (it may look at the analysed set, the stack and the
time); `hasBody` says whether initialisation succeeds (it may look at the same).  The only addition
of the model is the finite universe `M` of method ids: a requested callee outside `M` is ignored.

Written without fuel; ranking function: `4·(methods of M neither analysed nor on the stack) +
Σ frame weights`.  No imports outside LianVerif.Model.
-/
import LianVerif.Model.Termination
import LianVerif.Model.TerminationTaint

namespace LianVerif.Termination

structure PFrame where
  method : Int
  inited : Bool
deriving Repr

inductive PEv where
  | initFail (method : Int)
  | init (method : Int)
  | push (method : Int)
  | intr (method stmt : Int) (callees : List Int)
  | done (method : Int)
deriving Repr, DecidableEq

def onStack (st : List PFrame) (k : Int) : Bool := st.any (fun f => f.method == k)

/-- methods of `M` that are neither analysed nor on the stack -/
def pFree (M : List Int) (analyzed : List Int) (st : List PFrame) : Nat :=
  sumOver (fun m => ind (!(analyzed.contains m || onStack st m))) M

def pWeight (st : List PFrame) : Nat := sumOver (fun f => 1 + (if f.inited then 0 else 1)) st

/-- first occurrences only (the request is a set) -/
def keepFirst : List Int → List Int → List Int
  | _, [] => []
  | seen, k :: ks => if seen.contains k then keepFirst seen ks else k :: keepFirst (k :: seen) ks

theorem keepFirst_spec : ∀ (ks seen : List Int),
    (keepFirst seen ks).Nodup ∧ ∀ k ∈ keepFirst seen ks, seen.contains k = false ∧ k ∈ ks := by
  intro ks
  induction ks with
  | nil => intro seen; simp [keepFirst]
  | cons k ks ih =>
    intro seen
    simp only [keepFirst]
    split
    · obtain ⟨h1, h2⟩ := ih seen
      exact ⟨h1, fun x hx => ⟨(h2 x hx).1, List.mem_cons_of_mem _ (h2 x hx).2⟩⟩
    · rename_i hc
      obtain ⟨h1, h2⟩ := ih (k :: seen)
      refine ⟨List.nodup_cons.2 ⟨?_, h1⟩, ?_⟩
      · intro hk
        have := (h2 k hk).1
        simp at this
      · intro x hx
        rcases List.mem_cons.1 hx with rfl | hx
        · exact ⟨by simpa using hc, List.mem_cons_self⟩
        · have := h2 x hx
          refine ⟨?_, List.mem_cons_of_mem _ this.2⟩
          have h3 := this.1
          simp only [List.contains_cons, Bool.or_eq_false_iff] at h3
          exact h3.2

/-- `callee_ids_to_be_analyzed` of one request -/
def pFilter (M : List Int) (analyzed : List Int) (st : List PFrame) (ks : List Int) : List Int :=
  keepFirst [] (ks.filter (fun k => !(analyzed.contains k || onStack st k) && M.contains k))

/-- the first request of the invocation with a callee to be analysed -/
def pFirst (M : List Int) (analyzed : List Int) (st : List PFrame) :
    List (Int × List Int) → Option (Int × List Int)
  | [] => none
  | (s, ks) :: rest =>
    match pFilter M analyzed st ks with
    | [] => pFirst M analyzed st rest
    | k :: ks' => some (s, k :: ks')

/-- `for callee_id in data.callee_ids: frame_stack.add(ComputeFrame(callee_id))` -/
def pPush (st : List PFrame) : List Int → List PFrame
  | [] => st
  | k :: ks => pPush ({ method := k, inited := false } :: st) ks

theorem lex_of_le_lt {a a' b b' : Nat} (h1 : a' ≤ a) (h2 : b' < b) :
    Prod.Lex (· < ·) (· < ·) (a', b') (a, b) := by
  rcases Nat.lt_or_eq_of_le h1 with h | h
  · exact Prod.Lex.left _ _ h
  · subst h; exact Prod.Lex.right _ h2

theorem pFilter_spec (M analyzed : List Int) (st : List PFrame) (ks : List Int) :
    (pFilter M analyzed st ks).Nodup ∧ ∀ k ∈ pFilter M analyzed st ks,
      k ∈ M ∧ analyzed.contains k = false ∧ onStack st k = false := by
  obtain ⟨h1, h2⟩ := keepFirst_spec (ks.filter (fun k => !(analyzed.contains k || onStack st k) && M.contains k)) []
  refine ⟨h1, ?_⟩
  intro k hk
  have := (List.mem_filter.1 (h2 k hk).2).2
  simp only [Bool.and_eq_true, Bool.not_eq_true', Bool.or_eq_false_iff] at this
  exact ⟨List.contains_iff_mem.1 this.2, this.1.1, this.1.2⟩

theorem pFirst_some {M analyzed : List Int} {st : List PFrame} :
    ∀ {reqs : List (Int × List Int)} {s : Int} {ks : List Int},
      pFirst M analyzed st reqs = some (s, ks) →
        ks ≠ [] ∧ ks.Nodup ∧ ∀ k ∈ ks, k ∈ M ∧ analyzed.contains k = false ∧ onStack st k = false := by
  intro reqs
  induction reqs with
  | nil => intro s ks h; simp [pFirst] at h
  | cons r reqs ih =>
    intro s ks h
    obtain ⟨s0, ks0⟩ := r
    simp only [pFirst] at h
    split at h
    · exact ih h
    · rename_i k1 ks1 hf
      simp only [Option.some.injEq, Prod.mk.injEq] at h
      obtain ⟨_, rfl⟩ := h
      have := pFilter_spec M analyzed st ks0
      rw [hf] at this
      exact ⟨by simp, this.1, this.2⟩

theorem beq_int_comm (a b : Int) : (a == b) = (b == a) := by
  cases h : (a == b) <;> cases h2 : (b == a) <;> simp_all

theorem onStack_pPush (st : List PFrame) (ks : List Int) (m : Int) :
    onStack (pPush st ks) m = (onStack st m || ks.contains m) := by
  induction ks generalizing st with
  | nil => simp [pPush]
  | cons k ks ih =>
    rw [pPush, ih]
    simp only [onStack, List.any_cons, List.contains_cons]
    rw [beq_int_comm k m]
    generalize (m == k) = a
    generalize (st.any fun f => f.method == m) = b
    generalize ks.contains m = c
    cases a <;> cases b <;> cases c <;> rfl

theorem pFree_push_le (M analyzed : List Int) (st : List PFrame) (ks : List Int) :
    pFree M analyzed (pPush st ks) ≤ pFree M analyzed st := by
  unfold pFree
  apply sumOver_le
  intro m
  rw [onStack_pPush]
  generalize analyzed.contains m = a
  generalize onStack st m = b
  generalize ks.contains m = c
  cases a <;> cases b <;> cases c <;> decide

theorem pFree_push_one (M analyzed : List Int) (st : List PFrame) (k : Int)
    (hk : k ∈ M) (ha : analyzed.contains k = false) (hs : onStack st k = false) :
    pFree M analyzed ({ method := k, inited := false } :: st) + 1 ≤ pFree M analyzed st := by
  unfold pFree
  apply sumOver_drop hk
  · intro m
    simp only [onStack, List.any_cons]
    generalize analyzed.contains m = a
    generalize (k == m) = c
    generalize (st.any fun f => f.method == m) = b
    cases a <;> cases b <;> cases c <;> decide
  · simp only [onStack] at hs
    simp only [onStack, List.any_cons, beq_self_eq_true, Bool.true_or, Bool.or_true, ha, hs]
    decide

/-- pushing duplicate-free callees that are in `M`, not analysed and not on the stack uses up one
free method each -/
theorem pFree_push_all (M analyzed : List Int) : ∀ (ks : List Int) (st : List PFrame), ks.Nodup →
    (∀ k ∈ ks, k ∈ M ∧ analyzed.contains k = false ∧ onStack st k = false) →
    pFree M analyzed (pPush st ks) + ks.length ≤ pFree M analyzed st := by
  intro ks
  induction ks with
  | nil => intro st _ _; simp [pPush]
  | cons k ks ih =>
    intro st hnd h
    obtain ⟨hk, ha, hs⟩ := h k List.mem_cons_self
    have h1 := pFree_push_one M analyzed st k hk ha hs
    have hnd' := List.nodup_cons.1 hnd
    have h2 := ih ({ method := k, inited := false } :: st) hnd'.2 (by
      intro k' hk'
      obtain ⟨a, b, c⟩ := h k' (List.mem_cons_of_mem _ hk')
      refine ⟨a, b, ?_⟩
      simp only [onStack, List.any_cons] at c ⊢
      have hne : (k == k') = false := by
        cases hh : (k == k') with
        | false => rfl
        | true =>
          have : k = k' := by simpa using hh
          subst this; exact absurd hk' hnd'.1
      rw [hne]; simpa [onStack] using c)
    simp only [pPush, List.length_cons]
    omega

/-- popping the top frame and marking its method analysed frees no method -/
theorem pFree_pop_le (M analyzed : List Int) (f : PFrame) (rest : List PFrame) :
    pFree M (f.method :: analyzed) rest ≤ pFree M analyzed (f :: rest) := by
  unfold pFree
  apply sumOver_le
  intro m
  simp only [List.contains_cons, onStack, List.any_cons]
  rw [beq_int_comm f.method m]
  generalize (m == f.method) = a
  generalize analyzed.contains m = b
  generalize (rest.any fun g => g.method == m) = c
  cases a <;> cases b <;> cases c <;> decide

theorem pWeight_pPush (st : List PFrame) (ks : List Int) :
    pWeight (pPush st ks) = pWeight st + 2 * ks.length := by
  induction ks generalizing st with
  | nil => simp [pPush]
  | cons k ks ih =>
    rw [pPush, ih]
    simp only [pWeight, sumOver, List.length_cons]
    simp
    omega

set_option linter.unusedVariables false in
/--
`analyze_method(root)`: `stack` starts as `[frame(root)]`, `analyzed` as the methods analysed by the
earlier roots.  Returns the event trace and the final analysed set (most recent first).
-/
def prelimDriver (M : List Int) (hasBody : List Int → List PFrame → Nat → Bool)
    (oracle : List Int → List PFrame → Nat → List (Int × List Int))
    (stack : List PFrame) (analyzed : List Int) (tick : Nat) : List PEv × List Int :=
  match hst : stack with
  | [] => ([], analyzed)
  | f :: rest =>
    if hi : f.inited = false then
      if hasBody analyzed (f :: rest) tick = false then
        -- `self.analyzed_method_list.add(frame.method_id); frame_stack.pop(); continue`
        let r := prelimDriver M hasBody oracle rest (f.method :: analyzed) tick
        (PEv.initFail f.method :: r.1, r.2)
      else
        let r := prelimDriver M hasBody oracle ({ f with inited := true } :: rest) analyzed tick
        (PEv.init f.method :: r.1, r.2)
    else
      match hp : pFirst M analyzed (f :: rest) (oracle analyzed (f :: rest) tick) with
      | some (s, k :: ks) =>
        let r := prelimDriver M hasBody oracle (pPush (f :: rest) (k :: ks)) analyzed (tick + 1)
        (PEv.intr f.method s (k :: ks) :: ((k :: ks).map PEv.push ++ r.1), r.2)
      | _ =>
        let r := prelimDriver M hasBody oracle rest (f.method :: analyzed) (tick + 1)
        (PEv.done f.method :: r.1, r.2)
termination_by 4 * pFree M analyzed stack + pWeight stack
decreasing_by
  · have := pFree_pop_le M analyzed f rest
    simp only [pWeight, sumOver]; omega
  · have : pFree M analyzed ({ f with inited := true } :: rest) = pFree M analyzed (f :: rest) := rfl
    simp only [pWeight, sumOver, hi, this]; simp
  · obtain ⟨_, hnd, hall⟩ := pFirst_some hp
    have h1 := pFree_push_all M analyzed (k :: ks) (f :: rest) hnd hall
    have h2 := pWeight_pPush (f :: rest) (k :: ks)
    simp only [List.length_cons] at h1 h2
    omega
  · have := pFree_pop_le M analyzed f rest
    simp only [pWeight, sumOver]; omega

/-- the ranking function, for the step bound -/
def prank (M : List Int) (analyzed : List Int) (stack : List PFrame) : Nat :=
  4 * pFree M analyzed stack + pWeight stack

def pInterruptions (evs : List PEv) : Nat :=
  (evs.filter (fun e => match e with | .intr .. => true | _ => false)).length

def pFrames (evs : List PEv) : Nat :=
  1 + (evs.filter (fun e => match e with | .push _ => true | _ => false)).length

end LianVerif.Termination
