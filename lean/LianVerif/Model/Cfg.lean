/-
Model of `ControlFlowAnalysis` (src/lian/basics/control_flow.py), `BasicGraph._add_one_edge` /
`ControlFlowGraph.add_edge` / `CFGNode` (src/lian/common_structs.py) over a structured statement
type `S`.

`S` is a *statement sequence* (a block): every constructor carries the rest of its block, so the
type is a plain (non-nested) inductive and `analyze` is structurally recursive.  A block that is
absent in GIR is `S.nil` — `GIRProcessing.flatten` never materialises an empty block (an empty list
becomes `None`), so "absent" and "empty" coincide for every block the handlers read.

The analysis is parameterised by a record of quirk switches `Q`.  `Q.pinned` (all `false`) is the
frozen model of the pinned commit; `Q.live` (all `true`) mirrors the code after the `fix:` commits
of branch ag-C04.  One definition, two instances: the negative theorems are about `cfg Q.pinned`,
the positive ones about `cfg Q.live`.

Python ↔ model, statement by statement:
  previous / parent_stmts (list of Row | CFGNode)     ↔ `List Fr`  (`kind = none` is a bare Row)
  CFGNode(CFGNode(x,k1),k2) resolves to k1            ↔ `Fr.wrap` keeps an existing kind
  global_special_stmts (mutable list, by reference)   ↔ `Em.sp`: the statements a handler APPENDS to it
  new_special_stmts = []  (loop / switch local list)  ↔ the `Em.sp` of the body, consumed by `dealLoop` / the switch
  handler returns (lasts, boundary); boundary<0 stops ↔ `stop` flag computed per constructor
  self.cfg.add_edge(...) calls, in call order          ↔ the emitted edge sequence `Em.es`
  self.cfg.graph (MultiDiGraph, has_edge guard)       ↔ `build`: `_add_one_edge` folded over the emissions
  an uncaught exception inside analyze()              ↔ sticky `Em.err`
The handlers never read the graph (only `_add_one_edge` does, for its has_edge guard) and never read
`global_special_stmts` (only a loop / switch reads the list it created itself), so the analysis is a
pure function from (block, incoming frontier) to (outgoing frontier, NEW pending break/continue
statements, emitted add_edge calls); threading the graph and the global list, as the Python does, is
the same computation.
Not modelled (the harness flags such inputs as out of model): goto/label rewiring, the dead
`"yield"` handler (all frontends emit `yield_stmt`), unhandled operations that carry blocks
(`with_stmt` …: their block markers become CFG nodes), dowhile `condition_prebody` on the pinned
commit (laid out after the body and walked as straight-line code including its block marker).
-/
namespace LianVerif.Cfg

/-- Structured statement sequence. `clause` only occurs in `tryS.catches`, `caseS` only in
`switchS.cases`; in any other position they are treated as the end of the sequence. -/
inductive S : Type
  | nil
  | simple (id : Nat) (rest : S)
  | ifS (id : Nat) (thn els rest : S)
  /-- while_stmt / forin_stmt / for_value_stmt. `ct`: condition is the literal "true"/"True". -/
  | whileS (id : Nat) (ct : Bool) (pre body els rest : S)
  | doS (id : Nat) (ct : Bool) (body pre rest : S)
  | forS (id : Nat) (ct : Bool) (init pre upd body rest : S)
  | brk (id : Nat) (rest : S)
  | cont (id : Nat) (rest : S)
  | ret (id : Nat) (rest : S)
  /-- nested method_decl: one node, its blocks are skipped. -/
  | decl (id : Nat) (rest : S)
  /-- class_decl / record_decl / interface_decl / struct_decl. `flds`: a fields block exists. -/
  | classS (id : Nat) (flds : Bool) (sinit init methods nested rest : S)
  | tryS (id : Nat) (body catches els fin rest : S)
  | clause (id : Nat) (body rest : S)
  /-- `ft`: the source language falls through from one case body into the next (C, Java, JS);
  `false` for Python `match`.  The analysis ignores it; the control semantics does not. -/
  | switchS (id : Nat) (ft : Bool) (cases rest : S)
  | caseS (id : Nat) (dflt : Bool) (body rest : S)
  deriving Repr, DecidableEq, Inhabited

def S.isNil : S → Bool
  | .nil => true
  | _ => false

/-- CONTROL_FLOW_KIND (config/constants.py); the harness refuses to run when the live values differ. -/
def kEMPTY : Nat := 0
def kIF_TRUE : Nat := 1
def kIF_FALSE : Nat := 2
def kLOOP_TRUE : Nat := 4
def kLOOP_FALSE : Nat := 5
def kLOOP_BACK : Nat := 6
def kCONTINUE : Nat := 8
def kRETURN : Nat := 9
def kCATCH_TRUE : Nat := 10
def kCATCH_FALSE : Nat := 11
def kCATCH_FINALLY : Nat := 12

/-- quirk switches: `false` = behaviour of the pinned commit, `true` = after the `fix:` commit. -/
structure Q where
  /-- continue inside for_stmt joins the frontier entering update_body -/
  forCont : Bool
  /-- condition_prebody of while/dowhile is analysed -/
  pre : Bool
  /-- `last_stmts.pop()` of while…else only removes the LOOP_FALSE exit -/
  popGuard : Bool
  /-- break/continue inside a while's else_body go to the enclosing construct -/
  elseSp : Bool
  /-- a switch without default_stmt is one of its own exits -/
  swNoDflt : Bool
  /-- continue inside switch is handed to the enclosing loop -/
  swCont : Bool
  /-- a compound statement without blocks no longer stops the enclosing block -/
  emptyBnd : Bool
  /-- static_init of a class is entered from `[class_decl]`, not from the bare row -/
  sinit : Bool
  deriving Repr, DecidableEq

def Q.pinned : Q := ⟨false, false, false, false, false, false, false, false⟩
def Q.live : Q := ⟨true, true, true, true, true, true, true, true⟩

/-- element of `previous`: a bare statement (`kind = none`) or `CFGNode(stmt, kind)`. -/
structure Fr where
  id : Nat
  kind : Option Nat
  deriving Repr, DecidableEq

/-- pending break (`isBrk`) or continue statement. -/
structure Sp where
  id : Nat
  isBrk : Bool
  deriving Repr, DecidableEq

/-- an `add_edge` call: source statement, destination (statement id or the exit node -1), kind -/
abbrev Edge := Nat × Int × Nat

/-- result of analysing a block: last statements, NEW pending specials, emitted `add_edge` calls,
error code (0 = none; 1 = IndexError, pop from empty list; 2 = TypeError, bare row as parents). -/
structure Em where
  F : List Fr
  sp : List Sp
  es : List Edge
  err : Nat
  deriving Repr, DecidableEq

/-- `link_parent_stmts_to_current_stmt`: one `add_edge` call per parent. -/
def link (F : List Fr) (dst : Int) : List Edge :=
  F.map (fun f => (f.id, dst, f.kind.getD kEMPTY))

/-- `CFGNode(s, k)` around something that may already be a CFGNode: the inner kind wins. -/
def Fr.wrap (k : Nat) (f : Fr) : Fr := ⟨f.id, some (f.kind.getD k)⟩

def conts (sp : List Sp) : List Fr :=
  (sp.filter (fun s => !s.isBrk)).map (fun s => ⟨s.id, some kCONTINUE⟩)

def nonConts (sp : List Sp) : List Sp := sp.filter (fun s => s.isBrk)

def plain (sp : List Sp) : List Fr := sp.map (fun s => ⟨s.id, none⟩)

def maxErr (a b : Nat) : Nat := if a == 0 then b else a

/-- run `f` on the frontier of `r`, concatenating specials and emissions -/
def Em.andThen (r : Em) (f : List Fr → Em) : Em :=
  let r2 := f r.F
  ⟨r2.F, r.sp ++ r2.sp, r.es ++ r2.es, maxErr r.err r2.err⟩

/-- `deal_with_last_stmts_of_loop_body` (all pending statements are break or continue, so nothing
is left over for `global_special_stmts`): returns the exits and the emitted links. -/
def dealLoop (id : Nat) (ct : Bool) (F : List Fr) (lsp : List Sp) : List Fr × List Edge :=
  let rev := lsp.reverse
  let res : List Fr := plain (rev.filter (fun s => s.isBrk))
  let es := link (F.map (Fr.wrap kLOOP_BACK)) id ++ link (conts rev) id
  (if ct then res else res ++ [⟨id, some kLOOP_FALSE⟩], es)

/-- the `last_stmts.pop()` of `analyze_while_stmt` when an else_body exists: (list, error). -/
def popLast (q : Q) (res : List Fr) : List Fr × Nat :=
  if q.popGuard then
    match res.getLast? with
    | some f => if f.kind == some kLOOP_FALSE then (res.dropLast, 0) else (res, 0)
    | none => (res, 0)
  else
    match res with
    | [] => ([], 1)
    | _ => (res.dropLast, 0)

/-- does the handler's negative boundary stop the enclosing block? -/
def stops (q : Q) (noBlocks : Bool) (F : List Fr) : Bool :=
  noBlocks && (!q.emptyBnd || F.isEmpty)

/-- after the handler of a compound statement: stop the block or go on with `rest` -/
def Em.cont (r : Em) (stop : Bool) (f : List Fr → Em) : Em :=
  if stop then r else r.andThen f

/-- re-evaluation of condition_prebody at the end of a while/dowhile body (fix `pre`): the body's
result `rb` (its specials are the loop's local list) followed by `pre` entered from the body's
frontier and its continue statements. -/
def withPre (q : Q) (pre : S) (rb : Em) (rec : List Fr → Em) : Em :=
  if q.pre && !pre.isNil then
    let F := rb.F ++ conts rb.sp
    let sp := nonConts rb.sp
    if F.isEmpty then ⟨F, sp, rb.es, rb.err⟩
    else
      let r2 := rec F
      ⟨r2.F, sp ++ r2.sp, rb.es ++ r2.es, maxErr rb.err r2.err⟩
  else rb

/-- the tail of a for_stmt iteration: `ru` = update_body entered from `Fb`, `rq` = condition_prebody
entered from `ru.F`; both only count when `Fb` is not empty. -/
def forTail (Fb : List Fr) (lsp : List Sp) (ru rq : Em) : Em :=
  if Fb.isEmpty then ⟨Fb, lsp, [], 0⟩
  else ⟨rq.F, lsp ++ ru.sp ++ rq.sp, ru.es ++ rq.es, maxErr ru.err rq.err⟩

/-- `analyze_block` with the handlers inlined. -/
def analyze (q : Q) : S → List Fr → Em
  | .nil, F => ⟨F, [], [], 0⟩
  | .clause _ _ _, F => ⟨F, [], [], 0⟩
  | .caseS _ _ _ _, F => ⟨F, [], [], 0⟩
  | .simple id rest, F =>
    (⟨[⟨id, none⟩], [], link F id, 0⟩ : Em).andThen (analyze q rest)
  | .decl id rest, F =>
    (⟨[⟨id, none⟩], [], link F id, 0⟩ : Em).andThen (analyze q rest)
  | .ifS id thn els rest, F =>
    let rt := analyze q thn [⟨id, some kIF_TRUE⟩]
    let re := analyze q els [⟨id, some kIF_FALSE⟩]
    let r : Em := ⟨rt.F ++ re.F, rt.sp ++ re.sp, link F id ++ rt.es ++ re.es, maxErr rt.err re.err⟩
    r.cont (stops q (thn.isNil && els.isNil) r.F) (analyze q rest)
  | .whileS id ct pre body els rest, F =>
    -- first evaluation of condition_prebody (its specials are global), link to the loop statement
    let r0 : Em := if q.pre then analyze q pre F else ⟨F, [], [], 0⟩
    let rb := withPre q pre (analyze q body [⟨id, some kLOOP_TRUE⟩]) (analyze q pre)
    let d := dealLoop id ct rb.F rb.sp
    if els.isNil then
      let r : Em := ⟨d.1, r0.sp, r0.es ++ link r0.F id ++ rb.es ++ d.2, maxErr r0.err rb.err⟩
      r.cont (stops q (body.isNil && (!q.pre || pre.isNil)) r.F) (analyze q rest)
    else
      let re := analyze q els [⟨id, some kLOOP_TRUE⟩]
      let p := popLast q d.1
      let r : Em := ⟨p.1 ++ re.F, r0.sp ++ (if q.elseSp then re.sp else []),
        r0.es ++ link r0.F id ++ rb.es ++ d.2 ++ re.es, maxErr (maxErr r0.err rb.err) (maxErr re.err p.2)⟩
      r.andThen (analyze q rest)
  | .doS id ct body pre rest, F =>
    let rb := withPre q pre (analyze q body (F ++ [⟨id, some kLOOP_TRUE⟩])) (analyze q pre)
    let d := dealLoop id ct rb.F rb.sp
    let r : Em := ⟨d.1, [], rb.es ++ d.2, rb.err⟩
    r.cont (stops q (body.isNil && (!q.pre || pre.isNil)) r.F) (analyze q rest)
  | .forS id ct init pre upd body rest, F =>
    let r1 := analyze q init F
    let rp := analyze q pre r1.F
    let rb := analyze q body [⟨id, some kLOOP_TRUE⟩]
    let Fb := if q.forCont then rb.F ++ conts rb.sp else rb.F
    let lsp := if q.forCont then nonConts rb.sp else rb.sp
    -- update_body and the re-evaluation of condition_prebody, with the loop's local specials
    -- (`if len(last_stmts)!=0`: skipped when nothing falls out of the body)
    let ru := analyze q upd Fb
    let rq := analyze q pre ru.F
    let r2 := forTail Fb lsp ru rq
    let d := dealLoop id ct (r2.F ++ rp.F) r2.sp
    let r : Em := ⟨d.1, r1.sp ++ rp.sp, r1.es ++ rp.es ++ rb.es ++ r2.es ++ d.2,
      maxErr (maxErr r1.err rp.err) (maxErr rb.err r2.err)⟩
    r.cont (stops q (body.isNil && (!q.emptyBnd || (init.isNil && pre.isNil && upd.isNil))) r.F)
      (analyze q rest)
  | .brk id _, F => ⟨[], [⟨id, true⟩], link F id, 0⟩
  | .cont id _, F => ⟨[], [⟨id, false⟩], link F id, 0⟩
  | .ret id _, F => ⟨[], [], link F id ++ [(id, -1, kRETURN)], 0⟩
  | .classS id flds sinit init methods nested rest, F =>
    let r0 : Em := ⟨[⟨id, none⟩], [], link F id, if !q.sinit && !sinit.isNil then 2 else 0⟩
    let r := (((r0.andThen (analyze q sinit)).andThen (analyze q init)).andThen (analyze q methods)).andThen
      (analyze q nested)
    r.cont (stops q (!flds && sinit.isNil && init.isNil && methods.isNil && nested.isNil) r.F)
      (analyze q rest)
  | .tryS id body catches els fin rest, F =>
    let rb := analyze q body [⟨id, none⟩]
    let rc := catchLoop rb.F catches
    let re : Em :=
      if els.isNil then ⟨rb.F, [], [], 0⟩ else analyze q els (rb.F.map (Fr.wrap kCATCH_FALSE))
    let ex := rc.F ++ re.F
    let rf : Em :=
      if fin.isNil then ⟨ex, [], [], 0⟩ else analyze q fin (ex.map (Fr.wrap kCATCH_FINALLY))
    let r : Em := ⟨rf.F, rb.sp ++ rc.sp ++ re.sp ++ rf.sp, link F id ++ rb.es ++ rc.es ++ re.es ++ rf.es,
      maxErr (maxErr rb.err rc.err) (maxErr re.err rf.err)⟩
    r.cont (stops q (body.isNil && catches.isNil && els.isNil && fin.isNil) r.F) (analyze q rest)
  | .switchS id _ cases rest, F =>
    let rc := caseLoop id cases []
    let lasts := if q.swNoDflt && !hasDflt cases then rc.F ++ [⟨id, none⟩] else rc.F
    let exits := plain (if q.swCont then nonConts rc.sp else rc.sp)
    let r : Em := ⟨lasts ++ exits, if q.swCont then rc.sp.filter (fun s => !s.isBrk) else [],
      link F id ++ rc.es, rc.err⟩
    r.cont (stops q cases.isNil r.F) (analyze q rest)
where
  /-- the loop over the catch clauses of `analyze_try_stmt`: `F` of the result is the concatenation
  of the clause bodies' last statements -/
  catchLoop (Fb : List Fr) : S → Em
    | .clause cid cbody more =>
      let r := analyze q cbody [⟨cid, some kCATCH_TRUE⟩]
      let rm := catchLoop Fb more
      ⟨r.F ++ rm.F, r.sp ++ rm.sp, link Fb cid ++ r.es ++ rm.es, maxErr r.err rm.err⟩
    | _ => ⟨[], [], [], 0⟩
  /-- the loop over case_stmt/default_stmt of `analyze_switch_stmt`; `prev` =
  last_stmts_of_previous_body, the specials are the switch's own list -/
  caseLoop (sid : Nat) : S → List Fr → Em
    | .caseS cid _ cbody more, prev =>
      let r := analyze q cbody (prev ++ [⟨cid, none⟩])
      let rm := caseLoop sid more r.F
      ⟨rm.F, r.sp ++ rm.sp, (sid, (cid : Int), kEMPTY) :: (r.es ++ rm.es), maxErr r.err rm.err⟩
    | _, prev => ⟨prev, [], [], 0⟩
  hasDflt : S → Bool
    | .caseS _ d _ more => d || hasDflt more
    | _ => false

def hasEdge (es : List Edge) (a : Nat) (b : Int) : Bool :=
  es.any (fun e => e.1 == a && e.2.1 == b)

/-- `BasicGraph._add_one_edge`: no self loop, no negative source, first edge between a pair wins. -/
def addEdge (g : List Edge) (e : Edge) : List Edge :=
  if (e.1 : Int) == e.2.1 then g
  else if (e.1 : Int) < 0 then g
  else if hasEdge g e.1 e.2.1 then g
  else g ++ [e]

/-- the graph after a sequence of `add_edge` calls -/
def build (es : List Edge) : List Edge := es.foldl addEdge []

/-- result of `ControlFlowAnalysis.analyze`: the edge list, or an exception escaping `analyze()`
(1 IndexError, 2 TypeError). -/
inductive Result
  | ok (edges : List Edge)
  | error (code : Nat)
  deriving Repr, DecidableEq

/-- all `add_edge` calls of `ControlFlowAnalysis.analyze`: parameter block, body block, exit edges. -/
def emitted (q : Q) (params body : S) : Em :=
  let r1 := analyze q params []
  let r2 := analyze q body r1.F
  ⟨r2.F, r1.sp ++ r2.sp, r1.es ++ r2.es ++ link r2.F (-1), maxErr r1.err r2.err⟩

def cfg (q : Q) (params body : S) : Result :=
  let r := emitted q params body
  if r.err != 0 then .error r.err else .ok (build r.es)

/-- edge list without kinds -/
def edgePairs (es : List Edge) : List (Int × Int) := es.map (fun e => ((e.1 : Int), e.2.1))

end LianVerif.Cfg
