/-
Model of `GeneralLoader` (src/lian/util/loader.py): the two LRU caches, the active bundle, the
item→bundle index, the bundle files and the index file, with
`save / get_item_by_id / contain / export / export_indexing / remove_unit_id / restore_indexing`.

What is abstracted, and how it is kept honest
* An item's *flattened rows* (`flatten_item_when_saving`) are a `List R`; the per-family pair
  `flatten / unflatten` and the feather round trip are outside this model (they are the `RoundTrip`
  hypothesis of DESIGN §5 C15, monitored per family by the harness on pool items and on items
  harvested from a real analysis).  `get` therefore returns the rows the real code would hand to
  `unflatten_item_dataframe_when_loading`.
* A bundle (one DataFrame holding the rows of several items, selected again by the key column) is
  the association list `item id ↦ rows` in dict order; `convert_active_bundle_to_dataframe` sorts
  by key, which only permutes whole items inside the file and is not observable through any
  operation modelled here (the harness compares file contents per item).  An item with zero rows
  leaves no row in the table, so a query for it finds nothing: `query` returns `notFound` exactly
  when the rows are `[]` or the key is absent.
* The bundle number `-1` ("still in the active bundle") is `none : Option Nat`.
* A write that pyarrow refuses (`DataModel.save` prints the exception and returns `None`) is decided
  by the configuration predicate `writable`; it leaves an unreadable file behind (`none` on `disk`)
  and appends `Event.writeFailed` to the `log` (the `print(e)`).
* `cfg.queryOk = false` models a subclass whose `query_flattened_item_when_loading` asks for a column
  its own `flatten_item_when_saving` never writes (`ClassIDToMembersLoader` at the pinned commit):
  `DataModel.query_index_column_value` then calls `util.error_and_quit`.
* `cfg.cachesExported = false` is `UnitGIRLoader.export`, which does not put the exported bundle into
  the bundle cache.
* A bundle table has its key column only when it has at least one row or the loader was given an
  `item_schema` (`cfg.hasSchema`): `DataModel([], columns=[])` is a table without columns, and a
  query on it ends in `util.error_and_quit`.  `BFile.cols` records that; rewriting a file in
  `remove_unit_id` keeps the columns.

* `active_bundle_length` is a `Nat` (truncated subtraction); the Python counter is an `int`.  The
  invariant clause `len_ok` (Proofs/Loader.lean) shows that in every reachable state of the repaired
  code it equals the number of rows held by the active bundle, so no subtraction ever truncates.

Two variants of `save` / `remove_unit_id`:
* `save`, `removeUnit`   — the code as it is in /repo now (after the `fix:` commits: the cached copy
  of the id is dropped, and `active_bundle_length` is reduced by the rows that leave the active bundle);
* `save0`, `removeUnit0` — the pinned commit (frozen; documents the findings): the item cache is not
  touched and `active_bundle_length` only ever grows.

No imports outside `LianVerif.Model.*`: this file is linked into the `lvdrv` executable.
-/
import LianVerif.Model.Lru

namespace LianVerif.Loader
open LianVerif.Lru

variable {K R : Type} [DecidableEq K]

abbrev Bundle (K R : Type) := List (K × List R)

/-- a bundle table as written to a file / held in the bundle cache. -/
structure BFile (K R : Type) where
  cols : Bool                 -- the key column exists
  items : Bundle K R
deriving Repr

/-- what the item cache holds: the item's DataModel, or the `[]` that
`query_index_column_value` returns when no row matches. -/
inductive CacheVal (R : Type) where
  | rows (l : List R)
  | notFound
deriving Repr, DecidableEq

/-- result of `get_item_by_id`. -/
inductive Got (R : Type) where
  | none                      -- Python `None`: id unknown (or indexed as active but not in the active bundle)
  | notFound                  -- Python `[]`: the bundle has no row for the id
  | item (l : List R)         -- the rows handed to `unflatten_item_dataframe_when_loading`
  | quit                      -- `util.error_and_quit` (query column missing)
  | loadError                 -- `DataModel().load` raised (file missing or unreadable)
deriving Repr, DecidableEq

inductive Event where
  | writeFailed (bundle : Nat)      -- `print(e)` in `DataModel.save` while writing `…bundle<n>`
deriving Repr, DecidableEq

structure Cfg (K R : Type) where
  maxRows : Nat
  itemCap : Nat
  bundleCap : Nat
  cachesExported : Bool := true
  queryOk : Bool := true
  hasSchema : Bool := false
  writable : Bundle K R → Bool := fun _ => true

structure L (K R : Type) where
  itemCache : Lru K (CacheVal R)
  bundleCache : Lru Nat (BFile K R)
  active : List (K × List R)                      -- `active_bundle` (dict order)
  activeLen : Nat                                 -- `active_bundle_length`
  index : List (K × Option Nat)                   -- `item_id_to_bundle_id`; `none` is `-1`
  bundleCount : Nat
  disk : List (Nat × Option (BFile K R))          -- files `<summary>.bundle<n>`; `none` = unreadable
  diskIndex : Option (List (K × Option Nat))      -- file `<summary>.indexing`
  log : List Event

/-- `GeneralLoader.__init__` in an empty workspace directory. -/
def L.init (cfg : Cfg K R) : L K R :=
  { itemCache := Lru.empty cfg.itemCap, bundleCache := Lru.empty cfg.bundleCap, active := [], activeLen := 0,
    index := [], bundleCount := 0, disk := [], diskIndex := none, log := [] }

/-- `query_flattened_item_when_loading` on a loaded bundle, as cached in the item cache. -/
def query (k : K) (b : Bundle K R) : CacheVal R :=
  match alookup k b with
  | some [] => .notFound
  | some rows => .rows rows
  | none => .notFound

def CacheVal.toGot : CacheVal R → Got R
  | .rows l => .item l
  | .notFound => .notFound

/-- `export()` (also called from `save` when the row limit is exceeded). -/
def doExport (cfg : Cfg K R) (s : L K R) : L K R :=
  if s.activeLen > 0 then
    let n := s.bundleCount
    let bundle : BFile K R := { cols := cfg.hasSchema || s.active.any (fun p => !p.2.isEmpty), items := s.active }
    let ok := cfg.writable bundle.items
    { s with
      bundleCount := n + 1
      disk := aset n (if ok then some bundle else none) s.disk
      log := if ok then s.log else s.log ++ [.writeFailed n]
      bundleCache := if cfg.cachesExported then s.bundleCache.put n bundle else s.bundleCache
      index := s.index.map (fun p => if p.2 = none then (p.1, some n) else p)
      active := []
      activeLen := 0 }
  else s

/-- `len(self.active_bundle[_id].flattened_item)` if the id is in the active bundle, else 0. -/
def activeRows (s : L K R) (k : K) : Nat :=
  match alookup k s.active with
  | some old => old.length
  | none => 0

/-- `save(_id, item_content)` — repaired code. -/
def save (cfg : Cfg K R) (s : L K R) (k : K) (rows : List R) : L K R :=
  let s1 := { s with
    itemCache := s.itemCache.remove k
    active := aset k rows s.active
    index := aset k none s.index
    activeLen := s.activeLen - activeRows s k + rows.length }
  if s1.activeLen > cfg.maxRows then doExport cfg s1 else s1

/-- `save(_id, item_content)` — pinned commit: `item_cache` is left alone. -/
def save0 (cfg : Cfg K R) (s : L K R) (k : K) (rows : List R) : L K R :=
  let s1 := { s with
    active := aset k rows s.active
    index := aset k none s.index
    activeLen := s.activeLen + rows.length }
  if s1.activeLen > cfg.maxRows then doExport cfg s1 else s1

/-- the bundle `b`: from the bundle cache, else from its file (then put into the bundle cache);
`none` when `DataModel().load` raises. -/
def loadBundle (s : L K R) (b : Nat) : Option (L K R × BFile K R) :=
  if s.bundleCache.contain b then
    let r := s.bundleCache.get b
    match r.2 with
    | some bd => some ({ s with bundleCache := r.1 }, bd)
    | none => none
  else
    match alookup b s.disk with
    | some (some bd) => some ({ s with bundleCache := s.bundleCache.put b bd }, bd)
    | _ => none

/-- `get_item_by_id(_id)` = `get_raw_item_by_id` followed by the (abstracted) unflattening. -/
def get (cfg : Cfg K R) (s : L K R) (k : K) : L K R × Got R :=
  if s.itemCache.contain k then
    let r := s.itemCache.get k
    ({ s with itemCache := r.1 },
      match r.2 with
      | some cv => cv.toGot
      | none => .none)
  else
    match alookup k s.index with
    | none => (s, .none)
    | some none =>
      match alookup k s.active with
      | some rows => ({ s with itemCache := s.itemCache.put k (.rows rows) }, .item rows)
      | none => (s, .none)
    | some (some b) =>
      match loadBundle s b with
      | none => (s, .loadError)
      | some (s1, bd) =>
        if cfg.queryOk && bd.cols then
          let cv := query k bd.items
          ({ s1 with itemCache := s1.itemCache.put k cv }, cv.toGot)
        else (s1, .quit)

def contain (s : L K R) (k : K) : Bool := (alookup k s.index).isSome

/-- `export_indexing()`. -/
def exportIndexing (s : L K R) : L K R := { s with diskIndex := some s.index }

inductive RemoveOut where
  | ok | keyError | loadError
deriving Repr, DecidableEq

/-- `remove_unit_id(_id)`; statement order as in the Python (an exception leaves the earlier
effects in place).  `fixed` selects the repaired code (accounting of `active_bundle_length`; no
`KeyError` for an id that a restored index marks as active). -/
def removeUnitWith (fixed : Bool) (cfg : Cfg K R) (s : L K R) (k : K) : L K R × RemoveOut :=
  let s1 := { s with itemCache := s.itemCache.remove k }
  match alookup k s1.index with
  | none => (s1, .ok)
  | some b =>
    let s2 := { s1 with index := aerase k s1.index }
    match b with
    | none =>
      if (alookup k s2.active).isSome then
        ({ s2 with active := aerase k s2.active
                   activeLen := if fixed then s2.activeLen - activeRows s2 k else s2.activeLen }, .ok)
      else if fixed then (s2, .ok)                 -- repaired: `self.active_bundle.pop(_id, None)`
      else (s2, .keyError)                         -- pinned: `del self.active_bundle[_id]`
    | some n =>
      let s3 := { s2 with bundleCache := s2.bundleCache.remove n }
      match alookup n s3.disk with
      | some (some bd) =>
        if bd.cols then
          let bd' : BFile K R := { bd with items := aerase k bd.items }
          let ok := cfg.writable bd'.items
          ({ s3 with disk := aset n (if ok then some bd' else none) s3.disk
                     log := if ok then s3.log else s3.log ++ [.writeFailed n] }, .ok)
        else (s3, .keyError)                       -- `remove_rows("unit_id", …)` on a table without columns
      | _ => (s3, .loadError)

/-- the code in /repo now -/
def removeUnit (cfg : Cfg K R) (s : L K R) (k : K) : L K R × RemoveOut := removeUnitWith true cfg s k
/-- the pinned commit -/
def removeUnit0 (cfg : Cfg K R) (s : L K R) (k : K) : L K R × RemoveOut := removeUnitWith false cfg s k

/-- `data[1] + 1` in `restore_indexing`, with `none` standing for the bundle number `-1`. -/
def bNext : Option Nat → Nat
  | some b => b + 1
  | none => 0

/-- one row of the index file: `self.item_id_to_bundle_id[key] = b; self.bundle_count = max(self.bundle_count, b + 1)` -/
def restoreStep (acc : L K R) (p : K × Option Nat) : L K R :=
  { acc with index := aset p.1 p.2 acc.index, bundleCount := max acc.bundleCount (bNext p.2) }

/-- a fresh loader over the same directory followed by `restore_indexing()`. -/
def restore (cfg : Cfg K R) (s : L K R) : L K R :=
  let fresh : L K R := { L.init cfg with disk := s.disk, diskIndex := s.diskIndex, log := s.log }
  match s.diskIndex with
  | none => fresh
  | some rows => rows.foldl restoreStep fresh

inductive Op (K R : Type) where
  | save (k : K) (rows : List R)
  | get (k : K)
  | contain (k : K)
  | exp
  | exportIndexing
  | removeUnit (k : K)
  | restore
  | reopen                       -- `export(); export_indexing()`, then a fresh loader restoring from the files
deriving Repr

inductive Out (R : Type) where
  | unit
  | got (g : Got R)
  | bool (b : Bool)
  | removed (r : RemoveOut)
deriving Repr, DecidableEq

def stepWith (sv : Cfg K R → L K R → K → List R → L K R)
    (rm : Cfg K R → L K R → K → L K R × RemoveOut) (cfg : Cfg K R) (s : L K R) :
    Op K R → L K R × Out R
  | .save k rows => (sv cfg s k rows, .unit)
  | .get k => let r := get cfg s k; (r.1, .got r.2)
  | .contain k => (s, .bool (contain s k))
  | .exp => (doExport cfg s, .unit)
  | .exportIndexing => (exportIndexing s, .unit)
  | .removeUnit k => let r := rm cfg s k; (r.1, .removed r.2)
  | .restore => (restore cfg s, .unit)
  | .reopen => (restore cfg (exportIndexing (doExport cfg s)), .unit)

/-- the code in /repo now -/
def step (cfg : Cfg K R) : L K R → Op K R → L K R × Out R := stepWith save removeUnit cfg
/-- the pinned commit -/
def step0 (cfg : Cfg K R) : L K R → Op K R → L K R × Out R := stepWith save0 removeUnit0 cfg

def run (stp : L K R → Op K R → L K R × Out R) : L K R → List (Op K R) → L K R × List (Out R)
  | s, [] => (s, [])
  | s, op :: ops =>
    let r := stp s op
    let rest := run stp r.1 ops
    (rest.1, r.2 :: rest.2)

/-- as `run`, but also returns the state after every operation (for the correspondence diff). -/
def trace (stp : L K R → Op K R → L K R × Out R) : L K R → List (Op K R) → List (Out R × L K R)
  | _, [] => []
  | s, op :: ops =>
    let r := stp s op
    (r.2, r.1) :: trace stp r.1 ops

end LianVerif.Loader
