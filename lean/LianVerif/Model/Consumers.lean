/-
Models of the two consumers that slice GIR by block markers:

* the root constructor of `GIRBlockViewer` (src/lian/util/gir_block.py): one scan with
  `_stmt_id_to_index` (first index of every id; a second occurrence is tolerated only as the
  `block_end` of an already seen `block_start`) and a stack of open blocks; raises `RuntimeError`
  "duplicate stmt_id detected" / "block_end without block_start" / "block nesting mismatch" /
  "unclosed block detected";
* `DataModel.read_block` (src/lian/util/data_model.py): `error_and_quit` unless the block id occurs
  in exactly two rows.

`done` is the part of the table already scanned (in order), so "the row stored at the first index of
id `i`" is `done.find? (·.id == i)`.

No imports outside `LianVerif.Gir.*`: linked into `lvdrv`.
-/
import LianVerif.Gir.Rows

namespace LianVerif.Consumers
open LianVerif.Gir

inductive ViewErr where
  | duplicate
  | endWithoutStart
  | mismatch
  | unclosed
deriving DecidableEq, Repr

def firstWith (done : Rows) (i : Nat) : Option Row := done.find? (fun r => r.id == i)

/-- the duplicate test: a seen id is allowed again only as `block_end` of a `block_start`. -/
def dupOk (done : Rows) (r : Row) : Bool :=
  match firstWith done r.id with
  | some ex => ex.isStart && r.isEnd
  | none => true

def viewGo : (done : Rows) → (stack : List Nat) → Rows → Except ViewErr Unit
  | _, stack, [] => if stack.isEmpty then .ok () else .error .unclosed
  | done, stack, r :: rest =>
    if !dupOk done r then .error .duplicate
    else if r.isStart then viewGo (done ++ [r]) (r.id :: stack) rest
    else if r.isEnd then
      match stack with
      | [] => .error .endWithoutStart
      | top :: stack' => if top != r.id then .error .mismatch else viewGo (done ++ [r]) stack' rest
    else viewGo (done ++ [r]) stack rest

/-- `GIRBlockViewer(unit_gir)` on a non-empty table -/
def viewer (rows : Rows) : Except ViewErr Unit := viewGo [] [] rows

/-- `DataModel.read_block(b)` finds exactly two rows (`false` = `error_and_quit`) -/
def readBlock (rows : Rows) (b : Nat) : Bool := (rows.filter (fun r => r.id == b)).length == 2

end LianVerif.Consumers
