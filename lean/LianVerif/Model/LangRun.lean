/-
Model of id allocation across the units of a project: `LangAnalysis.run`, `adjust_node_id`,
`GIRParser.deal_with_file_unit`, `GIRParser.add_unit_gir` (src/lian/lang/lang_analysis.py).

Per unit, in table order: the frontend (not modelled) yields a tree or nothing; nothing / a falsy
tree → no rows, counter unchanged; otherwise `flatten` from the current counter, then
`add_main_func`, then every row is stamped `unit_id`; after every unit (with or without rows) the
counter goes through `adjust_node_id`.  The counter returned by `flatten` — not the two ids
`add_main_func` takes above it — is what is carried on; `adjust_node_id` adds `MIN_ID_INTERVAL`
before rounding up to a multiple of 10, which is what keeps the next unit clear of them.

A `flatten` error ends the whole run (`SystemExit` / uncaught exception).

No imports outside `LianVerif.Gir.*` / `LianVerif.Model.*`: linked into `lvdrv`.
-/
import LianVerif.Gir.Flatten
import LianVerif.Model.MainFunc

namespace LianVerif.LangRun
open LianVerif.Gir LianVerif.MainFunc

/-- `LangAnalysis.adjust_node_id` with `config.MIN_ID_INTERVAL = interval`. -/
def adjustNodeId (interval : Nat) (n : Nat) : Nat :=
  let m := n + interval
  if m % 10 != 0 then m + (10 - m % 10) else m

/-- `not gir_statements`: `None`, or an empty list (any falsy value). -/
def treeFalsy : Option JVal → Bool
  | none => true
  | some .null => true
  | some (.int n) => n == 0
  | some (.str s) => s.isEmpty
  | some (.list xs) => xs.isEmpty
  | some (.obj kvs) => kvs.isEmpty

def stamp (unitId : Nat) (r : Row) : Row := { r with attrs := assocSet r.attrs "unit_id" (.int unitId) }

structure Params where
  flat : FlatParams := {}
  main : MainFunc.Params := {}
  interval : Nat := 10

/-- one unit: `(counter after flatten, rows saved for the unit)`; `none` rows = nothing saved. -/
def unitRun (P : Params) (n : Nat) (unitId : Nat) (tree : Option JVal) : Except FlatErr (Nat × Option Rows) :=
  if treeFalsy tree then .ok (n, none)
  else
    match tree with
    | none => .ok (n, none)
    | some t =>
      match flatten P.flat n t with
      | .error e => .error e
      | .ok (n', rows) => .ok (n', some ((addMainFunc P.main rows).map (stamp unitId)))

/-- the loop over `units_to_analyze`; `n` is `current_node_id`.  Result: the saved units (unit id,
rows) in processing order and the final counter (`save_max_gir_id`). -/
def langRun (P : Params) : Nat → List (Nat × Option JVal) → Except FlatErr (List (Nat × Rows) × Nat)
  | n, [] => .ok ([], n)
  | n, (uid, tree) :: rest =>
    match unitRun P n uid tree with
    | .error e => .error e
    | .ok (n', rows?) =>
      match langRun P (adjustNodeId P.interval n') rest with
      | .error e => .error e
      | .ok (units, nf) =>
        match rows? with
        | some rows => .ok ((uid, rows) :: units, nf)
        | none => .ok (units, nf)

/-- `init_start_stmt_id`: `adjust_node_id(max(module_id))`. -/
def startId (P : Params) (maxModuleId : Nat) : Nat := adjustNodeId P.interval maxModuleId

end LianVerif.LangRun
