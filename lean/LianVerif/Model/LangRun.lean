/-
Model of id allocation across the units of a project: `LangAnalysis.run`, `adjust_node_id`,
`GIRParser.deal_with_file_unit`, `GIRParser.add_unit_gir` (src/lian/lang/lang_analysis.py).

Per unit, in table order: the frontend (not modelled) yields a tree or nothing; nothing / a falsy
tree → no rows, counter unchanged; otherwise `flatten` from the current counter, then
`add_main_func`, then every row is stamped `unit_id`; after every unit (with or without rows) the
counter goes through `adjust_node_id`.  The counter returned by `flatten` — not the two ids
`add_main_func` takes above it — is what is carried on; `adjust_node_id` adds `MIN_ID_INTERVAL`
before rounding up to a multiple of 10, which is what keeps the next unit clear of them.

A `flatten` error ends the whole run (`SystemExit` / uncaught exception).

The frontend is a parameter: per unit it either returns (`Frontend.gir`: a tree, or nothing for an
unreadable / empty file or a tree-sitter failure) or an exception escapes `parse_gir`
(`Frontend.raised`).  `Frontend.raised` also stands for an exception raised while the GIR passes
run on the unit's tree (second `fix:` commit: `deal_with_file_unit` reports the file, returns no rows
and leaves the counter where it was) — in the model the passes are total, so this only happens for
interpreter resource limits (`RecursionError` on very deep nesting), which are outside the model.  Two variants are kept side by side:
* `unitRun` / `langRun`   — the code as it is in /repo now: `GIRParser.parse` reports the file with
                            `util.error` and returns nothing for it (the `fix:` commit);
* `unitRun0` / `langRun0` — the pinned commit: the exception propagates and ends the run, so no unit
                            of the project gets any GIR (frozen; documents the finding).

No imports outside `LianVerif.Gir.*` / `LianVerif.Model.*`: linked into `lvdrv`.
-/
import LianVerif.Gir.Flatten
import LianVerif.Model.MainFunc

namespace LianVerif.LangRun
open LianVerif.Gir LianVerif.MainFunc

/-- `LangAnalysis.adjust_node_id` with `config.MIN_ID_INTERVAL = interval`. -/
def adjustNodeId (interval : Nat) (n : Nat) : Nat :=
  let m := n + interval
  if m % 10 != 0 then m + (10 - m % 10) else m

/-- `not gir_statements`: `None`, or an empty list (any falsy value). -/
def treeFalsy : Option JVal → Bool
  | none => true
  | some .null => true
  | some (.int n) => n == 0
  | some (.str s) => s.isEmpty
  | some (.list xs) => xs.isEmpty
  | some (.obj kvs) => kvs.isEmpty

def stamp (unitId : Nat) (r : Row) : Row := { r with attrs := assocSet r.attrs "unit_id" (.int unitId) }

structure Params where
  flat : FlatParams := {}
  main : MainFunc.Params := {}
  interval : Nat := 10

/-- what the (unmodelled) language frontend did for one unit -/
inductive Frontend where
  | gir (tree : Option JVal)     -- `parse` returned this (nothing, or the list of statements)
  | raised (cls : String)        -- an exception of class `cls` escaped `Parser.parse_gir`

/-- `deal_with_file_unit` + `add_unit_gir` once the frontend has returned `tree`:
`(counter after flatten, rows saved for the unit)`; `none` rows = nothing saved. -/
def unitRunGir (P : Params) (n : Nat) (unitId : Nat) (tree : Option JVal) : Except FlatErr (Nat × Option Rows) :=
  if treeFalsy tree then .ok (n, none)
  else
    match tree with
    | none => .ok (n, none)
    | some t =>
      match flatten P.flat n t with
      | .error e => .error e
      | .ok (n', rows) => .ok (n', some ((addMainFunc P.main rows).map (stamp unitId)))

/-- one unit, code as it is now: a frontend exception is reported and the file gets no GIR. -/
def unitRun (P : Params) (n : Nat) (unitId : Nat) : Frontend → Except FlatErr (Nat × Option Rows)
  | .gir tree => unitRunGir P n unitId tree
  | .raised _ => .ok (n, none)

/-- one unit, pinned commit: a frontend exception propagates. -/
def unitRun0 (P : Params) (n : Nat) (unitId : Nat) : Frontend → Except FlatErr (Nat × Option Rows)
  | .gir tree => unitRunGir P n unitId tree
  | .raised cls => .error (.exn cls)

/-- the loop over `units_to_analyze`; `n` is `current_node_id`.  Result: the saved units (unit id,
rows) in processing order and the final counter (`save_max_gir_id`). -/
def langRunWith (interval : Nat) (ur : Nat → Nat → Frontend → Except FlatErr (Nat × Option Rows)) :
    Nat → List (Nat × Frontend) → Except FlatErr (List (Nat × Rows) × Nat)
  | n, [] => .ok ([], n)
  | n, (uid, fe) :: rest =>
    match ur n uid fe with
    | .error e => .error e
    | .ok (n', rows?) =>
      match langRunWith interval ur (adjustNodeId interval n') rest with
      | .error e => .error e
      | .ok (units, nf) =>
        match rows? with
        | some rows => .ok ((uid, rows) :: units, nf)
        | none => .ok (units, nf)

def langRun (P : Params) : Nat → List (Nat × Frontend) → Except FlatErr (List (Nat × Rows) × Nat) :=
  langRunWith P.interval (unitRun P)

def langRun0 (P : Params) : Nat → List (Nat × Frontend) → Except FlatErr (List (Nat × Rows) × Nat) :=
  langRunWith P.interval (unitRun0 P)

/-- `init_start_stmt_id`: `adjust_node_id(max(module_id))`. -/
def startId (P : Params) (maxModuleId : Nat) : Nat := adjustNodeId P.interval maxModuleId

end LianVerif.LangRun
