/-
Model/LowerCore.lean — executable model of how lian's frontends lower a core program
(`LianVerif.Core`, Spec/Core.lean) to structured GIR, driven by a DIALECT TABLE: one set of handlers
(`lowerE`, `lowerS`, `lowerB`), whose language-dependent choices are fields of `Dialect`.

Modelled languages: Python (through the C01 model `LowerPy`: handlers + tmp elimination + hoisting),
PHP (the same passes — after be521c8 PHP declarations are function-scoped like Python's —, C-family
spellings), C, Go, Java, TypeScript (no pass runs for them: the handler output is what is written).
JavaScript is not modelled (its `variable_decl[global]`/`let` bookkeeping is C05's subject).
Fragment: tier 1 (ints, locals, arithmetic, comparison, if/else, while, functions, calls, return,
output) + and/or/not, strings, booleans; counted `for`, break/continue for the C-family dialects.
Arrays and records are not modelled (`lowerProgram` answers `none`).

What the rows of the table record (each seen in the emitted GIR of the pinned commit):
* `andOp/orOp/notOp`  Python spells `and or not`, the others `&& || !`; PHP's `.` is emitted as `+`;
* `divOp`             integer division is `//` in Python, `/` in Java, Go and C (not rendered elsewhere);
* `declEvery`         Python and PHP emit `variable_decl` before EVERY assignment to a name (and the
                      passes merge / hoist them); the others only for a declaration;
* `prebody`           Java, C and Go put the statements that evaluate a loop condition into
                      `condition_prebody`; Python, TypeScript (JavaScript) and PHP put them before the
                      loop and again at the END of the body (`continue` skips the second copy);
* `goFor`             Go spells a condition-only loop as `for_stmt` without init/update;
* `exprStmt`          TypeScript appends `expression_stmt{target}` to every expression statement;
* `callTmpFirst`      Python takes the result temporary of a call before parsing the arguments;
* `fold`              Java folds a binary expression whose two operands are literals with Python's `eval`;
* `negLit`            C reads `-12` as one (negative) number literal;
* `strTmp`            PHP copies every non-empty (double-quoted, possibly interpolating) string literal to a
                      temporary;
* `wrapper`           Java wraps the functions in `class_decl.methods` (static), Go adds `%unit_init`
                      holding `package_stmt`;
* `passes`            tmp elimination + declaration hoisting run for Python and PHP only.
Variable names are kept as they are: PHP's `$x` is the injective renaming `x ↦ $x`, applied by the
JSON encoder of the driver (`Drv/LowerCore.lean`), not here.

`pinned = true` selects the FROZEN behaviour of the pinned commit for the defects repaired on branch
ag-C02: Go `return{target}` / `call_stmt{args}` (unknown operation, arguments invisible), TypeScript
right-operand-first, Java folding with Python spellings (`True`/`False`, pasted source text), PHP
declarations left inside the nested block of the assignment that created them.

Imports `LianVerif.Gir.Sem`, `LianVerif.Spec.Core`, and the C01 model (`Model/LowerPy`, `Spec/PySrc`).
-/
import LianVerif.Gir.Sem
import LianVerif.Spec.Core
import LianVerif.Spec.PySrc
import LianVerif.Model.LowerPy

namespace LianVerif.LowerCore
open LianVerif.Gir LianVerif.Core

inductive Lang where
  | python | javascript | typescript | java | go | c | php
  deriving Repr, BEq, DecidableEq, Inhabited

def Lang.ofString? (s : String) : Option Lang :=
  match s with
  | "python" => some .python | "javascript" => some .javascript | "typescript" => some .typescript
  | "java" => some .java | "go" => some .go | "c" => some .c | "php" => some .php
  | _ => none

inductive Wrapper where
  | none | javaClass | goPackage
  deriving Repr, BEq, DecidableEq, Inhabited

structure Dialect where
  andOp : String := "&&"
  orOp : String := "||"
  notOp : String := "!"
  divOp : String := "/"
  outName : String := "output"
  declEvery : Bool := false
  prebody : Bool := false
  goFor : Bool := false
  exprStmt : Bool := false
  callTmpFirst : Bool := false
  fold : Bool := false
  strTmp : Bool := false
  negLit : Bool := false
  wrapper : Wrapper := .none
  passes : Bool := false
  /-- the hoisting half of the passes (pinned PHP: declarations stayed where they were emitted) -/
  hoistDecls : Bool := true
  /-- frozen defects of the pinned commit -/
  rightFirst : Bool := false
  foldPySpelling : Bool := false
  goOffVocabulary : Bool := false
  deriving Repr, Inhabited

/-- the dialect table. -/
def dialect (l : Lang) (pinned : Bool) : Dialect :=
  match l with
  | .python => { andOp := "and", orOp := "or", notOp := "not", divOp := "//", outName := "print", declEvery := true,
                 callTmpFirst := true, passes := true }
  | .php => { declEvery := true, strTmp := true, passes := true, hoistDecls := !pinned }
  | .javascript => { passes := true }
  | .typescript => { exprStmt := true, rightFirst := pinned }
  | .java => { prebody := true, fold := true, wrapper := .javaClass, foldPySpelling := pinned }
  | .go => { prebody := true, goFor := true, wrapper := .goPackage, goOffVocabulary := pinned }
  | .c => { prebody := true, negLit := true }

abbrev tmp (n : Nat) : String := LowerPy.tmp n

/-! ## Operator spellings -/

def binTok (d : Dialect) : BinOp → String
  | .div => d.divOp
  | .add => "+" | .sub => "-" | .mul => "*" | .mod => "%"
  | .lt => "<" | .le => "<=" | .gt => ">" | .ge => ">=" | .eq => "==" | .ne => "!="
  | .concat => "+"

def unTok (d : Dialect) : UnOp → String
  | .neg => "-"
  | .not => d.notOp

/-! ## Java: folding of a binary expression over two literals (Python `eval` of the source text) -/

/-- value Python's `eval` gives to `a op b` for two literals (`none`: not evaluable / not folded).
Boolean literals are spelled `true`/`false` in the source text: not evaluable. -/
def foldBin (op : BinOp) (a b : Expr) : Option Val :=
  match op, a, b with
  | .add, .int x, .int y => some (.int (x + y))
  | .sub, .int x, .int y => some (.int (x - y))
  | .mul, .int x, .int y => some (.int (x * y))
  | .div, .int x, .int y => if y == 0 then none else some (.int (Int.fdiv x y))
  | .mod, .int x, .int y => if y == 0 then none else some (.int (Int.fmod x y))
  | .lt, .int x, .int y => some (.bool (x < y))
  | .le, .int x, .int y => some (.bool (x ≤ y))
  | .gt, .int x, .int y => some (.bool (x > y))
  | .ge, .int x, .int y => some (.bool (x ≥ y))
  | .eq, .int x, .int y => some (.bool (x == y))
  | .ne, .int x, .int y => some (.bool (x != y))
  | .concat, .str x, .str y => some (.str (x ++ y))
  | _, _, _ => none

def isLit : Expr → Bool
  | .int _ => true
  | .bool _ => true
  | .str _ => true
  | _ => false

def litTok : Expr → String
  | .int n => toString n
  | .bool true => "true"
  | .bool false => "false"
  | .str s => "\"" ++ s ++ "\""
  | _ => "?"

/-- operand a folded expression becomes.  Pinned commit: booleans in Python spelling (a NAME for every
reader of the row), unevaluable text pasted as the operand. -/
def foldOpd (d : Dialect) (tok : String) (a b : Expr) (v : Option Val) : Option Opd :=
  match v with
  | some (.bool r) => some (if d.foldPySpelling then .var (if r then "True" else "False") else .lit (.bool r))
  | some v => some (.lit v)
  | none => if d.foldPySpelling && isLit a && isLit b then some (.var (litTok a ++ tok ++ litTok b)) else none

/-- C: unary minus applied to a number literal is one literal. -/
def negLitOpd (d : Dialect) (op : UnOp) (e : Expr) : Option Opd :=
  match op, e with
  | .neg, .int n => if d.negLit then some (.lit (.int (-n))) else none
  | _, _ => none

/-! ## Handlers -/

mutual
/-- expression handlers: (statements appended, operand, temp counter). -/
def lowerE (d : Dialect) : Expr → Nat → List Gir.Stmt × Opd × Nat
  | .int n, k => ([], .lit (.int n), k)
  | .bool b, k => ([], .lit (.bool b), k)
  | .str s, k =>
    if d.strTmp && s != "" then ([.assign (tmp (k + 1)) "" (.lit (.str s)) none], .var (tmp (k + 1)), k + 1)
    else ([], .lit (.str s), k)
  | .var x, k => ([], .var x, k)
  | .bin op l r, k =>
    match (if d.fold && isLit l && isLit r then foldOpd d (binTok d op) l r (foldBin op l r) else none) with
    | some o => ([], o, k)
    | none =>
      if d.rightFirst then
        let (s2, b, k1) := lowerE d r k
        let (s1, a, k2) := lowerE d l k1
        (s2 ++ s1 ++ [.assign (tmp (k2 + 1)) (binTok d op) a (some b)], .var (tmp (k2 + 1)), k2 + 1)
      else
        let (s1, a, k1) := lowerE d l k
        let (s2, b, k2) := lowerE d r k1
        (s1 ++ s2 ++ [.assign (tmp (k2 + 1)) (binTok d op) a (some b)], .var (tmp (k2 + 1)), k2 + 1)
  | .un op e, k =>
    match negLitOpd d op e with
    | some o => ([], o, k)
    | none =>
      let (s1, a, k1) := lowerE d e k
      (s1 ++ [.assign (tmp (k1 + 1)) (unTok d op) a none], .var (tmp (k1 + 1)), k1 + 1)
  -- and / or: both operands are parsed into the same list, one strict assign_stmt (no frontend short-circuits)
  | .and l r, k =>
    match (if d.fold && isLit l && isLit r then foldOpd d d.andOp l r none else none) with
    | some o => ([], o, k)
    | none =>
      if d.rightFirst then
        let (s2, b, k1) := lowerE d r k
        let (s1, a, k2) := lowerE d l k1
        (s2 ++ s1 ++ [.assign (tmp (k2 + 1)) d.andOp a (some b)], .var (tmp (k2 + 1)), k2 + 1)
      else
        let (s1, a, k1) := lowerE d l k
        let (s2, b, k2) := lowerE d r k1
        (s1 ++ s2 ++ [.assign (tmp (k2 + 1)) d.andOp a (some b)], .var (tmp (k2 + 1)), k2 + 1)
  | .or l r, k =>
    match (if d.fold && isLit l && isLit r then foldOpd d d.orOp l r none else none) with
    | some o => ([], o, k)
    | none =>
      if d.rightFirst then
        let (s2, b, k1) := lowerE d r k
        let (s1, a, k2) := lowerE d l k1
        (s2 ++ s1 ++ [.assign (tmp (k2 + 1)) d.orOp a (some b)], .var (tmp (k2 + 1)), k2 + 1)
      else
        let (s1, a, k1) := lowerE d l k
        let (s2, b, k2) := lowerE d r k1
        (s1 ++ s2 ++ [.assign (tmp (k2 + 1)) d.orOp a (some b)], .var (tmp (k2 + 1)), k2 + 1)
  | .call f args, k =>
    if d.callTmpFirst then
      let res := tmp (k + 1)
      let (ss, os, k1) := lowerArgs d args (k + 1)
      (ss ++ [.call res (.var f) os []], .var res, k1)
    else
      let (ss, os, k1) := lowerArgs d args k
      let res := tmp (k1 + 1)
      -- pinned Go: the arguments sit in an attribute nobody reads
      (ss ++ [.call res (.var f) (if d.goOffVocabulary then [] else os) []], .var res, k1 + 1)
  -- containers are outside the modelled fragment (`inFragment`)
  | .idx _ _, k => ([.unsupported "idx"], .lit .none, k)
  | .fld _ _, k => ([.unsupported "fld"], .lit .none, k)

def lowerArgs (d : Dialect) : List Expr → Nat → List Gir.Stmt × List Opd × Nat
  | [], k => ([], [], k)
  | a :: as, k =>
    let (s1, o, k1) := lowerE d a k
    let (s2, os, k2) := lowerArgs d as k1
    (s1 ++ s2, o :: os, k2)
end

/-- the loop statement of a dialect for condition operand `c` computed by `sc`. -/
def mkWhile (d : Dialect) (sc : List Gir.Stmt) (c : Opd) (body : List Gir.Stmt) : List Gir.Stmt :=
  if d.prebody then
    (if d.goFor then [.block [.loop c sc body [] []]] else [.loop c sc body [] []])
  else sc ++ [.loop c [] (body ++ sc) [] []]

mutual
def lowerS (d : Dialect) : Core.Stmt → Nat → List Gir.Stmt × Nat
  | .decl x _ e, k =>
    let (s, o, k1) := lowerE d e k
    (s ++ [.varDecl x, .assign x "" o none], k1)
  | .assign x e, k =>
    let (s, o, k1) := lowerE d e k
    if d.declEvery then (s ++ [.varDecl x, .assign x "" o none], k1)
    else if d.exprStmt then (s ++ [.assign x "" o none, .pass], k1)
    else (s ++ [.assign x "" o none], k1)
  | .exprS e, k =>
    let (s, _, k1) := lowerE d e k
    (if d.exprStmt then s ++ [.pass] else s, k1)
  | .out e, k =>
    let (s, o, k1) := lowerE d (.call d.outName [e]) k
    let _ := o
    (if d.exprStmt then s ++ [.pass] else s, k1)
  | .ret e, k =>
    let (s, o, k1) := lowerE d e k
    (s ++ [if d.goOffVocabulary then .unsupported "return" else .ret o], k1)
  | .ifS c t e, k =>
    let (sc, oc, k1) := lowerE d c k
    let (bt, k2) := lowerB d t k1
    let (be, k3) := lowerB d e k2
    (sc ++ [.ifS oc bt be], k3)
  | .whileS c body, k =>
    let (sc, oc, k1) := lowerE d c k
    let (b, k2) := lowerB d body k1
    (mkWhile d sc oc b, k2)
  -- counted for: for_stmt{init_body, condition_prebody, condition, update_body, body} (C family);
  -- Python's `forin_stmt` over `range` is not modelled
  | .forS i lo hi body, k =>
    let (sc, oc, k1) := lowerE d (.bin .lt (.var i) hi) k
    let (sl, ol, k2) := lowerE d lo k1
    let si := sl ++ [.varDecl i, .assign i "" ol none]
    -- the update `i = i + 1` is an expression of the header (no expression_stmt, no declaration)
    let (su, ou, k3) := lowerE d (.bin .add (.var i) (.int 1)) k2
    let (b, k4) := lowerB d body k3
    ([.block (si ++ [.loop oc sc b (su ++ [.assign i "" ou none]) []])], k4)
  | .forIter _ _ _, k => ([.unsupported "forIter"], k)
  | .brk, k => ([.brk], k)
  | .cont, k => ([.cont], k)
  | .newArr _ _, k => ([.unsupported "newArr"], k)
  | .newRec _ _ _, k => ([.unsupported "newRec"], k)
  | .setIdx _ _ _, k => ([.unsupported "setIdx"], k)
  | .setFld _ _ _, k => ([.unsupported "setFld"], k)

def lowerB (d : Dialect) : List Core.Stmt → Nat → List Gir.Stmt × Nat
  | [], k => ([], k)
  | s :: rest, k =>
    let (s1, k1) := lowerS d s k
    let (s2, k2) := lowerB d rest k1
    (s1 ++ s2, k2)
end

def lowerFn (d : Dialect) (f : FnDef) (k : Nat) : Gir.Stmt × Nat :=
  let (b, k1) := lowerB d f.body k
  (.methodDecl f.name (f.params.map (fun p => { name := p.1 })) b, k1)

def lowerFns (d : Dialect) : List FnDef → Nat → List Gir.Stmt × Nat
  | [], k => ([], k)
  | f :: rest, k =>
    let (m, k1) := lowerFn d f k
    let (ms, k2) := lowerFns d rest k1
    (m :: ms, k2)

/-! ## The fragment the model covers -/

mutual
def fragE : Expr → Bool
  | .idx _ _ => false
  | .fld _ _ => false
  | .bin _ l r => fragE l && fragE r
  | .un _ e => fragE e
  | .and l r => fragE l && fragE r
  | .or l r => fragE l && fragE r
  | .call _ args => fragArgs args
  | _ => true
def fragArgs : List Expr → Bool
  | [] => true
  | a :: as => fragE a && fragArgs as
end

mutual
def fragS (forOk : Bool) : Core.Stmt → Bool
  | .decl _ _ e => fragE e
  | .assign _ e => fragE e
  | .exprS e => fragE e
  | .out e => fragE e
  | .ret e => fragE e
  | .ifS c t e => fragE c && fragB forOk t && fragB forOk e
  | .whileS c b => fragE c && fragB forOk b
  | .forS _ lo hi b => forOk && fragE lo && fragE hi && fragB forOk b
  | .brk => true
  | .cont => true
  | _ => false
def fragB (forOk : Bool) : List Core.Stmt → Bool
  | [] => true
  | s :: r => fragS forOk s && fragB forOk r
end

/-- is the program inside the fragment modelled for language `l`? -/
def inFragment (l : Lang) (p : Program) : Bool :=
  l != .javascript &&
  -- C marks `char *` parameters / results with attrs [pointer] / [%pointer]: signatures with strings are not modelled
  (l != .c || p.fns.all (fun f => f.ret != .str && f.params.all (fun q => q.2 != .str))) &&
  p.fns.all (fun f => fragB (l != .python && l != .php) f.body)

/-! ## Whole programs -/

/-- everything between the source and the rows that are written. -/
def lowerProgram (l : Lang) (pinned : Bool) (p : Program) : Option (List Gir.Stmt) :=
  if !inFragment l p then none else
  let d := dialect l pinned
  let fs := (lowerFns d p.fns 0).1
  let fs := if d.passes then (if d.hoistDecls then LowerPy.hoist (LowerPy.tmpElim fs) else LowerPy.tmpElim fs) else fs
  match d.wrapper with
  | .none => some fs
  | .javaClass => some [.classDecl "Main" [] fs]
  | .goPackage => some (fs ++ [.methodDecl "%unit_init" [] [.pass]])

/-- the program girexec runs for the model's output: Java's static methods are also bound by their
simple names (`classWithStatics`, the reading the driver applies to the real rows). -/
def execView (l : Lang) (out : List Gir.Stmt) : List Gir.Stmt :=
  match l, out with
  | .java, [.classDecl n sup ms] =>
    [classWithStatics n sup ms (ms.filterMap (fun m => match m with | .methodDecl f _ _ => some f | _ => none))]
  | _, out => out

end LianVerif.LowerCore
