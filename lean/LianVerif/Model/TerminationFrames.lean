/-
C13 — abstract termination models, part 2: the frame-stack driver of the top-down phase.

Mirrors `P3GlobalSemanticAnalysis.analyze_frame_stack` / `init_compute_frame`
(src/lian/core/global_semantics.py) and the call cut-offs of
`GlobalStmtStates.compute_target_method_states` (src/lian/core/global_stmt_states.py):

* one dictionary `call_site_analyze_counter` per entry point, shared by all frames;
* a callee `k` requested at call statement `s` of a frame of method `m` is descended into unless
  the extended call path is already stored (`path_manager.path_exists`), or has more than one
  cycle (`count_cycles() > 1`), or the call site was already analysed for this interruption
  (`content_already_analyzed`), or its counter exceeds `MAX_ANALYSIS_ROUND_FOR_CALL_SITE`;
  every descent increments the counter first;
* quirk kept: the fifth test of the code, `each_callee_id in self.frame.call_path`, compares an
  `int` with `CallSite` objects and is therefore always false — it cuts nothing and is absent here
  (the harness probes `5 in CallPath((CallSite(1,2,5),))` and reports a correspondence break when
  that ever becomes true);
* a request none of whose callees survives the tests does not interrupt; it increments the counters
  of all requested sites and stores their paths (lines 167–172).

The statement analysis of a frame is abstract: a `Runner` is ANY function from (global state, frame,
tick) to (new global state, new local state, optional interruption, inner cost) that never lowers a
call-site counter and pays one unit of call-site budget for every callee it asks the driver to
descend into.  `scriptRunner` (requests come from an arbitrary oracle and go through `request`,
the model of the cut-offs) is the instance used for the theorems "for every behaviour of the
statement analysis" and for replaying real runs; `visitRunner` (TerminationTotal.lean) plugs in
the visit loop of part 1.

Written without fuel; the ranking function is `4·budget + Σ frame weights`.
No imports outside LianVerif.Model: linked into `lvdrv`.
-/
import LianVerif.Model.Termination
import LianVerif.Model.PathStore

namespace LianVerif.Termination
open LianVerif

/-- `CallSite(caller_id, call_stmt_id, callee_id)` -/
abbrev Site := Int × Int × Int

/-- `not CallSite.has_negative()` -/
def siteValid (s : Site) : Bool := decide (0 ≤ s.1) && decide (0 ≤ s.2.1) && decide (0 ≤ s.2.2)

def countCyclesGo : List Site → List Int → Nat
  | [], _ => 0
  | s :: rest, visited =>
    (if visited.contains s.2.2 then 1 else 0) + countCyclesGo rest (s.1 :: s.2.2 :: visited)

/-- `CallPath.count_cycles` -/
def countCycles (p : List Site) : Nat := countCyclesGo p []

/-- per-entry-point global state -/
structure Glob where
  cnt : Site → Nat                       -- `call_site_analyze_counter.get(site, 0)`
  paths : PathStore.Store Site           -- `path_manager` (shared by all entry points)

def bumpSite (cnt : Site → Nat) (s : Site) : Site → Nat := fun x => if x = s then cnt x + 1 else cnt x

def Glob.addPath (G : Glob) (p : List Site) : Glob :=
  { G with paths := (PathStore.mgrAdd siteValid G.paths p).1 }

def Glob.pathExists (G : Glob) (p : List Site) : Bool := G.paths.terms.contains p

/-- remaining call-site budget over the static universe `U` of call sites -/
def budget (U : List Site) (B : Nat) (cnt : Site → Nat) : Nat := sumOver (fun u => B + 1 - cnt u) U

structure Frame (φ : Type) where
  method : Int
  callStmt : Int
  path : List Site                       -- `frame.call_path`
  caa : List (Site × Bool)               -- `frame.content_already_analyzed` (insertion-ordered dict)
  inited : Bool
  loc : φ

def caaGet (caa : List (Site × Bool)) (s : Site) : Bool :=
  match caa.find? (fun p => p.1 == s) with
  | some p => p.2
  | none => false

def pendingCount (caa : List (Site × Bool)) : Nat := (caa.filter (fun p => !p.2)).length

/-- first key whose value is `False`; returns it and the dict with that value set to `True`. -/
def takePending : List (Site × Bool) → Option (Site × List (Site × Bool))
  | [] => none
  | (s, b) :: rest =>
    if b then
      match takePending rest with
      | some (k, rest') => some (k, (s, b) :: rest')
      | none => none
    else some (s, (s, true) :: rest)

/-- `content_already_analyzed = {}; for callee in callee_ids: if key not in …: …[key] = False` -/
def mkCaa (caller stmt : Int) : List Int → List (Site × Bool) → List (Site × Bool)
  | [], acc => acc
  | k :: ks, acc =>
    if acc.any (fun p => p.1 == (caller, stmt, k)) then mkCaa caller stmt ks acc
    else mkCaa caller stmt ks (acc ++ [((caller, stmt, k), false)])

/-! ### The cut-offs: `compute_target_method_states` up to the interruption decision -/

/-- the loop `for each_callee_id in callee_method_ids` (lines 111–125): returns the updated global
state and `callee_ids_to_be_analyzed`.  The membership test in `U` is the model's only addition: it
makes the universe of call sites finite (the harness passes every site the real run touched and
reports a break if a real request falls outside). -/
def request {φ : Type} (U : List Site) (B : Nat) (f : Frame φ) (stmt : Int) :
    List Int → Glob → List Int → Glob × List Int
  | [], G, todo => (G, todo)
  | k :: ks, G, todo =>
    let site : Site := (f.method, stmt, k)
    let calleePath := f.path ++ [site]
    if G.pathExists calleePath || decide (countCycles calleePath > 1) || caaGet f.caa site
        || decide (G.cnt site > B) || !U.contains site then
      request U B f stmt ks G todo
    else
      request U B f stmt ks { G with cnt := bumpSite G.cnt site } (todo ++ [k])

/-- lines 167–172, reached when nothing is to be analysed: count and store every requested site. -/
def settle {φ : Type} (f : Frame φ) (stmt : Int) : List Int → Glob → Glob
  | [], G => G
  | k :: ks, G =>
    let site : Site := (f.method, stmt, k)
    let G1 : Glob := { G with cnt := bumpSite G.cnt site }
    let G2 := if f.method != k then G1.addPath (f.path ++ [site]) else G1
    settle f stmt ks G2

/-! ### Runners -/

structure RunOut (φ : Type) where
  glob : Glob
  loc : φ
  intr : Option (Int × List Int)         -- `InterruptionData.call_stmt_id`, `.callee_ids`
  cost : Nat                             -- statement-loop iterations spent in this invocation

/-- ANY behaviour of `analyze_stmts(frame)` as seen by the driver, subject to two laws. -/
structure Runner (U : List Site) (B : Nat) (φ : Type) where
  run : Glob → Frame φ → Nat → RunOut φ
  mono : ∀ G f t u, G.cnt u ≤ (run G f t).glob.cnt u
  pay : ∀ G f t s ks, (run G f t).intr = some (s, ks) →
    budget U B (run G f t).glob.cnt + ks.length ≤ budget U B G.cnt

theorem budget_anti (U : List Site) (B : Nat) {c c' : Site → Nat} (h : ∀ u, c u ≤ c' u) :
    budget U B c' ≤ budget U B c := by
  unfold budget; apply sumOver_le; intro v; have := h v; omega

theorem request_spec {φ : Type} (U : List Site) (B : Nat) (f : Frame φ) (stmt : Int) (ks : List Int) :
    ∀ (G : Glob) (todo : List Int),
      (∀ u, G.cnt u ≤ (request U B f stmt ks G todo).1.cnt u) ∧
      budget U B (request U B f stmt ks G todo).1.cnt + (request U B f stmt ks G todo).2.length
        ≤ budget U B G.cnt + todo.length := by
  induction ks with
  | nil => intro G todo; simp [request]
  | cons k ks ih =>
    intro G todo
    simp only [request]
    split
    · exact ih G todo
    · rename_i hc
      simp only [Bool.or_eq_true, decide_eq_true_eq, Bool.not_eq_true', not_or, Bool.not_eq_true,
        Bool.not_eq_false] at hc
      obtain ⟨⟨_, hB⟩, hU⟩ := hc
      have hmem : (f.method, stmt, k) ∈ U := List.contains_iff_mem.1 hU
      obtain ⟨ih1, ih2⟩ := ih { G with cnt := bumpSite G.cnt (f.method, stmt, k) } (todo ++ [k])
      have hb : ∀ u, G.cnt u ≤ bumpSite G.cnt (f.method, stmt, k) u := by
        intro u; unfold bumpSite; split <;> omega
      refine ⟨fun u => Nat.le_trans (hb u) (ih1 u), ?_⟩
      have hdrop : budget U B (bumpSite G.cnt (f.method, stmt, k)) + 1 ≤ budget U B G.cnt := by
        unfold budget
        apply sumOver_drop hmem
        · intro v; have := hb v; omega
        · unfold bumpSite; simp only [if_true]; omega
      simp only [List.length_append, List.length_cons, List.length_nil] at ih2
      omega

theorem settle_mono {φ : Type} (f : Frame φ) (stmt : Int) (ks : List Int) :
    ∀ (G : Glob) u, G.cnt u ≤ (settle f stmt ks G).cnt u := by
  induction ks with
  | nil => intro G u; simp [settle]
  | cons k ks ih =>
    intro G u
    simp only [settle]
    refine Nat.le_trans ?_ (ih _ u)
    split <;> (simp only [Glob.addPath]; unfold bumpSite; split <;> omega)

/-- the statement analysis reduced to what the driver sees: a list of raw requests
`(call_stmt_id, callee_method_ids)` issued, in order, during one invocation of `analyze_stmts`.
The first request with a surviving callee interrupts; the rest of the list is not consumed. -/
def processReqs {φ : Type} (U : List Site) (B : Nat) (f : Frame φ) :
    List (Int × List Int) → Glob → Nat → RunOut φ
  | [], G, n => { glob := G, loc := f.loc, intr := none, cost := n }
  | (s, ks) :: rest, G, n =>
    let r := request U B f s ks G []
    if r.2.isEmpty then processReqs U B f rest (settle f s ks r.1) (n + 1)
    else { glob := r.1, loc := f.loc, intr := some (s, r.2), cost := n + 1 }

theorem processReqs_spec {φ : Type} (U : List Site) (B : Nat) (f : Frame φ)
    (reqs : List (Int × List Int)) :
    ∀ (G : Glob) (n : Nat),
      (∀ u, G.cnt u ≤ (processReqs U B f reqs G n).glob.cnt u) ∧
      (∀ s ks, (processReqs U B f reqs G n).intr = some (s, ks) →
        budget U B (processReqs U B f reqs G n).glob.cnt + ks.length ≤ budget U B G.cnt) := by
  induction reqs with
  | nil => intro G n; simp [processReqs]
  | cons r reqs ih =>
    intro G n
    obtain ⟨s, ks⟩ := r
    simp only [processReqs]
    obtain ⟨hm, hp⟩ := request_spec U B f s ks G []
    split
    · obtain ⟨ih1, ih2⟩ := ih (settle f s ks (request U B f s ks G []).1) (n + 1)
      have hmono : ∀ u, G.cnt u ≤ (settle f s ks (request U B f s ks G []).1).cnt u :=
        fun u => Nat.le_trans (hm u) (settle_mono f s ks _ u)
      refine ⟨fun u => Nat.le_trans (hmono u) (ih1 u), ?_⟩
      intro s' ks' h
      have := ih2 s' ks' h
      have := budget_anti U B hmono
      omega
    · refine ⟨hm, ?_⟩
      intro s' ks' h
      simp only [Option.some.injEq, Prod.mk.injEq] at h
      obtain ⟨_, rfl⟩ := h
      simpa using hp

/-- the runner driven by an arbitrary oracle (which may look at everything) -/
def scriptRunner (U : List Site) (B : Nat) (oracle : Glob → Frame Unit → Nat → List (Int × List Int)) :
    Runner U B Unit where
  run G f t := processReqs U B f (oracle G f t) G 0
  mono G f t u := (processReqs_spec U B f (oracle G f t) G 0).1 u
  pay G f t s ks h := (processReqs_spec U B f (oracle G f t) G 0).2 s ks h

/-! ### The driver loop -/

inductive DEv where
  | initFail (method : Int)                         -- `init_compute_frame` returned None: popped
  | init (method : Int) (path : List Site)          -- frame initialised; its call path
  | push (site : Site)                              -- a pending callee frame is created and pushed
  | intr (method stmt : Int) (callees : List Int) (cost : Nat)
  | done (method : Int) (cost : Nat)                -- summary saved, frame popped
deriving Repr

def weight {φ : Type} (f : Frame φ) : Nat := 1 + 3 * pendingCount f.caa + (if f.inited then 0 else 1)

def stackWeight {φ : Type} (st : List (Frame φ)) : Nat := sumOver weight st

def drank {φ : Type} (U : List Site) (B : Nat) (st : List (Frame φ)) (G : Glob) : Nat :=
  4 * budget U B G.cnt + stackWeight st

theorem takePending_count : ∀ (caa : List (Site × Bool)) (k : Site) (caa' : List (Site × Bool)),
    takePending caa = some (k, caa') → pendingCount caa' + 1 = pendingCount caa := by
  intro caa
  induction caa with
  | nil => intro k caa' h; simp [takePending] at h
  | cons p rest ih =>
    intro k caa' h
    obtain ⟨s, b⟩ := p
    cases b with
    | true =>
      simp only [takePending, if_true] at h
      cases hr : takePending rest with
      | none => rw [hr] at h; simp at h
      | some v =>
        rw [hr] at h
        obtain ⟨k2, rest'⟩ := v
        simp only [Option.some.injEq, Prod.mk.injEq] at h
        obtain ⟨_, rfl⟩ := h
        have := ih k2 rest' hr
        simp only [pendingCount, List.filter_cons] at this ⊢
        simpa using this
    | false =>
      simp only [takePending, Bool.false_eq_true, if_false, Option.some.injEq, Prod.mk.injEq] at h
      obtain ⟨_, rfl⟩ := h
      simp [pendingCount]

theorem mkCaa_count (caller stmt : Int) (ks : List Int) :
    ∀ acc, pendingCount (mkCaa caller stmt ks acc) ≤ pendingCount acc + ks.length := by
  induction ks with
  | nil => intro acc; simp [mkCaa]
  | cons k ks ih =>
    intro acc
    simp only [mkCaa]
    split
    · have := ih acc; simp only [List.length_cons]; omega
    · have := ih (acc ++ [((caller, stmt, k), false)])
      simp only [pendingCount, List.filter_append, List.length_append, List.length_cons] at this ⊢
      simp at this
      omega

/-- `if len(frame_stack) > 2: frame.call_path = last_frame.call_path.add_call(last_frame.method_id,
frame.call_stmt_id, frame.method_id)` (else the path stays empty) -/
def initPath {φ : Type} (rest : List (Frame φ)) (callStmt method : Int) : List Site :=
  match rest with
  | [] => []
  | last :: _ => last.path ++ [(last.method, callStmt, method)]

/-- `… self.path_manager.add_path(frame.call_path)` under the same condition -/
def initGlob {φ : Type} (rest : List (Frame φ)) (G : Glob) (path : List Site) : Glob :=
  match rest with
  | [] => G
  | _ :: _ => G.addPath path

theorem initGlob_cnt {φ : Type} (rest : List (Frame φ)) (G : Glob) (path : List Site) :
    (initGlob rest G path).cnt = G.cnt := by
  cases rest <;> rfl

set_option linter.unusedVariables false in
/--
`analyze_frame_stack` for one entry point (the `MetaComputeFrame` at the bottom of the real stack
is left out: "`len(frame_stack) >= 2`" is "`stack ≠ []`", "`len(frame_stack) > 2`" is "a caller
frame exists").  The top of the stack is the head of the list.

* `hasBody G f tick` — `init_compute_frame` succeeds for frame `f` (finds a state space and a non-empty
  CFG; a parameterless method whose body is only a docstring or `...` has none).  It is an ORACLE: it
  may depend on the global state, the frame and the time, so "the callee cannot be initialised" is one
  of the behaviours every theorem about `driver` quantifies over; a frame that fails is popped at
  once and — because the caller marked the call site as handled when it SCHEDULED the frame, not when
  the frame completed — is never scheduled again for the same interruption;
* `mkLoc m`   — the initial local (statement-loop) state of a frame of `m`.
Returns the event trace (its length is the number of driver steps) and the final global state.
-/
def driver {φ : Type} {U : List Site} {B : Nat} (R : Runner U B φ) (hasBody : Glob → Frame φ → Nat → Bool)
    (mkLoc : Int → φ) (stack : List (Frame φ)) (G : Glob) (tick : Nat) : List DEv × Glob :=
  match hst : stack with
  | [] => ([], G)
  | f :: rest =>
    if hi : f.inited = false then
      if hasBody G f tick = false then
        let r := driver R hasBody mkLoc rest G tick
        (DEv.initFail f.method :: r.1, r.2)
      else
        let path := initPath rest f.callStmt f.method
        let G1 := initGlob rest G path
        let r := driver R hasBody mkLoc ({ f with inited := true, path := path } :: rest) G1 tick
        (DEv.init f.method path :: r.1, r.2)
    else
      match hp : takePending f.caa with
      | some (key, caa') =>
        -- a child not yet analysed: mark it, create its frame, push
        let child : Frame φ :=
          { method := key.2.2, callStmt := key.2.1, path := [], caa := [], inited := false,
            loc := mkLoc key.2.2 }
        let r := driver R hasBody mkLoc (child :: { f with caa := caa' } :: rest) G tick
        (DEv.push key :: r.1, r.2)
      | none =>
        let out := R.run G f tick
        match ho : out.intr with
        | some (s, k :: ks) =>
          let caa := mkCaa f.method s (k :: ks) []
          let r := driver R hasBody mkLoc ({ f with caa := caa, loc := out.loc } :: rest) out.glob (tick + 1)
          (DEv.intr f.method s (k :: ks) out.cost :: r.1, r.2)
        | _ =>
          let r := driver R hasBody mkLoc rest out.glob (tick + 1)
          (DEv.done f.method out.cost :: r.1, r.2)
termination_by drank U B stack G
decreasing_by
  · -- initFail: pop
    simp only [drank, stackWeight, sumOver, weight]; omega
  · -- init
    simp only [drank, stackWeight, sumOver, weight, initGlob_cnt, hi]
    simp
  · -- push a pending child
    have := takePending_count f.caa key caa' hp
    have hi' : f.inited = true := by cases h : f.inited <;> simp_all
    simp only [drank, stackWeight, sumOver, weight, pendingCount, List.filter_nil, List.length_nil, hi']
    simp only [pendingCount] at this
    simp
    omega
  · -- interruption with at least one callee
    have hpay := R.pay G f tick s (k :: ks) ho
    have hc := mkCaa_count f.method s (k :: ks) []
    have hi' : f.inited = true := by cases h : f.inited <;> simp_all
    have hpend : pendingCount f.caa = 0 ∨ True := Or.inr trivial
    simp only [drank, stackWeight, sumOver, weight, hi']
    simp only [pendingCount, List.filter_nil, List.length_nil, List.length_cons] at hc hpay ⊢
    simp
    omega
  · -- done: pop
    have hm := budget_anti U B (R.mono G f tick)
    simp only [drank, stackWeight, sumOver, weight]
    omega

/-- the entry frame created by `init_frame_stack` -/
def entryFrame {φ : Type} (mkLoc : Int → φ) (entry : Int) : Frame φ :=
  { method := entry, callStmt := -1, path := [], caa := [], inited := false, loc := mkLoc entry }

def driverSteps {φ : Type} {U : List Site} {B : Nat} (R : Runner U B φ) (hasBody : Glob → Frame φ → Nat → Bool)
    (mkLoc : Int → φ) (entry : Int) (G : Glob) : Nat :=
  (driver R hasBody mkLoc [entryFrame mkLoc entry] G 0).1.length

/-- frames created for the entry point: the entry frame plus one per `push` event -/
def framesCreated (evs : List DEv) : Nat :=
  1 + (evs.filter (fun e => match e with | .push _ => true | _ => false)).length

def interruptions (evs : List DEv) : Nat :=
  (evs.filter (fun e => match e with | .intr .. => true | _ => false)).length

def innerCost : List DEv → Nat
  | [] => 0
  | .intr _ _ _ c :: r => c + innerCost r
  | .done _ c :: r => c + innerCost r
  | _ :: r => innerCost r

def maxPathLen : List DEv → Nat
  | [] => 0
  | .init _ p :: r => max p.length (maxPathLen r)
  | _ :: r => maxPathLen r

end LianVerif.Termination
