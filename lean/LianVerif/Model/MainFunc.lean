/-
Model of `add_main_func` (src/lian/events/default_event_handlers/basic.py), the only
`GIR_LIST_GENERATED` handler registered by default.

The Python walks the flattened rows with an index: a row with `parent_stmt_id == 0` whose operation
ends in `_decl` or is in the exclusion tuple stays (`regular_stmts`); any other `parent == 0` row is
moved (`top_stmts`) *together with the rows that follow it until the next `parent == 0` row* (the
inner `while`); rows with `parent != 0` reached by the outer loop stay.  The two nested loops are one
pass with a flag "the last `parent == 0` row was moved" (`moving`), which is how `split` is written.

`last_stmt_id` is the maximum of `-1` and every `stmt_id`.  When nothing was moved the handler
returns without touching `out_data` (the rows stay as they are).  Otherwise the output is
  regular rows, `method_decl %unit_init` (id `last+1`, parent 0, `body = last+2`),
  `block_start` (id `last+2`, parent `last+1`), the moved rows in order — those with parent 0
  re-parented to `last+2` —, `block_end`.

The exclusion tuple and the name `%unit_init` are parameters (read from the live code by the
harness).

No imports outside `LianVerif.Gir.*`: linked into `lvdrv`.
-/
import LianVerif.Gir.Rows

namespace LianVerif.MainFunc
open LianVerif.Gir

structure Params where
  exclude : List String := ["import_stmt", "from_import_stmt", "export_stmt", "type_alias_decl"]
  unitInit : String := "%unit_init"

/-- `stmt["operation"].endswith("_decl") or stmt["operation"] in exclude_stmts` -/
def keepsTop (P : Params) (op : String) : Bool := strEndsWith op "_decl" || P.exclude.contains op

/-- one pass over the rows; returns `(regular_stmts, top_stmts)`. -/
def split (P : Params) : (moving : Bool) → Rows → Rows × Rows
  | _, [] => ([], [])
  | moving, r :: rest =>
    if r.parent == 0 then
      if keepsTop P r.op then
        let (reg, top) := split P false rest
        (r :: reg, top)
      else
        let (reg, top) := split P true rest
        (reg, r :: top)
    else if moving then
      let (reg, top) := split P true rest
      (reg, r :: top)
    else
      let (reg, top) := split P false rest
      (r :: reg, top)

/-- `last_stmt_id` + 1 (the Python starts from `-1`, so this is `0` on an empty table). -/
def nextId (rows : Rows) : Nat := rows.foldl (fun m r => max m (r.id + 1)) 0

def reparent (body : Nat) (r : Row) : Row := if r.parent == 0 then { r with parent := body } else r

def addMainFunc (P : Params) (rows : Rows) : Rows :=
  let (reg, top) := split P false rows
  if top.isEmpty then rows
  else
    let m := nextId rows
    let decl : Row := { op := "method_decl", id := m, parent := 0,
                        attrs := [("name", .str P.unitInit), ("body", .int (m + 1))] }
    reg ++ [decl, mkStart (m + 1) m] ++ top.map (reparent (m + 1)) ++ [mkEnd (m + 1) m]

end LianVerif.MainFunc
