/-
`DataModel(other_model)` — two wrappers over one DataFrame object.

The constructor branch `isinstance(data, DataModel)` copies three *references*: `_data`, `_rows` and
`_column_indexer`.  From then on an in-place change of the frame through one wrapper (`modify_*`,
`rename_column`, `reset_index`, `fillna`, `set_columns`) is seen by the other wrapper's `_data`, but
only the wrapper that made the change marks its own caches dirty; `remove_rows` and
`append_data_model` *assign* `self._data` and so end the sharing of the frame; `refresh_rows` and (in
the repaired code) `set_refresh_flag` assign a fresh dict and so end the sharing of the index.

Python object identity is modelled by a two-slot heap for frames and a two-slot heap for index
dicts: a wrapper that binds a new object while the old one is shared moves to the free slot.  Every
method is the *same* `step` as for a single table, run on the wrapper's view of the heap.

`_rows` is a value here (a snapshot): true whenever `DataFrame.values` has to build a new array,
i.e. for frames with columns of more than one dtype — the harness only aliases such tables.
-/
import LianVerif.Model.Table

namespace LianVerif.Table

structure Side where
  fr : Bool
  ix : Bool
  schema : List String
  dirty : Bool
  rows : Option (List (List Cell))
deriving DecidableEq, Repr

structure Duo where
  f0 : Frame
  f1 : Frame
  d0 : Indexer
  d1 : Indexer
  a : Side
  b : Side
deriving DecidableEq, Repr

namespace Duo

def frame (d : Duo) (s : Bool) : Frame := if s then d.f1 else d.f0
def dict (d : Duo) (s : Bool) : Indexer := if s then d.d1 else d.d0
def side (d : Duo) (who : Bool) : Side := if who then d.b else d.a
def setFrame (d : Duo) (s : Bool) (f : Frame) : Duo := if s then { d with f1 := f } else { d with f0 := f }
def setDict (d : Duo) (s : Bool) (m : Indexer) : Duo := if s then { d with d1 := m } else { d with d0 := m }
def setSide (d : Duo) (who : Bool) (x : Side) : Duo := if who then { d with b := x } else { d with a := x }

/-- the wrapper `who` (`false` = the original, `true` = the one constructed from it) as a table -/
def view (d : Duo) (who : Bool) : T :=
  let x := d.side who
  { data := d.frame x.fr, schema := x.schema, dirty := x.dirty, rows := x.rows, idx := d.dict x.ix }

/-- `DataModel(t)`: the new wrapper starts dirty, with `refresh_schema()` done, sharing the rest -/
def share (t : T) : Duo :=
  { f0 := t.data, f1 := Frame.empty, d0 := t.idx, d1 := [],
    a := { fr := false, ix := false, schema := t.schema, dirty := t.dirty, rows := t.rows },
    b := { fr := false, ix := false, schema := t.data.cols, dirty := true, rows := t.rows } }

end Duo

/-- the methods that assign `self._data` instead of changing the frame in place -/
def Op.rebinds : Op → Bool
  | .append _ => true
  | .removeRows _ _ => true
  | _ => false

/-- write the wrapper's state back to the heap after a call -/
def Duo.store (d : Duo) (who : Bool) (op : Op) (out : Out) (t' : T) : Duo :=
  let x := d.side who
  let y := d.side (!who)
  let fr' := if op.rebinds && out == Out.unit && x.fr == y.fr then !x.fr else x.fr
  let ix' := if t'.idxRebound && x.ix == y.ix then !x.ix else x.ix
  ((d.setFrame fr' t'.data).setDict ix' t'.idx).setSide who
    { fr := fr', ix := ix', schema := t'.schema, dirty := t'.dirty, rows := t'.rows }

/-- one method call on wrapper `who` (a table the method returns is handed to the caller and not
followed further) -/
def stepD (v : Variant) (d : Duo) (who : Bool) (op : Op) : Duo × Out :=
  match step v (d.view who) op with
  | (t', out, _) => (d.store who op out t', out)

def runD (v : Variant) : Duo → List (Bool × Op) → Duo × List (Out × Frame)
  | d, [] => (d, [])
  | d, (who, op) :: ops =>
    let (d', out) := stepD v d who op
    let (df, outs) := runD v d' ops
    (df, (out, (d'.view who).data) :: outs)

end LianVerif.Table
