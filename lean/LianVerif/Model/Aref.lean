/-
Model/Aref.lean — reference abstract interpreter for the loop-free fragment of C08/C09.

This is NOT a statement-by-statement mirror of lian's analysis (stmt_states.py + resolver.py +
prelim_semantics.py + global_semantics.py, ~8 000 lines, are too large for that; DESIGN §5 "C07, C08,
C09", strength "engine").  It is a model of lian's *input–output behaviour* on the fragment: for every
definition (statement, variable) the set of abstract values lian's result tables hold, as
canonicalised by the harness' `alpha`.  What it mirrors, quirks included:

* flow-sensitive strong update of variables, union at the join after `if`/`else`;
* binary operations: every pair of operand states goes through constant folding — the model calls
  `Fold.binStates`, the model of `assign_stmt_state`/`compute_two_states` (Model/Fold.lean);
* objects are identified by their allocation statement; a field write replaces the field of EVERY
  object the receiver may denote (lian makes a strong update of each receiver state — unsound when
  there are two of them: known finding C08/multi-target-field-write, negative theorem in C08.lean);
* a call is analysed per call site: parameters get exactly the argument sets of that site, the
  result is the returned variable's set.

The tie to the real analyser is the result-level correspondence check of harness/lv/c08.py, c09.py.

Programs are trees (`seq`), not lists of statements, so that all recursion is plain structural
recursion over one ordinary inductive type.  Every defining statement carries the key under which
the harness reports it.  Imports Model/Fold.lean only (core Lean): linked into `lvdrv`.
-/
import LianVerif.Model.Fold

namespace LianVerif.Aref
open LianVerif.PyStrLit LianVerif.Fold

abbrev Var := String
abbrev Key := String
abbrev Site := String        -- key of the allocating statement

inductive Opnd where
  | var (x : Var)
  | const (c : PyVal)
deriving Repr, DecidableEq

/-- statements of a helper function's body (leaf functions over their parameters). -/
inductive HStmt where
  | const (k : Key) (x : Var) (c : PyVal)
  | bin (k : Key) (x : Var) (op : String) (a b : Opnd)
deriving Repr

structure Helper where
  name : String
  params : List (Key × Var)
  body : List HStmt
  ret : Var
deriving Repr

/-- `class K: def __init__(self, p): self.f = p | self.f = c …` (`none` = the parameter). -/
structure Cls where
  name : String
  fields : List (String × Option PyVal)
deriving Repr

inductive Prg where
  | skip
  | seq (a b : Prg)
  | const (k : Key) (x : Var) (c : PyVal)
  | copy (k : Key) (x y : Var)
  | bin (k : Key) (x : Var) (op : String) (a b : Opnd)
  | ite (i : Nat) (t e : Prg)                    -- `if d_i: t else: e`, d_i a fresh decision parameter
  | new (k : Key) (x : Var) (cls : String) (a : Opnd)
  | fwrite (o : Var) (f : String) (a : Opnd)
  | fread (k : Key) (x o : Var) (f : String)
  | call (k : Key) (x : Var) (h : String) (args : List Opnd)
deriving Repr

structure Prog where
  classes : List Cls
  helpers : List Helper
  body : Prg
deriving Repr

/-! ### abstract domain -/

inductive AVal where
  | const (v : PyVal)
  | obj (site : Site)
  | unknown
deriving Repr, DecidableEq

abbrev ASet := List AVal

def union (A B : ASet) : ASet := A ++ B.filter (fun b => !A.contains b)

def dedup : ASet → ASet
  | [] => []
  | a :: as => if (dedup as).contains a then dedup as else a :: dedup as

/-- the abstract store.  Environments are functions (`none` = the name was never assigned on any path
that reaches this point), so that the proofs need no lemmas about association lists; the driver only
prints the log, never an environment. -/
structure AEnv where
  vars : Var → Option ASet
  heap : Site × String → Option ASet

def AEnv.empty : AEnv := { vars := fun _ => none, heap := fun _ => none }

def upd {κ : Type} [DecidableEq κ] (m : κ → Option ASet) (k : κ) (v : ASet) : κ → Option ASet :=
  fun k' => if k' = k then some v else m k'

/-- pointwise union of two maps. -/
def joinMap {κ : Type} (a b : κ → Option ASet) : κ → Option ASet :=
  fun k => match a k, b k with
    | some A, some B => some (union A B)
    | some A, none => some A
    | none, some B => some B
    | none, none => none

def AEnv.join (a b : AEnv) : AEnv := { vars := joinMap a.vars b.vars, heap := joinMap a.heap b.heap }

/-- a variable that was never assigned on a path has no REGULAR state there: unknown. -/
def AEnv.get (σ : AEnv) (x : Var) : ASet := (σ.vars x).getD [.unknown]

def AEnv.set (σ : AEnv) (x : Var) (v : ASet) : AEnv := { σ with vars := upd σ.vars x v }

def evalOpnd (σ : AEnv) : Opnd → ASet
  | .var x => σ.get x
  | .const c => [.const c]

/-! ### binary operations through the folding model -/

def toAState : AVal → AState
  | .const (.int n) => .reg { val := .int n, dt := .int }
  | .const (.bool b) => .reg { val := .bool b, dt := .int }
  | .const (.str s) => .reg { val := .str s, dt := .string }
  | .obj _ => .reg { val := .int 0, dt := .nonBuiltin }
  | .unknown => .nonreg

def ofOState : OState → AVal
  | .val v _ => .const v
  | .anything => .unknown

/-- the abstract binary operation of the current code (`none`: the folding model is undefined here —
`unmodelled` or an escaping exception). -/
def foldBin (op : String) (A B : ASet) : Option ASet :=
  match binStates asciiPrintable op (A.map toAState) (B.map toAState) with
  | .states l => some (dedup (l.map ofOState))
  | _ => none

/-- the same with the pinned commit's folding (frozen). -/
def foldBin0 (op : String) (A B : ASet) : Option ASet :=
  match binStates0 op (A.map toAState) (B.map toAState) with
  | .states l => some (dedup (l.map ofOState))
  | _ => none

/-! ### the interpreter -/

abbrev Log := List (Key × ASet)

abbrev ABin := String → ASet → ASet → Option ASet

def sitesOf (A : ASet) : List Site := A.filterMap (fun a => match a with | .obj s => some s | _ => none)

def hasNonObj (A : ASet) : Bool := A.any (fun a => match a with | .obj _ => false | _ => true)

/-- operand of a helper statement in the helper's local environment (parameters and locals). -/
def evalH (env : Var → Option ASet) : Opnd → ASet
  | .var y => (env y).getD [.unknown]
  | .const c => [.const c]

def execH (ab : ABin) : List HStmt → (Var → Option ASet) → Log → Option ((Var → Option ASet) × Log)
  | [], env, log => some (env, log)
  | .const k x c :: rest, env, log => execH ab rest (upd env x [.const c]) (log ++ [(k, [.const c])])
  | .bin k x op a b :: rest, env, log =>
    match ab op (evalH env a) (evalH env b) with
    | none => none
    | some r => execH ab rest (upd env x r) (log ++ [(k, r)])

def bindParams : List (Key × Var) → List ASet → (Var → Option ASet) × Log
  | (k, p) :: ps, a :: as => let r := bindParams ps as; (upd r.1 p a, (k, a) :: r.2)
  | _, _ => (fun _ => none, [])

def initFields (site : Site) (arg : ASet) (heap : Site × String → Option ASet) :
    List (String × Option PyVal) → (Site × String → Option ASet)
  | [] => heap
  | (f, none) :: rest => upd (initFields site arg heap rest) (site, f) arg
  | (f, some c) :: rest => upd (initFields site arg heap rest) (site, f) [.const c]

def writeAll (heap : Site × String → Option ASet) (f : String) (v : ASet) : List Site → (Site × String → Option ASet)
  | [] => heap
  | s :: ss => writeAll (upd heap (s, f) v) f v ss

def readAll (heap : Site × String → Option ASet) (f : String) : List Site → ASet
  | [] => []
  | s :: ss => union ((heap (s, f)).getD [.unknown]) (readAll heap f ss)

/-- abstract execution; `none` when the folding model is undefined on some operation or the program
refers to an unknown class / helper. -/
def exec (ab : ABin) (P : Prog) : Prg → AEnv → Option (AEnv × Log)
  | .skip, σ => some (σ, [])
  | .seq a b, σ =>
    match exec ab P a σ with
    | none => none
    | some (σ1, l1) =>
      match exec ab P b σ1 with
      | none => none
      | some (σ2, l2) => some (σ2, l1 ++ l2)
  | .const k x c, σ => some (σ.set x [.const c], [(k, [.const c])])
  | .copy k x y, σ => some (σ.set x (σ.get y), [(k, σ.get y)])
  | .bin k x op a b, σ =>
    match ab op (evalOpnd σ a) (evalOpnd σ b) with
    | none => none
    | some r => some (σ.set x r, [(k, r)])
  | .ite _ t e, σ =>
    match exec ab P t σ, exec ab P e σ with
    | some (σ1, l1), some (σ2, l2) => some (σ1.join σ2, l1 ++ l2)
    | _, _ => none
  | .new k x cls a, σ =>
    match P.classes.find? (fun c => c.name = cls) with
    | none => none
    | some c =>
      some ({ vars := upd σ.vars x [.obj k],
              heap := initFields k (evalOpnd σ a) σ.heap c.fields }, [(k, [.obj k])])
  | .fwrite o f a, σ =>
    some ({ σ with heap := writeAll σ.heap f (evalOpnd σ a) (sitesOf (σ.get o)) }, [])
  | .fread k x o f, σ =>
    let r := if hasNonObj (σ.get o) then union (readAll σ.heap f (sitesOf (σ.get o))) [.unknown]
             else readAll σ.heap f (sitesOf (σ.get o))
    some (σ.set x r, [(k, r)])
  | .call k x h args, σ =>
    match P.helpers.find? (fun hp => hp.name = h) with
    | none => none
    | some hp =>
      let bp := bindParams hp.params (args.map (evalOpnd σ))
      match execH ab hp.body bp.1 bp.2 with
      | none => none
      | some (env, hlog) =>
        let r := (env hp.ret).getD [.unknown]
        some (σ.set x r, hlog ++ [(k, r)])

def unionAll : List ASet → ASet
  | [] => []
  | A :: rest => union A (unionAll rest)

def keysDedup : List Key → List Key
  | [] => []
  | k :: ks => if ks.contains k then keysDedup ks else k :: keysDedup ks

/-- the reference result: for every key the union of the logged sets (a helper's definitions are
logged once per call). -/
def mergeLog (log : Log) : Log :=
  (keysDedup (log.map (·.1))).map (fun k => (k, unionAll ((log.filter (fun p => p.1 = k)).map (·.2))))

def run (ab : ABin) (P : Prog) : Option Log := (exec ab P P.body AEnv.empty).map (fun r => mergeLog r.2)

end LianVerif.Aref
