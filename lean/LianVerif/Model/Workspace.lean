/-
Model of workspace preparation (C18):
  `Lian.set_workspace_dir`                         (src/lian/main.py)
  `WorkspaceBuilder.__init__ / manage_directory / prepare_directory /
   copytree_with_extension / run`                  (src/lian/preparation.py)
over the abstract file system of `LianVerif/Spec/Fs.lean`.

Every function threads a state `St` = (file system, effect log, dst→src map) and returns an optional
`Stop`: `quit` = `util.error_and_quit` (sys.exit), `exc e` = an uncaught Python exception,
`fuelOut` = the directory walk did not finish within the fuel (the real run goes on until
`OSError: File name too long`).  Effects that happened before a stop stay in the state, as on disk.

Two variants are kept side by side (`Variant`):
* `pinned` — the code at the pinned commit (frozen; documents the findings);
* `live`   — the code as it is in the repo now: `fix:` 1002e8d (directories inside the workspace are
             neither copied nor descended into) and `fix:` c360ebe (under --force an input strictly
             inside the workspace is refused before anything is deleted).

Quirks mirrored on purpose: the substring tests on "lian_workspace" (workspace option, real path of
inputs); `manage_directory` works on the *textual* `os.path.abspath` of the workspace while `run`
uses the raw option (they name different directories for `link/../x`); without --force the run
always quits; `basename("dir/") == ""`; a top-level symbolic link is skipped, links met by the walk
are neither followed nor copied; `copy2` onto a directory copies *into* it.

Not modelled (assumed off): `--incremental` (backup_workspace), `--strict-parse-mode`,
`-I` header preprocessing, permissions.  The `isdir` branch for a name that `os.walk` listed as a
non-directory is omitted (unreachable: nothing turns a file into a directory during the run).

Imports only the Fs specification (core Lean); linked into `lvdrv`.
-/
import LianVerif.Spec.Fs

namespace LianVerif.Workspace
open LianVerif.Fs

inductive Variant where
  | pinned
  | live
deriving Repr, DecidableEq

def Variant.prune : Variant → Bool
  | .pinned => false
  | .live => true

def Variant.refuse : Variant → Bool
  | .pinned => false
  | .live => true

structure Cfg where
  cwd : Path
  wsOpt : RPath
  inputs : List RPath
  force : Bool
  /-- `options.lang_extensions`, extracted from the live `lang_config` -/
  exts : List String
  /-- `WorkspaceBuilder.required_subdirs`, extracted -/
  subdirs : List String
  /-- `config.SOURCE_CODE_DIR`, `config.EXTERNS_DIR`, `config.DEFAULT_WORKSPACE`, extracted -/
  srcDir : String
  externsDir : String
  defaultName : String
  /-- `config.EXTERNS_MOCK_CODE_DIR`, or `none` under `--nomock` -/
  mock : Option RPath
deriving Repr

inductive Eff where
  | mkdir (p : Path)
  | create (p : Path)
  | overwrite (p : Path)
  | unlink (p : Path)
  | rmtree (p : Path)
deriving Repr, DecidableEq

def Eff.path : Eff → Path
  | .mkdir p | .create p | .overwrite p | .unlink p | .rmtree p => p

inductive Stop where
  | quit
  | exc (e : Err)
  | fuelOut
deriving Repr, DecidableEq

structure St where
  fs : FS
  log : List Eff
  map : List (Path × Path)
  /-- the process's working directory has been deleted (it lay inside the workspace that --force
  emptied): from then on every relative path fails (`os.getcwd()` raises, the kernel answers
  ENOENT), even if a directory of the same name is created again -/
  cwdGone : Bool := false
deriving Repr, DecidableEq

abbrev Res := St × Option Stop

/-- run `f a` for every `a` in order; stop at the first `Stop` -/
def seqAll {α : Type} (f : α → St → Res) : List α → St → Res
  | [], s => (s, none)
  | a :: r, s =>
    match f a s with
    | (s', none) => seqAll f r s'
    | res => res

def andThen (r : Res) (k : St → Res) : Res :=
  match r with
  | (s, none) => k s
  | res => res

/-! ### system calls and `os.path` queries as the process sees them (relative paths need a cwd) -/

def noCwd (s : St) (p : RPath) : Bool := !p.abs && s.cwdGone

def mstat (cwd : Path) (s : St) (p : RPath) : Except Err (Path × Option Node) :=
  if noCwd s p then .error .noent else stat s.fs cwd p

def mlstat (cwd : Path) (s : St) (p : RPath) : Except Err (Path × Option Node) :=
  if noCwd s p then .error .noent else lstat s.fs cwd p

def mExists (cwd : Path) (s : St) (p : RPath) : Bool :=
  match mstat cwd s p with
  | .ok (_, some _) => true
  | _ => false

def mIsDir (cwd : Path) (s : St) (p : RPath) : Bool :=
  match mstat cwd s p with
  | .ok (_, some .dir) => true
  | _ => false

def mIsFile (cwd : Path) (s : St) (p : RPath) : Bool :=
  match mstat cwd s p with
  | .ok (_, some (.file _)) => true
  | _ => false

def mIsLink (cwd : Path) (s : St) (p : RPath) : Bool :=
  match mlstat cwd s p with
  | .ok (_, some (.link _)) => true
  | _ => false

def mListDir (cwd : Path) (s : St) (p : RPath) : Except Err (Path × List String) :=
  match mstat cwd s p with
  | .error e => .error e
  | .ok (q, some .dir) => .ok (q, childNames s.fs q)
  | .ok (_, some _) => .error .notdir
  | .ok (_, none) => .error .noent

/-- `os.path.realpath`; for a relative path it calls `os.getcwd()`, which raises without a cwd -/
def mRealpath (cwd : Path) (s : St) (p : RPath) : Except Err Path :=
  if noCwd s p then .error .noent
  else match stat s.fs cwd p with
    | .ok (q, _) => .ok q
    | .error _ => .ok (lenientReal s.fs 4096 [] (if p.abs then [] else cwd) p.comps).1

/-! ### `Lian.set_workspace_dir` -/

/-- `if default not in options.workspace: options.workspace = join(options.workspace, default)` -/
def setWorkspaceDir (cfg : Cfg) : RPath :=
  if compsContain cfg.wsOpt.comps cfg.defaultName then cfg.wsOpt
  else joinName cfg.wsOpt cfg.defaultName

/-! ### `os.makedirs(path, exist_ok=True)` as a component-wise walk that creates what is missing -/

def mkdirStep (acc : St × Except Err Path) (c : String) : St × Except Err Path :=
  match acc with
  | (s, .error e) => (s, .error e)
  | (s, .ok cur) =>
    if trivialComp c then (s, .ok cur)
    else if c == ".." then (s, .ok cur.dropLast)
    else match lookup s.fs (cur ++ [c]) with
      | none =>
        ({ s with fs := setNode s.fs (cur ++ [c]) .dir, log := s.log ++ [.mkdir (cur ++ [c])] },
         .ok (cur ++ [c]))
      | some .dir => (s, .ok (cur ++ [c]))
      | some (.file _) => (s, .error .exist)
      | some (.link t) =>
        match resolveDir s.fs linkFuelPred (if t.abs then [] else cur) t.comps with
        | .ok q => (s, .ok q)
        | .error _ => (s, .error .exist)

def mkdirs (cwd : Path) (p : RPath) (s : St) : St × Except Err Path :=
  if noCwd s p then (s, .error .noent)
  else match startOf s.fs cwd p with
    | .error e => (s, .error e)
    | .ok st => p.comps.foldl mkdirStep (s, .ok st)

def mkdirsOp (cwd : Path) (p : RPath) (s : St) : Res :=
  match mkdirs cwd p s with
  | (s', .ok _) => (s', none)
  | (s', .error e) => (s', some (.exc e))

/-! ### `os.unlink`, `shutil.rmtree` -/

/-- `p` lies strictly below `w` (`p.startswith(w + os.sep)` on canonical paths) -/
def strictlyInside (p w : Path) : Bool := w.isPrefixOf p && p.length != w.length

def insideOrEq (p w : Path) : Bool := w.isPrefixOf p

def unlinkOp (cwd : Path) (p : RPath) (s : St) : St × Except Err Unit :=
  match mlstat cwd s p with
  | .ok (q, some (.file _)) | .ok (q, some (.link _)) =>
    ({ s with fs := remove s.fs q, log := s.log ++ [.unlink q] }, .ok ())
  | .ok (_, some .dir) => (s, .error .isdir)
  | .ok (_, none) => (s, .error .noent)
  | .error e => (s, .error e)

/-- `shutil.rmtree(path)` of a real directory: everything below it is removed through file
descriptors (links inside are unlinked, never followed); the final `os.rmdir(path)` goes through the
path *string* again, which fails when that string led through something that has just been deleted
(the directory itself then stays, empty).  Deleting the working directory is recorded. -/
def rmtreeOp (cwd : Path) (p : RPath) (s : St) : St × Except Err Unit :=
  match mlstat cwd s p with
  | .ok (q, some .dir) =>
    if q.isEmpty then (s, .error .exist)
    else
      let s1 : St := { s with fs := s.fs.filter (fun e => !(strictlyInside e.1 q)),
                              log := s.log ++ [.rmtree q],
                              cwdGone := s.cwdGone || strictlyInside cwd q }
      match mlstat cwd s1 p with
      | .ok (q', some .dir) =>
        if q' == q then ({ s1 with fs := remove s1.fs q, cwdGone := s1.cwdGone || cwd == q }, .ok ())
        else (s1, .error .noent)
      | _ => (s1, .error .noent)
  | .ok (_, some _) => (s, .error .notdir)
  | .ok (_, none) => (s, .error .noent)
  | .error e => (s, .error e)

/-! ### `WorkspaceBuilder.manage_directory` -/

/-- one iteration of the clean-up loop; any exception becomes `error_and_quit` -/
def wipeChild (cwd : Path) (path : RPath) (name : String) (s : St) : Res :=
  let fp := joinName path name
  if mIsFile cwd s fp || mIsLink cwd s fp then
    match unlinkOp cwd fp s with
    | (s', .ok _) => (s', none)
    | (s', .error _) => (s', some .quit)
  else if mIsDir cwd s fp then
    match rmtreeOp cwd fp s with
    | (s', .ok _) => (s', none)
    | (s', .error _) => (s', some .quit)
  else (s, none)

/-- fix c360ebe: `os.path.realpath(in_path).startswith(os.path.realpath(path) + os.sep)` -/
def inputInsideWs (cfg : Cfg) (s : St) (path : RPath) (i : RPath) : Bool :=
  match mRealpath cfg.cwd s i, mRealpath cfg.cwd s path with
  | .ok ri, .ok rw => strictlyInside ri rw
  | _, _ => false

/-- `WorkspaceBuilder.prepare_directory`: `if not os.path.exists(path): os.makedirs(path)` -/
def prepareDirectory (cwd : Path) (path : RPath) (s : St) : Res :=
  if mExists cwd s path then (s, none) else mkdirsOp cwd path s

/-- the clean-up loop of `manage_directory` -/
def wipe (cwd : Path) (path : RPath) (s : St) : Res :=
  match mListDir cwd s path with
  | .error e => (s, some (.exc e))
  | .ok (_, names) => seqAll (wipeChild cwd path) names s

/-- `path = os.path.abspath(self.options.workspace)` -/
def wsAbsPath (cfg : Cfg) (ws : RPath) : RPath := ofPath (abspath cfg.cwd ws)

def manage (v : Variant) (cfg : Cfg) (ws : RPath) (s : St) : Res :=
  let path := wsAbsPath cfg ws
  if !cfg.force then (s, some .quit)
  else if v.refuse && cfg.inputs.any (inputInsideWs cfg s path) then (s, some .quit)
  else andThen (prepareDirectory cfg.cwd path s) (wipe cfg.cwd path)

/-! ### `shutil.copy2` and the file branch of `copytree_with_extension` -/

/-- `shutil.copyfile(src, dst)` + metadata: `dst` is already the file to write -/
def copy2To (cwd : Path) (src dst' : RPath) (s : St) : Res :=
  match mstat cwd s src with
  | .ok (ps, some (.file c)) =>
    match mstat cwd s dst' with
    | .ok (pd, nd) =>
      if ps == pd then (s, some (.exc .same))
      else match nd with
        | none => ({ s with fs := setNode s.fs pd (.file c), log := s.log ++ [.create pd] }, none)
        | some (.file _) =>
          ({ s with fs := setNode s.fs pd (.file c), log := s.log ++ [.overwrite pd] }, none)
        | some _ => (s, some (.exc .isdir))
    | .error e => (s, some (.exc e))
  | .ok (_, some _) => (s, some (.exc .isdir))
  | .ok (_, none) => (s, some (.exc .noent))
  | .error e => (s, some (.exc e))

/-- `shutil.copy2(src, dst)`: `if os.path.isdir(dst): dst = os.path.join(dst, os.path.basename(src))` -/
def copy2 (cwd : Path) (src dst : RPath) (s : St) : Res :=
  copy2To cwd src (if mIsDir cwd s dst then joinName dst (basename src) else dst) s

/-- `elif os.path.isfile(src)` branch -/
def copyFile (cfg : Cfg) (src dst : RPath) (s : St) : Res :=
  let ext := lowerAscii (splitExt (basename src))
  if !cfg.exts.contains ext then (s, none)
  else
    match mRealpath cfg.cwd s (joinName dst (basename src)), mRealpath cfg.cwd s src with
    | .ok dstFile, .ok srcFile =>
      andThen (copy2 cfg.cwd (ofPath srcFile) (ofPath dstFile) s) fun s' =>
        ({ s' with map := s'.map.filter (fun e => !(e.1 == dstFile)) ++ [(dstFile, srcFile)] }, none)
    | .error e, _ => (s, some (.exc e))
    | _, .error e => (s, some (.exc e))

/-- the recursive call made for each name `os.walk` listed under `files` -/
def copyEntry (cfg : Cfg) (src dst : RPath) (s : St) : Res :=
  if mIsLink cfg.cwd s src then (s, none)
  else if mIsFile cfg.cwd s src then copyFile cfg src dst s
  else (s, none)

/-! ### the `os.walk` loop of `copytree_with_extension` -/

/-- fix 1002e8d: `is_inside_workspace(root)` -/
def insideWorkspace (cfg : Cfg) (wsReal : Path) (s : St) (p : RPath) : Bool :=
  match mRealpath cfg.cwd s p with
  | .ok r => insideOrEq r wsReal
  | .error _ => false

def walk (v : Variant) (cfg : Cfg) (wsReal : Path) (src dst : RPath) : Nat → RPath → St → Res
  | 0, _, s => (s, some .fuelOut)
  | fuel + 1, top, s =>
    match mListDir cfg.cwd s top with
    | .error _ => (s, none)                      -- scandir error: silently skipped by os.walk
    | .ok (_, names) =>
      let dirs := names.filter (fun n => mIsDir cfg.cwd s (joinName top n))
      let files := names.filter (fun n => !mIsDir cfg.cwd s (joinName top n))
      if v.prune && insideWorkspace cfg wsReal s top then (s, none)
      else
        let newDst := join dst (relpath cfg.cwd top src)
        andThen (mkdirsOp cfg.cwd newDst s) fun s1 =>
        andThen (seqAll (fun n => copyEntry cfg (joinName top n) newDst) files s1) fun s2 =>
          seqAll (fun n s' =>
            if mIsLink cfg.cwd s' (joinName top n) then (s', none)
            else walk v cfg wsReal src dst fuel (joinName top n) s') dirs s2

def copyTree (v : Variant) (cfg : Cfg) (wsReal : Path) (fuel : Nat) (src dst : RPath) (s : St) : Res :=
  if mIsLink cfg.cwd s src then (s, none)
  else if mIsDir cfg.cwd s src then walk v cfg wsReal src dst fuel src s
  else if mIsFile cfg.cwd s src then copyFile cfg src dst s
  else (s, none)

/-! ### `WorkspaceBuilder.run` -/

def copyInput (v : Variant) (cfg : Cfg) (wsReal : Path) (fuel : Nat) (srcDir : RPath)
    (i : RPath) (s : St) : Res :=
  match mRealpath cfg.cwd s i with
  | .error e => (s, some (.exc e))
  | .ok real =>
    if compsContain real cfg.defaultName then (s, none)
    else if mIsDir cfg.cwd s i then copyTree v cfg wsReal fuel i (joinName srcDir (basename i)) s
    else copyTree v cfg wsReal fuel i srcDir s

def initSt (fs : FS) : St := { fs := fs, log := [], map := [] }

/-- everything `run` does after `manage_directory` -/
def fill (v : Variant) (fuel : Nat) (cfg : Cfg) (ws : RPath) (wsReal : Path) (s1 : St) : Res :=
  andThen (seqAll (fun d => mkdirsOp cfg.cwd (joinName ws d)) cfg.subdirs s1) fun s2 =>
  let srcDir := joinName ws cfg.srcDir
  andThen (seqAll (copyInput v cfg wsReal fuel srcDir) cfg.inputs s2) fun s3 =>
    match cfg.mock with
    | none => (s3, none)
    | some m => copyTree v cfg wsReal fuel m (joinName ws cfg.externsDir) s3

def prepare (v : Variant) (fuel : Nat) (cfg : Cfg) (fs : FS) : Res :=
  let ws := setWorkspaceDir cfg
  let wsReal := realpath fs cfg.cwd ws                 -- WorkspaceBuilder.__init__ (live code only)
  andThen (manage v cfg ws (initSt fs)) (fill v fuel cfg ws wsReal)

/-! ### the fragment of placements the containment theorems cover (decidable; evaluated by the driver) -/

/-- the file system with everything strictly below `W` hidden -/
def hideBelow (W : Path) (fs : FS) : FS := fs.filter (fun e => !(strictlyInside e.1 W))

/-- every component of every entry is a plain name -/
def plainAllB (fs : FS) : Bool := fs.all (fun e => e.1.all plain)

/-- every proper non-empty prefix of every entry is a directory -/
def wfB (fs : FS) : Bool :=
  fs.all (fun e => (List.range e.1.length).all (fun k => k == 0 || lookup fs (e.1.take k) == some .dir))

def physDirB (fs : FS) (d : Path) : Bool :=
  d.all plain && (List.range d.length).all (fun k => lookup fs (d.take (k + 1)) == some .dir)

/-- The placement is inside the proved fragment, with physical workspace directory `W`:
after `prepare_directory`, the file system is well-formed (plain names, parents are directories),
`W` is a physical directory, and both readings of the workspace option — the textual
`os.path.abspath` used by `manage_directory` and the raw option used by `run` — lead to `W`
*independently of what lies inside `W`*; and the working directory is not strictly inside `W`.
Excluded (and reported by the harness as outside the fragment): options whose two readings differ
(`..` after a symbolic link — open finding), options that reach the workspace through its own
contents, and runs started from inside the workspace (--force then deletes the process's working
directory; the model lets every relative path fail from then on, while the kernel still resolves
leading `..` components from the deleted directory — that corner is not modelled faithfully). -/
def leadsToB (r : Except Err Path) (W : Path) : Bool :=
  match r with
  | .ok q => q == W
  | .error _ => false

def inFragment (cfg : Cfg) (fs : FS) (W : Path) : Bool :=
  let ws := setWorkspaceDir cfg
  let s1 := (prepareDirectory cfg.cwd (wsAbsPath cfg ws) (initSt fs)).1
  let out := hideBelow W s1.fs
  !W.isEmpty && plainAllB s1.fs && wfB s1.fs && physDirB s1.fs W
    && leadsToB (resolveDir out linkFuel [] (abspath cfg.cwd ws)) W
    && leadsToB (resolveDir out linkFuel (if ws.abs then [] else cfg.cwd) (dropTrailingEmpty ws.comps)) W
    && cfg.subdirs.all plain && cfg.subdirs.contains cfg.srcDir && cfg.subdirs.contains cfg.externsDir
    && !(strictlyInside cfg.cwd W)

/-- the physical workspace directory, if the workspace path exists after `prepare_directory` -/
def wsPhys (cfg : Cfg) (fs : FS) : Option Path :=
  let ws := setWorkspaceDir cfg
  let s1 := (prepareDirectory cfg.cwd (wsAbsPath cfg ws) (initSt fs)).1
  match resolveDir s1.fs linkFuel [] (abspath cfg.cwd ws) with
  | .ok W => some W
  | .error _ => none

def maxDepth (fs : FS) : Nat := fs.foldl (fun m e => max m e.1.length) 0

/-- fuel with which the driver runs the walk: the depth of the file system `prepare_directory`
leaves, plus slack (the termination theorem needs `maxDepth … + 2`) -/
def defaultFuel (cfg : Cfg) (fs : FS) : Nat :=
  maxDepth (prepareDirectory cfg.cwd (wsAbsPath cfg (setWorkspaceDir cfg)) (initSt fs)).1.fs
    + cfg.cwd.length + cfg.wsOpt.comps.length + 4

/-- additional (decidable) hypotheses of the termination theorem: the workspace location computed
by `WorkspaceBuilder.__init__` is `W`, the working directory is a physical directory outside `W` -/
def inFragmentBound (cfg : Cfg) (fs : FS) (W : Path) : Bool :=
  inFragment cfg fs W
    && (realpath fs cfg.cwd (setWorkspaceDir cfg) == W)
    && physDirB (prepareDirectory cfg.cwd (wsAbsPath cfg (setWorkspaceDir cfg)) (initSt fs)).1.fs cfg.cwd
    && !(strictlyInside cfg.cwd W)

/-- depth of the deepest effect, number of file copies: the quantities the unbounded-copy witness
on the pinned model is about -/
def maxEffDepth (log : List Eff) : Nat := log.foldl (fun m e => max m e.path.length) 0

def copyCount (log : List Eff) : Nat :=
  (log.filter (fun e => match e with | .create _ | .overwrite _ => true | _ => false)).length

end LianVerif.Workspace
