/-
FROZEN model `Sched0` of the statement scheduler of one phase-III frame at the pinned commit:
`P2PrelimSemanticAnalysis.analyze_stmts` (src/lian/core/prelim_semantics.py) driving
`SimpleWorkList` (src/lian/common_structs.py), including what happens when a statement interrupts the
frame (callee descent) and the frame is resumed later.

Mirrored literally:
* `SimpleWorkList._add_with_priority` = `heapq.heappush` of `(priority_dict.get(item, 0), item)` when
  the item is not in `all_data`; `pop()` = `work_list.pop(0)` (NOT `heappop`: the list stops being a
  heap) and removal from `all_data`; `peek()` = `work_list[0]`.
* one iteration of `analyze_stmts`: peek; a statement that is `<= 0` or has no counter is popped; if its
  counter is below `max_analysis_round` its CFG successors are pushed, else it is popped unanalysed;
  `interruption_flag` set ⇒ `analyze_reachable_symbols` is SKIPPED for the statement now on top
  (whatever it is) and the flag is cleared; `compute_stmt_states`; on interruption return WITHOUT pop
  (the driver sets `interruption_flag` again before the next call); otherwise `pop()` and counter += 1.
* a resumed frame simply runs the same loop again: it re-peeks `work_list[0]`, which after the
  successor pushes may be a different statement than the interrupted one.

`loop_total_rounds` is never filled in by any code and is therefore absent.  Statement ids are
positive; the CFG exit node (-1) is 0 here.  The oracle `interrupts` says, visit by visit, whether
`compute_stmt_states` returned an interruption (that is decided by call resolution and the driver).

Output: the visit sequence `(statement, blind)`, `blind` = visited with `interruption_flag` set, i.e.
without reaching-definition input.

No imports: linked into `lvdrv`.
-/
namespace LianVerif.Sched

abbrev Item := Nat × Nat        -- (priority, statement)

/-- tuple comparison `(p1, s1) < (p2, s2)` -/
def itemLt (a b : Item) : Bool := a.1 < b.1 || (a.1 == b.1 && a.2 < b.2)

/-- `heapq._siftdown(heap, 0, pos)` with `newitem` held aside, on a list -/
def siftdown (newitem : Item) : Nat → List Item → Nat → List Item
  | 0, heap, pos => heap.set pos newitem
  | fuel + 1, heap, pos =>
    if pos = 0 then heap.set 0 newitem
    else
      let parentpos := (pos - 1) / 2
      let parent := heap.getD parentpos (0, 0)
      if itemLt newitem parent then siftdown newitem fuel (heap.set pos parent) parentpos
      else heap.set pos newitem

/-- `heapq.heappush` -/
def heappush (heap : List Item) (it : Item) : List Item :=
  let h := heap ++ [it]
  siftdown it h.length h (h.length - 1)

structure Cfg where
  succ : List (Nat × List Nat)      -- CFG successors in networkx order
  prio : List (Nat × Nat)           -- SimpleWorkList.priority_dict
  stmts : List Nat                  -- keys of frame.stmt_counters
  first : List Nat                  -- util.find_cfg_first_nodes
  maxRound : Nat                    -- self.max_analysis_round
deriving Repr

def lookup (tab : List (Nat × β)) (k : Nat) (d : β) : β :=
  match tab with
  | [] => d
  | (k', v) :: rest => if k' = k then v else lookup rest k d

structure WL where
  list : List Item
  all : List Nat
deriving Repr

def WL.add (c : Cfg) (w : WL) (nodes : List Nat) : WL :=
  nodes.foldl (fun w n => if w.all.contains n then w
    else { list := heappush w.list (lookup c.prio n 0, n), all := n :: w.all }) w

def WL.pop (w : WL) : WL :=
  match w.list with
  | [] => w
  | it :: rest => { list := rest, all := w.all.erase it.2 }

structure S where
  wl : WL
  counters : List (Nat × Nat)
  flag : Bool                    -- frame.interruption_flag
  oracle : List Bool             -- remaining interruption answers
  visits : List (Nat × Bool)     -- (statement, blind), newest last
deriving Repr

def bump (cs : List (Nat × Nat)) (s : Nat) : List (Nat × Nat) :=
  match cs with
  | [] => [(s, 1)]
  | (k, v) :: rest => if k = s then (k, v + 1) :: rest else (k, v) :: bump rest s

/-- one iteration of the `while len(frame.stmt_worklist) != 0` loop (suspension and resumption of the
frame are invisible here: the loop is simply re-entered) -/
def iter (c : Cfg) (st : S) : S :=
  match st.wl.list with
  | [] => st
  | top :: _ =>
    let s := top.2
    if s = 0 || !(c.stmts.contains s) then { st with wl := st.wl.pop }
    else if lookup st.counters s 0 < c.maxRound then
      let wl1 := st.wl.add c (lookup c.succ s [])
      let blind := st.flag
      let visits := st.visits ++ [(s, blind)]
      match st.oracle with
      | true :: rest =>          -- compute_stmt_states interrupts: return without pop; the driver sets the flag
        { st with wl := wl1, flag := true, oracle := rest, visits := visits }
      | false :: rest =>
        { wl := wl1.pop, counters := bump st.counters s, flag := false, oracle := rest, visits := visits }
      | [] =>
        { wl := wl1.pop, counters := bump st.counters s, flag := false, oracle := [], visits := visits }
    else { st with wl := st.wl.pop }

def run (c : Cfg) : Nat → S → S
  | 0, st => st
  | fuel + 1, st => if st.wl.list.isEmpty then st else run c fuel (iter c st)

def start (c : Cfg) (oracle : List Bool) : S :=
  { wl := ({ list := [], all := [] } : WL).add c c.first, counters := [], flag := false,
    oracle := oracle, visits := [] }

/-- the visit sequence of one frame -/
def schedule (c : Cfg) (oracle : List Bool) (fuel : Nat) : List (Nat × Bool) :=
  (run c fuel (start c oracle)).visits

end LianVerif.Sched
