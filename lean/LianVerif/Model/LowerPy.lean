/-
Model/LowerPy.lean — executable model of lian's Python lowering for the core fragment of
`LianVerif.PySrc`, mirroring `src/lian/lang/python_parser.py` handler by handler (same order of
`self.parse` calls, same moment at which `tmp_variable()` is called), followed by the passes that run
before the rows are written: `remove_unnecessary_tmp_variables_in_list`, `adjust_variable_decls`
(events/default_event_handlers/add_var_decl.py) and `add_main_func` (basic.py).

`Cfg` selects between the code as it is now and the pinned commit for the two handlers that were
repaired (`chainFixed`: 397a1ee chained comparison, `augFixed`: f44b6a7 augmented assignment); the
frozen pinned model is `Cfg.pinned`.  Quirks kept on purpose: `and`/`or` evaluate both operands
(`boolean_operator`), the statements that evaluate a `while` condition are placed before the loop and
appended to the end of its body (`while_statement`), bare names are operands by name.

Imports `LianVerif.Gir.Sem` (target syntax) and `LianVerif.Spec.PySrc` (source syntax) only.
-/
import LianVerif.Gir.Sem
import LianVerif.Spec.PySrc

namespace LianVerif.LowerPy
open LianVerif.Gir LianVerif.PySrc

structure Cfg where
  chainFixed : Bool := true
  augFixed : Bool := true
  deriving Repr, Inhabited

def Cfg.current : Cfg := {}
def Cfg.pinned : Cfg := { chainFixed := false, augFixed := false }

/-- `common_parser.tmp_variable`: LIAN_INTERNAL.VARIABLE_DECL_PREF ++ str(id). -/
def tmp (n : Nat) : String := "%vv" ++ toString n

/-! ## Handlers -/

mutual
/-- expression handlers: (statements appended, operand text, temp counter). -/
def lowerE (cfg : Cfg) : Expr → Nat → List Stmt × Opd × Nat
  | .const v, k => ([], .lit v, k)
  | .name x, k => ([], .var x, k)
  -- binary_comparison_operator (binary_operator / two-operand comparison_operator)
  | .bin op l r, k =>
    let (s1, a, k1) := lowerE cfg l k
    let (s2, b, k2) := lowerE cfg r k1
    (s1 ++ s2 ++ [.assign (tmp (k2 + 1)) op a (some b)], .var (tmp (k2 + 1)), k2 + 1)
  -- unary_operator / not_operator
  | .un op e, k =>
    let (s1, a, k1) := lowerE cfg e k
    (s1 ++ [.assign (tmp (k1 + 1)) op a none], .var (tmp (k1 + 1)), k1 + 1)
  -- boolean_operator: both operands are parsed into the same list
  | .boolop op l r, k =>
    let (s1, a, k1) := lowerE cfg l k
    let (s2, b, k2) := lowerE cfg r k1
    (s1 ++ s2 ++ [.assign (tmp (k2 + 1)) op a (some b)], .var (tmp (k2 + 1)), k2 + 1)
  | .cmp3 op1 op2 a b c, k =>
    if cfg.chainFixed then
      -- chained_comparison: result temp first; a variable compared twice is copied once
      let res := tmp (k + 1)
      let (sa, oa, k1) := lowerE cfg a (k + 1)
      let (sb, ob, k2) := lowerE cfg b k1
      let snap : List Stmt × Opd × Nat :=
        match b with
        | .name _ => ([.assign (tmp (k2 + 1)) "" ob none], .var (tmp (k2 + 1)), k2 + 1)
        | _ => ([], ob, k2)
      let (sc, oc, k4) := lowerE cfg c snap.2.2
      (sa ++ sb ++ snap.1 ++
        [.assign res op1 oa (some snap.2.1),
         .ifS (.var res) (sc ++ [.assign res op2 snap.2.1 (some oc)]) []],
       .var res, k4)
    else
      -- pinned binary_comparison_operator: first operand, last operand, first operator
      let (sa, oa, k1) := lowerE cfg a k
      let (sc, oc, k2) := lowerE cfg c k1
      (sa ++ sc ++ [.assign (tmp (k2 + 1)) op1 oa (some oc)], .var (tmp (k2 + 1)), k2 + 1)
  -- conditional_expression
  | .ifexp t c e, k =>
    let (sc, oc, k1) := lowerE cfg c k
    let res := tmp (k1 + 1)
    let (st, ot, k2) := lowerE cfg t (k1 + 1)
    let (se, oe, k3) := lowerE cfg e k2
    (sc ++ [.ifS oc (st ++ [.assign res "" ot none]) (se ++ [.assign res "" oe none])], .var res, k3)
  -- call_expression: the result temp is taken before the arguments are parsed
  | .call f args, k =>
    let res := tmp (k + 1)
    let (ss, os, k1) := lowerArgs cfg args (k + 1)
    (ss ++ [.call res (.var f) os []], .var res, k1)

def lowerArgs (cfg : Cfg) : List Expr → Nat → List Stmt × List Opd × Nat
  | [], k => ([], [], k)
  | a :: as, k =>
    let (s1, o, k1) := lowerE cfg a k
    let (s2, os, k2) := lowerArgs cfg as k1
    (s1 ++ s2, o :: os, k2)
end

mutual
/-- statement handlers. -/
def lowerS (cfg : Cfg) : PStmt → Nat → List Stmt × Nat
  -- assignment, identifier target, no operator
  | .assign x e, k =>
    let (s, o, k1) := lowerE cfg e k
    (s ++ [.varDecl x, .assign x "" o none], k1)
  -- assignment, identifier target, augmented
  | .aug x op e, k =>
    let (s, o, k1) := lowerE cfg e k
    if cfg.augFixed then
      if s.isEmpty then ([.assign x op (.var x) (some o)], k1)
      else ([.assign (tmp (k1 + 1)) "" (.var x) none] ++ s ++
            [.assign x op (.var (tmp (k1 + 1))) (some o)], k1 + 1)
    else (s ++ [.assign x op (.var x) (some o)], k1)
  | .exprS e, k =>
    let (s, _, k1) := lowerE cfg e k
    (s, k1)
  -- if_statement
  | .ifS c t e, k =>
    let (sc, oc, k1) := lowerE cfg c k
    let (bt, k2) := lowerB cfg t k1
    let (be, k3) := lowerB cfg e k2
    (sc ++ [.ifS oc bt be], k3)
  -- while_statement: condition statements before the loop AND at the end of the body
  | .whileS c body, k =>
    let (sc, oc, k1) := lowerE cfg c k
    let (b, k2) := lowerB cfg body k1
    (sc ++ [.loop oc [] (b ++ sc) [] []], k2)
  | .brk, k => ([.brk], k)
  | .cont, k => ([.cont], k)
  | .pass, k => ([.pass], k)
  | .ret e, k =>
    let (s, o, k1) := lowerE cfg e k
    (s ++ [.ret o], k1)
  -- global_statement (one name per statement in the fragment)
  | .globalS x, k => ([.globalS x], k)

def lowerB (cfg : Cfg) : List PStmt → Nat → List Stmt × Nat
  | [], k => ([], k)
  | s :: rest, k =>
    let (s1, k1) := lowerS cfg s k
    let (s2, k2) := lowerB cfg rest k1
    (s1 ++ s2, k2)
end

def lowerFn (cfg : Cfg) (d : FnDef) (k : Nat) : Stmt × Nat :=
  let (b, k1) := lowerB cfg d.body k
  (.methodDecl d.name (d.params.map (fun p => { name := p })) b, k1)

def lowerFns (cfg : Cfg) : Prog → Nat → List Stmt × Nat
  | [], k => ([], k)
  | d :: rest, k =>
    let (m, k1) := lowerFn cfg d k
    let (ms, k2) := lowerFns cfg rest k1
    (m :: ms, k2)

/-- the unit: function definitions, then the module-level statements (one temp counter per file). -/
def lowerModule (cfg : Cfg) (m : Module) : List Stmt :=
  let (fs, k1) := lowerFns cfg m.fns 0
  fs ++ (lowerB cfg m.top k1).1

def lowerProg (cfg : Cfg) (p : Prog) (_k : Nat) : List Stmt := lowerModule cfg { fns := p }

/-! ## Pass: remove_unnecessary_tmp_variables_in_list -/

/-- `temp_var.startswith(LIAN_INTERNAL.VARIABLE_DECL_PREF)` -/
def isTmpName (s : String) : Bool :=
  match s.toList with
  | '%' :: 'v' :: 'v' :: _ => true
  | _ => false

/-- "target" of the statements in CAN_OPTIMIZE_OPS that exist in structured form. -/
def optTarget : Stmt → Option String
  | .assign t _ _ _ => some t
  | .call t _ _ _ => some t
  | .arrayRead t _ _ => some t
  | .fieldRead t _ _ => some t
  | _ => none

def retarget (s : Stmt) (t : String) : Stmt :=
  match s with
  | .assign _ op a b => .assign t op a b
  | .call _ f as ns => .call t f as ns
  | .arrayRead _ a i => .arrayRead t a i
  | .fieldRead _ r f => .fieldRead t r f
  | s => s

/-- look back from position `k` (at most `steps` candidates) for the definition of `tv`:
`some k'` = merge into position k'. -/
def lookBack (ss : List Stmt) (tv : String) : Nat → Nat → Option Nat
  | _, 0 => none
  | k, steps + 1 =>
    match ss[k]? with
    | none => none
    | some (.varDecl _) => (match k with
      | 0 => none
      | k' + 1 => lookBack ss tv k' steps)
    | some s =>
      match optTarget s with
      | some t => if t == tv then some k else none
      | none => none

/-- one iteration of the backward loop at index `i`. -/
def tryMerge (ss : List Stmt) (i : Nat) : List Stmt :=
  match ss[i]? with
  | some (.assign final "" (.var tv) none) =>
    if isTmpName tv then
      match i with
      | 0 => ss
      | i' + 1 =>
        match lookBack ss tv i' 3 with
        | some k =>
          match ss[k]? with
          | some s => (ss.set k (retarget s final)).eraseIdx i
          | none => ss
        | none => ss
    else ss
  | _ => ss

/-- `for i in range(len(stmts) - 1, 0, -1)` -/
def elimLoop : Nat → List Stmt → List Stmt
  | 0, ss => ss
  | i + 1, ss => elimLoop i (tryMerge ss (i + 1))

def elimList (ss : List Stmt) : List Stmt :=
  if ss.length < 2 then ss else elimLoop (ss.length - 1) ss

mutual
/-- `recursive_remove_tmp_vars`: every list of the tree (inner lists first; the order is immaterial
because merging at one level never looks inside a compound statement). -/
def elimS : Stmt → Stmt
  | .ifS c t e => .ifS c (elimList (elimL t)) (elimList (elimL e))
  | .loop c pre b u e =>
    .loop c (elimList (elimL pre)) (elimList (elimL b)) (elimList (elimL u)) (elimList (elimL e))
  | .forin x r b => .forin x r (elimList (elimL b))
  | .block b => .block (elimList (elimL b))
  | .methodDecl n ps b => .methodDecl n ps (elimList (elimL b))
  | .classDecl n s ms => .classDecl n s (elimList (elimL ms))
  | s => s

def elimL : List Stmt → List Stmt
  | [] => []
  | s :: rest => elimS s :: elimL rest
end

def tmpElim (ss : List Stmt) : List Stmt := elimList (elimL ss)

/-! ## Pass: adjust_variable_decls (Python: hoist to the top of the function, first occurrence only) -/

mutual
/-- names of the `variable_decl`s of one frame in traversal order, skipping names already known
(`seen`: parameters, names declared global/nonlocal, earlier declarations). Returns (collected, seen). -/
def scanS : Stmt → List String × List String → List String × List String
  | .varDecl x, (col, seen) => if seen.contains x then (col, seen) else (col ++ [x], seen ++ [x])
  | .globalS x, (col, seen) => (col, if seen.contains x then seen else seen ++ [x])
  | .nonlocalS x, (col, seen) => (col, if seen.contains x then seen else seen ++ [x])
  | .ifS _ t e, acc => scanL e (scanL t acc)
  | .loop _ pre b u e, acc => scanL e (scanL u (scanL b (scanL pre acc)))
  | .forin _ _ b, acc => scanL b acc
  | _, acc => acc

def scanL : List Stmt → List String × List String → List String × List String
  | [], acc => acc
  | s :: rest, acc => scanL rest (scanS s acc)
end

def paramNames (ps : List Param) : List String := ps.map (·.name)

mutual
/-- delete every `variable_decl` of the frame; nested method/class declarations are frames of their
own and get their collected declarations at the top (in reverse order: `stmts.insert(0, …)`). -/
def stripS : Stmt → Option Stmt
  | .varDecl _ => none
  | .ifS c t e => some (.ifS c (stripL t) (stripL e))
  | .loop c pre b u e => some (.loop c (stripL pre) (stripL b) (stripL u) (stripL e))
  | .forin x r b => some (.forin x r (stripL b))
  | .methodDecl n ps b =>
    some (.methodDecl n ps (((scanL b ([], paramNames ps)).1.reverse.map Stmt.varDecl) ++ stripL b))
  | .classDecl n s ms => some (.classDecl n s (stripL ms))
  | s => some s

def stripL : List Stmt → List Stmt
  | [] => []
  | s :: rest =>
    match stripS s with
    | some s' => s' :: stripL rest
    | none => stripL rest
end

/-- the unit's top-level list is a frame without parameters. -/
def hoist (ss : List Stmt) : List Stmt :=
  ((scanL ss ([], [])).1.reverse.map Stmt.varDecl) ++ stripL ss

/-! ## Pass: add_main_func -/

def isDeclLike : Stmt → Bool
  | .varDecl _ => true
  | .methodDecl _ _ _ => true
  | .classDecl _ _ _ => true
  | _ => false

def addMainFunc (ss : List Stmt) : List Stmt :=
  let top := ss.filter (fun s => !isDeclLike s)
  if top.isEmpty then ss
  else ss.filter isDeclLike ++ [.methodDecl "%unit_init" [] top]

/-- everything between the source and the rows that are written. -/
def pipelineM (cfg : Cfg) (m : Module) : List Stmt :=
  addMainFunc (hoist (tmpElim (lowerModule cfg m)))

def pipeline (cfg : Cfg) (p : Prog) : List Stmt := pipelineM cfg { fns := p }

end LianVerif.LowerPy
